(* C03 — list / sorting / UniqueVec facts used by the filter proofs. *)
From Coq Require Import List ZArith Bool Arith Lia Sorted Permutation.
From Verif Require Import Filter.Model.
Import ListNotations.
Open Scope list_scope.

Definition SS := StronglySorted Z.lt.

(* ------------------------------------------------------------------ membership *)
Lemma memZ_In x l : memZ x l = true <-> In x l.
Proof.
  unfold memZ. rewrite existsb_exists. split.
  - intros [y [Hy He]]. apply Z.eqb_eq in He. now subst.
  - intros H. exists x. split; [assumption | apply Z.eqb_refl].
Qed.

Lemma memZ_false x l : memZ x l = false <-> ~ In x l.
Proof.
  rewrite <- memZ_In. destruct (memZ x l); split; intros; try congruence.
Qed.

Lemma is_nil_true {A} (l : list A) : is_nil l = true <-> l = [].
Proof. destruct l; simpl; split; congruence. Qed.

Lemma filter_rev {A} (p : A -> bool) l : filter p (rev l) = rev (filter p l).
Proof.
  induction l as [|a l IH]; simpl; [reflexivity|].
  rewrite filter_app, IH. simpl. destruct (p a); simpl; [reflexivity | now rewrite app_nil_r].
Qed.

Lemma filter_true {A} (l : list A) : filter (fun _ => true) l = l.
Proof. induction l; simpl; congruence. Qed.

(* ------------------------------------------------------------------ strictly ascending lists *)
Lemma SS_inv x l : SS (x :: l) -> SS l /\ Forall (Z.lt x) l.
Proof. intros H. inversion H; subst. now split. Qed.

Lemma SS_NoDup l : SS l -> NoDup l.
Proof.
  induction l as [|x l IH]; intros H; constructor.
  - apply SS_inv in H as [_ Hf]. intros Hin.
    rewrite Forall_forall in Hf. specialize (Hf _ Hin). lia.
  - apply IH. now apply SS_inv in H.
Qed.

Lemma SS_filter p l : SS l -> SS (filter p l).
Proof.
  induction l as [|x l IH]; intros H; simpl; [constructor|].
  apply SS_inv in H as [Hs Hf]. destruct (p x); [|now apply IH].
  constructor; [now apply IH|].
  rewrite Forall_forall in *. intros y Hy. apply filter_In in Hy as [Hy _]. now apply Hf.
Qed.

(* two strictly ascending lists with the same elements are equal *)
Lemma SS_ext l1 : forall l2, SS l1 -> SS l2 -> (forall x, In x l1 <-> In x l2) -> l1 = l2.
Proof.
  induction l1 as [|a l1 IH]; intros [|b l2] H1 H2 He.
  - reflexivity.
  - exfalso. apply (proj2 (He b)). now left.
  - exfalso. apply (proj1 (He a)). now left.
  - apply SS_inv in H1 as [H1 F1]. apply SS_inv in H2 as [H2 F2].
    rewrite Forall_forall in F1, F2.
    assert (a = b).
    { destruct (proj1 (He a) (or_introl eq_refl)) as [E|Hin]; [now subst|].
      destruct (proj2 (He b) (or_introl eq_refl)) as [E|Hin']; [now subst|].
      specialize (F2 _ Hin). specialize (F1 _ Hin'). lia. }
    subst b. f_equal. apply IH; try assumption.
    intros x. split; intros Hx.
    + destruct (proj1 (He x) (or_intror Hx)) as [E|]; [|assumption].
      subst x. specialize (F1 _ Hx). lia.
    + destruct (proj2 (He x) (or_intror Hx)) as [E|]; [|assumption].
      subst x. specialize (F2 _ Hx). lia.
Qed.

Lemma ascending_SS l : ascending l = true <-> SS l.
Proof.
  induction l as [|x l IH]; simpl.
  - split; [constructor | reflexivity].
  - destruct l as [|y l].
    + split; [intros _; repeat constructor | reflexivity].
    + rewrite andb_true_iff, Z.ltb_lt, IH. split.
      * intros [Hxy Hs]. constructor; [assumption|].
        constructor; [assumption|].
        apply SS_inv in Hs as [_ Hf]. rewrite Forall_forall in *.
        intros z Hz. specialize (Hf _ Hz). lia.
      * intros H. apply SS_inv in H as [Hs Hf]. split; [|assumption].
        now inversion Hf.
Qed.

(* ------------------------------------------------------------------ insertion sort *)
Lemma insert_sorted_perm x l : Permutation (insert_sorted x l) (x :: l).
Proof.
  induction l as [|y l IH]; simpl; [reflexivity|].
  destruct (x <=? y)%Z; [reflexivity|].
  rewrite IH. apply perm_swap.
Qed.

Lemma isort_perm l : Permutation (isort l) l.
Proof.
  induction l as [|x l IH]; simpl; [reflexivity|].
  unfold isort in IH. rewrite insert_sorted_perm. now constructor.
Qed.

Lemma isort_In x l : In x (isort l) <-> In x l.
Proof. split; apply Permutation_in; [apply isort_perm | symmetry; apply isort_perm]. Qed.

Lemma isort_NoDup l : NoDup l -> NoDup (isort l).
Proof. intros H. eapply Permutation_NoDup; [symmetry; apply isort_perm | assumption]. Qed.

Lemma isort_length l : List.length (isort l) = List.length l.
Proof. apply Permutation_length, isort_perm. Qed.

Lemma insert_sorted_le x l : StronglySorted Z.le l -> StronglySorted Z.le (insert_sorted x l).
Proof.
  induction l as [|y l IH]; intros H; simpl.
  - repeat constructor.
  - inversion H as [|? ? Hs Hf]; subst. destruct (x <=? y)%Z eqn:E.
    + apply Z.leb_le in E. constructor; [assumption|]. constructor; [assumption|].
      rewrite Forall_forall in *. intros z Hz. specialize (Hf _ Hz). lia.
    + apply Z.leb_gt in E. constructor; [now apply IH|].
      rewrite Forall_forall in *. intros z Hz.
      apply (Permutation_in _ (insert_sorted_perm x l)) in Hz. destruct Hz as [->|Hz]; [lia|now apply Hf].
Qed.

Lemma isort_le l : StronglySorted Z.le (isort l).
Proof. induction l; simpl; [constructor | now apply insert_sorted_le]. Qed.

Lemma le_NoDup_SS l : StronglySorted Z.le l -> NoDup l -> SS l.
Proof.
  induction l as [|x l IH]; intros Hs Hn; [constructor|].
  inversion Hs as [|? ? Hs' Hf]; subst. inversion Hn as [|? ? Hni Hn']; subst.
  constructor; [now apply IH|].
  rewrite Forall_forall in *. intros y Hy. specialize (Hf _ Hy).
  assert (x <> y) by (intros ->; contradiction). lia.
Qed.

Lemma isort_SS l : NoDup l -> SS (isort l).
Proof. intros H. apply le_NoDup_SS; [apply isort_le | now apply isort_NoDup]. Qed.

(* sorting a duplicate-free vector yields THE ascending list of its elements *)
Lemma isort_canon l s : NoDup l -> SS s -> (forall x, In x l <-> In x s) -> isort l = s.
Proof.
  intros Hn Hs He. apply SS_ext; [now apply isort_SS | assumption|].
  intros x. now rewrite isort_In.
Qed.

Lemma isort_SS_id l : SS l -> isort l = l.
Proof. intros H. apply isort_canon; [now apply SS_NoDup | assumption | tauto]. Qed.

Lemma isort_rev_SS l : SS l -> isort (rev l) = l.
Proof.
  intros H. apply isort_canon; [|assumption|].
  - apply NoDup_rev. now apply SS_NoDup.
  - intros x. now rewrite <- in_rev.
Qed.

(* sort + dedup *)
Lemma dedup_adj_In x l : In x (dedup_adj l) <-> In x l.
Proof.
  induction l as [|a l IH]; [tauto|].
  destruct l as [|b l]; [simpl; tauto|].
  change (dedup_adj (a :: b :: l)) with (if (a =? b)%Z then dedup_adj (b :: l) else a :: dedup_adj (b :: l)).
  destruct (a =? b)%Z eqn:E.
  - apply Z.eqb_eq in E. subst b. rewrite IH. simpl. tauto.
  - simpl In at 1. rewrite IH. simpl. tauto.
Qed.

Lemma dedup_adj_SS l : StronglySorted Z.le l -> SS (dedup_adj l).
Proof.
  induction l as [|a l IH]; intros H; [constructor|].
  destruct l as [|b l]; [repeat constructor|].
  change (dedup_adj (a :: b :: l)) with (if (a =? b)%Z then dedup_adj (b :: l) else a :: dedup_adj (b :: l)).
  inversion H as [|? ? Hs Hf]; subst.
  destruct (a =? b)%Z eqn:E; [now apply IH|].
  apply Z.eqb_neq in E. constructor; [now apply IH|].
  rewrite Forall_forall in *. intros y Hy. apply (proj1 (dedup_adj_In _ _)) in Hy.
  inversion Hs as [|? ? _ Hfb]; subst. rewrite Forall_forall in Hfb.
  assert (a <= b)%Z by (apply Hf; now left).
  destruct (in_inv Hy) as [<-|Hy']; [lia|]. specialize (Hfb _ Hy'). lia.
Qed.

Lemma sort_dedup_In x l : In x (sort_dedup l) <-> In x l.
Proof. unfold sort_dedup. now rewrite dedup_adj_In, isort_In. Qed.

Lemma sort_dedup_SS l : SS (sort_dedup l).
Proof. apply dedup_adj_SS, isort_le. Qed.

Lemma sort_dedup_NoDup l : NoDup (sort_dedup l).
Proof. apply SS_NoDup, sort_dedup_SS. Qed.

(* ------------------------------------------------------------------ UniqueVec *)
Lemma uv_push_In v x y : In y (uv_push v x) <-> In y v \/ y = x.
Proof.
  unfold uv_push. destruct (memZ x v) eqn:E.
  - apply memZ_In in E. split; [tauto|]. intros [H| ->]; assumption.
  - rewrite in_app_iff. simpl. intuition.
Qed.

Lemma uv_push_NoDup v x : NoDup v -> NoDup (uv_push v x).
Proof.
  intros H. unfold uv_push. destruct (memZ x v) eqn:E; [assumption|].
  apply memZ_false in E.
  apply Permutation_NoDup with (l := x :: v); [|now constructor].
  apply Permutation_cons_append.
Qed.

Lemma uv_extend_In xs : forall v y, In y (uv_extend v xs) <-> In y v \/ In y xs.
Proof.
  unfold uv_extend. induction xs as [|x xs IH]; intros v y; simpl; [tauto|].
  rewrite IH, uv_push_In. split; intros H; intuition.
Qed.

Lemma uv_extend_NoDup xs : forall v, NoDup v -> NoDup (uv_extend v xs).
Proof.
  unfold uv_extend. induction xs as [|x xs IH]; intros v H; simpl; [assumption|].
  apply IH. now apply uv_push_NoDup.
Qed.

Lemma uv_from_In xs y : In y (uv_from xs) <-> In y xs.
Proof. unfold uv_from. rewrite uv_extend_In. simpl. tauto. Qed.

Lemma uv_from_NoDup xs : NoDup (uv_from xs).
Proof. apply uv_extend_NoDup. constructor. Qed.

Lemma uv_intersect_In v o y : In y (uv_intersect v o) <-> In y v /\ In y o.
Proof. unfold uv_intersect. now rewrite filter_In, memZ_In. Qed.

(* ------------------------------------------------------------------ ends of a list *)
(* what a walk bounded by `limit` keeps of the (ascending) matches: 0 means unbounded *)
Definition take_end (desc : bool) (limit : nat) (l : list Z) : list Z :=
  if (limit =? 0)%nat then l else if desc then lastn limit l else firstn limit l.

Lemma lastn_all {A} n (l : list A) : (List.length l <= n)%nat -> lastn n l = l.
Proof. intros H. unfold lastn. replace (List.length l - n)%nat with 0%nat by lia. reflexivity. Qed.

Lemma lastn_0 {A} (l : list A) : lastn 0 l = [].
Proof. unfold lastn. rewrite Nat.sub_0_r. apply skipn_all. Qed.

Lemma lastn_length {A} n (l : list A) : List.length (lastn n l) = Nat.min n (List.length l).
Proof. unfold lastn. rewrite skipn_length. lia. Qed.

Lemma SS_app_inv l1 l2 : SS (l1 ++ l2) -> SS l1 /\ SS l2.
Proof.
  induction l1 as [|x l1 IH]; simpl; intros H; [split; [constructor | assumption]|].
  apply SS_inv in H as [Hs Hf]. destruct (IH Hs) as [H1 H2]. split; [|assumption].
  constructor; [assumption|]. rewrite Forall_forall in *. intros y Hy. apply Hf.
  apply in_or_app. now left.
Qed.

Lemma SS_firstn n l : SS l -> SS (firstn n l).
Proof. intros H. rewrite <- (firstn_skipn n l) in H. now apply SS_app_inv in H. Qed.

Lemma SS_skipn n l : SS l -> SS (skipn n l).
Proof. intros H. rewrite <- (firstn_skipn n l) in H. now apply SS_app_inv in H. Qed.

Lemma SS_take_end desc n l : SS l -> SS (take_end desc n l).
Proof.
  intros H. unfold take_end, lastn. destruct (n =? 0)%nat; [assumption|].
  destruct desc; [now apply SS_skipn | now apply SS_firstn].
Qed.
