(* C03 — the model instantiated with the facts generated from the current source
   (gen/Gen_Limits.v) and the case runner of the correspondence check. *)
From Coq Require Import List ZArith Bool Arith String.
From Verif Require Import Filter.Model gen.Gen_Limits.
Import ListNotations.
Open Scope list_scope.

(* FxHashSet iteration order: the runner picks one (ascending); the theorems hold for every choice *)
Definition hs_run : list Z -> list Z := sort_dedup.

Definition now_query_ids (c : coll) := query_ids hs_run leaf_bounded c max_search_limit.
Definition now_query_last_ids (c : coll) := query_last_ids hs_run leaf_bounded c max_search_limit.
Definition now_query_all_ids (c : coll) := query_all_ids hs_run leaf_bounded c.
Definition now_search_ids (c : coll) :=
  search_ids hs_run leaf_bounded c max_search_limit search_default_limit search_topk_factor search_topk_cap.
Definition now_within_budget : flt -> bool :=
  within_budget max_filter_depth max_filter_nodes max_filter_branches max_range_include_keys.

Inductive entry : Type :=
| EFirst (l : option nat)
| ELast (l : option nat)
| EAll
| ESearch (cands : option (list Z)) (l : option nat).

Definition mcoll := (list Z * list (string * index))%type.
Definition mquery := (flt * entry * bool)%type.          (* the bool (limit cuts the match set) is informative *)
Definition mcase := (mcoll * list mquery)%type.
Definition mobs := list (option (list Z)).               (* None: the implementation returned an error *)

Definition mk_coll (m : mcoll) : coll := {| c_ids := fst m; c_idx := snd m |}.

Definition run_query (c : coll) (q : mquery) : option (list Z) :=
  let '(f, e, _) := q in
  if now_within_budget f then
    Some match e with
         | EFirst l => now_query_ids c f l
         | ELast l => now_query_last_ids c f l
         | EAll => now_query_all_ids c f
         | ESearch s l => now_search_ids c s f l
         end
  else None.

Definition run_case (mc : mcase) : mobs := map (run_query (mk_coll (fst mc))) (snd mc).

Fixpoint list_eqb (a b : list Z) : bool :=
  match a, b with
  | [], [] => true
  | x :: a', y :: b' => (x =? y)%Z && list_eqb a' b'
  | _, _ => false
  end.
Definition obs_eqb (a b : option (list Z)) : bool :=
  match a, b with
  | Some x, Some y => list_eqb x y
  | None, None => true
  | _, _ => false
  end.
Fixpoint all2 (a b : mobs) : bool :=
  match a, b with
  | [], [] => true
  | x :: a', y :: b' => obs_eqb x y && all2 a' b'
  | _, _ => false
  end.

(* the dumped collection is well-formed and the model agrees with every observation *)
Definition check_case (co : mcase * mobs) : bool :=
  wf_coll (mk_coll (fst (fst co))) && all2 (run_case (fst co)) (snd co).

(* positions where model and observation differ (diagnostics) *)
Fixpoint diff_from (i : nat) (a b : mobs) : list nat :=
  match a, b with
  | x :: a', y :: b' => (if obs_eqb x y then [] else [i]) ++ diff_from (S i) a' b'
  | [], [] => []
  | _, _ => [i]
  end.
Definition diff_case (co : mcase * mobs) : bool * list nat :=
  (wf_coll (mk_coll (fst (fst co))), diff_from 0 (run_case (fst co)) (snd co)).
