(* C03 — the model instantiated with the facts generated from the current source
   (gen/Gen_Limits.v) and the case runner of the correspondence check.

   Case encoding (kept cheap to parse): integer lists travel as strings of decimal numbers
   separated by blanks ("12 7 -3") and are decoded here by [parse_zs]; one case is one collection
   with its queries grouped by filter, so every filter term is parsed once. *)
From Coq Require Import List ZArith Bool Arith String Ascii.
From Verif Require Import Filter.Model gen.Gen_Limits.
Import ListNotations.
Open Scope list_scope.

(* FxHashSet iteration order: the runner picks one (ascending); the theorems hold for every choice *)
Definition hs_run : list Z -> list Z := sort_dedup.

Definition now_query_ids (c : coll) := query_ids hs_run leaf_bounded c max_search_limit.
Definition now_query_last_ids (c : coll) := query_last_ids hs_run leaf_bounded c max_search_limit.
Definition now_query_all_ids (c : coll) := query_all_ids hs_run leaf_bounded c.
Definition now_search_ids (c : coll) :=
  search_ids hs_run leaf_bounded c max_search_limit search_default_limit search_topk_factor search_topk_cap.
Definition now_eval_err (c : coll) := eval_err hs_run leaf_bounded c.
Definition now_within_budget : flt -> bool :=
  within_budget max_filter_depth max_filter_nodes max_filter_branches max_range_include_keys.

(* ------------------------------------------------------------------ decoding *)
Definition flush_num (cur : option Z) (neg : bool) (acc : list Z) : list Z :=
  match cur with Some v => (if neg then Z.opp v else v) :: acc | None => acc end.
Fixpoint pz (s : string) (cur : option Z) (neg : bool) (acc : list Z) : list Z :=
  match s with
  | EmptyString => rev (flush_num cur neg acc)
  | String ch r =>
      let n := nat_of_ascii ch in
      if Nat.eqb n 45 then pz r cur true acc
      else if Nat.leb 48 n && Nat.leb n 57 then
        pz r (Some (match cur with Some v => v * 10 | None => 0 end + Z.of_nat (n - 48))%Z) neg acc
      else pz r None false (flush_num cur neg acc)
  end.
Definition parse_zs (s : string) : list Z := pz s None false [].

(* an index entry "key id id id" *)
Definition dec_entry (s : string) : Z * list Z :=
  match parse_zs s with k :: p => (k, p) | [] => (0%Z, []) end.

Definition mcoll := (string * list (string * list string))%type.
Definition mk_coll (m : mcoll) : coll :=
  {| c_ids := parse_zs (fst m);
     c_idx := map (fun ni => (fst ni, map dec_entry (snd ni))) (snd m) |}.

(* ------------------------------------------------------------------ queries *)
Inductive entry : Type :=
| EFirst (l : option nat)                       (* query_ids *)
| ELast (l : option nat)                        (* query_last_ids *)
| EAll                                          (* query_all_ids *)
| ESearch (cands : option string) (l : option nat).   (* search_ids: candidates of the search clause, if any *)

Definition mgroup := (flt * list entry)%type.
Definition mcase := (mcoll * list mgroup)%type.
Inductive mobs1 : Type := OOk (ids : string) | OErr (e : qerr).
Definition mobs := list (list mobs1).

(* an entry point from its first line to its return value: complexity validation, the zero-limit
   shortcut, then the evaluation (first error in evaluation order, else the value) *)
Definition run_entry (c : coll) (f : flt) (e : entry) : qerr + list Z :=
  if negb (now_within_budget f) then inl EBudget
  else
    match e with
    | EFirst l =>
        match l with
        | Some 0 => inr []
        | _ => match now_eval_err c f None false with
               | Some er => inl er
               | None => inr (now_query_ids c f l)
               end
        end
    | ELast l =>
        match l with
        | Some 0 => inr []
        | _ => match now_eval_err c f None true with
               | Some er => inl er
               | None => inr (now_query_last_ids c f l)
               end
        end
    | EAll =>
        match now_eval_err c f None false with
        | Some er => inl er
        | None => inr (now_query_all_ids c f)
        end
    | ESearch s l =>
        let lim := Nat.min (match l with Some n => n | None => search_default_limit end) max_search_limit in
        if (lim =? 0)%nat then inr []
        else
          let cs := match s with Some t => Some (parse_zs t) | None => None end in
          match cs with
          | Some [] => inr []
          | _ =>
              let cand := match cs with Some l' => Some l' | None => None end in
              match now_eval_err c f cand false with
              | Some er => inl er
              | None => inr (now_search_ids c cs f l)
              end
          end
    end.

Fixpoint list_eqb (a b : list Z) : bool :=
  match a, b with
  | [], [] => true
  | x :: a', y :: b' => (x =? y)%Z && list_eqb a' b'
  | _, _ => false
  end.
Definition qerr_eqb (a b : qerr) : bool :=
  match a, b with
  | EBudget, EBudget | EIndex, EIndex | EType, EType => true
  | _, _ => false
  end.
Definition obs_eqb (m : qerr + list Z) (o : mobs1) : bool :=
  match m, o with
  | inr x, OOk s => list_eqb x (parse_zs s)
  | inl e, OErr e' => qerr_eqb e e'
  | _, _ => false
  end.

Fixpoint all2 {A B} (p : A -> B -> bool) (a : list A) (b : list B) : bool :=
  match a, b with
  | [], [] => true
  | x :: a', y :: b' => p x y && all2 p a' b'
  | _, _ => false
  end.

Definition check_group (c : coll) (g : mgroup) (o : list mobs1) : bool :=
  all2 (fun e o1 => obs_eqb (run_entry c (fst g) e) o1) (snd g) o.

(* the dumped collection is well-formed and the model agrees with every observation *)
Definition check_case (co : mcase * mobs) : bool :=
  let c := mk_coll (fst (fst co)) in
  wf_coll c && all2 (check_group c) (snd (fst co)) (snd co).

(* positions (group, entry) where model and observation differ (diagnostics) *)
Fixpoint diff_entries (c : coll) (f : flt) (gi i : nat) (es : list entry) (os : list mobs1) : list (nat * nat) :=
  match es, os with
  | e :: es', o :: os' => (if obs_eqb (run_entry c f e) o then [] else [(gi, i)]) ++ diff_entries c f gi (S i) es' os'
  | [], [] => []
  | _, _ => [(gi, i)]
  end.
Fixpoint diff_groups (c : coll) (gi : nat) (gs : list mgroup) (os : mobs) : list (nat * nat) :=
  match gs, os with
  | g :: gs', o :: os' => diff_entries c (fst g) gi 0 (snd g) o ++ diff_groups c (S gi) gs' os'
  | [], [] => []
  | _, _ => [(gi, 0)]
  end.
Definition diff_case (co : mcase * mobs) : bool * list (nat * nat) :=
  let c := mk_coll (fst (fst co)) in (wf_coll c, diff_groups c 0 (snd (fst co)) (snd co)).
