(* C03 — pinned statements about the code as it is now that hold only with the repaired
   Filter::Field B-tree branch (gen/Gen_Limits.leaf_bounded = false). *)
From Coq Require Import List ZArith Bool Arith String Sorted Lia.
From Verif Require Import Filter.Model Filter.ProofsList Filter.ProofsRange Filter.Proofs Filter.Run gen.Gen_Limits.
Import ListNotations.
Open Scope list_scope.

(* the B-tree leaf of the current source evaluates unbounded *)
Theorem C03_gen_leaf_unbounded : leaf_bounded = false.
Proof. reflexivity. Qed.
Print Assumptions C03_gen_leaf_unbounded.

(* hence, for the model that is run against the implementation (generated constants, generated
   leaf form, ascending hash order) and every collection accepted by wf_coll, every filter shape: *)
Theorem C03_now_pages_are_ends_of_full :
  forall c, wf_coll c = true -> forall (f : flt) (limit : option nat),
    let n := Nat.min (match limit with Some m => m | None => max_search_limit end) max_search_limit in
    (now_query_ids c f limit = firstn n (full c f)) /\
    (now_query_last_ids c f limit = lastn n (full c f)) /\
    (now_query_all_ids c f = full c f) /\
    (now_search_ids c None f limit
      = firstn (Nat.min (match limit with Some m => m | None => search_default_limit end) max_search_limit) (full c f)).
Proof.
  intros c Hwf f limit n. unfold now_query_ids, now_query_last_ids, now_query_all_ids, now_search_ids.
  rewrite C03_gen_leaf_unbounded.
  destruct sort_dedup_is_hash_order as [H1 H2]. pose proof (wf_coll_WF c Hwf) as Hc.
  assert (Hm : (0 < max_search_limit)%nat) by (apply Nat.ltb_lt; vm_compute; reflexivity).
  assert (Hf : (1 <= search_topk_factor)%nat) by (apply Nat.leb_le; vm_compute; reflexivity).
  assert (Hk : (max_search_limit <= search_topk_cap)%nat) by (apply Nat.leb_le; vm_compute; reflexivity).
  repeat split.
  - exact (page_first hs_run H1 H2 c Hc max_search_limit Hm f limit).
  - exact (page_last hs_run H1 H2 c Hc max_search_limit Hm f limit).
  - exact (all_ids hs_run H1 H2 c Hc false f).
  - exact (search_filter_only hs_run H1 H2 c Hc max_search_limit Hm _ _ _ false f limit (or_introl eq_refl) Hf Hk).
Qed.
Print Assumptions C03_now_pages_are_ends_of_full.
