(* C03 — the complexity budget (query.rs validate_complexity) bounds the nesting depth of every
   range query it accepts, so the depth check of RangeQuery::try_convert_from cannot fire later. *)
From Coq Require Import List ZArith Bool Arith Lia String.
From Verif Require Import Filter.Model Filter.ProofsList Filter.ProofsRange Filter.Proofs.
Import ListNotations.
Open Scope list_scope.

Section Budget.
  Variables max_depth max_nodes max_branches max_include : nat.
  Notation vr := (validate_range max_depth max_nodes max_branches max_include).
  Notation vf := (validate_filter max_depth max_nodes max_branches max_include).

  Lemma fold_none {A} (step : option (nat * nat) -> A -> option (nat * nat)) (l : list A) :
    (forall a, step None a = None) -> fold_left step l None = None.
  Proof. intros H. induction l as [|a l IH]; simpl; [reflexivity | now rewrite H]. Qed.

  Lemma fold_some {A} (v : A -> option (nat * nat) -> option (nat * nat)) (l : list A) : forall st r,
    fold_left (fun st a => match st with None => None | Some _ => v a st end) l st = Some r ->
    forall a, In a l -> exists s s', v a (Some s) = Some s'.
  Proof.
    induction l as [|a l IH]; intros st r H b Hb; [destruct Hb|].
    simpl in H. destruct st as [s|].
    - destruct (v a (Some s)) as [s'|] eqn:E.
      + destruct Hb as [<-|Hb]; [now exists s, s' | eapply IH; eassumption].
      + rewrite fold_none in H by reflexivity. discriminate.
    - rewrite fold_none in H by reflexivity. discriminate.
  Qed.

  Lemma fold_max_le l m : (forall x, In x l -> x <= m)%nat -> forall a, (a <= m)%nat -> (fold_left Nat.max l a <= m)%nat.
  Proof.
    induction l as [|x l IH]; intros H a Ha; simpl; [assumption|].
    apply IH; [intros y Hy; apply H; now right|]. specialize (H x (or_introl eq_refl)). lia.
  Qed.

  Lemma validate_range_depth q : forall depth st r,
    vr q depth st = Some r -> (depth + rq_depth q <= S max_depth)%nat.
  Proof.
    induction q using rq_ind'; intros depth st r Hv;
      try (simpl in Hv; destruct (max_depth <? depth)%nat eqn:E; [discriminate|];
           apply Nat.ltb_ge in E; simpl; lia).
    - (* Or *)
      simpl in Hv. destruct (max_depth <? depth)%nat eqn:E; [discriminate|]. apply Nat.ltb_ge in E.
      simpl rq_depth. rewrite Forall_forall in H.
      assert (fold_left Nat.max (map rq_depth qs) 0 <= max_depth - depth)%nat; [|lia].
      apply fold_max_le; [|lia]. intros x Hx. apply in_map_iff in Hx as [q [<- Hq]].
      destruct (fold_some (fun q' st => vr q' (S depth) st) qs _ _ Hv q Hq) as [s [s' Hs]].
      specialize (H q Hq _ _ _ Hs). lia.
    - (* And *)
      simpl in Hv. destruct (max_depth <? depth)%nat eqn:E; [discriminate|]. apply Nat.ltb_ge in E.
      simpl rq_depth. rewrite Forall_forall in H.
      assert (fold_left Nat.max (map rq_depth qs) 0 <= max_depth - depth)%nat; [|lia].
      apply fold_max_le; [|lia]. intros x Hx. apply in_map_iff in Hx as [q [<- Hq]].
      destruct (fold_some (fun q' st => vr q' (S depth) st) qs _ _ Hv q Hq) as [s [s' Hs]].
      specialize (H q Hq _ _ _ Hs). lia.
    - (* Not *)
      simpl in Hv. destruct (max_depth <? depth)%nat eqn:E; [discriminate|]. apply Nat.ltb_ge in E.
      destruct (bump_node max_nodes st) as [s|] eqn:B; [|discriminate].
      specialize (IHq _ _ _ Hv). simpl. lia.
  Qed.

  Lemma validate_filter_ranges f : forall depth st r,
    vf f depth st = Some r -> forall q, In q (flt_ranges f) -> (rq_depth q <= max_depth)%nat.
  Proof.
    induction f using flt_ind'; intros depth st r Hv q0 Hq0.
    - simpl in Hv. destruct (max_depth <? depth)%nat eqn:E; [discriminate|].
      destruct (bump_node max_nodes st) as [s|] eqn:B; [|discriminate].
      destruct Hq0 as [<-|[]]. apply validate_range_depth in Hv. lia.
    - simpl in Hv. destruct (max_depth <? depth)%nat eqn:E; [discriminate|].
      destruct (bump_node max_nodes st) as [s|] eqn:B; [|discriminate].
      destruct Hq0 as [<-|[]]. apply validate_range_depth in Hv. lia.
    - simpl in Hv. destruct (max_depth <? depth)%nat eqn:E; [discriminate|].
      simpl in Hq0. apply in_flat_map in Hq0 as [g [Hg Hq0]]. rewrite Forall_forall in H.
      destruct (fold_some (fun g' st => vf g' (S depth) st) fs _ _ Hv g Hg) as [s [s' Hs]].
      exact (H g Hg _ _ _ Hs q0 Hq0).
    - simpl in Hv. destruct (max_depth <? depth)%nat eqn:E; [discriminate|].
      simpl in Hq0. apply in_flat_map in Hq0 as [g [Hg Hq0]]. rewrite Forall_forall in H.
      destruct (fold_some (fun g' st => vf g' (S depth) st) fs _ _ Hv g Hg) as [s [s' Hs]].
      exact (H g Hg _ _ _ Hs q0 Hq0).
    - simpl in Hv. destruct (max_depth <? depth)%nat eqn:E; [discriminate|].
      destruct (bump_node max_nodes st) as [s|] eqn:B; [|discriminate].
      exact (IHf _ _ _ Hv q0 Hq0).
  Qed.

  Theorem within_budget_bounds_range_depth f :
    within_budget max_depth max_nodes max_branches max_include f = true ->
    forall q, In q (flt_ranges f) -> (rq_depth q <= max_depth)%nat.
  Proof.
    unfold within_budget. destruct (vf f 0 (Some (0, 0)%nat)) as [r|] eqn:E; [|discriminate].
    intros _. exact (validate_filter_ranges f _ _ _ E).
  Qed.
End Budget.
