(* C03 — the range-query level: key sets of the B-tree index (range_keys, the scan) and
   filter_by_id, characterised by range_key_matches_query. *)
From Coq Require Import List ZArith Bool Arith Lia Sorted Permutation String.
From Verif Require Import Filter.Model Filter.ProofsList.
Import ListNotations.
Open Scope list_scope.

(* ------------------------------------------------------------------ induction over nested range queries *)
Section RqInd.
  Variable P : rq -> Prop.
  Hypothesis HEq : forall k, P (REq k).
  Hypothesis HGt : forall k, P (RGt k).
  Hypothesis HGe : forall k, P (RGe k).
  Hypothesis HLt : forall k, P (RLt k).
  Hypothesis HLe : forall k, P (RLe k).
  Hypothesis HBetween : forall a b, P (RBetween a b).
  Hypothesis HInclude : forall ks, P (RInclude ks).
  Hypothesis HOr : forall qs, Forall P qs -> P (ROr qs).
  Hypothesis HAnd : forall qs, Forall P qs -> P (RAnd qs).
  Hypothesis HNot : forall q, P q -> P (RNot q).
  Fixpoint rq_ind' (q : rq) : P q :=
    match q with
    | REq k => HEq k | RGt k => HGt k | RGe k => HGe k | RLt k => HLt k | RLe k => HLe k
    | RBetween a b => HBetween a b
    | RInclude ks => HInclude ks
    | ROr qs => HOr qs ((fix go (l : list rq) : Forall P l :=
                           match l with [] => Forall_nil P | x :: r => Forall_cons x (rq_ind' x) (go r) end) qs)
    | RAnd qs => HAnd qs ((fix go (l : list rq) : Forall P l :=
                             match l with [] => Forall_nil P | x :: r => Forall_cons x (rq_ind' x) (go r) end) qs)
    | RNot q' => HNot q' (rq_ind' q')
    end.
End RqInd.

(* ------------------------------------------------------------------ min_by_key / swap_remove *)
Lemma argmin_from_bound l : forall i besti best,
  (besti < i)%nat -> (argmin_from i besti best l < i + List.length l)%nat.
Proof.
  induction l as [|x l IH]; intros i besti best H; simpl; [lia|].
  destruct (x <? best)%nat.
  - specialize (IH (S i) i x). lia.
  - specialize (IH (S i) besti best). lia.
Qed.

Lemma argmin_bound l : l <> [] -> (argmin l < List.length l)%nat.
Proof.
  destruct l as [|x l]; [congruence|]. intros _. simpl.
  pose proof (argmin_from_bound l 1 0 x). lia.
Qed.

Lemma swap_remove_In {A} (d : A) i (l : list A) x :
  (i < List.length l)%nat -> (In x l <-> x = nth i l d \/ In x (swap_remove i l)).
Proof.
  intros Hi. unfold swap_remove.
  destruct (rev l) as [|lst rl] eqn:Er.
  { apply (f_equal (@List.length A)) in Er. rewrite rev_length in Er. simpl in Er. lia. }
  assert (Hl : l = rev rl ++ [lst]).
  { rewrite <- (rev_involutive l), Er. reflexivity. }
  assert (Hrm : removelast l = rev rl).
  { rewrite Hl. apply removelast_last. }
  assert (Hlen : List.length l = S (List.length rl)).
  { rewrite Hl, app_length, rev_length. simpl. lia. }
  destruct (S i =? List.length l)%nat eqn:E.
  - apply Nat.eqb_eq in E. rewrite Hrm.
    assert (nth i l d = lst).
    { rewrite Hl, app_nth2; rewrite rev_length; [|lia].
      replace (i - List.length rl)%nat with 0%nat by lia. reflexivity. }
    rewrite H. rewrite Hl at 1. rewrite in_app_iff. simpl. intuition.
  - apply Nat.eqb_neq in E. rewrite Hrm.
    set (m := rev rl) in *.
    assert (Him : (i < List.length m)%nat) by (unfold m; rewrite rev_length; lia).
    assert (Hn : nth i l d = nth i m d) by (rewrite Hl; now apply app_nth1).
    assert (Hfi : firstn i l = firstn i m).
    { rewrite Hl, firstn_app. replace (i - List.length m)%nat with 0%nat by lia.
      rewrite firstn_O. now rewrite app_nil_r. }
    rewrite Hn, Hfi.
    assert (Hsk : skipn i m = nth i m d :: skipn (S i) m).
    { clear -Him. revert i Him. induction m as [|a m IH]; intros [|i] H; simpl in *; try lia; [reflexivity|].
      apply IH. lia. }
    assert (Hm : forall y, In y m <-> In y (firstn i m) \/ y = nth i m d \/ In y (skipn (S i) m)).
    { intros y. rewrite <- (firstn_skipn i m) at 1. rewrite Hsk, in_app_iff. cbn [In]. intuition. }
    rewrite Hl. rewrite !in_app_iff, Hm. cbn [In]. intuition.
Qed.

(* ------------------------------------------------------------------ range_keys = the keys satisfying the query *)
Lemma and_retain_In rest : forall acc k,
  In k (and_retain acc rest) <-> In k acc /\ forallb (key_matches k) rest = true.
Proof.
  induction rest as [|q r IH]; intros acc k; simpl.
  - intuition.
  - destruct (is_nil (filter (fun k0 => key_matches k0 q) acc)) eqn:E.
    + apply is_nil_true in E. split; [intros []|].
      intros [Hin Hall]. apply andb_true_iff in Hall as [Hq _].
      assert (In k (filter (fun k0 => key_matches k0 q) acc)) by (apply filter_In; auto).
      rewrite E in H. destruct H.
    + rewrite IH, filter_In, andb_true_iff. tauto.
Qed.

Lemma range_keys_In ix q : forall k,
  In k (range_keys ix q) <-> In k (ikeys ix) /\ key_matches k q = true.
Proof.
  induction q using rq_ind'; intros k'; simpl.
  - destruct (memZ k (ikeys ix)) eqn:E; simpl.
    + apply memZ_In in E. rewrite Z.eqb_eq. split; [intros [<-|[]]; auto | intros [_ ->]; auto].
    + apply memZ_false in E. rewrite Z.eqb_eq. split; [intros [] | intros [H ->]; contradiction].
  - rewrite filter_In. tauto.
  - rewrite filter_In. tauto.
  - rewrite filter_In. tauto.
  - rewrite filter_In. tauto.
  - destruct (a <=? b)%Z; simpl; [rewrite filter_In; tauto | split; [intros [] | intros [_ H]; discriminate]].
  - rewrite filter_In, sort_dedup_In, memZ_In, memZ_In. tauto.
  - (* Or *)
    rewrite sort_dedup_In, in_flat_map, existsb_exists. rewrite Forall_forall in H. split.
    + intros [q [Hq Hin]]. apply H in Hin; [|assumption]. destruct Hin. split; [assumption|]. now exists q.
    + intros [Hk [q [Hq Hm]]]. exists q. split; [assumption|]. now apply H.
  - (* And *)
    destruct qs as [|q0 qs']; [simpl; split; [intros [] | intros [_ Hf]; discriminate]|].
    remember (q0 :: qs') as qs eqn:Eqs.
    assert (Hne : is_nil qs = false) by (subst; reflexivity).
    rewrite Hne. cbn [negb andb].
    assert (Hi : (argmin (map seed_rank qs) < List.length qs)%nat).
    { rewrite <- (map_length seed_rank). apply argmin_bound. subst qs. simpl. congruence. }
    set (i := argmin (map seed_rank qs)) in *.
    rewrite and_retain_In.
    assert (Hnth : nth i (map (range_keys ix) qs) [] = range_keys ix (nth i qs (REq 0))).
    { rewrite <- (map_nth (range_keys ix)). apply nth_indep. now rewrite map_length. }
    rewrite Hnth.
    rewrite Forall_forall in H. rewrite (H (nth i qs (REq 0))) by now apply nth_In.
    rewrite !forallb_forall. split.
    + intros [[Hk Hm] Hall]. split; [assumption|]. intros q Hq.
      apply (swap_remove_In (REq 0) i qs q Hi) in Hq as [->|Hq]; auto.
    + intros [Hk Hall]. split; [split; [assumption|]|].
      * apply Hall. now apply nth_In.
      * intros q Hq. apply Hall. apply (swap_remove_In (REq 0) i qs q Hi). now right.
  - (* Not *)
    rewrite filter_In, negb_true_iff, memZ_false, IHq.
    destruct (key_matches k' q); simpl; intuition.
Qed.

(* the keys the scan walks are, among the index keys, those satisfying the query *)
Lemma walk_keys_spec ix q k :
  In k (ikeys ix) -> (In k (walk_keys ix q) <-> key_matches k q = true).
Proof.
  intros Hk. destruct q; simpl.
  - rewrite Z.eqb_eq. split; [intros [<-|[]]; reflexivity | intros ->; now left].
  - rewrite filter_In. tauto.
  - rewrite filter_In. tauto.
  - rewrite filter_In. tauto.
  - rewrite filter_In. tauto.
  - destruct (b <? a)%Z eqn:E.
    + apply Z.ltb_lt in E. assert ((a <=? b)%Z = false) by (apply Z.leb_gt; lia).
      rewrite H. simpl. split; [intros [] | discriminate].
    + apply Z.ltb_ge in E. assert ((a <=? b)%Z = true) by (apply Z.leb_le; lia).
      rewrite H, filter_In. simpl. tauto.
  - rewrite sort_dedup_In, memZ_In. tauto.
  - pose proof (range_keys_In ix (ROr qs) k) as H. simpl in H. rewrite H. tauto.
  - pose proof (range_keys_In ix (RAnd qs) k) as H. simpl in H. rewrite H. tauto.
  - rewrite filter_In, negb_true_iff, memZ_false, range_keys_In.
    destruct (key_matches k q); simpl; intuition.
Qed.

(* ------------------------------------------------------------------ the unbounded scan *)
Lemma lookup_In k ix p : lookup k ix = Some p -> In (k, p) ix.
Proof.
  induction ix as [|[k' p'] r IH]; simpl; [discriminate|].
  destruct (k =? k')%Z eqn:E.
  - apply Z.eqb_eq in E. intros [= ->]. subst. now left.
  - intros H. right. now apply IH.
Qed.

Lemma In_lookup k ix p : NoDup (ikeys ix) -> In (k, p) ix -> lookup k ix = Some p.
Proof.
  induction ix as [|[k' p'] r IH]; simpl; intros Hn Hin; [destruct Hin|].
  inversion Hn as [|? ? Hni Hn']; subst.
  destruct Hin as [[= -> ->]|Hin].
  - now rewrite Z.eqb_refl.
  - destruct (k =? k')%Z eqn:E.
    + apply Z.eqb_eq in E. subst k'. exfalso. apply Hni.
      unfold ikeys. apply in_map_iff. now exists (k, p).
    + now apply IH.
Qed.

Lemma scan_posting_0 cand ids : forall rt,
  scan_posting cand 0 rt ids = (uv_extend rt (filter (cand_ok cand) ids), true).
Proof.
  induction ids as [|id r IH]; intros rt; simpl; [reflexivity|].
  destruct (cand_ok cand id); simpl; now rewrite IH.
Qed.

Lemma scan_keys_0_In ix cand ks : forall rt id,
  In id (scan_keys ix cand 0 rt ks) <->
  In id rt \/ exists k p, In k ks /\ lookup k ix = Some p /\ In id p /\ cand_ok cand id = true.
Proof.
  induction ks as [|k r IH]; intros rt id; simpl.
  - split; [auto | intros [H|[k [p [[] _]]]]; assumption].
  - destruct (lookup k ix) as [p|] eqn:E.
    + rewrite scan_posting_0. rewrite IH, uv_extend_In, filter_In. split.
      * intros [[H|[H1 H2]]|[k0 [p0 [H1 H2]]]]; [now left| |].
        -- right. exists k, p. auto.
        -- right. exists k0, p0. tauto.
      * intros [H|[k0 [p0 [[->|H1] [H2 [H3 H4]]]]]]; [now left; left| |].
        -- rewrite E in H2. injection H2 as ->. left; right. auto.
        -- right. exists k0, p0. auto.
    + rewrite IH. split.
      * intros [H|[k0 [p0 [H1 H2]]]]; [now left|]. right. exists k0, p0. tauto.
      * intros [H|[k0 [p0 [[->|H1] [H2 H3]]]]]; [now left| congruence |]. right. exists k0, p0. auto.
Qed.

Lemma scan_keys_0_NoDup ix cand ks : forall rt, NoDup rt -> NoDup (scan_keys ix cand 0 rt ks).
Proof.
  induction ks as [|k r IH]; intros rt H; simpl; [assumption|].
  destruct (lookup k ix) as [p|]; [|now apply IH].
  rewrite scan_posting_0. apply IH. now apply uv_extend_NoDup.
Qed.

Lemma field_matches_iff ix q id :
  field_matches ix q id = true <-> exists k p, In (k, p) ix /\ key_matches k q = true /\ In id p.
Proof.
  unfold field_matches. rewrite existsb_exists. split.
  - intros [[k p] [Hin H]]. apply andb_true_iff in H as [H1 H2]. apply memZ_In in H2.
    exists k, p. auto.
  - intros [k [p [Hin [H1 H2]]]]. exists (k, p). split; [assumption|].
    simpl. rewrite H1. now apply memZ_In.
Qed.

(* The unbounded B-tree scan returns exactly the ids whose document has a key satisfying the
   range query (and that are candidates), each once — in either scan direction. *)
Lemma range_scan_0 ix q desc cand :
  NoDup (ikeys ix) ->
  NoDup (range_scan ix q desc cand 0) /\
  forall id, In id (range_scan ix q desc cand 0) <->
             field_matches ix q id = true /\ cand_ok cand id = true.
Proof.
  intros Hn. unfold range_scan. destruct (is_nil ix) eqn:En.
  { apply is_nil_true in En. subst ix. split; [constructor|]. intros id. simpl. split; [intros []|]. intros [H _]. discriminate. }
  assert (Hgen : forall ks, (forall k, In k (ikeys ix) -> (In k ks <-> key_matches k q = true)) ->
     NoDup (scan_keys ix cand 0 [] ks) /\
     forall id, In id (scan_keys ix cand 0 [] ks) <-> field_matches ix q id = true /\ cand_ok cand id = true).
  { intros ks Hks. split; [apply scan_keys_0_NoDup; constructor|].
    intros id. rewrite scan_keys_0_In, field_matches_iff. split.
    - intros [[]|[k [p [H1 [H2 [H3 H4]]]]]]. split; [|assumption].
      exists k, p. apply lookup_In in H2. split; [assumption|]. split; [|assumption].
      apply Hks; [|assumption]. unfold ikeys. apply in_map_iff. now exists (k, p).
    - intros [[k [p [H1 [H2 H3]]]] H4]. right. exists k, p.
      split; [|split; [now apply In_lookup | auto]].
      apply Hks; [|assumption]. unfold ikeys. apply in_map_iff. now exists (k, p). }
  assert (Hdir : forall ks, (forall k, In k (ikeys ix) -> (In k ks <-> key_matches k q = true)) ->
     (forall k, In k (ikeys ix) -> (In k (if desc then rev ks else ks) <-> key_matches k q = true))).
  { intros ks H k Hk. destruct desc; [rewrite <- in_rev|]; now apply H. }
  destruct q; try (apply Hgen, Hdir; intros k0 Hk0; now apply walk_keys_spec).
  (* Eq *)
  destruct (lookup k ix) as [p|] eqn:E.
  - rewrite scan_posting_0. simpl. split; [apply uv_extend_NoDup; constructor|].
    intros id. rewrite uv_extend_In, filter_In, field_matches_iff. simpl. split.
    + intros [[]|[H1 H2]]. split; [|assumption]. exists k, p. apply lookup_In in E.
      split; [assumption|]. split; [apply Z.eqb_refl | assumption].
    + intros [[k0 [p0 [H1 [H2 H3]]]] H4]. right. apply Z.eqb_eq in H2. subst k0.
      apply In_lookup in H1; [|assumption]. rewrite E in H1. injection H1 as ->. auto.
  - split; [constructor|]. intros id. rewrite field_matches_iff. simpl. split; [intros []|].
    intros [[k0 [p0 [H1 [H2 H3]]]] _]. apply Z.eqb_eq in H2. subst k0.
    apply In_lookup in H1; [|assumption]. congruence.
Qed.

(* ------------------------------------------------------------------ bounded walks *)
Lemma walk_vec_0 ok it : forall tmp, walk_vec ok 0 tmp it = tmp ++ filter ok it.
Proof.
  induction it as [|x r IH]; intros tmp; simpl; [now rewrite app_nil_r|].
  destruct (ok x); simpl; [|apply IH]. rewrite IH, <- app_assoc. reflexivity.
Qed.

Lemma walk_vec_lim ok limit it : forall tmp,
  (List.length tmp < limit)%nat ->
  walk_vec ok limit tmp it = tmp ++ firstn (limit - List.length tmp) (filter ok it).
Proof.
  induction it as [|x r IH]; intros tmp H; simpl.
  - now rewrite firstn_nil, app_nil_r.
  - destruct (ok x); [|now apply IH].
    assert (Hl : List.length (tmp ++ [x]) = S (List.length tmp)) by (rewrite app_length; simpl; lia).
    rewrite Hl. assert ((0 <? limit)%nat = true) by (apply Nat.ltb_lt; lia). rewrite H0. simpl andb.
    destruct (limit <=? S (List.length tmp))%nat eqn:E.
    + apply Nat.leb_le in E. replace (limit - List.length tmp)%nat with 1%nat by lia.
      reflexivity.
    + apply Nat.leb_gt in E. rewrite IH by lia. rewrite Hl, <- app_assoc. simpl.
      replace (limit - List.length tmp)%nat with (S (limit - S (List.length tmp)))%nat by lia.
      reflexivity.
Qed.

Lemma walk_vec_nil ok limit it :
  walk_vec ok limit [] it = if (limit =? 0)%nat then filter ok it else firstn limit (filter ok it).
Proof.
  destruct limit as [|n]; [apply walk_vec_0|].
  rewrite walk_vec_lim by (simpl; lia). reflexivity.
Qed.

(* a walk from the requested end, bounded by `limit`, keeps that end of the matches *)
Lemma walk_dir_spec ok limit desc range :
  walk_dir ok limit desc range = take_end desc limit (filter ok range).
Proof.
  unfold walk_dir, take_end. rewrite walk_vec_nil.
  destruct (limit =? 0)%nat.
  - destruct desc; [|reflexivity]. now rewrite filter_rev, rev_involutive.
  - destruct desc; [|reflexivity].
    rewrite filter_rev, firstn_rev, rev_involutive. reflexivity.
Qed.

Lemma take_end_0 desc l : take_end desc 0 l = l.
Proof. reflexivity. Qed.

Lemma take_end_pos desc n l : (0 < n)%nat -> take_end desc n l = if desc then lastn n l else firstn n l.
Proof. intros H. unfold take_end. destruct n; [lia | reflexivity]. Qed.

(* ------------------------------------------------------------------ filter_by_id *)
Lemma by_id_In ids q : forall cand desc,
  NoDup ids ->
  NoDup (by_id ids q cand 0 desc) /\
  forall id, In id (by_id ids q cand 0 desc) <->
             In id ids /\ key_matches id q = true /\ cand_ok cand id = true.
Proof.
  induction q using rq_ind'; intros cand desc Hn; simpl by_id;
    try (rewrite walk_dir_spec, take_end_0; split;
         [ now repeat apply NoDup_filter
         | intros id; rewrite !filter_In; simpl; tauto ]).
  - (* Eq *)
    destruct (memZ k ids && cand_ok cand k) eqn:E.
    + apply andb_true_iff in E as [E1 E2]. apply memZ_In in E1.
      split; [repeat constructor; intros []|]. intros id. simpl. rewrite Z.eqb_eq.
      split; [intros [<-|[]]; auto | intros [_ [-> _]]; auto].
    + split; [constructor|]. intros id. simpl. rewrite Z.eqb_eq. split; [intros []|].
      intros [H1 [-> H3]]. apply memZ_In in H1. rewrite H1, H3 in E. discriminate.
  - (* Between *)
    destruct (b <? a)%Z eqn:E.
    + apply Z.ltb_lt in E. split; [constructor|]. intros id. simpl.
      assert ((a <=? b)%Z = false) by (apply Z.leb_gt; lia). rewrite H. simpl.
      split; [intros [] | intros [_ [H1 _]]; discriminate].
    + apply Z.ltb_ge in E. rewrite walk_dir_spec, take_end_0.
      split; [now repeat apply NoDup_filter|]. intros id. rewrite !filter_In. simpl.
      assert ((a <=? b)%Z = true) by (apply Z.leb_le; lia). rewrite H. simpl. tauto.
  - (* Include *)
    rewrite walk_dir_spec, take_end_0. split; [apply NoDup_filter, sort_dedup_NoDup|].
    intros id. rewrite filter_In, sort_dedup_In, andb_true_iff, !memZ_In. simpl. rewrite memZ_In. tauto.
  - (* Or *)
    rewrite Forall_forall in H.
    assert (Hloop : forall l rt, (forall q, In q l -> In q qs) -> NoDup rt ->
      let r := (fix loop (qs0 : list rq) (rt0 : list Z) {struct qs0} : list Z :=
                  match qs0 with
                  | [] => rt0
                  | q1 :: r0 => loop r0 (uv_extend rt0 (by_id ids q1 cand 0 desc))
                  end) l rt in
      NoDup r /\ forall id, In id r <-> In id rt \/ (In id ids /\ existsb (key_matches id) l = true /\ cand_ok cand id = true)).
    { induction l as [|q1 l IHl]; intros rt Hsub Hrt; simpl.
      - split; [assumption|]. intros id. split; [auto | intros [?|[_ [? _]]]; [assumption | discriminate]].
      - destruct (H q1 (Hsub _ (or_introl eq_refl)) cand desc Hn) as [Hnd Hin].
        destruct (IHl (uv_extend rt (by_id ids q1 cand 0 desc))) as [Hnd' Hin'].
        + intros q Hq. apply Hsub. now right.
        + now apply uv_extend_NoDup.
        + split; [assumption|]. intros id. rewrite Hin', uv_extend_In, Hin, orb_true_iff. tauto. }
    destruct (Hloop qs [] (fun _ h => h) (NoDup_nil _)) as [Hnd Hin].
    split; [assumption|]. intros id. rewrite Hin. simpl. tauto.
  - (* And *)
    rewrite Forall_forall in H.
    destruct qs as [|q0 rest]; [split; [constructor|]; intros id; simpl; split; [intros [] | intros [_ [? _]]; discriminate]|].
    assert (Hloop : forall l rt, (forall q, In q l -> In q (q0 :: rest)) -> NoDup rt ->
      let r := (fix loop (rest0 : list rq) (rt0 : list Z) {struct rest0} : list Z :=
                  match rest0 with
                  | [] => rt0
                  | q1 :: r0 =>
                      if is_nil (uv_intersect rt0 (uv_from (by_id ids q1 cand 0 desc))) then []
                      else loop r0 (uv_intersect rt0 (uv_from (by_id ids q1 cand 0 desc)))
                  end) l rt in
      NoDup r /\ forall id, In id r <-> In id rt /\ (In id ids /\ forallb (key_matches id) l = true /\ cand_ok cand id = true) \/ (In id rt /\ l = [])).
    { induction l as [|q1 l IHl]; intros rt Hsub Hrt; simpl.
      - split; [assumption|]. intros id. tauto.
      - destruct (H q1 (Hsub _ (or_introl eq_refl)) cand desc Hn) as [Hnd Hin].
        set (rt' := uv_intersect rt (uv_from (by_id ids q1 cand 0 desc))).
        assert (Hrt' : forall id, In id rt' <-> In id rt /\ In id ids /\ key_matches id q1 = true /\ cand_ok cand id = true).
        { intros id. unfold rt'. rewrite uv_intersect_In, uv_from_In, Hin. tauto. }
        assert (Hnd' : NoDup rt') by (unfold rt', uv_intersect; now apply NoDup_filter).
        destruct (is_nil rt') eqn:E.
        + apply is_nil_true in E. split; [constructor|]. intros id. split; [intros []|].
          intros [[H1 [H2 [H3 H4]]]|[_ ?]]; [|discriminate]. apply andb_true_iff in H3 as [H3 _].
          assert (In id rt') by (apply Hrt'; auto). rewrite E in H0. destruct H0.
        + destruct (IHl rt') as [Hnd'' Hin''].
          * intros q Hq. apply Hsub. now right.
          * assumption.
          * split; [assumption|]. intros id. rewrite Hin'', Hrt', andb_true_iff.
            split.
            -- intros [[[H1 [H2 [H3 H4]]] [H5 [H6 H7]]]|[[H1 [H2 [H3 H4]]] ->]]; left; auto.
            -- intros [[H1 [H2 [H3 H4]]]|[_ ?]]; [|discriminate].
               destruct H3 as [H3 H3']. destruct l; [right | left]; auto. }
    destruct (H q0 (or_introl eq_refl) cand desc Hn) as [Hnd0 Hin0].
    destruct (Hloop rest (uv_from (by_id ids q0 cand 0 desc)) (fun _ h => or_intror h) (uv_from_NoDup _)) as [Hnd Hin].
    split; [assumption|]. intros id. rewrite Hin, uv_from_In, Hin0. simpl. rewrite andb_true_iff.
    split.
    + intros [[[H1 [H2 H3]] [H4 [H5 H6]]]|[[H1 [H2 H3]] ->]]; simpl; auto.
    + intros [H1 [[H2 H3] H4]]. left. auto.
  - (* Not *)
    destruct (IHq None desc Hn) as [_ Hin].
    rewrite walk_dir_spec, take_end_0. split; [now apply NoDup_filter|].
    intros id. rewrite filter_In, andb_true_iff, negb_true_iff, memZ_false, Hin. simpl.
    destruct (key_matches id q); simpl; intuition.
Qed.

(* With a limit, filter_by_id returns either its unbounded result (composite range queries and Eq)
   or exactly the requested end of the ascending match list. *)
Lemma by_id_limit ids q limit desc :
  SS ids ->
  by_id ids q None limit desc = by_id ids q None 0 desc \/
  by_id ids q None limit desc = take_end desc limit (filter (fun id => key_matches id q) ids).
Proof.
  intros Hs. assert (Hn : NoDup ids) by now apply SS_NoDup.
  destruct q; simpl by_id; try (now left);
    try (right; rewrite walk_dir_spec; simpl cand_ok; now rewrite filter_true).
  - (* Between *)
    destruct (b <? a)%Z eqn:E; [now left|]. right.
    rewrite walk_dir_spec. simpl cand_ok. rewrite filter_true. f_equal.
    apply filter_ext. intros id. simpl. apply Z.ltb_ge in E.
    assert ((a <=? b)%Z = true) by (apply Z.leb_le; lia). now rewrite H.
  - (* Include *)
    right. rewrite walk_dir_spec. f_equal.
    apply SS_ext; [apply SS_filter, sort_dedup_SS | now apply SS_filter|].
    intros id. rewrite !filter_In, sort_dedup_In, andb_true_iff, memZ_In. simpl. rewrite memZ_In. tauto.
  - (* Not *)
    right. rewrite walk_dir_spec. f_equal. apply filter_ext_in. intros id Hid.
    destruct (by_id_In ids q None desc Hn) as [_ Hin]. simpl. rewrite andb_true_r. f_equal.
    destruct (memZ id (by_id ids q None 0 desc)) eqn:E.
    + apply memZ_In, Hin in E. symmetry. tauto.
    + apply memZ_false in E. destruct (key_matches id q) eqn:K; [|reflexivity].
      exfalso. apply E, Hin. auto.
Qed.
