(* C03 — filter trees: the evaluator computes the set-algebra reading, and a bounded page is an
   end of the full ascending result. *)
From Coq Require Import List ZArith Bool Arith Lia Sorted Permutation String.
From Verif Require Import Filter.Model Filter.ProofsList Filter.ProofsRange.
Import ListNotations.
Open Scope list_scope.

Section FltInd.
  Variable P : flt -> Prop.
  Hypothesis HField : forall n q, P (FField n q).
  Hypothesis HFieldBad : forall n q, P (FFieldBad n q).
  Hypothesis HOr : forall fs, Forall P fs -> P (FOr fs).
  Hypothesis HAnd : forall fs, Forall P fs -> P (FAnd fs).
  Hypothesis HNot : forall f, P f -> P (FNot f).
  Fixpoint flt_ind' (f : flt) : P f :=
    match f with
    | FField n q => HField n q
    | FFieldBad n q => HFieldBad n q
    | FOr fs => HOr fs ((fix go (l : list flt) : Forall P l :=
                           match l with [] => Forall_nil P | x :: r => Forall_cons x (flt_ind' x) (go r) end) fs)
    | FAnd fs => HAnd fs ((fix go (l : list flt) : Forall P l :=
                             match l with [] => Forall_nil P | x :: r => Forall_cons x (flt_ind' x) (go r) end) fs)
    | FNot g => HNot g (flt_ind' g)
    end.
End FltInd.

(* ------------------------------------------------------------------ well-formed collections *)
Definition WF (c : coll) : Prop :=
  SS (c_ids c) /\
  forall name ix, find_index (c_idx c) name = Some ix ->
    SS (ikeys ix) /\ forall k p id, In (k, p) ix -> In id p -> In id (c_ids c).

Lemma wf_coll_WF c : wf_coll c = true -> WF c.
Proof.
  unfold wf_coll. rewrite andb_true_iff, forallb_forall. intros [Ha Hf]. split; [now apply ascending_SS|].
  intros name ix Hfind.
  assert (Hin : exists n, In (n, ix) (c_idx c)).
  { clear -Hfind. induction (c_idx c) as [|[n i] r IH]; simpl in Hfind; [discriminate|].
    destruct (String.eqb n name).
    - injection Hfind as ->. exists n. now left.
    - destruct (IH Hfind) as [n' H]. exists n'. now right. }
  destruct Hin as [n Hin]. specialize (Hf _ Hin). simpl in Hf. unfold wf_index in Hf.
  apply andb_true_iff in Hf as [H1 H2]. split; [now apply ascending_SS|].
  rewrite forallb_forall in H2. intros k p id Hkp Hid. specialize (H2 _ Hkp). simpl in H2.
  rewrite forallb_forall in H2. apply memZ_In. now apply H2.
Qed.

Section Correct.
  Variable hs : list Z -> list Z.
  Hypothesis hs_In : forall l x, In x (hs l) <-> In x l.
  Hypothesis hs_NoDup : forall l, NoDup (hs l).
  Variable c : coll.
  Hypothesis Hwf : WF c.

  Let ids := c_ids c.
  Let Hids : SS ids := proj1 Hwf.
  Let Hnd : NoDup ids := SS_NoDup _ Hids.

  Lemma field_matches_live ix name q id :
    find_index (c_idx c) name = Some ix -> field_matches ix q id = true -> In id ids.
  Proof.
    intros Hf Hm. apply field_matches_iff in Hm as [k [p [H1 [_ H3]]]].
    destruct (proj2 Hwf _ _ Hf) as [_ Hl]. eapply Hl; eassumption.
  Qed.

  (* ---------------------------------------------------------------- unbounded evaluation *)
  (* For every filter tree, candidate set, scan direction and either form of the B-tree leaf,
     evaluation with limit 0 returns — without duplicates — exactly the live ids in the
     set-algebra reading of the filter that are also candidates. *)
  Lemma eval_0 lb f : forall cand desc,
    NoDup (eval hs lb c f cand 0 desc) /\
    forall id, In id (eval hs lb c f cand 0 desc) <->
               In id ids /\ denote c f id = true /\ cand_ok cand id = true.
  Proof.
    induction f using flt_ind'; intros cand desc.
    - (* Field *)
      simpl. destruct (String.eqb n ID_KEY).
      + apply by_id_In. exact Hnd.
      + destruct (find_index (c_idx c) n) as [ix|] eqn:Ef.
        * destruct (proj2 Hwf _ _ Ef) as [Hk _].
          replace (if lb then 0%nat else 0%nat) with 0%nat by now destruct lb.
          destruct (range_scan_0 ix q desc cand (SS_NoDup _ Hk)) as [H1 H2].
          split; [assumption|]. intros id. rewrite H2. split.
          -- intros [Hm Hc]. split; [|auto]. eapply field_matches_live; eassumption.
          -- tauto.
        * split; [constructor|]. intros id. simpl. split; [intros [] | intros [_ [? _]]; discriminate].
    - (* Field with an unconvertible key: no value *)
      simpl. split; [constructor|]. intros id. split; [intros [] | intros [_ [? _]]; discriminate].
    - (* Or *)
      rewrite Forall_forall in H. simpl eval.
      assert (Hloop : forall l rt, (forall g, In g l -> In g fs) -> NoDup rt ->
        let r := (fix loop (fs0 : list flt) (rt0 : list Z) {struct fs0} : list Z :=
                    match fs0 with
                    | [] => rt0
                    | g :: r0 => loop r0 (uv_extend rt0 (eval hs lb c g cand 0 desc))
                    end) l rt in
        NoDup r /\ forall id, In id r <->
          In id rt \/ (In id ids /\ existsb (fun g => denote c g id) l = true /\ cand_ok cand id = true)).
      { induction l as [|g l IHl]; intros rt Hsub Hrt; simpl.
        - split; [assumption|]. intros id. split; [auto | intros [?|[_ [? _]]]; [assumption | discriminate]].
        - destruct (H g (Hsub _ (or_introl eq_refl)) cand desc) as [Hn1 Hin1].
          destruct (IHl (uv_extend rt (eval hs lb c g cand 0 desc))) as [Hn2 Hin2].
          + intros g' Hg'. apply Hsub. now right.
          + now apply uv_extend_NoDup.
          + split; [assumption|]. intros id. rewrite Hin2, uv_extend_In, Hin1, orb_true_iff. tauto. }
      destruct (Hloop fs [] (fun _ h => h) (NoDup_nil _)) as [Hn1 Hin1].
      split; [now apply isort_NoDup|]. intros id. rewrite isort_In, Hin1. simpl. tauto.
    - (* And *)
      rewrite Forall_forall in H. simpl eval.
      destruct fs as [|f0 rest].
      { split; [constructor|]. intros id. simpl. split; [intros [] | intros [_ [? _]]; discriminate]. }
      assert (Hloop : forall l rt, (forall g, In g l -> In g (f0 :: rest)) ->
        let r := (fix loop (rest0 : list flt) (rt0 : list Z) {struct rest0} : list Z :=
                    match rest0 with
                    | [] => hs rt0
                    | g :: r0 => if is_nil (eval hs lb c g (Some rt0) 0 desc) then []
                                 else loop r0 (eval hs lb c g (Some rt0) 0 desc)
                    end) l rt in
        NoDup r /\ forall id, In id r <->
          (In id rt /\ l = []) \/
          (In id rt /\ In id ids /\ forallb (fun g => denote c g id) l = true /\ l <> [])).
      { induction l as [|g l IHl]; intros rt Hsub; simpl.
        - split; [apply hs_NoDup|]. intros id. rewrite hs_In. split; [auto | intros [[? _]|[_ [_ [_ ?]]]]; [assumption | congruence]].
        - destruct (H g (Hsub _ (or_introl eq_refl)) (Some rt) desc) as [Hn1 Hin1].
          set (rt' := eval hs lb c g (Some rt) 0 desc) in *.
          destruct (is_nil rt') eqn:E.
          + apply is_nil_true in E. split; [constructor|]. intros id. split; [intros []|].
            intros [[_ ?]|[H1 [H2 [H3 _]]]]; [discriminate|]. apply andb_true_iff in H3 as [H3 _].
            assert (In id rt') by (apply Hin1; simpl; rewrite memZ_In; auto).
            rewrite E in H0. destruct H0.
          + destruct (IHl rt') as [Hn2 Hin2]; [intros g' Hg'; apply Hsub; now right|].
            split; [assumption|]. intros id. rewrite Hin2, Hin1, andb_true_iff. simpl cand_ok. rewrite memZ_In.
            split.
            * intros [[[H1 [H2 H3]] ->]|[[H1 [H2 H3]] [H4 [H5 H6]]]]; right; simpl; intuition; discriminate.
            * intros [[_ ?]|[H1 [H2 [[H3 H4] _]]]]; [discriminate|].
              destruct l; [left | right]; intuition; discriminate. }
      destruct (H f0 (or_introl eq_refl) cand desc) as [Hn0 Hin0].
      destruct (Hloop rest (eval hs lb c f0 cand 0 desc) (fun _ h => or_intror h)) as [Hn1 Hin1].
      split; [assumption|]. intros id. rewrite Hin1, Hin0. simpl. rewrite andb_true_iff.
      split.
      + intros [[[H1 [H2 H3]] ->]|[[H1 [H2 H3]] [H4 [H5 H6]]]]; simpl; auto.
      + intros [H1 [[H2 H3] H4]]. destruct rest; [left | right]; intuition; discriminate.
    - (* Not *)
      simpl eval. destruct (IHf None desc) as [_ Hin].
      rewrite walk_vec_nil. simpl Nat.eqb. cbv iota.
      split.
      + apply isort_NoDup, NoDup_filter. destruct desc; [now apply NoDup_rev | assumption].
      + intros id. rewrite isort_In, filter_In, andb_true_iff, negb_true_iff, memZ_false, Hin.
        assert (In id (if desc then rev ids else ids) <-> In id ids) by (destruct desc; [symmetry; apply in_rev | tauto]).
        fold ids. rewrite H. simpl. destruct (denote c f id); simpl; intuition.
  Qed.

  Lemma full_SS f : SS (full c f).
  Proof. unfold full. apply SS_filter. exact Hids. Qed.

  (* filter_by_field with no candidates and limit 0: the full ascending match list *)
  Theorem filter_by_field_unbounded lb f desc : filter_by_field hs lb c f [] 0 desc = full c f.
  Proof.
    unfold filter_by_field. destruct (eval_0 lb f None desc) as [Hn Hin].
    apply isort_canon; [assumption | apply full_SS|].
    intros id. rewrite Hin. unfold full. rewrite filter_In. simpl. fold ids. tauto.
  Qed.

  (* ---------------------------------------------------------------- bounded evaluation at the top *)
  (* With the B-tree leaf evaluated unbounded (the code after the fix), a bounded top-level
     evaluation yields, once sorted, either the full match list or exactly the requested end. *)
  Lemma eval_limit lb f limit desc :
    lb = false \/ is_btree_leaf f = false ->
    isort (eval hs lb c f None limit desc) = full c f \/
    isort (eval hs lb c f None limit desc) = take_end desc limit (full c f).
  Proof.
    intros Hlb.
    assert (Hfull : forall g, isort (eval hs lb c g None 0 desc) = full c g)
      by (intros g; apply (filter_by_field_unbounded lb g desc)).
    destruct f as [n q|n q|fs|fs|g].
    - (* Field *)
      simpl eval. destruct (String.eqb n ID_KEY) eqn:En.
      + destruct (by_id_limit ids q limit desc Hids) as [E|E]; fold ids; rewrite E.
        * left. pose proof (Hfull (FField n q)) as Hf. simpl eval in Hf. rewrite En in Hf. exact Hf.
        * right. rewrite isort_SS_id by (apply SS_take_end, SS_filter, Hids).
          f_equal. unfold full. simpl denote. rewrite En. reflexivity.
      + assert (lb = false) as -> by (destruct Hlb as [?|Hb]; [assumption | simpl in Hb; rewrite En in Hb; discriminate]).
        left. pose proof (Hfull (FField n q)) as Hf. simpl eval in Hf. rewrite En in Hf. exact Hf.
    - left. exact (Hfull (FFieldBad n q)).
    - left. exact (Hfull (FOr fs)).
    - left. exact (Hfull (FAnd fs)).
    - (* Not *)
      right. simpl eval. destruct (eval_0 lb g None desc) as [_ Hin].
      rewrite walk_vec_nil.
      assert (Hflt : forall l, (forall id, In id l -> In id ids) ->
                filter (fun id => negb (memZ id (eval hs lb c g None 0 desc)) && cand_ok None id) l
                = filter (denote c (FNot g)) l).
      { intros l Hl. apply filter_ext_in. intros id Hid. simpl. rewrite andb_true_r. f_equal.
        destruct (memZ id (eval hs lb c g None 0 desc)) eqn:E.
        - apply memZ_In, Hin in E. symmetry. tauto.
        - apply memZ_false in E. destruct (denote c g id) eqn:D; [|reflexivity].
          exfalso. apply E, Hin. simpl. auto. }
      pose proof (full_SS (FNot g)) as HS.
      change (full c (FNot g)) with (filter (denote c (FNot g)) ids) in *.
      set (F := filter (denote c (FNot g)) ids) in *.
      assert (Hdir : filter (fun id => negb (memZ id (eval hs lb c g None 0 desc)) && cand_ok None id)
                            (if desc then rev (c_ids c) else c_ids c) = if desc then rev F else F).
      { rewrite Hflt by (intros id; destruct desc; [rewrite <- in_rev|]; auto).
        destruct desc; [apply filter_rev | reflexivity]. }
      simpl cand_ok in Hdir. rewrite Hdir. unfold take_end. destruct (limit =? 0)%nat; destruct desc.
      + rewrite (isort_rev_SS _ HS). apply isort_SS_id, HS.
      + rewrite (isort_SS_id _ HS). apply isort_SS_id, HS.
      + rewrite firstn_rev. rewrite (isort_rev_SS _ (SS_skipn _ _ HS)). unfold lastn.
        apply isort_SS_id, SS_skipn, HS.
      + rewrite (isort_SS_id _ (SS_firstn _ _ HS)). apply isort_SS_id, SS_firstn, HS.
  Qed.

  Lemma truncate_spec desc l limit :
    (0 < limit)%nat -> truncate desc l limit = if desc then lastn limit l else firstn limit l.
  Proof.
    intros H. unfold truncate. assert ((limit =? 0)%nat = false) by (apply Nat.eqb_neq; lia).
    rewrite H0. simpl orb. destruct (List.length l <=? limit)%nat eqn:E.
    - apply Nat.leb_le in E. destruct desc; [now rewrite lastn_all | now rewrite firstn_all2].
    - reflexivity.
  Qed.

  Lemma firstn_firstn_same {A} n (l : list A) : firstn n (firstn n l) = firstn n l.
  Proof. rewrite firstn_firstn. now rewrite Nat.min_id. Qed.

  Lemma lastn_lastn_same {A} n (l : list A) : lastn n (lastn n l) = lastn n l.
  Proof.
    unfold lastn at 1. rewrite lastn_length.
    destruct (Nat.le_ge_cases n (List.length l)).
    - replace (Nat.min n (List.length l) - n)%nat with 0%nat by lia. reflexivity.
    - replace (Nat.min n (List.length l) - n)%nat with 0%nat by lia. reflexivity.
  Qed.

  Variable max_limit : nat.
  Hypothesis max_pos : (0 < max_limit)%nat.

  Definition eff_limit (limit : option nat) : nat :=
    Nat.min (match limit with Some n => n | None => max_limit end) max_limit.

  Lemma query_ids_from_spec lb f limit desc :
    lb = false \/ is_btree_leaf f = false ->
    query_ids_from hs lb c max_limit f limit desc
    = if desc then lastn (eff_limit limit) (full c f) else firstn (eff_limit limit) (full c f).
  Proof.
    intros Hlb. unfold query_ids_from, eff_limit.
    destruct limit as [[|n]|].
    - simpl. destruct desc; [now rewrite lastn_0 | reflexivity].
    - set (lim := Nat.min (S n) max_limit). assert (0 < lim)%nat by (unfold lim; lia).
      unfold filter_by_field. rewrite truncate_spec by assumption.
      destruct (eval_limit lb f lim desc Hlb) as [E|E]; rewrite E; [reflexivity|].
      rewrite take_end_pos by assumption.
      destruct desc; [apply lastn_lastn_same | apply firstn_firstn_same].
    - set (lim := Nat.min max_limit max_limit). assert (0 < lim)%nat by (unfold lim; lia).
      unfold filter_by_field. rewrite truncate_spec by assumption.
      destruct (eval_limit lb f lim desc Hlb) as [E|E]; rewrite E; [reflexivity|].
      rewrite take_end_pos by assumption.
      destruct desc; [apply lastn_lastn_same | apply firstn_firstn_same].
  Qed.

  Theorem page_first_gen lb f limit :
    lb = false \/ is_btree_leaf f = false ->
    query_ids hs lb c max_limit f limit = firstn (eff_limit limit) (full c f).
  Proof. intros H. apply (query_ids_from_spec lb f limit false H). Qed.

  Theorem page_last_gen lb f limit :
    lb = false \/ is_btree_leaf f = false ->
    query_last_ids hs lb c max_limit f limit = lastn (eff_limit limit) (full c f).
  Proof. intros H. apply (query_ids_from_spec lb f limit true H). Qed.

  Theorem page_first f limit :
    query_ids hs false c max_limit f limit = firstn (eff_limit limit) (full c f).
  Proof. apply page_first_gen. now left. Qed.

  Theorem page_last f limit :
    query_last_ids hs false c max_limit f limit = lastn (eff_limit limit) (full c f).
  Proof. apply page_last_gen. now left. Qed.

  Theorem all_ids lb f : query_all_ids hs lb c f = full c f.
  Proof. apply filter_by_field_unbounded. Qed.

  (* logically equivalent filters (over the live documents) have the same pages *)
  Lemma full_ext f g : (forall id, In id ids -> denote c f id = denote c g id) -> full c f = full c g.
  Proof. intros H. unfold full. apply filter_ext_in. exact H. Qed.

  (* ---------------------------------------------------------------- search *)
  Variables search_default topk_factor topk_cap : nat.
  Definition search_limit (limit : option nat) : nat :=
    Nat.min (match limit with Some n => n | None => search_default end) max_limit.

  (* a search with a filter: the candidates, in their (relevance) order, restricted to the live
     documents in the filter's match set, cut to the limit — for either form of the leaf *)
  Theorem search_restricts lb cs f limit :
    cs <> [] ->
    search_ids hs lb c max_limit search_default topk_factor topk_cap (Some cs) f limit
    = firstn (search_limit limit) (filter (fun id => memZ id ids && denote c f id) cs).
  Proof.
    clear max_pos. intros Hne. unfold search_ids. fold (search_limit limit).
    destruct (search_limit limit =? 0)%nat eqn:E.
    - apply Nat.eqb_eq in E. now rewrite E.
    - apply Nat.eqb_neq in E. destruct cs as [|c0 cs']; [congruence|].
      rewrite truncate_spec by lia. f_equal.
      unfold filter_by_field. apply filter_ext_in. intros id Hid.
      destruct (eval_0 lb f (Some (c0 :: cs')) false) as [_ Hin].
      destruct (memZ id (eval hs lb c f (Some (c0 :: cs')) 0 false)) eqn:M.
      + apply memZ_In, Hin in M. destruct M as [M1 [M2 _]]. apply memZ_In in M1. fold ids in M1. now rewrite M1, M2.
      + apply memZ_false in M. destruct (memZ id ids && denote c f id) eqn:D; [|reflexivity].
        apply andb_true_iff in D as [D1 D2]. exfalso. apply M, Hin. apply memZ_In in D1.
        split; [assumption|]. split; [assumption|]. unfold cand_ok. now apply memZ_In.
  Qed.

  (* a filter-only search: the first `limit` of the full match list *)
  Theorem search_filter_only lb f limit :
    lb = false \/ is_btree_leaf f = false ->
    (1 <= topk_factor)%nat -> (max_limit <= topk_cap)%nat ->
    search_ids hs lb c max_limit search_default topk_factor topk_cap None f limit
    = firstn (search_limit limit) (full c f).
  Proof.
    intros Hlb Hf Hc. unfold search_ids. fold (search_limit limit).
    destruct (search_limit limit =? 0)%nat eqn:E.
    - apply Nat.eqb_eq in E. now rewrite E.
    - apply Nat.eqb_neq in E. set (lim := search_limit limit) in *.
      assert (lim <= max_limit)%nat by (unfold lim, search_limit; lia).
      set (top_k := Nat.min (lim * topk_factor) topk_cap).
      assert (Hk : (lim <= top_k)%nat) by (unfold top_k; nia).
      rewrite truncate_spec by lia. unfold filter_by_field.
      destruct (eval_limit lb f top_k false Hlb) as [E'|E']; rewrite E'; [reflexivity|].
      rewrite take_end_pos by lia. rewrite firstn_firstn. f_equal. lia.
  Qed.
End Correct.

(* ------------------------------------------------------------------ errors *)
(* A filter that names only existing indexes (or _id) and whose keys all convert is evaluated without
   error, under any candidate set and direction; so an evaluation error always points at an unknown
   index or an unconvertible key somewhere in the tree. *)
Lemma eval_err_ok hs lb c f :
  filter_ok c f = true -> forall cand desc, eval_err hs lb c f cand desc = None.
Proof.
  induction f using flt_ind'; intros Hok cand desc.
  - simpl in *. destruct (String.eqb n ID_KEY); [reflexivity|]. simpl in Hok.
    destruct (find_index (c_idx c) n); [reflexivity | discriminate].
  - discriminate.
  - simpl in Hok. rewrite forallb_forall in Hok. rewrite Forall_forall in H. simpl eval_err.
    assert (Hl : forall l, (forall g, In g l -> In g fs) ->
      (fix loop (fs0 : list flt) : option qerr :=
         match fs0 with
         | [] => None
         | g :: r => match eval_err hs lb c g cand desc with Some e => Some e | None => loop r end
         end) l = None).
    { induction l as [|g l IHl]; intros Hsub; [reflexivity|].
      rewrite (H g (Hsub _ (or_introl eq_refl)) (Hok g (Hsub _ (or_introl eq_refl)))).
      apply IHl. intros g' Hg'. apply Hsub. now right. }
    apply Hl. auto.
  - simpl in Hok. rewrite forallb_forall in Hok. rewrite Forall_forall in H. simpl eval_err.
    destruct fs as [|f0 rest]; [reflexivity|].
    rewrite (H f0 (or_introl eq_refl) (Hok f0 (or_introl eq_refl))).
    assert (Hl : forall l rt, (forall g, In g l -> In g (f0 :: rest)) ->
      (fix loop (rest0 : list flt) (rt0 : list Z) : option qerr :=
         match rest0 with
         | [] => None
         | g :: r =>
             match eval_err hs lb c g (Some rt0) desc with
             | Some e => Some e
             | None => if is_nil (eval hs lb c g (Some rt0) 0 desc) then None
                       else loop r (eval hs lb c g (Some rt0) 0 desc)
             end
         end) l rt = None).
    { induction l as [|g l IHl]; intros rt Hsub; [reflexivity|].
      rewrite (H g (Hsub _ (or_introl eq_refl)) (Hok g (Hsub _ (or_introl eq_refl)))).
      destruct (is_nil (eval hs lb c g (Some rt) 0 desc)); [reflexivity|].
      apply IHl. intros g' Hg'. apply Hsub. now right. }
    apply Hl. intros g Hg. now right.
  - simpl in *. now apply IHf.
Qed.

(* ------------------------------------------------------------------ the runner's hash order qualifies *)
Lemma sort_dedup_is_hash_order :
  (forall l x, In x (sort_dedup l) <-> In x l) /\ (forall l, NoDup (sort_dedup l)).
Proof. split; [intros l x; apply sort_dedup_In | apply sort_dedup_NoDup]. Qed.
