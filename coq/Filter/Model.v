(* C03 — executable model of filter evaluation and paging in
     rs/anda_db/src/collection.rs   query_ids / query_last_ids / query_all_ids / query_ids_from /
                                    search_ids (filter stage) / filter_by_field / filter_by_field_with /
                                    filter_by_id / ScanOrder::truncate
     rs/anda_db/src/index/btree.rs  try_range_query_ids
     rs/anda_db_btree/src/btree.rs  range_query_inner / range_keys / range_key_matches_query /
                                    range_query_seed_rank
     rs/anda_db_utils/src/lib.rs    UniqueVec
     rs/anda_db/src/query.rs        Filter::validate_complexity
   Transcribed branch by branch; no proofs here.  Keys and ids are Z (the harness maps U64 / I64 keys
   to themselves and Text keys through an order-preserving encoding). *)
From Coq Require Import List ZArith Bool Arith String.
Import ListNotations.
Open Scope list_scope.

(* ------------------------------------------------------------------ small containers *)
Definition memZ (x : Z) (l : list Z) : bool := existsb (Z.eqb x) l.
Definition is_nil {A} (l : list A) : bool := match l with [] => true | _ => false end.

(* anda_db_utils::UniqueVec : a vector that refuses an element it already holds *)
Definition uv_push (v : list Z) (x : Z) : list Z := if memZ x v then v else v ++ [x].
Definition uv_extend (v xs : list Z) : list Z := fold_left uv_push xs v.
Definition uv_from (xs : list Z) : list Z := uv_extend [] xs.            (* From<Vec<T>> : first occurrences *)
Definition uv_intersect (v other : list Z) : list Z := filter (fun x => memZ x other) v.

(* slice::sort_unstable on integers *)
Fixpoint insert_sorted (x : Z) (l : list Z) : list Z :=
  match l with
  | [] => [x]
  | y :: r => if (x <=? y)%Z then x :: l else y :: insert_sorted x r
  end.
Definition isort (l : list Z) : list Z := fold_right insert_sorted [] l.

(* BTreeSet::from_iter(..).iter()  /  sort_unstable + dedup *)
Fixpoint dedup_adj (l : list Z) : list Z :=
  match l with
  | x :: r => match r with
              | y :: _ => if (x =? y)%Z then dedup_adj r else x :: dedup_adj r
              | [] => l
              end
  | [] => []
  end.
Definition sort_dedup (l : list Z) : list Z := dedup_adj (isort l).

(* ------------------------------------------------------------------ range queries *)
Inductive rq : Type :=
| REq (k : Z) | RGt (k : Z) | RGe (k : Z) | RLt (k : Z) | RLe (k : Z)
| RBetween (a b : Z)
| RInclude (ks : list Z)
| ROr (qs : list rq)
| RAnd (qs : list rq)
| RNot (q : rq).

Inductive flt : Type :=
| FField (name : string) (q : rq)
| FFieldBad (name : string) (q : rq)   (* a Field whose range query holds a key of a type the index cannot
                                          convert (RangeQuery::try_convert_from fails); q = its shape *)
| FOr (fs : list flt)
| FAnd (fs : list flt)
| FNot (f : flt).

(* BTreeIndex::range_key_matches_query *)
Fixpoint key_matches (k : Z) (q : rq) : bool :=
  match q with
  | REq v => (k =? v)%Z
  | RGt a => (a <? k)%Z
  | RGe a => (a <=? k)%Z
  | RLt a => (k <? a)%Z
  | RLe a => (k <=? a)%Z
  | RBetween a b => (a <=? b)%Z && (a <=? k)%Z && (k <=? b)%Z
  | RInclude ks => memZ k ks
  | ROr qs => existsb (key_matches k) qs
  | RAnd qs => negb (is_nil qs) && forallb (key_matches k) qs
  | RNot q => negb (key_matches k q)
  end.

(* BTreeIndex::range_query_seed_rank *)
Definition list_min0 (l : list nat) : nat :=
  match l with [] => 0 | x :: r => fold_left Nat.min r x end.
Fixpoint seed_rank (q : rq) : nat :=
  match q with
  | REq _ => 0
  | RBetween a b => if (b <? a)%Z then 0 else 2
  | RInclude ks => if is_nil ks then 0 else 1
  | RGt _ | RGe _ | RLt _ | RLe _ => 3
  | RAnd qs => list_min0 (map seed_rank qs)
  | ROr _ => 4
  | RNot _ => 5
  end.

(* Iterator::min_by_key : index of the first minimum; Vec::swap_remove *)
Fixpoint argmin_from (i besti best : nat) (l : list nat) : nat :=
  match l with
  | [] => besti
  | x :: r => if (x <? best)%nat then argmin_from (S i) i x r else argmin_from (S i) besti best r
  end.
Definition argmin (l : list nat) : nat :=
  match l with [] => 0 | x :: r => argmin_from 1 0 x r end.
Definition swap_remove {A} (i : nat) (l : list A) : list A :=
  match rev l with
  | [] => []
  | last :: _ =>
      if (S i =? List.length l)%nat then removelast l
      else firstn i l ++ last :: skipn (S i) (removelast l)
  end.

(* A B-tree index: keys ascending, each with its posting list (order as stored: UniqueVec with
   swap-remove, so not sorted). *)
Definition index := list (Z * list Z).
Definition ikeys (ix : index) : list Z := map fst ix.
Fixpoint lookup (k : Z) (ix : index) : option (list Z) :=
  match ix with
  | [] => None
  | (k', p) :: r => if (k =? k')%Z then Some p else lookup k r
  end.

Fixpoint and_retain (acc : list Z) (rest : list rq) : list Z :=
  match rest with
  | [] => acc
  | q :: r => let acc' := filter (fun k => key_matches k q) acc in
              if is_nil acc' then [] else and_retain acc' r
  end.

(* BTreeIndex::range_keys *)
Fixpoint range_keys (ix : index) (q : rq) : list Z :=
  match q with
  | REq k => if memZ k (ikeys ix) then [k] else []
  | RGt a => filter (fun k => (a <? k)%Z) (ikeys ix)
  | RGe a => filter (fun k => (a <=? k)%Z) (ikeys ix)
  | RLt a => filter (fun k => (k <? a)%Z) (ikeys ix)
  | RLe a => filter (fun k => (k <=? a)%Z) (ikeys ix)
  | RBetween a b => if (a <=? b)%Z then filter (fun k => (a <=? k)%Z && (k <=? b)%Z) (ikeys ix) else []
  | RInclude ks => filter (fun k => memZ k (ikeys ix)) (sort_dedup ks)
  | RAnd qs =>
      if is_nil qs then []
      else
        let i := argmin (map seed_rank qs) in
        (* only the seed is evaluated by the code; evaluating all and selecting is the same value *)
        let seed := nth i (map (range_keys ix) qs) [] in
        and_retain seed (swap_remove i qs)
  | ROr qs => sort_dedup (flat_map (range_keys ix) qs)
  | RNot q' => let ex := range_keys ix q' in filter (fun k => negb (memZ k ex)) (ikeys ix)
  end.

(* keys visited by range_query_inner's walk!, in ascending order *)
Definition walk_keys (ix : index) (q : rq) : list Z :=
  match q with
  | REq k => [k]
  | RGt a => filter (fun k => (a <? k)%Z) (ikeys ix)
  | RGe a => filter (fun k => (a <=? k)%Z) (ikeys ix)
  | RLt a => filter (fun k => (k <? a)%Z) (ikeys ix)
  | RLe a => filter (fun k => (k <=? a)%Z) (ikeys ix)
  | RBetween a b => if (b <? a)%Z then [] else filter (fun k => (a <=? k)%Z && (k <=? b)%Z) (ikeys ix)
  | RInclude ks => sort_dedup ks
  | RAnd _ | ROr _ => range_keys ix q
  | RNot q' => let ex := range_keys ix q' in filter (fun k => negb (memZ k ex)) (ikeys ix)
  end.

Definition cand_ok (cand : option (list Z)) (id : Z) : bool :=
  match cand with None => true | Some s => memZ id s end.

(* The callback of the Filter::Field B-tree branch: push into a UniqueVec, stop at `limit`. *)
Fixpoint scan_posting (cand : option (list Z)) (limit : nat) (rt ids : list Z) : list Z * bool :=
  match ids with
  | [] => (rt, true)
  | id :: rest =>
      if cand_ok cand id then
        let rt' := uv_push rt id in
        if (0 <? limit)%nat && (limit <=? List.length rt')%nat then (rt', false)
        else scan_posting cand limit rt' rest
      else scan_posting cand limit rt rest
  end.

Fixpoint scan_keys (ix : index) (cand : option (list Z)) (limit : nat) (rt ks : list Z) : list Z :=
  match ks with
  | [] => rt
  | k :: r =>
      match lookup k ix with
      | None => scan_keys ix cand limit rt r
      | Some p => let '(rt', conti) := scan_posting cand limit rt p in
                  if conti then scan_keys ix cand limit rt' r else rt'
      end
  end.

(* try_range_query_ids + range_query_inner with that callback: ids in the order they were pushed *)
Definition range_scan (ix : index) (q : rq) (desc : bool) (cand : option (list Z)) (limit : nat) : list Z :=
  if is_nil ix then []
  else match q with
       | REq k => match lookup k ix with
                  | Some p => fst (scan_posting cand limit [] p)
                  | None => []
                  end
       | _ => let ks := walk_keys ix q in
              scan_keys ix cand limit [] (if desc then rev ks else ks)
       end.

(* ------------------------------------------------------------------ filter_by_id *)
(* the `walk!` macro: collect from an iterator already in walk direction, stop at limit *)
Fixpoint walk_vec (ok : Z -> bool) (limit : nat) (tmp it : list Z) : list Z :=
  match it with
  | [] => tmp
  | id :: r =>
      if ok id then
        let tmp' := tmp ++ [id] in
        if (0 <? limit)%nat && (limit <=? List.length tmp')%nat then tmp'
        else walk_vec ok limit tmp' r
      else walk_vec ok limit tmp r
  end.
Definition walk_dir (ok : Z -> bool) (limit : nat) (desc : bool) (range : list Z) : list Z :=
  let tmp := walk_vec ok limit [] (if desc then rev range else range) in
  if desc then rev tmp else tmp.

Fixpoint by_id (ids : list Z) (q : rq) (cand : option (list Z)) (limit : nat) (desc : bool) : list Z :=
  match q with
  | REq id => if memZ id ids && cand_ok cand id then [id] else []
  | RGt a => walk_dir (cand_ok cand) limit desc (filter (fun i => (a <? i)%Z) ids)
  | RGe a => walk_dir (cand_ok cand) limit desc (filter (fun i => (a <=? i)%Z) ids)
  | RLt a => walk_dir (cand_ok cand) limit desc (filter (fun i => (i <? a)%Z) ids)
  | RLe a => walk_dir (cand_ok cand) limit desc (filter (fun i => (i <=? a)%Z) ids)
  | RBetween a b =>
      if (b <? a)%Z then []
      else walk_dir (cand_ok cand) limit desc (filter (fun i => (a <=? i)%Z && (i <=? b)%Z) ids)
  | RInclude l =>
      walk_dir (fun id => memZ id ids && cand_ok cand id) limit desc (sort_dedup l)
  | RAnd qs =>
      match qs with
      | [] => []
      | q0 :: rest =>
          (fix loop (rest : list rq) (rt : list Z) : list Z :=
             match rest with
             | [] => rt
             | q1 :: r =>
                 let keys := uv_from (by_id ids q1 cand 0 desc) in
                 let rt' := uv_intersect rt keys in
                 if is_nil rt' then [] else loop r rt'
             end) rest (uv_from (by_id ids q0 cand 0 desc))
      end
  | ROr qs =>
      (fix loop (qs : list rq) (rt : list Z) : list Z :=
         match qs with
         | [] => rt
         | q1 :: r => loop r (uv_extend rt (by_id ids q1 cand 0 desc))
         end) qs []
  | RNot q' =>
      let ex := by_id ids q' None 0 desc in
      walk_dir (fun id => negb (memZ id ex) && cand_ok cand id) limit desc ids
  end.

(* ------------------------------------------------------------------ the collection *)
Record coll := { c_ids : list Z; c_idx : list (string * index) }.

Fixpoint find_index (l : list (string * index)) (name : string) : option index :=
  match l with
  | [] => None
  | (n, ix) :: r => if String.eqb n name then Some ix else find_index r name
  end.

Definition ID_KEY : string := "_id".

(* what an entry point can fail with *)
Inductive qerr : Type := EBudget | EIndex | EType.

Section Eval.
  (* iteration order of an FxHashSet built from the given vector: any duplicate-free
     enumeration of its elements (made a premise in the proofs) *)
  Variable hs : list Z -> list Z.
  (* does the Filter::Field B-tree branch hand the caller's `limit` to the scan
     (the code before the fix) or evaluate unbounded (0)?  Generated from the source. *)
  Variable leaf_bounded : bool.
  Variable c : coll.

  (* Collection::filter_by_field_with *)
  Fixpoint eval (f : flt) (cand : option (list Z)) (limit : nat) (desc : bool) : list Z :=
    match f with
    | FField name q =>
        if String.eqb name ID_KEY then by_id (c_ids c) q cand limit desc
        else match find_index (c_idx c) name with
             | Some ix => range_scan ix q desc cand (if leaf_bounded then limit else 0)
             | None => []          (* Err(index not found): see eval_err *)
             end
    | FFieldBad _ _ => []          (* Err(key conversion): see eval_err *)
    | FOr fs =>
        isort ((fix loop (fs : list flt) (rt : list Z) : list Z :=
                  match fs with
                  | [] => rt
                  | g :: r => loop r (uv_extend rt (eval g cand 0 desc))
                  end) fs [])
    | FAnd fs =>
        match fs with
        | [] => []
        | f0 :: rest =>
            (fix loop (rest : list flt) (rt : list Z) : list Z :=
               match rest with
               | [] => hs rt
               | g :: r => let rt' := eval g (Some rt) 0 desc in
                           if is_nil rt' then [] else loop r rt'
               end) rest (eval f0 cand 0 desc)
        end
    | FNot g =>
        let ex := eval g None 0 desc in
        isort (walk_vec (fun id => negb (memZ id ex) && cand_ok cand id) limit []
                        (if desc then rev (c_ids c) else c_ids c))
    end.

  (* The error, if any, that the same evaluation returns through `?`: the first one met in evaluation
     order.  And stops (Ok(vec![])) as soon as its running intersection is empty, so operands after
     that point are never evaluated and cannot fail. *)
  Fixpoint eval_err (f : flt) (cand : option (list Z)) (desc : bool) : option qerr :=
    match f with
    | FField name _ =>
        if String.eqb name ID_KEY then None
        else match find_index (c_idx c) name with Some _ => None | None => Some EIndex end
    | FFieldBad name _ =>
        if String.eqb name ID_KEY then Some EType
        else match find_index (c_idx c) name with Some _ => Some EType | None => Some EIndex end
    | FOr fs =>
        (fix loop (fs : list flt) : option qerr :=
           match fs with
           | [] => None
           | g :: r => match eval_err g cand desc with Some e => Some e | None => loop r end
           end) fs
    | FAnd fs =>
        match fs with
        | [] => None
        | f0 :: rest =>
            match eval_err f0 cand desc with
            | Some e => Some e
            | None =>
                (fix loop (rest : list flt) (rt : list Z) : option qerr :=
                   match rest with
                   | [] => None
                   | g :: r =>
                       match eval_err g (Some rt) desc with
                       | Some e => Some e
                       | None => let rt' := eval g (Some rt) 0 desc in
                                 if is_nil rt' then None else loop r rt'
                       end
                   end) rest (eval f0 cand 0 desc)
            end
        end
    | FNot g => eval_err g None desc
    end.

  (* Collection::filter_by_field *)
  Definition filter_by_field (f : flt) (cands : list Z) (limit : nat) (desc : bool) : list Z :=
    match cands with
    | [] => isort (eval f None limit desc)
    | _ => let matched := eval f (Some cands) 0 desc in
           filter (fun id => memZ id matched) cands
    end.

  (* ScanOrder::truncate *)
  Definition truncate (desc : bool) (l : list Z) (limit : nat) : list Z :=
    if (limit =? 0)%nat || (List.length l <=? limit)%nat then l
    else if desc then skipn (List.length l - limit) l else firstn limit l.

  Variable max_limit : nat.     (* Collection::MAX_SEARCH_LIMIT *)
  Variables search_default topk_factor topk_cap : nat.   (* 10, 10, 4096 in search_ids *)

  (* Collection::query_ids_from (after validate_complexity) *)
  Definition query_ids_from (f : flt) (limit : option nat) (desc : bool) : list Z :=
    match limit with
    | Some 0 => []
    | _ =>
        let lim := Nat.min (match limit with Some n => n | None => max_limit end) max_limit in
        truncate desc (filter_by_field f [] lim desc) lim
    end.
  Definition query_ids f limit := query_ids_from f limit false.
  Definition query_last_ids f limit := query_ids_from f limit true.
  Definition query_all_ids (f : flt) : list Z := filter_by_field f [] 0 false.

  (* Collection::search_ids from the point where the candidate list is known:
     search = None: no search clause; Some cs: the reranked, de-duplicated candidates *)
  Definition search_ids (search : option (list Z)) (f : flt) (limit : option nat) : list Z :=
    let limit := Nat.min (match limit with Some n => n | None => search_default end) max_limit in
    if (limit =? 0)%nat then []
    else
      let top_k := Nat.min (limit * topk_factor) topk_cap in
      match search with
      | Some [] => []
      | _ =>
          let cands := match search with Some cs => cs | None => [] end in
          truncate false (filter_by_field f cands top_k false) limit
      end.
End Eval.

(* ------------------------------------------------------------------ the set-algebra reading *)
Definition field_matches (ix : index) (q : rq) (id : Z) : bool :=
  existsb (fun kp => key_matches (fst kp) q && memZ id (snd kp)) ix.

Fixpoint denote (c : coll) (f : flt) (id : Z) : bool :=
  match f with
  | FField name q =>
      if String.eqb name ID_KEY then key_matches id q
      else match find_index (c_idx c) name with
           | Some ix => field_matches ix q id
           | None => false
           end
  | FFieldBad _ _ => false
  | FOr fs => existsb (fun g => denote c g id) fs
  | FAnd fs => negb (is_nil fs) && forallb (fun g => denote c g id) fs
  | FNot g => negb (denote c g id)
  end.

Definition full (c : coll) (f : flt) : list Z := filter (denote c f) (c_ids c).
Definition lastn {A} (n : nat) (l : list A) : list A := skipn (List.length l - n) l.

(* well-formed collection: ids strictly ascending; every index has strictly ascending keys and
   only lists live ids *)
Fixpoint ascending (l : list Z) : bool :=
  match l with
  | x :: r => match r with y :: _ => (x <? y)%Z && ascending r | [] => true end
  | [] => true
  end.
Definition wf_index (ids : list Z) (ix : index) : bool :=
  ascending (ikeys ix) && forallb (fun kp => forallb (fun id => memZ id ids) (snd kp)) ix.
Definition wf_coll (c : coll) : bool :=
  ascending (c_ids c) && forallb (fun ni => wf_index (c_ids c) (snd ni)) (c_idx c).

(* ------------------------------------------------------------------ complexity budget (query.rs) *)
Section Budget.
  Variables max_depth max_nodes max_branches max_include : nat.
  (* state = Some (nodes, branches) or None once a bound is exceeded *)
  Definition bump_node (st : option (nat * nat)) : option (nat * nat) :=
    match st with
    | Some (n, b) => if (max_nodes <? S n)%nat then None else Some (S n, b)
    | None => None
    end.
  Definition bump_branches (k : nat) (st : option (nat * nat)) : option (nat * nat) :=
    match st with
    | Some (n, b) => if (max_branches <? b + k)%nat then None else Some (n, b + k)
    | None => None
    end.
  Fixpoint validate_range (q : rq) (depth : nat) (st : option (nat * nat)) : option (nat * nat) :=
    if (max_depth <? depth)%nat then None
    else
      let st := bump_node st in
      match q with
      | RInclude ks => if (max_include <? List.length ks)%nat then None else st
      | ROr qs | RAnd qs =>
          fold_left (fun st q' => match st with None => None | Some _ => validate_range q' (S depth) st end)
                    qs (bump_branches (List.length qs) st)
      | RNot q' => match st with None => None | Some _ => validate_range q' (S depth) st end
      | _ => st
      end.
  Fixpoint validate_filter (f : flt) (depth : nat) (st : option (nat * nat)) : option (nat * nat) :=
    if (max_depth <? depth)%nat then None
    else
      let st := bump_node st in
      match f with
      | FField _ q | FFieldBad _ q => match st with None => None | Some _ => validate_range q (S depth) st end
      | FOr fs | FAnd fs =>
          fold_left (fun st g => match st with None => None | Some _ => validate_filter g (S depth) st end)
                    fs (bump_branches (List.length fs) st)
      | FNot g => match st with None => None | Some _ => validate_filter g (S depth) st end
      end.
  Definition within_budget (f : flt) : bool :=
    match validate_filter f 0 (Some (0, 0)) with Some _ => true | None => false end.
End Budget.

(* RangeQuery::depth (a leaf has depth 1) *)
Fixpoint rq_depth (q : rq) : nat :=
  match q with
  | ROr qs | RAnd qs => S (fold_left Nat.max (map rq_depth qs) 0)
  | RNot q' => S (rq_depth q')
  | _ => 1
  end.

(* the range queries occurring in a filter tree *)
Fixpoint flt_ranges (f : flt) : list rq :=
  match f with
  | FField _ q | FFieldBad _ q => [q]
  | FOr fs | FAnd fs => flat_map flt_ranges fs
  | FNot g => flt_ranges g
  end.

(* a top-level Filter::Field on a B-tree index (not the primary key) *)
Definition is_btree_leaf (f : flt) : bool :=
  match f with FField n _ => negb (String.eqb n ID_KEY) | _ => false end.

(* a filter that names only existing indexes (or the primary key) and whose keys all convert *)
Definition is_some {A} (o : option A) : bool := match o with Some _ => true | None => false end.
Fixpoint filter_ok (c : coll) (f : flt) : bool :=
  match f with
  | FField n _ => String.eqb n ID_KEY || is_some (find_index (c_idx c) n)
  | FFieldBad _ _ => false
  | FOr fs | FAnd fs => forallb (filter_ok c) fs
  | FNot g => filter_ok c g
  end.
