(* C03 — pinned statements only.  Each is closed by [exact] of a lemma proved in
   Filter/Proofs*.v and followed by Print Assumptions.

   Reading guide.  [full c f] is the set-algebra reading of filter [f] over the live documents of
   collection [c]: [filter (denote c f) (c_ids c)], ascending and duplicate-free.  [hs] is the
   iteration order of the FxHashSet the And branch collects from; the theorems hold for every
   order (premises hs_In / hs_NoDup).  The boolean argument of the entry points says whether the
   Filter::Field B-tree branch stops its key-ordered scan at the caller's limit ([true]: the code
   before the fix) or evaluates unbounded ([false]: the code now, pinned by C03_gen_leaf_unbounded). *)
From Coq Require Import List ZArith Bool Arith String Sorted Lia.
From Verif Require Import Filter.Model Filter.ProofsList Filter.ProofsRange Filter.Proofs Filter.ProofsBudget Filter.Run gen.Gen_Limits.
Import ListNotations.
Open Scope list_scope.

Definition HashOrder (hs : list Z -> list Z) : Prop :=
  (forall l x, In x (hs l) <-> In x l) /\ (forall l, NoDup (hs l)).

(* The index level: the keys a composite range query selects are exactly the index keys that
   satisfy it (Eq/Gt/Ge/Lt/Le/Between incl. inverted/Include incl. duplicates/And/Or/Not). *)
Theorem C03_range_keys_are_the_matching_keys :
  forall (ix : index) (q : rq) (k : Z),
    In k (range_keys ix q) <-> In k (ikeys ix) /\ key_matches k q = true.
Proof. exact range_keys_In. Qed.
Print Assumptions C03_range_keys_are_the_matching_keys.

(* The unbounded B-tree scan, in either direction and under any candidate set: each id once,
   and exactly the ids of documents having a key that satisfies the range query. *)
Theorem C03_btree_scan_unbounded :
  forall (ix : index) (q : rq) (desc : bool) (cand : option (list Z)),
    NoDup (ikeys ix) ->
    NoDup (range_scan ix q desc cand 0) /\
    forall id, In id (range_scan ix q desc cand 0) <->
               field_matches ix q id = true /\ cand_ok cand id = true.
Proof. exact range_scan_0. Qed.
Print Assumptions C03_btree_scan_unbounded.

(* The primary key, same statement over the id set. *)
Theorem C03_filter_by_id_unbounded :
  forall (ids : list Z) (q : rq) (cand : option (list Z)) (desc : bool),
    NoDup ids ->
    NoDup (by_id ids q cand 0 desc) /\
    forall id, In id (by_id ids q cand 0 desc) <->
               In id ids /\ key_matches id q = true /\ cand_ok cand id = true.
Proof. exact by_id_In. Qed.
Print Assumptions C03_filter_by_id_unbounded.

(* Every filter tree, any candidate set, either direction, either form of the leaf: evaluation with
   limit 0 returns exactly (and once each) the live ids in the set-algebra reading. *)
Theorem C03_eval_unbounded_is_set_algebra :
  forall hs, HashOrder hs -> forall c, WF c ->
  forall (lb : bool) (f : flt) (cand : option (list Z)) (desc : bool),
    NoDup (eval hs lb c f cand 0 desc) /\
    forall id, In id (eval hs lb c f cand 0 desc) <->
               In id (c_ids c) /\ denote c f id = true /\ cand_ok cand id = true.
Proof. intros hs [H1 H2] c Hwf. exact (eval_0 hs H1 H2 c Hwf). Qed.
Print Assumptions C03_eval_unbounded_is_set_algebra.

(* query_all_ids = the full reading, which is strictly ascending (hence duplicate-free). *)
Theorem C03_query_all_ids_is_full :
  forall hs, HashOrder hs -> forall c, WF c -> forall (lb : bool) (f : flt),
    query_all_ids hs lb c f = full c f /\ StronglySorted Z.lt (full c f).
Proof.
  intros hs [H1 H2] c Hwf lb f. split; [exact (all_ids hs H1 H2 c Hwf lb f) | exact (full_SS c Hwf f)].
Qed.
Print Assumptions C03_query_all_ids_is_full.

(* A bounded page is an end of the full result, whatever the filter's shape. *)
Theorem C03_page_first :
  forall hs, HashOrder hs -> forall c, WF c -> forall max_limit, (0 < max_limit)%nat ->
  forall (f : flt) (limit : option nat),
    query_ids hs false c max_limit f limit
    = firstn (Nat.min (match limit with Some n => n | None => max_limit end) max_limit) (full c f).
Proof. intros hs [H1 H2] c Hwf m Hm. exact (page_first hs H1 H2 c Hwf m Hm). Qed.
Print Assumptions C03_page_first.

Theorem C03_page_last :
  forall hs, HashOrder hs -> forall c, WF c -> forall max_limit, (0 < max_limit)%nat ->
  forall (f : flt) (limit : option nat),
    query_last_ids hs false c max_limit f limit
    = lastn (Nat.min (match limit with Some n => n | None => max_limit end) max_limit) (full c f).
Proof. intros hs [H1 H2] c Hwf m Hm. exact (page_last hs H1 H2 c Hwf m Hm). Qed.
Print Assumptions C03_page_last.

(* The same for either form of the B-tree leaf, as long as the filter is not itself a bare
   Filter::Field on a B-tree index: what is true of the code with the bounded leaf (before the fix). *)
Theorem C03_pages_any_leaf_form_partial :
  forall hs, HashOrder hs -> forall c, WF c -> forall max_limit, (0 < max_limit)%nat ->
  forall (lb : bool) (f : flt) (limit : option nat),
    lb = false \/ is_btree_leaf f = false ->
    let n := Nat.min (match limit with Some m => m | None => max_limit end) max_limit in
    (query_ids hs lb c max_limit f limit = firstn n (full c f)) /\
    (query_last_ids hs lb c max_limit f limit = lastn n (full c f)).
Proof.
  intros hs [H1 H2] c Hwf m Hm lb f limit Hlb. split.
  - exact (page_first_gen hs H1 H2 c Hwf m Hm lb f limit Hlb).
  - exact (page_last_gen hs H1 H2 c Hwf m Hm lb f limit Hlb).
Qed.
Print Assumptions C03_pages_any_leaf_form_partial.

(* Logically equivalent filters return equal pages from both entry points. *)
Theorem C03_equivalent_filters_equal_pages :
  forall hs, HashOrder hs -> forall c, WF c -> forall max_limit, (0 < max_limit)%nat ->
  forall (f g : flt), (forall id, In id (c_ids c) -> denote c f id = denote c g id) ->
  forall limit,
    query_ids hs false c max_limit f limit = query_ids hs false c max_limit g limit /\
    query_last_ids hs false c max_limit f limit = query_last_ids hs false c max_limit g limit /\
    query_all_ids hs false c f = query_all_ids hs false c g.
Proof.
  intros hs [H1 H2] c Hwf m Hm f g He limit.
  rewrite !(page_first hs H1 H2 c Hwf m Hm), !(page_last hs H1 H2 c Hwf m Hm), !(all_ids hs H1 H2 c Hwf).
  rewrite (full_ext c f g He). auto.
Qed.
Print Assumptions C03_equivalent_filters_equal_pages.

(* A search with a filter returns the candidates, in their relevance order, restricted to the live
   documents of that same match set, cut to the limit (either form of the leaf). *)
Theorem C03_search_restricts_candidates :
  forall hs, HashOrder hs -> forall c, WF c ->
  forall max_limit search_default topk_factor topk_cap (lb : bool) (cs : list Z) (f : flt) (limit : option nat),
    cs <> [] ->
    search_ids hs lb c max_limit search_default topk_factor topk_cap (Some cs) f limit
    = firstn (Nat.min (match limit with Some n => n | None => search_default end) max_limit)
             (filter (fun id => memZ id (c_ids c) && denote c f id) cs).
Proof.
  intros hs [H1 H2] c Hwf m sd tf tc lb cs f limit Hne.
  exact (search_restricts hs H1 H2 c Hwf m sd tf tc lb cs f limit Hne).
Qed.
Print Assumptions C03_search_restricts_candidates.

Theorem C03_search_filter_only_is_first_page :
  forall hs, HashOrder hs -> forall c, WF c ->
  forall max_limit search_default topk_factor topk_cap (f : flt) (limit : option nat),
    (0 < max_limit)%nat -> (1 <= topk_factor)%nat -> (max_limit <= topk_cap)%nat ->
    search_ids hs false c max_limit search_default topk_factor topk_cap None f limit
    = firstn (Nat.min (match limit with Some n => n | None => search_default end) max_limit) (full c f).
Proof.
  intros hs [H1 H2] c Hwf m sd tf tc f limit Hm Ha Hb.
  exact (search_filter_only hs H1 H2 c Hwf m Hm sd tf tc false f limit (or_introl eq_refl) Ha Hb).
Qed.
Print Assumptions C03_search_filter_only_is_first_page.

(* Errors: a filter naming only existing indexes (or _id) whose keys all convert is evaluated without
   error under every candidate set, direction, hash order and leaf form; so an evaluation error of an
   in-budget filter always comes from an unknown index or an unconvertible key in the tree. *)
Theorem C03_well_formed_filters_evaluate_without_error :
  forall hs (lb : bool) c (f : flt), filter_ok c f = true ->
  forall cand desc, eval_err hs lb c f cand desc = None.
Proof. exact eval_err_ok. Qed.
Print Assumptions C03_well_formed_filters_evaluate_without_error.

(* ------------------------------------------------------------------ the code as it is now *)
(* generated facts (gen/Gen_Limits.v is re-extracted from the source on every run) *)
Theorem C03_gen_limits_coherent :
  (0 < max_search_limit)%nat /\ (1 <= search_topk_factor)%nat /\
  (max_search_limit <= search_topk_cap)%nat /\ (max_filter_depth <= range_query_max_depth)%nat.
Proof. repeat split; (apply Nat.ltb_lt || apply Nat.leb_le); vm_compute; reflexivity. Qed.
Print Assumptions C03_gen_limits_coherent.

Theorem C03_gen_operands_evaluated_unbounded :
  operand_limit_arguments = [0; 0; 0; 0]%nat /\ candidate_path_unbounded = true /\
  query_all_ids_unbounded = true.
Proof. repeat split; reflexivity. Qed.
Print Assumptions C03_gen_operands_evaluated_unbounded.

Theorem C03_gen_entry_points :
  query_ids_descending = false /\ query_last_ids_descending = true /\
  query_ids_from_clamps_evaluates_truncates = true /\ search_filters_ascending_then_truncates = true /\
  top_level_result_sorted = true /\ leaf_scan_follows_order = true /\ leaf_dedups = true /\
  id_key_dispatched_first = true.
Proof. repeat split; reflexivity. Qed.
Print Assumptions C03_gen_entry_points.

(* Every range query inside a filter that validate_complexity accepts nests no deeper than
   MAX_FILTER_DEPTH, so (with the generated MAX_FILTER_DEPTH <= RangeQuery::MAX_DEPTH) the depth
   check of RangeQuery::try_convert_from / range_query_inner never rejects a validated filter:
   inside the budget every filter tree is evaluated, not silently answered with nothing. *)
Theorem C03_budget_bounds_range_depth :
  forall max_depth max_nodes max_branches max_include (f : flt),
    within_budget max_depth max_nodes max_branches max_include f = true ->
    forall q, In q (flt_ranges f) -> (rq_depth q <= max_depth)%nat.
Proof. exact within_budget_bounds_range_depth. Qed.
Print Assumptions C03_budget_bounds_range_depth.

Theorem C03_gen_validated_filters_pass_conversion_depth :
  forall f, now_within_budget f = true ->
  forall q, In q (flt_ranges f) -> (rq_depth q <= range_query_max_depth)%nat.
Proof.
  intros f H q Hq. pose proof (within_budget_bounds_range_depth _ _ _ _ f H q Hq) as Hd.
  assert (max_filter_depth <= range_query_max_depth)%nat by (apply Nat.leb_le; vm_compute; reflexivity). lia.
Qed.
Print Assumptions C03_gen_validated_filters_pass_conversion_depth.

(* the runner's model (hash order = ascending) satisfies the premises, so for the model that is
   compared with the implementation: *)
Theorem C03_runner_hash_order : HashOrder hs_run.
Proof. exact sort_dedup_is_hash_order. Qed.
Print Assumptions C03_runner_hash_order.

(* the collections handed to the model are checked by [wf_coll], which implies [WF] *)
Theorem C03_wf_check_sound : forall c, wf_coll c = true -> WF c.
Proof. exact wf_coll_WF. Qed.
Print Assumptions C03_wf_check_sound.

(* ------------------------------------------------------------------ the bounded leaf is wrong *)
(* The Filter::Field B-tree branch as it was (scan stopped after `limit` ids in KEY order, then
   sorted): with ages 50,10,20,40,30 for ids 1..5, `age >= 0` limit 2 gives [2;3] / [1;4]. *)
Definition witness_coll : coll :=
  {| c_ids := [1; 2; 3; 4; 5]%Z;
     c_idx := [("age"%string, [(10, [2]); (20, [3]); (30, [5]); (40, [4]); (50, [1])]%Z)] |}.
Definition witness_filter : flt := FField "age" (RGe 0).

Theorem C03_bounded_leaf_page_first_refuted :
  exists c f n, wf_coll c = true /\
    full c f = [1; 2; 3; 4; 5]%Z /\
    query_ids hs_run true c 1000 f (Some n) = [2; 3]%Z /\
    query_ids hs_run true c 1000 f (Some n) <> firstn n (full c f) /\
    query_last_ids hs_run true c 1000 f (Some n) = [1; 4]%Z /\
    query_ids hs_run true c 1000 (FAnd [f]) (Some n) = [1; 2]%Z.
Proof.
  exists witness_coll, witness_filter, 2%nat. vm_compute.
  repeat split; try reflexivity. intros H. discriminate H.
Qed.
Print Assumptions C03_bounded_leaf_page_first_refuted.

(* non-vacuity: a well-formed collection with duplicate, array and missing values whose ids are not
   in key order, and a filter using every connective, on which the theorems say something non-trivial *)
Example C03_pages_nonvacuous :
  let c := {| c_ids := [1; 2; 4; 5; 7]%Z;
              c_idx := [("age"%string, [(3, [7; 2]); (8, [1]); (9, [5; 4])]%Z);
                        ("nums"%string, [(0, [4; 1]); (2, [1; 7])]%Z)] |} in
  let f := FOr [FAnd [FField "age" (RGe 3); FNot (FField "nums" (REq 2))];
                FField "_id" (RInclude [7; 7; 9])%Z] in
  wf_coll c = true /\ full c f = [2; 4; 5; 7]%Z /\
  query_ids hs_run false c 1000 f (Some 2%nat) = [2; 4]%Z /\
  query_last_ids hs_run false c 1000 f (Some 2%nat) = [5; 7]%Z.
Proof. vm_compute. repeat split; reflexivity. Qed.
