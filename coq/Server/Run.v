(* C14 — runner: the model instantiated with the generated tables and a concrete (identity) hash, compared
   with what the harness observed on the real router. *)
From Coq Require Import List String Ascii Bool Arith ZArith.
From Verif Require Import Server.Model Server.Inst gen.Gen_Server.
Import ListNotations.
Open Scope string_scope.

Definition hverify (h k : string) : bool := String.eqb h k.
Definition hid (k : string) : string := k.

Inductive obs :=
| OHealth | ONoRoute | ONotAllowed | OUnauthorized | OTooLarge | OUnsupported | OBadRequest | OMethodNotFound | ODbNotFound
| OHandled (p : option principal)        (* reached a handler; [p] = the principal `info` revealed, if it did *)
| OOther (status : Z) (code : string).
Inductive oopres := OOp (r : opres) | OOpOther (status : Z) (code : string).

(* admin key, primary database, max_databases, history *)
Definition world : Type := option string * string * nat * list op.
Definition state_of (w : world) : sstate string :=
  let '(admin, primary, max, h) := w in run_history hid (init_state hid admin primary max) h.

Definition principal_eqb (a b : principal) := match a, b with PAdmin, PAdmin | PDatabase, PDatabase => true | _, _ => false end.

Definition matches (r : response) (o : obs) : bool :=
  match r, o with
  | RHealth, OHealth | RNoRoute, ONoRoute | RNotAllowed, ONotAllowed | RUnauthorized, OUnauthorized
  | RTooLarge, OTooLarge | RUnsupportedMedia, OUnsupported | RBadRequest, OBadRequest
  | RMethodNotFound, OMethodNotFound | RDbNotFound, ODbNotFound => true
  | RDispatchRoot _ _, OHandled None | RDispatchRoot _ _, OHandled (Some PAdmin) => true
  | RDispatchDb _ _ _ _, OHandled None => true
  | RDispatchDb _ _ _ p, OHandled (Some q) => principal_eqb p q
  | _, _ => false
  end.

Definition cell : Type := world * verb * list string * option string * ctype.

Definition run_cell (c : cell) (bodies : list body) : list response :=
  let '(w, v, path, auth, ct) := c in
  let st := state_of w in
  map (fun b => handle hverify GT st (mk_req v path auth ct b)) bodies.

Definition check_cell (x : cell * list (body * obs)) : bool :=
  let '(c, l) := x in
  forallb (fun ro => matches (fst ro) (snd ro)) (combine (run_cell c (map fst l)) (map snd l)).

Definition opres_eqb (a b : opres) : bool :=
  match a, b with
  | OpOk, OpOk | OpInvalidInput, OpInvalidInput | OpConflict, OpConflict | OpAlreadyExists, OpAlreadyExists
  | OpNotFound, OpNotFound | OpLimit, OpLimit => true
  | _, _ => false
  end.

Definition run_history_results (w : world) : list opres :=
  let '(admin, primary, max, h) := w in history_results hid (init_state hid admin primary max) h.

Definition check_history (x : world * list oopres) : bool :=
  let '(w, l) := x in
  let m := run_history_results w in
  Nat.eqb (List.length m) (List.length l) &&
  forallb (fun mo => match snd mo with OOp r => opres_eqb (fst mo) r | OOpOther _ _ => false end) (combine m l).

(* probes after an enumerated history: POST /<path> {method: info} (JSON) with the given Authorization header *)
Definition check_probe (x : world * list (list string * option string * obs)) : bool :=
  let '(w, l) := x in
  let st := state_of w in
  forallb (fun p => let '(path, auth, o) := p in matches (handle hverify GT st (mk_req POST path auth CtJson (BOk "info"))) o) l.
Definition run_probe (w : world) (l : list (list string * option string)) : list response :=
  let st := state_of w in map (fun p => handle hverify GT st (mk_req POST (fst p) (snd p) CtJson (BOk "info"))) l.

(* one enumerated history, compactly: the operations (without the final forced restart), the observed result of every
   operation including that restart, the probe grid (database paths x Authorization headers, row-major), and the
   observed classes before and after the restart *)
Definition enum_case : Type := world * list oopres * list string * list (option string) * list obs * list obs.
Definition grid (dbs : list string) (auths : list (option string)) : list (list string * option string) :=
  flat_map (fun d => map (fun a => ([d], a)) auths) dbs.
Definition probe_ok (st : sstate string) (g : list (list string * option string)) (os : list obs) : bool :=
  Nat.eqb (List.length g) (List.length os) &&
  forallb (fun po => matches (handle hverify GT st (mk_req POST (fst (fst po)) (snd (fst po)) CtJson (BOk "info"))) (snd po)) (combine g os).
Definition check_enum (x : enum_case) : bool :=
  let '(w, res, dbs, auths, before, after) := x in
  let '(admin, primary, max, h) := w in
  let w' : world := (admin, primary, max, (h ++ [ORestart])%list) in
  check_history (w', res) && probe_ok (state_of w) (grid dbs auths) before && probe_ok (state_of w') (grid dbs auths) after.
Definition run_enum (w : world) (dbs : list string) (auths : list (option string)) : list opres * list response * list response :=
  let '(admin, primary, max, h) := w in
  let w' : world := (admin, primary, max, (h ++ [ORestart])%list) in
  let f st := map (fun p => handle hverify GT st (mk_req POST (fst p) (snd p) CtJson (BOk "info"))) (grid dbs auths) in
  (run_history_results w', f (state_of w), f (state_of w')).

(* the same comparison with the worlds and the request bodies passed once (by index) instead of once per cell *)
Definition cell_ix : Type := nat * verb * list string * option string * ctype * list (nat * obs).
Definition check_cell_ix (ws : list world) (bs : list body) (x : cell_ix) : bool :=
  let '(wi, v, path, auth, ct, l) := x in
  match nth_error ws wi with
  | None => false
  | Some w =>
    let st := state_of w in
    forallb (fun io => match nth_error bs (fst io) with
                       | None => false
                       | Some b => matches (handle hverify GT st (mk_req v path auth ct b)) (snd io)
                       end) l
  end.
