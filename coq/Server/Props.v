(* C14 — pinned statements.  Every theorem is about the model instantiated with the tables regenerated from
   /repo - GT and the definitions of Gen_Server -; [hash]/[verify] are universally quantified (hashes are abstract) and the
   collision-freedom premise  verify (hash_of k) k' = (k =? k')  appears where a theorem needs it. *)
From Coq Require Import List String Ascii Bool Arith.
From Verif Require Import Server.Model Server.Proofs Server.History Server.Inst Server.Run gen.Gen_Server.
Import ListNotations.
Open Scope string_scope.

(* (1) A caller whose token is not the admin key and verifies against no binding other than database A's
   gets, for every route, verb, method name (known or not), encoding and body: an answer from outside the
   gate, or - only on /A - a database-scope handler of the generated table with db = A and Principal::Database. *)
Theorem C14_db_key_confined :
  forall (hash : Type) (verify : hash -> string -> bool) (st : sstate hash) (r : request) (k A : string),
    bearer_token GT r = Some k -> key_only_for verify st k A ->
    match handle verify GT st r with
    | RHealth | RNoRoute | RNotAllowed | RUnauthorized => True
    | RDispatchRoot _ _ | RError _ => False
    | RDispatchDb v e db p =>
        db = A /\ p = PDatabase /\ r.(r_path) = [A] /\ mem A st.(s_open) = true /\ exists n, In (n, v, e) db_table
    | RDbNotFound | RTooLarge | RUnsupportedMedia | RBadRequest | RMethodNotFound => r.(r_path) = [A]
    end.
Proof. intros hash verify. exact (db_key_confined verify GT (gen_rules_ok hash verify)). Qed.
Print Assumptions C14_db_key_confined.

(* (2) The rejection of an outsider is one value: it does not depend on whether the addressed database is open,
   closed, bound to another key, unbound or non-existent, nor on the method, the body or the encoding. *)
Theorem C14_uniform_rejection :
  forall (hash : Type) (verify : hash -> string -> bool) (st1 st2 : sstate hash) (r1 r2 : request),
    rpc_request r1 -> rpc_request r2 ->
    outsider verify st1 (scope_of (route_of r1.(r_path))) (bearer_token GT r1) ->
    outsider verify st2 (scope_of (route_of r2.(r_path))) (bearer_token GT r2) ->
    handle verify GT st1 r1 = RUnauthorized /\ handle verify GT st1 r1 = handle verify GT st2 r2.
Proof.
  intros hash verify st1 st2 r1 r2 R1 R2 O1 O2. split.
  - exact (uniform_rejection verify GT (gen_rules_ok hash verify) st1 r1 R1 O1).
  - exact (rejection_reveals_nothing verify GT (gen_rules_ok hash verify) st1 st2 r1 r2 R1 R2 O1 O2).
Qed.
Print Assumptions C14_uniform_rejection.

(* (3) Root-scope handlers are reached only on "/" and only by the admin key (or on an instance without one). *)
Theorem C14_root_is_admin_only :
  forall (hash : Type) (verify : hash -> string -> bool) (st : sstate hash) (r : request) v e,
    handle verify GT st r = RDispatchRoot v e ->
    r.(r_path) = [] /\ (exists n, In (n, v, e) root_table) /\
    (st.(s_admin) = None \/ exists a k, st.(s_admin) = Some a /\ bearer_token GT r = Some k /\ verify a k = true).
Proof. intros hash verify. exact (root_is_admin_only verify GT (gen_rules_ok hash verify)). Qed.
Print Assumptions C14_root_is_admin_only.

(* whoever reaches a database handler was entitled to exactly the database named in the path *)
Theorem C14_dispatch_db_entitled :
  forall (hash : Type) (verify : hash -> string -> bool) (st : sstate hash) (r : request) v e db p,
    handle verify GT st r = RDispatchDb v e db p ->
    r.(r_path) = [db] /\ mem db st.(s_open) = true /\ (exists n, In (n, v, e) db_table) /\
    match p with
    | PAdmin => st.(s_admin) = None \/ exists a k, st.(s_admin) = Some a /\ bearer_token GT r = Some k /\ verify a k = true
    | PDatabase => exists k b, bearer_token GT r = Some k /\ lookup db st.(s_keys) = Some b /\ verify b k = true
    end.
Proof. intros hash verify. exact (dispatch_db_entitled verify GT (gen_rules_ok hash verify)). Qed.
Print Assumptions C14_dispatch_db_entitled.

Theorem C14_no_token_no_dispatch :
  forall (hash : Type) (verify : hash -> string -> bool) (st : sstate hash) (r : request),
    st.(s_admin) <> None -> bearer_token GT r = None ->
    handle verify GT st r = RHealth \/ handle verify GT st r = RNoRoute \/ handle verify GT st r = RNotAllowed \/
    handle verify GT st r = RUnauthorized.
Proof. intros hash verify. exact (no_token_no_dispatch verify GT (gen_rules_ok hash verify)). Qed.
Print Assumptions C14_no_token_no_dispatch.

(* the check inside execute_rpc alone enforces the same answers as the route layer in front of it *)
Theorem C14_handler_check_is_sufficient :
  forall (hash : Type) (verify : hash -> string -> bool) (st : sstate hash) (r : request),
    rpc_request r -> r.(r_body) <> BTooLarge ->
    handle verify GT st r = execute_rpc verify GT st (route_of r.(r_path)) r.
Proof. intros hash verify. exact (handler_alone verify GT). Qed.
Print Assumptions C14_handler_check_is_sufficient.

(* (4) Tables: every enum variant has exactly one name (no shadowed arm), one effect, one dispatch arm; every
   database-scope arm that mentions the server state is the principal-gated scoped_info call. Finite, generated. *)
Theorem C14_tables_total :
  tables_ok = true /\
  (forall n v e, In (n, v, e) root_table -> parse_method root_table n = Some (v, e)) /\
  (forall n v e, In (n, v, e) db_table -> parse_method db_table n = Some (v, e)) /\
  (forall v, In v root_variants -> (exists n e, parse_method root_table n = Some (v, e)) /\ exists a, In a root_dispatch /\ a_variant a = v) /\
  (forall v, In v db_variants -> (exists n e, parse_method db_table n = Some (v, e)) /\ exists a, In a db_dispatch /\ a_variant a = v).
Proof.
  assert (H : tables_ok = true) by (vm_compute; reflexivity).
  split; [exact H|]. unfold tables_ok in H.
  apply andb_true_iff in H; destruct H as [H _].
  apply andb_true_iff in H; destruct H as [H _].
  apply andb_true_iff in H; destruct H as [HR HD].
  destruct (table_wf_spec _ _ _ HR) as [R1 [R2 _]].
  destruct (table_wf_spec _ _ _ HD) as [D1 [D2 _]].
  split; [exact R1|]. split; [exact D1|]. split; [exact R2|exact D2].
Qed.
Print Assumptions C14_tables_total.

(* shape of the code around the tables, as extracted: a change here re-opens the model *)
Theorem C14_shape :
  execute_order = ["authorize"; "parse_body"; "parse_method"; "branch_on_effect"; "dispatch"] /\
  require_auth_order = ["non_post_passes"; "bad_path_passes"; "authorize_or_reject"; "next"] /\
  bound_lookup = ["root_none"; "database_lookup"; "delegates"] /\
  bearer_prefix = "Bearer " /\
  routes = [("/", "get", "get_info"); ("/", "post", "rpc_root"); ("/{db_name}", "post", "rpc_db")] /\
  router_calls = ["route"; "route"; "route_layer"; "layer"; "layer"; "layer"; "with_state"] /\
  layers = ["require_auth"; "DefaultBodyLimit"; "normalize_rejections"; "total_timeout"] /\
  handler_bindings = [("rpc_root", "Scope::Root", "RootMethod", "dispatch_root", "");
                      ("rpc_db", "Scope::Database(path)", "DbMethod", "dispatch_db", "path")] /\
  cancellable_effect = [Read] /\
  binding_checks = ["blank_key"; "no_admin_key"; "primary_db"] /\
  api_keys_writers = ["store_api_key"] /\
  forallb (fun c => snd c) store_api_key_callers = true /\
  (* persistence: the whole map / registry is written on every change, nothing returns ahead of the write,
     and a restart loads exactly those two extensions *)
  persist_keys_steps = ["snapshot"; "primary_lookup"; "save_extension"; "propagate_error"; "ok"] /\
  persist_registry_steps = ["snapshot"; "primary_lookup"; "save_extension"; "propagate_error"; "ok"] /\
  store_api_key_steps = ["update_map"; "persist"; "rollback_and_fail"] /\
  connect_loads = ["registry_from_extension"; "keys_from_extension"; "keys_without_admin_refused"; "keys_into_state"; "reopen_registered"] /\
  unauthorized_wire = ("UNAUTHORIZED", "unauthorized", "invalid or missing API key").
Proof. repeat split; reflexivity. Qed.
Print Assumptions C14_shape.

(* (5) Histories.  After ANY sequence of admin operations on a server started with admin key ka, a caller whose
   token is not ka reaches no root method, and a database handler only for a non-primary database to which an
   operation of that very history bound exactly this token - as Principal::Database, on that database's path. *)
Theorem C14_history_confined :
  forall (hash : Type) (hash_of : string -> hash) (verify : hash -> string -> bool),
    (forall k k', verify (hash_of k) k' = String.eqb k k') ->
    forall ka primary max (h : list op) (r : request) k,
      bearer_token GT r = Some k -> k <> ka ->
      match handle verify GT (run_history hash_of (init_state hash_of (Some ka) primary max) h) r with
      | RDispatchRoot _ _ | RError _ => False
      | RDispatchDb v e db p =>
          p = PDatabase /\ r.(r_path) = [db] /\ db <> primary /\ (exists o, In o h /\ binds o db k) /\ exists n, In (n, v, e) db_table
      | _ => True
      end.
Proof. intros hash hash_of verify Hv. exact (history_confined hash_of verify Hv GT (gen_rules_ok hash verify)). Qed.
Print Assumptions C14_history_confined.

(* the state invariant behind it: no admin key => no bindings; the primary database is never bound;
   every binding is the hash of a key an admin operation supplied for that database *)
Theorem C14_history_invariant :
  forall (hash : Type) (hash_of : string -> hash) admin primary max (h : list op),
    inv hash_of admin primary h (run_history hash_of (init_state hash_of admin primary max) h).
Proof. intros hash hash_of. exact (history_invariant hash_of). Qed.
Print Assumptions C14_history_invariant.

Theorem C14_rotation_revokes :
  forall (hash : Type) (hash_of : string -> hash) (verify : hash -> string -> bool),
    (forall k k', verify (hash_of k) k' = String.eqb k k') ->
    forall (st : sstate hash) ka n k1 k2 r,
      st.(s_admin) = Some (hash_of ka) -> snd (set_db_api_key hash_of st n k2) = OpOk ->
      k1 <> k2 -> k1 <> ka -> bearer_token GT r = Some k1 -> r.(r_verb) = POST -> r.(r_path) = [n] -> n <> "" ->
      handle verify GT (fst (set_db_api_key hash_of st n k2)) r = RUnauthorized.
Proof. intros hash hash_of verify Hv. exact (rotation_revokes hash_of verify Hv GT (gen_rules_ok hash verify)). Qed.
Print Assumptions C14_rotation_revokes.

Theorem C14_removal_revokes :
  forall (hash : Type) (hash_of : string -> hash) (verify : hash -> string -> bool),
    (forall k k', verify (hash_of k) k' = String.eqb k k') ->
    forall (st : sstate hash) ka n k1 r,
      st.(s_admin) = Some (hash_of ka) -> snd (remove_db_api_key st n) = OpOk ->
      k1 <> ka -> bearer_token GT r = Some k1 -> r.(r_verb) = POST -> r.(r_path) = [n] -> n <> "" ->
      handle verify GT (fst (remove_db_api_key st n)) r = RUnauthorized.
Proof. intros hash hash_of verify Hv. exact (removal_revokes hash_of verify Hv GT (gen_rules_ok hash verify)). Qed.
Print Assumptions C14_removal_revokes.

Theorem C14_lifecycle_keeps_bindings :
  forall (hash : Type) (hash_of : string -> hash) (st : sstate hash) (o : op),
    (match o with OClose _ | OOpen _ | OConnect _ | ORestart | OCreate _ None => True | _ => False end) ->
    s_pkeys st = s_keys st ->
    s_keys (fst (apply_op hash_of st o)) = s_keys st /\ s_admin (fst (apply_op hash_of st o)) = s_admin st.
Proof. intros hash hash_of. exact (lifecycle_keeps_bindings hash_of). Qed.
Print Assumptions C14_lifecycle_keeps_bindings.

(* revocation and rotation are durable: the old key is still an outsider after a restart over the same store *)
Theorem C14_revocation_survives_restart :
  forall (hash : Type) (hash_of : string -> hash) (verify : hash -> string -> bool),
    (forall k k', verify (hash_of k) k' = String.eqb k k') ->
    forall (st : sstate hash) ka n k1 r,
      st.(s_admin) = Some (hash_of ka) -> k1 <> ka -> bearer_token GT r = Some k1 -> r.(r_verb) = POST -> r.(r_path) = [n] -> n <> "" ->
      (snd (remove_db_api_key st n) = OpOk -> handle verify GT (restart (fst (remove_db_api_key st n))) r = RUnauthorized) /\
      (forall k2, k1 <> k2 -> snd (set_db_api_key hash_of st n k2) = OpOk ->
                  handle verify GT (restart (fst (set_db_api_key hash_of st n k2))) r = RUnauthorized).
Proof.
  intros hash hash_of verify Hv st ka n k1 r Ha N1a Tok V P Ne. split.
  - intros Ok. exact (removal_survives_restart hash_of verify Hv GT (gen_rules_ok hash verify) st ka n k1 r Ha Ok N1a Tok V P Ne).
  - intros k2 N12 Ok. exact (rotation_survives_restart hash_of verify Hv GT (gen_rules_ok hash verify) st ka n k1 k2 r Ha Ok N12 N1a Tok V P Ne).
Qed.
Print Assumptions C14_revocation_survives_restart.

(* ---- non-vacuity: a concrete two-tenant state after a real history, with the identity hash ---- *)
Definition ex_history : list op :=
  [OCreate "tenant_a" (Some "key-a"); OCreate "tenant_b" (Some "key-b"); OSetKey "tenant_a" "key-a2"; OClose "tenant_b"; ORestart].
Definition ex_state : sstate string := run_history hid (init_state hid (Some "adm") "primary_db" 5) ex_history.
Definition ex_req (path : list string) (tok m : string) : request := mk_req POST path (Some ("Bearer " ++ tok)) CtJson (BOk m).

Example C14_confined_nonvacuous :
  key_only_for hverify ex_state "key-a2" "tenant_a" /\
  handle hverify GT ex_state (ex_req ["tenant_a"] "key-a2" "doc.add") = RDispatchDb "DocAdd" Mutating "tenant_a" PDatabase /\
  handle hverify GT ex_state (ex_req ["tenant_b"] "key-a2" "doc.add") = RUnauthorized /\
  handle hverify GT ex_state (ex_req ["primary_db"] "key-a2" "db.metadata") = RUnauthorized /\
  handle hverify GT ex_state (ex_req [] "key-a2" "db.list") = RUnauthorized /\
  handle hverify GT ex_state (ex_req ["tenant_a"] "key-a" "doc.get") = RUnauthorized /\
  handle hverify GT ex_state (ex_req ["tenant_b"] "key-b" "doc.get") = RDbNotFound /\
  handle hverify GT ex_state (ex_req ["tenant_b"] "adm" "doc.get") = RDbNotFound /\
  handle hverify GT ex_state (ex_req [] "adm" "db.set_api_key") = RDispatchRoot "DbSetApiKey" Mutating /\
  handle hverify GT ex_state (ex_req ["tenant_a"] "key-a2" "db.create") = RMethodNotFound.
Proof.
  split.
  - split.
    + exists "adm". split; reflexivity.
    + intros B b L V.
      assert (K : s_keys ex_state = [("tenant_a", "key-a2"); ("tenant_b", "key-b")]) by (vm_compute; reflexivity).
      rewrite K in L. cbn [lookup] in L.
      destruct (String.eqb B "tenant_a") eqn:E1; [now apply String.eqb_eq in E1|].
      destruct (String.eqb B "tenant_b") eqn:E2; [|discriminate].
      inversion L; subst b. vm_compute in V. discriminate.
  - repeat split; vm_compute; reflexivity.
Qed.

Example C14_outsider_nonvacuous :
  rpc_request (ex_req ["no_such_db"] "key-a2" "info") /\
  outsider hverify ex_state (scope_of (route_of ["no_such_db"])) (bearer_token GT (ex_req ["no_such_db"] "key-a2" "info")) /\
  outsider hverify ex_state (scope_of (route_of ["tenant_b"])) (bearer_token GT (ex_req ["tenant_b"] "key-a2" "info")).
Proof.
  split; [split; [reflexivity|discriminate]|].
  split; exists "adm"; (split; [reflexivity|]); intros k E; vm_compute in E; inversion E; subst k; (split; [reflexivity|]);
    intros n b S L; inversion S; subst n; vm_compute in L; try discriminate; inversion L; subst b; vm_compute; reflexivity.
Qed.
