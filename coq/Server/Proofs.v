(* C14 — proofs about the model of Server/Model.v.

   Everything here is parametric in the tables [T] (rule list, method tables, bearer prefix); the only
   thing assumed about the rule list is [Hrules]: it decides like the reference function [auth_ref].
   Server/Inst.v discharges [Hrules] for the rule list regenerated from auth.rs (by case analysis), so a
   re-ordered or changed rule re-checks every theorem.  Hashes are abstract: [verify_spec] is the
   collision-freedom hypothesis  verify (hash k) k' = (k =? k'). *)
From Coq Require Import List String Ascii Bool Arith Lia.
From Verif Require Import Server.Model.
Import ListNotations.
Open Scope string_scope.

Section Proofs.
  Context {hash : Type}.
  Variable hash_of : string -> hash.
  Variable verify : hash -> string -> bool.

  Notation sstate := (sstate hash).
  Notation authorize := (authorize verify).
  Notation handle := (handle verify).
  Notation execute_rpc := (execute_rpc verify).
  Notation auth_result := (auth_result verify).

  (* the documented precedence (auth.rs module doc, rules 1-4) as one nested match *)
  Definition auth_ref (admin bound : option hash) (sc : scope) (presented : option string) : outcome :=
    match admin with
    | None => OkAdmin
    | Some a =>
      if (match presented with Some p => verify a p | None => false end) then OkAdmin
      else match sc with
           | SRoot => ErrUnauthorized
           | SDatabase _ =>
             match bound, presented with
             | Some b, Some p => if verify b p then OkDatabase else ErrUnauthorized
             | _, _ => ErrUnauthorized
             end
           end
    end.

  Variable T : tables.
  Hypothesis Hrules : forall admin bound sc presented,
      authorize T.(t_rules) admin bound sc presented = auth_ref admin bound sc presented.

  (* ------------------------------------------------------------------ small facts *)
  Lemma parse_method_in : forall tbl name v e, parse_method tbl name = Some (v, e) -> In (name, v, e) tbl.
  Proof.
    induction tbl as [|[[n v'] e'] r IH]; cbn; intros name v e H; [discriminate|].
    destruct (String.eqb name n) eqn:E.
    - apply String.eqb_eq in E. inversion H; subst. now left.
    - right. now apply IH.
  Qed.

  Fixpoint names_of (tbl : list mrow) : list string := match tbl with [] => [] | (n, _, _) :: r => n :: names_of r end.

  Lemma parse_method_complete : forall tbl name v e,
      NoDup (names_of tbl) -> In (name, v, e) tbl -> parse_method tbl name = Some (v, e).
  Proof.
    induction tbl as [|[[n v'] e'] r IH]; cbn; intros name v e ND H; [contradiction|].
    inversion ND as [|? ? Hn ND']; subst.
    destruct H as [H|H].
    - inversion H; subst. now rewrite String.eqb_refl.
    - destruct (String.eqb name n) eqn:E.
      + apply String.eqb_eq in E. subst. exfalso. apply Hn.
        clear - H. induction r as [|[[a b] c] r IH]; cbn in *; [contradiction|].
        destruct H as [H|H]; [inversion H; now left | right; now apply IH].
      + now apply IH.
  Qed.

  Lemma mem_in : forall k l, mem k l = true <-> In k l.
  Proof.
    induction l as [|x r IH]; cbn; [split; [discriminate|contradiction]|].
    rewrite orb_true_iff, IH, String.eqb_eq. split; intros [H|H]; auto.
  Qed.

  Lemma lookup_remove_same : forall {A} k (m : list (string * A)), lookup k (remove_key k m) = None.
  Proof.
    induction m as [|[k' v] r IH]; cbn; [reflexivity|].
    destruct (String.eqb k k') eqn:E; [exact IH|]. cbn. now rewrite E.
  Qed.
  Lemma lookup_remove_other : forall {A} k k' (m : list (string * A)), k <> k' -> lookup k (remove_key k' m) = lookup k m.
  Proof.
    induction m as [|[k2 v] r IH]; cbn; intros N; [reflexivity|].
    destruct (String.eqb k' k2) eqn:E.
    - apply String.eqb_eq in E. subst. rewrite (IH N).
      destruct (String.eqb k k2) eqn:E2; [apply String.eqb_eq in E2; contradiction|reflexivity].
    - cbn. destruct (String.eqb k k2); [reflexivity|now apply IH].
  Qed.
  Lemma lookup_insert_same : forall {A} k (v : A) m, lookup k (insert k v m) = Some v.
  Proof. intros. unfold insert. cbn. now rewrite String.eqb_refl. Qed.
  Lemma lookup_insert_other : forall {A} k k' (v : A) m, k <> k' -> lookup k (insert k' v m) = lookup k m.
  Proof.
    intros A k k' v m N. unfold insert. cbn.
    destruct (String.eqb k k') eqn:E; [apply String.eqb_eq in E; contradiction|]. now apply lookup_remove_other.
  Qed.

  (* ------------------------------------------------------------------ the authorization gate *)
  Definition gate (st : sstate) (sc : scope) (tok : option string) : principal + response :=
    match st.(s_admin) with
    | None => inl PAdmin
    | Some a =>
      match tok with
      | None => inr RUnauthorized
      | Some k =>
        if verify a k then inl PAdmin
        else match sc with
             | SRoot => inr RUnauthorized
             | SDatabase n =>
               match lookup n st.(s_keys) with
               | Some b => if verify b k then inl PDatabase else inr RUnauthorized
               | None => inr RUnauthorized
               end
             end
      end
    end.

  Lemma auth_result_gate : forall st sc r, auth_result T st sc r = gate st sc (bearer_token T r).
  Proof.
    intros st sc r. unfold auth_result, state_authorize, gate. rewrite Hrules. unfold auth_ref.
    destruct (s_admin st) as [a|]; [|reflexivity].
    destruct (bearer_token T r) as [k|].
    - destruct (verify a k); [reflexivity|].
      destruct sc as [|n]; [reflexivity|].
      destruct (lookup n (s_keys st)) as [b|]; [|reflexivity].
      destruct (verify b k); reflexivity.
    - destruct sc as [|n]; [reflexivity|]. destruct (lookup n (s_keys st)); reflexivity.
  Qed.

  (* a token is an outsider for a scope: an admin key is configured, the token is not it, and it is not
     the key bound to the addressed database (whatever the reason: no binding, another key, no such database) *)
  Definition outsider (st : sstate) (sc : scope) (tok : option string) : Prop :=
    exists a, st.(s_admin) = Some a /\
      forall k, tok = Some k ->
        verify a k = false /\
        forall n b, sc = SDatabase n -> lookup n st.(s_keys) = Some b -> verify b k = false.

  Lemma gate_outsider : forall st sc tok, outsider st sc tok -> gate st sc tok = inr RUnauthorized.
  Proof.
    intros st sc tok [a [Ha H]]. unfold gate. rewrite Ha.
    destruct tok as [k|]; [|reflexivity].
    destruct (H k eq_refl) as [Hv Hb]. rewrite Hv.
    destruct sc as [|n]; [reflexivity|].
    destruct (lookup n (s_keys st)) as [b|] eqn:L; [|reflexivity].
    now rewrite (Hb n b eq_refl L).
  Qed.

  Lemma gate_inl_cases : forall st sc tok p,
      gate st sc tok = inl p ->
      (p = PAdmin /\ (st.(s_admin) = None \/ exists a k, st.(s_admin) = Some a /\ tok = Some k /\ verify a k = true)) \/
      (p = PDatabase /\ exists a k n b, st.(s_admin) = Some a /\ tok = Some k /\ verify a k = false /\ sc = SDatabase n /\
                                       lookup n st.(s_keys) = Some b /\ verify b k = true).
  Proof.
    intros st sc tok p. unfold gate.
    destruct (s_admin st) as [a|] eqn:Ha; [|intros H; inversion H; left; auto].
    destruct tok as [k|]; [|discriminate].
    destruct (verify a k) eqn:Va.
    - intros H; inversion H. left. split; [reflexivity|]. right. now exists a, k.
    - destruct sc as [|n]; [discriminate|].
      destruct (lookup n (s_keys st)) as [b|] eqn:L; [|discriminate].
      destruct (verify b k) eqn:Vb; [|discriminate].
      intros H; inversion H. right. split; [reflexivity|]. now exists a, k, n, b.
  Qed.

  (* ------------------------------------------------------------------ shape of [handle] *)
  Definition rpc_request (r : request) : Prop := r.(r_verb) = POST /\ route_of r.(r_path) <> RtNone.

  Lemma handle_non_rpc : forall st r, ~ rpc_request r ->
      handle T st r = RHealth \/ handle T st r = RNoRoute \/ handle T st r = RNotAllowed.
  Proof.
    intros st r N. unfold handle, rpc_request in *.
    destruct (route_of (r_path r)) eqn:R; destruct (r_verb r) eqn:V; auto.
    all: exfalso; apply N; split; congruence.
  Qed.

  Lemma handle_rpc : forall st r, rpc_request r ->
      handle T st r =
      match gate st (scope_of (route_of r.(r_path))) (bearer_token T r) with
      | inr e => e
      | inl p =>
        match r.(r_body) with
        | BTooLarge => RTooLarge
        | BMalformed => match r.(r_ctype) with CtNone => RUnsupportedMedia | _ => RBadRequest end
        | BOk m =>
          match r.(r_ctype) with
          | CtNone => RUnsupportedMedia
          | _ =>
            match route_of r.(r_path) with
            | RtDb name => match parse_method T.(t_db) m with
                           | None => RMethodNotFound
                           | Some (v, e) => if mem name st.(s_open) then RDispatchDb v e name p else RDbNotFound
                           end
            | _ => match parse_method T.(t_root) m with None => RMethodNotFound | Some (v, e) => RDispatchRoot v e end
            end
          end
        end
      end.
  Proof.
    intros st r [V R]. unfold handle. rewrite V.
    destruct (route_of (r_path r)) as [|name|] eqn:E; [| |contradiction].
    all: rewrite auth_result_gate; cbn [scope_of].
    all: destruct (gate st _ (bearer_token T r)) as [p|e] eqn:G; [|reflexivity].
    all: destruct (r_body r) eqn:B; [| |reflexivity].
    all: unfold execute_rpc; rewrite auth_result_gate; cbn [scope_of]; rewrite G, B.
    all: destruct (r_ctype r); reflexivity.
  Qed.

  (* the in-handler check is redundant behind the route layer, and sufficient without it *)
  Lemma handler_alone : forall st r, rpc_request r -> r.(r_body) <> BTooLarge ->
      handle T st r = execute_rpc T st (route_of r.(r_path)) r.
  Proof.
    intros st r [V R] NB. unfold handle. rewrite V.
    destruct (route_of (r_path r)) as [|name|] eqn:E; [| |contradiction].
    all: destruct (auth_result T st _ r) as [p|e] eqn:G; [|unfold execute_rpc; now rewrite G].
    all: destruct (r_body r); try reflexivity; contradiction.
  Qed.

  (* ------------------------------------------------------------------ (2) uniform rejection *)
  Theorem uniform_rejection : forall st r,
      rpc_request r -> outsider st (scope_of (route_of r.(r_path))) (bearer_token T r) ->
      handle T st r = RUnauthorized.
  Proof. intros st r R O. rewrite (handle_rpc st r R), (gate_outsider _ _ _ O). reflexivity. Qed.

  (* the same value whether the addressed database exists, is bound to another key, or does not exist,
     whatever the method, body or encoding *)
  Corollary rejection_reveals_nothing : forall st1 st2 r1 r2,
      rpc_request r1 -> rpc_request r2 ->
      outsider st1 (scope_of (route_of r1.(r_path))) (bearer_token T r1) ->
      outsider st2 (scope_of (route_of r2.(r_path))) (bearer_token T r2) ->
      handle T st1 r1 = handle T st2 r2.
  Proof. intros. rewrite !uniform_rejection; auto. Qed.

  (* ------------------------------------------------------------------ inversion of [handle] *)
  Lemma rpc_dec : forall r, {rpc_request r} + {~ rpc_request r}.
  Proof.
    intros r. unfold rpc_request.
    destruct (r_verb r); [right; intros [X _]; discriminate| |right; intros [X _]; discriminate].
    destruct (route_of (r_path r)); [left|left|right]; try (split; [reflexivity|discriminate]).
    intros [_ X]. now apply X.
  Qed.

  Lemma gate_inr : forall st sc tok e, gate st sc tok = inr e -> e = RUnauthorized.
  Proof.
    intros st sc tok e. unfold gate.
    destruct (s_admin st); [|discriminate]. destruct tok as [k|]; [|intros H; now inversion H].
    destruct (verify h k); [discriminate|]. destruct sc as [|n]; [intros H; now inversion H|].
    destruct (lookup n (s_keys st)) as [b|]; [destruct (verify b k); [discriminate|]|]; intros H; now inversion H.
  Qed.

  Lemma route_root_path : forall p, route_of p = RtRoot -> p = [].
  Proof. intros [|a [|b l]]; cbn; try reflexivity; try discriminate. destruct (String.eqb a ""); discriminate. Qed.
  Lemma route_db_path : forall p n, route_of p = RtDb n -> p = [n].
  Proof.
    intros [|a [|b l]] n; cbn; try discriminate.
    destruct (String.eqb a ""); [discriminate|]. intros H; now inversion H.
  Qed.

  Inductive handled : response -> Prop :=
  | H_root v e : handled (RDispatchRoot v e) | H_db v e d p : handled (RDispatchDb v e d p)
  | H_nf : handled RDbNotFound | H_tl : handled RTooLarge | H_um : handled RUnsupportedMedia
  | H_br : handled RBadRequest | H_mnf : handled RMethodNotFound.

  (* whatever is not one of the four "outside" answers was produced behind the gate *)
  Lemma handle_inv : forall st r,
      (handle T st r = RHealth \/ handle T st r = RNoRoute \/ handle T st r = RNotAllowed \/ handle T st r = RUnauthorized) \/
      (rpc_request r /\ handled (handle T st r) /\
       exists p, gate st (scope_of (route_of r.(r_path))) (bearer_token T r) = inl p /\
         (forall v e, handle T st r = RDispatchRoot v e ->
            route_of r.(r_path) = RtRoot /\ exists m, r.(r_body) = BOk m /\ parse_method T.(t_root) m = Some (v, e)) /\
         (forall v e d q, handle T st r = RDispatchDb v e d q ->
            q = p /\ route_of r.(r_path) = RtDb d /\ mem d st.(s_open) = true /\
            exists m, r.(r_body) = BOk m /\ parse_method T.(t_db) m = Some (v, e))).
  Proof.
    intros st r. destruct (rpc_dec r) as [R|N].
    2:{ left. destruct (handle_non_rpc st r N) as [X|[X|X]]; auto. }
    rewrite (handle_rpc st r R).
    destruct (gate st _ (bearer_token T r)) as [p|x] eqn:G.
    2:{ left. apply gate_inr in G. subst. auto. }
    right. split; [exact R|].
    destruct (r_body r) as [m| |] eqn:B.
    - destruct (r_ctype r) eqn:C.
      3:{ split; [constructor|]. exists p. split; [reflexivity|]. split; intros; discriminate. }
      all: destruct (route_of (r_path r)) as [|name|] eqn:E.
      all: try (destruct R as [_ R]; contradiction).
      all: try (destruct (parse_method (t_root T) m) as [[v' e']|] eqn:P;
                [split; [constructor|]; exists p; split; [reflexivity|]; split;
                 [intros v e H; inversion H; subst; split; [reflexivity|]; exists m; auto | intros; discriminate]
                |split; [constructor|]; exists p; split; [reflexivity|]; split; intros; discriminate]).
      all: destruct (parse_method (t_db T) m) as [[v' e']|] eqn:P;
           [destruct (mem name (s_open st)) eqn:M|]; (split; [constructor|]); exists p; (split; [reflexivity|]); split;
           try (intros; discriminate).
      all: intros v e d q H; inversion H; subst; split; [reflexivity|]; split; [reflexivity|]; split; [exact M|]; exists m; auto.
    - destruct (r_ctype r); (split; [constructor|]); exists p; (split; [reflexivity|]); split; intros; discriminate.
    - split; [constructor|]. exists p. split; [reflexivity|]. split; intros; discriminate.
  Qed.

  (* ------------------------------------------------------------------ (3) root is admin only *)
  Theorem root_is_admin_only : forall st r v e,
      handle T st r = RDispatchRoot v e ->
      r.(r_path) = [] /\ (exists n, In (n, v, e) T.(t_root)) /\
      (st.(s_admin) = None \/ exists a k, st.(s_admin) = Some a /\ bearer_token T r = Some k /\ verify a k = true).
  Proof.
    intros st r v e H.
    destruct (handle_inv st r) as [[X|[X|[X|X]]]|[R [_ [p [G [HR _]]]]]]; try (rewrite X in H; discriminate).
    destruct (HR v e H) as [E [m [B P]]].
    split; [now apply route_root_path|]. split; [exists m; now apply parse_method_in|].
    rewrite E in G. cbn [scope_of] in G. apply gate_inl_cases in G.
    destruct G as [[_ G]|[_ [a [k [n [b [_ [_ [_ [S _]]]]]]]]]]; [exact G|discriminate].
  Qed.

  (* ------------------------------------------------------------------ (1) a database key is confined *)
  (* [k] is not the admin key and verifies against no binding except possibly [A]'s *)
  Definition key_only_for (st : sstate) (k A : string) : Prop :=
    (exists a, st.(s_admin) = Some a /\ verify a k = false) /\
    forall B b, lookup B st.(s_keys) = Some b -> verify b k = true -> B = A.

  Theorem db_key_confined : forall st r k A,
      bearer_token T r = Some k -> key_only_for st k A ->
      match handle T st r with
      | RHealth | RNoRoute | RNotAllowed | RUnauthorized => True
      | RDispatchRoot _ _ | RError _ => False
      | RDispatchDb v e db p =>
          db = A /\ p = PDatabase /\ r.(r_path) = [A] /\ mem A st.(s_open) = true /\ exists n, In (n, v, e) T.(t_db)
      | RDbNotFound | RTooLarge | RUnsupportedMedia | RBadRequest | RMethodNotFound => r.(r_path) = [A]
      end.
  Proof.
    intros st r k A Tok [[a [Ha Va]] Only].
    destruct (handle_inv st r) as [[X|[X|[X|X]]]|[R [Hd [p [G [HR HD]]]]]]; try (rewrite X; exact I).
    rewrite Tok in G.
    (* behind the gate with a non-admin token: the scope is Database A and the principal is PDatabase *)
    assert (Gd : p = PDatabase /\ route_of (r_path r) = RtDb A).
    { apply gate_inl_cases in G. destruct G as [[_ [G|[a' [k' [Ha' [Hk Hv]]]]]]|[Hp [a' [k' [n [b [_ [Hk [_ [S [L Vb]]]]]]]]]]].
      - congruence.
      - inversion Hk; subst k'. rewrite Ha in Ha'. inversion Ha'; subst a'. congruence.
      - inversion Hk; subst k'. split; [exact Hp|].
        pose proof (Only n b L Vb) as E. subst n.
        destruct (route_of (r_path r)) as [|nm|]; cbn in S; try discriminate. now inversion S. }
    destruct Gd as [Hp E]. pose proof (route_db_path _ _ E) as Pth.
    inversion Hd as [v e Hh|v e d q Hh| Hh| Hh| Hh| Hh| Hh]; try exact Pth.
    - symmetry in Hh. destruct (HR v e Hh) as [E' _]. congruence.
    - symmetry in Hh. destruct (HD v e d q Hh) as [Hq [E' [M [m [B P]]]]].
      rewrite E in E'. inversion E'; subst d. subst q.
      repeat split; auto. exists m. now apply parse_method_in.
  Qed.

  (* a request that presents no usable token never gets behind the gate *)
  Theorem no_token_no_dispatch : forall st r,
      st.(s_admin) <> None -> bearer_token T r = None ->
      handle T st r = RHealth \/ handle T st r = RNoRoute \/ handle T st r = RNotAllowed \/ handle T st r = RUnauthorized.
  Proof.
    intros st r Ha Tok.
    destruct (handle_inv st r) as [X|[_ [_ [p [G _]]]]]; [exact X|].
    rewrite Tok in G. unfold gate in G. destruct (s_admin st); [discriminate|contradiction].
  Qed.

  (* whoever reaches a database handler was entitled to exactly that database *)
  Theorem dispatch_db_entitled : forall st r v e db p,
      handle T st r = RDispatchDb v e db p ->
      r.(r_path) = [db] /\ mem db st.(s_open) = true /\ (exists n, In (n, v, e) T.(t_db)) /\
      match p with
      | PAdmin => st.(s_admin) = None \/ exists a k, st.(s_admin) = Some a /\ bearer_token T r = Some k /\ verify a k = true
      | PDatabase => exists k b, bearer_token T r = Some k /\ lookup db st.(s_keys) = Some b /\ verify b k = true
      end.
  Proof.
    intros st r v e db p H.
    destruct (handle_inv st r) as [[X|[X|[X|X]]]|[R [_ [p' [G [_ HD]]]]]]; try (rewrite X in H; discriminate).
    destruct (HD v e db p H) as [Hq [E [M [m [B P]]]]]. subst p'.
    split; [now apply route_db_path|]. split; [exact M|]. split; [exists m; now apply parse_method_in|].
    rewrite E in G. cbn [scope_of] in G. apply gate_inl_cases in G.
    destruct G as [[Hp G]|[Hp [a [k [n [b [_ [Hk [_ [S [L Vb]]]]]]]]]]]; subst p; [exact G|].
    inversion S; subst n. now exists k, b.
  Qed.
End Proofs.
