(* C14 — the generated tables (gen/Gen_Server.v, re-extracted from /repo on every run) meet the hypotheses
   of Server/Proofs.v and Server/History.v; well-formedness of the method tables and dispatch arms. *)
From Coq Require Import List String Ascii Bool Arith Lia.
From Verif Require Import Server.Model Server.Proofs Server.History gen.Gen_Server.
Import ListNotations.
Open Scope string_scope.

Definition GT : tables := mk_tables authorize_rules root_table db_table bearer_prefix.

(* the rule list extracted from auth::authorize decides like the documented precedence, for every hash type
   and every verification function: by case analysis on the inputs and on the outcome of each verification *)
Lemma gen_rules_ok : forall (hash : Type) (verify : hash -> string -> bool) admin bound sc presented,
    authorize verify GT.(t_rules) admin bound sc presented = auth_ref verify admin bound sc presented.
Proof.
  intros hash verify admin bound sc presented. unfold GT, authorize_rules. cbn [t_rules].
  destruct admin as [a|], bound as [b|], sc as [|n], presented as [p|]; cbn;
    repeat match goal with |- context [verify ?x ?y] => destruct (verify x y) eqn:?; cbn end;
    try reflexivity; try congruence.
Qed.

(* ---- tables: one name, one effect, one dispatch arm per enum variant ---- *)
Definition variants_of (tbl : list mrow) : list string := map (fun r => snd (fst r)) tbl.
Fixpoint nodupb (l : list string) : bool := match l with [] => true | x :: r => negb (mem x r) && nodupb r end.
Definition same_set (a b : list string) : bool := forallb (fun x => mem x b) a && forallb (fun x => mem x a) b.

Definition table_wf (variants : list string) (tbl : list mrow) (arms : list arm) : bool :=
  nodupb variants
  && nodupb (names_of tbl) && nodupb (variants_of tbl) && same_set variants (variants_of tbl)
  && nodupb (map a_variant arms) && same_set variants (map a_variant arms).

(* a database-scope arm that mentions the server state must be the principal-gated scoped_info call on the
   path's database name; every other arm works on the handle resolved from that name *)
Definition db_arm_confined (a : arm) : bool :=
  if a.(a_state) then String.eqb a.(a_handler) "state.scoped_info" && a.(a_principal) && a.(a_db_name) else a.(a_db).

Definition tables_ok : bool :=
  table_wf root_variants root_table root_dispatch && table_wf db_variants db_table db_dispatch
  && forallb db_arm_confined db_dispatch && scoped_info_gated.

Lemma nodupb_NoDup : forall l, nodupb l = true -> NoDup l.
Proof.
  induction l as [|x r IH]; cbn; intros H; [constructor|].
  apply andb_true_iff in H. destruct H as [H1 H2]. constructor; [|now apply IH].
  intros X. apply (proj2 (mem_in x r)) in X. rewrite X in H1. discriminate.
Qed.

Lemma table_wf_spec : forall variants tbl arms, table_wf variants tbl arms = true ->
    (forall n v e, In (n, v, e) tbl -> parse_method tbl n = Some (v, e)) /\
    (forall v, In v variants -> (exists n e, parse_method tbl n = Some (v, e)) /\ exists a, In a arms /\ a_variant a = v) /\
    (forall n v e, parse_method tbl n = Some (v, e) -> In v variants).
Proof.
  intros variants tbl arms H. unfold table_wf in H.
  repeat (apply andb_true_iff in H; destruct H as [H ?]).
  match goal with X : nodupb (names_of tbl) = true |- _ => pose proof (nodupb_NoDup _ X) as ND end.
  assert (Complete : forall n v e, In (n, v, e) tbl -> parse_method tbl n = Some (v, e))
    by (intros; now apply parse_method_complete).
  unfold same_set in *.
  repeat match goal with X : (_ && _)%bool = true |- _ => apply andb_true_iff in X; destruct X end.
  repeat match goal with X : forallb _ _ = true |- _ => rewrite forallb_forall in X end.
  split; [exact Complete|]. split.
  - intros v Hv. split.
    + match goal with X : forall x, In x variants -> mem x (variants_of tbl) = true |- _ => pose proof (X v Hv) as M end.
      apply mem_in in M. unfold variants_of in M. apply in_map_iff in M. destruct M as [[[n v'] e] [E Hin]]. cbn in E. subst v'.
      exists n, e. now apply Complete.
    + match goal with X : forall x, In x variants -> mem x (map a_variant arms) = true |- _ => pose proof (X v Hv) as M end.
      apply mem_in in M. apply in_map_iff in M. destruct M as [a [E Hin]]. now exists a.
  - intros n v e P. apply parse_method_in in P.
    match goal with X : forall x, In x (variants_of tbl) -> mem x variants = true |- _ => apply mem_in; apply X end.
    unfold variants_of. apply in_map_iff. exists (n, v, e). split; [reflexivity|exact P].
Qed.
