(* C14 — invariants of the server state over arbitrary histories of admin operations
   (db.create / db.open / db.connect / db.close / db.set_api_key / db.remove_api_key / restart). *)
From Coq Require Import List String Ascii Bool Arith Lia.
From Verif Require Import Server.Model Server.Proofs.
Import ListNotations.
Open Scope string_scope.

Section History.
  Context {hash : Type}.
  Variable hash_of : string -> hash.
  Variable verify : hash -> string -> bool.
  (* collision freedom of the key hash: a digest verifies exactly the key it was made from *)
  Hypothesis verify_spec : forall k k', verify (hash_of k) k' = String.eqb k k'.

  Notation sstate := (sstate hash).
  Notation apply_op := (apply_op hash_of).
  Notation run_history := (run_history hash_of).
  Notation init_state := (init_state hash_of).

  (* a binding (n, hash k) was put there by an admin operation of the history naming n and k *)
  Definition binds (o : op) (n k : string) : Prop := o = OCreate n (Some k) \/ o = OSetKey n k.

  Record inv (admin : option string) (primary : string) (h : list op) (st : sstate) : Prop := {
    inv_admin : st.(s_admin) = option_map hash_of admin;
    inv_primary : st.(s_primary) = primary;
    inv_no_admin_no_keys : admin = None -> st.(s_keys) = [];
    inv_primary_unbound : lookup primary st.(s_keys) = None;
    inv_origin : forall n b, lookup n st.(s_keys) = Some b -> exists k o, b = hash_of k /\ In o h /\ binds o n k;
    inv_sync : st.(s_pkeys) = st.(s_keys)      (* what a restart would reload is what is in force now *)
  }.

  Lemma check_binding_none : forall (st : sstate) n k,
      check_binding st n k = None -> st.(s_admin) <> None /\ n <> st.(s_primary).
  Proof.
    intros st n k. unfold check_binding.
    destruct (blank k); [discriminate|]. destruct (s_admin st); [|discriminate].
    destruct (String.eqb n (s_primary st)) eqn:E; [discriminate|].
    intros _. split; [discriminate|]. now apply String.eqb_neq.
  Qed.

  Lemma check_binding_some : forall (st : sstate) n k e, check_binding st n k = Some e -> e <> OpOk.
  Proof.
    intros st n k e. unfold check_binding.
    destruct (blank k); [intros X; inversion X; discriminate|]. destruct (s_admin st); [|intros X; inversion X; discriminate].
    destruct (String.eqb n (s_primary st)); [intros X; inversion X; discriminate|discriminate].
  Qed.

  Lemma inv_weaken : forall admin primary h o st, inv admin primary h st -> inv admin primary (h ++ [o])%list st.
  Proof.
    intros admin primary h o st [I1 I2 I3 I4 I5 I6]. constructor; auto.
    intros n b L. destruct (I5 n b L) as [k [o' [E [Hin B]]]]. exists k, o'. repeat split; auto. apply in_or_app. now left.
  Qed.

  (* the key map after binding n := hash k, justified by operation o *)
  Lemma inv_insert : forall admin primary h o (st : sstate) n k keys',
      inv admin primary h st -> binds o n k -> st.(s_admin) <> None -> n <> primary ->
      forall st', s_admin st' = s_admin st -> s_primary st' = s_primary st -> s_keys st' = insert n (hash_of k) st.(s_keys) ->
      keys' = s_keys st' -> s_pkeys st' = s_keys st' -> inv admin primary (h ++ [o])%list st'.
  Proof.
    intros admin primary h o st n k keys' [I1 I2 I3 I4 I5 I6] B Ha Np st' E1 E2 E3 _ E4. constructor; [| | | | |exact E4].
    - congruence.
    - congruence.
    - intros N. subst admin. rewrite I1 in Ha. now contradiction Ha.
    - rewrite E3. rewrite lookup_insert_other; auto.
    - intros m b. rewrite E3. destruct (string_dec m n) as [->|N].
      + rewrite lookup_insert_same. intros X; inversion X; subst. exists k, o. repeat split; auto. apply in_or_app. right. now left.
      + rewrite lookup_insert_other; auto. intros L. destruct (I5 m b L) as [k' [o' [E [Hin B']]]].
        exists k', o'. repeat split; auto. apply in_or_app. now left.
  Qed.

  Lemma inv_same_keys : forall admin primary h o (st st' : sstate),
      inv admin primary h st -> s_admin st' = s_admin st -> s_primary st' = s_primary st -> s_keys st' = s_keys st ->
      s_pkeys st' = s_keys st' -> inv admin primary (h ++ [o])%list st'.
  Proof.
    intros admin primary h o st st' I E1 E2 E3 E4. apply (inv_weaken _ _ _ o) in I. destruct I as [I1 I2 I3 I4 I5 I6].
    constructor; try congruence.
    - intros N. rewrite E3. now apply I3.
    - intros n b. rewrite E3. apply I5.
  Qed.

  Lemma inv_remove : forall admin primary h o (st st' : sstate) n,
      inv admin primary h st -> s_admin st' = s_admin st -> s_primary st' = s_primary st -> s_keys st' = remove_key n (s_keys st) ->
      s_pkeys st' = s_keys st' -> inv admin primary (h ++ [o])%list st'.
  Proof.
    intros admin primary h o st st' n I E1 E2 E3 E4. apply (inv_weaken _ _ _ o) in I. destruct I as [I1 I2 I3 I4 I5 I6].
    constructor; try congruence.
    - intros N. rewrite E3, (I3 N). reflexivity.
    - rewrite E3. destruct (string_dec primary n) as [->|N]; [apply lookup_remove_same|]. rewrite lookup_remove_other; auto.
    - intros m b. rewrite E3. destruct (string_dec m n) as [->|N]; [rewrite lookup_remove_same; discriminate|].
      rewrite lookup_remove_other; auto.
  Qed.

  Lemma register_db_inv : forall admin primary h st mode n key o,
      inv admin primary h st -> (forall k, key = Some k -> binds o n k) ->
      inv admin primary (h ++ [o])%list (fst (register_db hash_of st mode n key)).
  Proof.
    intros admin primary h st mode n key o I B. pose proof (inv_sync _ _ _ _ I) as Sy. unfold register_db.
    destruct (negb (valid_name n)); [cbn; eapply inv_same_keys; eauto|].
    destruct key as [k|].
    - destruct (check_binding st n k) as [e|] eqn:C; [cbn; eapply inv_same_keys; eauto|].
      apply check_binding_none in C. destruct C as [Ha Np].
      destruct (mem n (s_open st)); [cbn; eapply inv_same_keys; eauto|].
      destruct (negb (mem n (s_registry st)) && Nat.leb (s_max st) (List.length (s_registry st))); [cbn; eapply inv_same_keys; eauto|].
      rewrite (inv_primary _ _ _ _ I) in Np.
      destruct mode; destruct (mem n (s_disk st)); cbn; try (eapply inv_same_keys; eauto; fail).
      all: eapply inv_insert with (n := n) (k := k); eauto.
    - destruct (mem n (s_open st)); [cbn; eapply inv_same_keys; eauto|].
      destruct (negb (mem n (s_registry st)) && Nat.leb (s_max st) (List.length (s_registry st))); [cbn; eapply inv_same_keys; eauto|].
      destruct mode; destruct (mem n (s_disk st)); cbn; eapply inv_same_keys; eauto.
  Qed.

  Lemma apply_op_inv : forall admin primary h st o,
      inv admin primary h st -> inv admin primary (h ++ [o])%list (fst (apply_op st o)).
  Proof.
    intros admin primary h st o I. pose proof (inv_sync _ _ _ _ I) as Sy. destruct o as [n k|n|n|n|n k|n|]; cbn [apply_op].
    - apply register_db_inv; auto. intros k' E; subst k. now left.
    - apply register_db_inv; auto. intros k' E; discriminate.
    - apply register_db_inv; auto. intros k' E; discriminate.
    - unfold close_db. destruct (String.eqb n (s_primary st)); [cbn; eapply inv_same_keys; eauto|].
      destruct (negb (mem n (s_open st)) && negb (mem n (s_registry st))); cbn; eapply inv_same_keys; eauto.
    - unfold set_db_api_key. destruct (check_binding st n k) as [e|] eqn:C; [cbn; eapply inv_same_keys; eauto|].
      apply check_binding_none in C. destruct C as [Ha Np]. rewrite (inv_primary _ _ _ _ I) in Np.
      destruct (known_db st n); cbn; [|eapply inv_same_keys; eauto].
      eapply inv_insert with (n := n) (k := k); eauto. now right.
    - unfold remove_db_api_key. destruct (known_db st n); cbn; [|eapply inv_same_keys; eauto].
      eapply inv_remove with (n := n) (st := st); eauto.
    - cbn. eapply inv_same_keys; eauto.
  Qed.

  Lemma run_history_inv : forall admin primary h2 h1 st,
      inv admin primary h1 st -> inv admin primary (h1 ++ h2)%list (run_history st h2).
  Proof.
    induction h2 as [|o r IH]; intros h1 st I; cbn.
    - now rewrite app_nil_r.
    - replace (h1 ++ o :: r)%list with ((h1 ++ [o]) ++ r)%list by (rewrite <- app_assoc; reflexivity).
      apply IH. now apply apply_op_inv.
  Qed.

  Theorem history_invariant : forall admin primary max h,
      inv admin primary h (run_history (init_state admin primary max) h).
  Proof.
    intros. apply (run_history_inv admin primary h []).
    constructor; cbn; auto. intros n b X; discriminate.
  Qed.

  (* ---- consequences, through the model's request handler ---- *)
  Variable T : tables.
  Hypothesis Hrules : forall admin bound sc presented,
      authorize verify T.(t_rules) admin bound sc presented = auth_ref verify admin bound sc presented.
  Notation handle := (handle verify).

  (* After any history on a server started with admin key [ka], a caller whose token is not [ka] reaches
     no root method, and reaches a database handler only for a database other than the primary one to which
     an admin operation of that history bound exactly this token - and then as Principal::Database. *)
  Theorem history_confined : forall ka primary max h r k,
      bearer_token T r = Some k -> k <> ka ->
      match handle T (run_history (init_state (Some ka) primary max) h) r with
      | RDispatchRoot _ _ | RError _ => False
      | RDispatchDb v e db p =>
          p = PDatabase /\ r.(r_path) = [db] /\ db <> primary /\ (exists o, In o h /\ binds o db k) /\ exists n, In (n, v, e) T.(t_db)
      | _ => True
      end.
  Proof.
    intros ka primary max h r k Tok Nk.
    set (st := run_history (init_state (Some ka) primary max) h).
    pose proof (history_invariant (Some ka) primary max h) as I. fold st in I.
    destruct (handle T st r) as [| | | |c| | | | | |v e|v e db p] eqn:H; auto.
    - (* RError *)
      destruct (handle_inv verify T Hrules st r) as [[X|[X|[X|X]]]|[_ [Hd _]]]; try congruence.
      rewrite H in Hd. inversion Hd.
    - (* root *)
      destruct (root_is_admin_only verify T Hrules st r v e H) as [_ [_ [X|[a [k' [Ha [Hk V]]]]]]].
      + rewrite (inv_admin _ _ _ _ I) in X. discriminate.
      + rewrite (inv_admin _ _ _ _ I) in Ha. cbn in Ha. inversion Ha; subst a. rewrite Tok in Hk. inversion Hk; subst k'.
        rewrite verify_spec in V. apply String.eqb_eq in V. congruence.
    - (* database *)
      destruct (dispatch_db_entitled verify T Hrules st r v e db p H) as [Pth [_ [Hn Hp]]].
      destruct p.
      + exfalso. destruct Hp as [X|[a [k' [Ha [Hk V]]]]].
        * rewrite (inv_admin _ _ _ _ I) in X. discriminate.
        * rewrite (inv_admin _ _ _ _ I) in Ha. cbn in Ha. inversion Ha; subst a. rewrite Tok in Hk. inversion Hk; subst k'.
          rewrite verify_spec in V. apply String.eqb_eq in V. congruence.
      + destruct Hp as [k' [b [Hk [L V]]]]. rewrite Tok in Hk. inversion Hk; subst k'.
        split; [reflexivity|]. split; [exact Pth|]. split.
        * intros E. subst db. rewrite (inv_primary_unbound _ _ _ _ I) in L. discriminate.
        * split; [|exact Hn]. destruct (inv_origin _ _ _ _ I db b L) as [k2 [o [Eb [Hin B]]]].
          subst b. rewrite verify_spec in V. apply String.eqb_eq in V. subst k2. now exists o.
  Qed.

  (* rotation and removal revoke: right after db.set_api_key n k2 / db.remove_api_key n succeeded, a token
     k1 that is neither k2 nor the admin key is rejected on /n like any outsider *)
  Theorem rotation_revokes : forall (st : sstate) ka n k1 k2 r,
      st.(s_admin) = Some (hash_of ka) -> snd (set_db_api_key hash_of st n k2) = OpOk ->
      k1 <> k2 -> k1 <> ka -> bearer_token T r = Some k1 -> r.(r_verb) = POST -> r.(r_path) = [n] -> n <> "" ->
      handle T (fst (set_db_api_key hash_of st n k2)) r = RUnauthorized.
  Proof.
    intros st ka n k1 k2 r Ha Ok N12 N1a Tok V P Ne.
    assert (En : String.eqb n "" = false) by now apply String.eqb_neq.
    apply (uniform_rejection verify T Hrules).
    - split; [exact V|]. rewrite P. cbn. rewrite En. discriminate.
    - unfold set_db_api_key in *. destruct (check_binding st n k2) as [e0|] eqn:CB;
        [cbn in Ok; apply check_binding_some in CB; contradiction|].
      destruct (known_db st n); [|cbn in Ok; discriminate]. cbn [fst].
      exists (hash_of ka). split; [exact Ha|]. intros k E. rewrite Tok in E. inversion E; subst k.
      split; [rewrite verify_spec; apply String.eqb_neq; congruence|].
      intros m b S L. rewrite P in S. cbn in S. rewrite En in S. cbn in S. inversion S; subst m.
      unfold set_keys in L; cbn [s_keys] in L. rewrite lookup_insert_same in L. inversion L; subst b. rewrite verify_spec. apply String.eqb_neq. congruence.
  Qed.

  Theorem removal_revokes : forall (st : sstate) ka n k1 r,
      st.(s_admin) = Some (hash_of ka) -> snd (remove_db_api_key st n) = OpOk ->
      k1 <> ka -> bearer_token T r = Some k1 -> r.(r_verb) = POST -> r.(r_path) = [n] -> n <> "" ->
      handle T (fst (remove_db_api_key st n)) r = RUnauthorized.
  Proof.
    intros st ka n k1 r Ha Ok N1a Tok V P Ne.
    assert (En : String.eqb n "" = false) by now apply String.eqb_neq.
    apply (uniform_rejection verify T Hrules).
    - split; [exact V|]. rewrite P. cbn. rewrite En. discriminate.
    - unfold remove_db_api_key in *. destruct (known_db st n); [|cbn in Ok; discriminate]. cbn [fst].
      exists (hash_of ka). split; [exact Ha|]. intros k E. rewrite Tok in E. inversion E; subst k.
      split; [rewrite verify_spec; apply String.eqb_neq; congruence|].
      intros m b S L. rewrite P in S. cbn in S. rewrite En in S. cbn in S. inversion S; subst m.
      unfold set_keys in L; cbn [s_keys] in L. rewrite lookup_remove_same in L. discriminate.
  Qed.

  (* db.close / db.open / db.connect / restart never touch a binding: closing is not revocation, and a
     reopened database does not come back under the admin-key fallback *)
  Theorem lifecycle_keeps_bindings : forall (st : sstate) o,
      (match o with OClose _ | OOpen _ | OConnect _ | ORestart | OCreate _ None => True | _ => False end) ->
      s_pkeys st = s_keys st ->
      s_keys (fst (apply_op st o)) = s_keys st /\ s_admin (fst (apply_op st o)) = s_admin st.
  Proof.
    intros st o Ho Sy. destruct o as [n [k|]|n|n|n|n k|n|]; try contradiction; cbn [apply_op].
    1-3: unfold register_db; destruct (negb (valid_name n)); [auto|]; cbn;
         destruct (mem n (s_open st)); [auto|];
         destruct (negb (mem n (s_registry st)) && Nat.leb (s_max st) (List.length (s_registry st))); [auto|];
         match goal with |- context [match ?m with MCreate => _ | MOpen => _ | MConnect => _ end] => idtac | _ => idtac end;
         destruct (mem n (s_disk st)); cbn; auto.
    - unfold close_db. destruct (String.eqb n (s_primary st)); [auto|].
      destruct (negb (mem n (s_open st)) && negb (mem n (s_registry st))); cbn; auto.
    - cbn. auto.
  Qed.

  (* revocation is durable: the same rejection after the server is restarted over the same object store *)
  Theorem rotation_survives_restart : forall (st : sstate) ka n k1 k2 r,
      st.(s_admin) = Some (hash_of ka) -> snd (set_db_api_key hash_of st n k2) = OpOk ->
      k1 <> k2 -> k1 <> ka -> bearer_token T r = Some k1 -> r.(r_verb) = POST -> r.(r_path) = [n] -> n <> "" ->
      handle T (restart (fst (set_db_api_key hash_of st n k2))) r = RUnauthorized.
  Proof.
    intros st ka n k1 k2 r Ha Ok N12 N1a Tok V P Ne.
    assert (En : String.eqb n "" = false) by now apply String.eqb_neq.
    apply (uniform_rejection verify T Hrules).
    - split; [exact V|]. rewrite P. cbn. rewrite En. discriminate.
    - unfold set_db_api_key in *. destruct (check_binding st n k2) as [e0|] eqn:CB;
        [cbn in Ok; apply check_binding_some in CB; contradiction|].
      destruct (known_db st n); [|cbn in Ok; discriminate]. cbn [fst].
      exists (hash_of ka). split; [exact Ha|]. intros k E. rewrite Tok in E. inversion E; subst k.
      split; [rewrite verify_spec; apply String.eqb_neq; congruence|].
      intros m b S L. rewrite P in S. cbn in S. rewrite En in S. cbn in S. inversion S; subst m.
      unfold restart, set_keys in L; cbn [s_keys s_pkeys] in L. rewrite lookup_insert_same in L. inversion L; subst b.
      rewrite verify_spec. apply String.eqb_neq. congruence.
  Qed.

  Theorem removal_survives_restart : forall (st : sstate) ka n k1 r,
      st.(s_admin) = Some (hash_of ka) -> snd (remove_db_api_key st n) = OpOk ->
      k1 <> ka -> bearer_token T r = Some k1 -> r.(r_verb) = POST -> r.(r_path) = [n] -> n <> "" ->
      handle T (restart (fst (remove_db_api_key st n))) r = RUnauthorized.
  Proof.
    intros st ka n k1 r Ha Ok N1a Tok V P Ne.
    assert (En : String.eqb n "" = false) by now apply String.eqb_neq.
    apply (uniform_rejection verify T Hrules).
    - split; [exact V|]. rewrite P. cbn. rewrite En. discriminate.
    - unfold remove_db_api_key in *. destruct (known_db st n); [|cbn in Ok; discriminate]. cbn [fst].
      exists (hash_of ka). split; [exact Ha|]. intros k E. rewrite Tok in E. inversion E; subst k.
      split; [rewrite verify_spec; apply String.eqb_neq; congruence|].
      intros m b S L. rewrite P in S. cbn in S. rewrite En in S. cbn in S. inversion S; subst m.
      unfold restart, set_keys in L; cbn [s_keys s_pkeys] in L. rewrite lookup_remove_same in L. discriminate.
  Qed.
End History.
