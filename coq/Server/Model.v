(* C14 — executable model of anda_db_server's authorization and dispatch.

   Transcribes (keeping the branch order of the code):
     auth.rs       authorize                       -> authorize (interpreting the generated rule list)
     state.rs      AppState::authorize, get_db,
                   register_db, close_db, set_db_api_key, remove_db_api_key,
                   check_api_key_binding, require_known_db, connect (restart)
     api/mod.rs    bearer_token, scope_from_params, require_auth, execute_rpc,
                   rpc_root / rpc_db, RootMethod/DbMethod::parse (generated tables), dispatch_*
     lib.rs        build_router (routes, body limit)
   Handler bodies are not modelled: a request that reaches a handler is the response
   [RDispatchRoot]/[RDispatchDb] carrying what the handler is given (variant, database, principal).
   Hashes are abstract: [hash], [hash_of], [verify] are parameters (see Proofs.v for the hypothesis). *)
From Coq Require Import List String Ascii Bool Arith.
Import ListNotations.
Open Scope string_scope.

Inductive effect := Read | Mutating.
Inductive principal := PAdmin | PDatabase.
Inductive scope := SRoot | SDatabase (name : string).

(* ---- generated-table row types (instantiated by gen/Gen_Server.v) ---- *)
Definition mrow : Type := string * string * effect.          (* method name, enum variant, effect *)
Record arm := mk_arm { a_variant : string; a_handler : string; a_state : bool; a_db : bool; a_db_name : bool; a_principal : bool }.

Inductive outcome := OkAdmin | OkDatabase | ErrUnauthorized | ErrOther (code : string).
Inductive guard :=
| GNoAdminKey          (* let Some(admin) = admin else { return .. } *)
| GAdminVerifies       (* if let Some(presented) = presented && admin.verify(presented) *)
| GScopeRoot           (* match scope { Scope::Root => .. *)
| GDbBoundVerifies     (* Scope::Database(_) => match (bound, presented) { (Some(b), Some(p)) if b.verify(p) => .. *)
| GDbOtherwise.        (* Scope::Database(_) => .. _ => .. *)
Definition rule : Type := guard * outcome.

Definition effect_eqb (a b : effect) := match a, b with Read, Read | Mutating, Mutating => true | _, _ => false end.

Fixpoint lookup {A} (k : string) (m : list (string * A)) : option A :=
  match m with [] => None | (k', v) :: r => if String.eqb k k' then Some v else lookup k r end.
Fixpoint remove_key {A} (k : string) (m : list (string * A)) : list (string * A) :=
  match m with [] => [] | (k', v) :: r => if String.eqb k k' then remove_key k r else (k', v) :: remove_key k r end.
Definition insert {A} (k : string) (v : A) (m : list (string * A)) := (k, v) :: remove_key k m.
Fixpoint mem (k : string) (l : list string) : bool :=
  match l with [] => false | x :: r => String.eqb k x || mem k r end.
Fixpoint remove_str (k : string) (l : list string) : list string :=
  match l with [] => [] | x :: r => if String.eqb k x then remove_str k r else x :: remove_str k r end.
Definition add_str (k : string) (l : list string) := if mem k l then l else k :: l.

(* RootMethod::parse / DbMethod::parse : first matching arm *)
Fixpoint parse_method (tbl : list mrow) (name : string) : option (string * effect) :=
  match tbl with
  | [] => None
  | (n, v, e) :: r => if String.eqb name n then Some (v, e) else parse_method r name
  end.

(* anda_db_schema::validate_field_name *)
Definition name_char_ok (c : ascii) : bool :=
  let n := nat_of_ascii c in
  (Nat.leb 97 n && Nat.leb n 122) || (Nat.leb 48 n && Nat.leb n 57) || Nat.eqb n 95.
Fixpoint all_chars (f : ascii -> bool) (s : string) : bool :=
  match s with EmptyString => true | String c r => f c && all_chars f r end.
Definition valid_name (s : string) : bool :=
  negb (String.eqb s "") && Nat.leb (String.length s) 64 && all_chars name_char_ok s.

(* key.trim().is_empty() *)
Definition is_ws (c : ascii) : bool :=
  let n := nat_of_ascii c in Nat.eqb n 32 || (Nat.leb 9 n && Nat.leb n 13).
Definition blank (s : string) : bool := all_chars is_ws s.

(* api/mod.rs bearer_token: header value -> strip_prefix("Bearer ") *)
Fixpoint strip_prefix (p s : string) : option string :=
  match p, s with
  | EmptyString, _ => Some s
  | String a p', String b s' => if Ascii.eqb a b then strip_prefix p' s' else None
  | _, _ => None
  end.

Section WithHash.
  Context {hash : Type}.
  Variable hash_of : string -> hash.
  Variable verify : hash -> string -> bool.

  Definition guard_holds (g : guard) (admin bound : option hash) (sc : scope) (presented : option string) : bool :=
    match g with
    | GNoAdminKey => match admin with None => true | Some _ => false end
    | GAdminVerifies => match admin, presented with Some a, Some p => verify a p | _, _ => false end
    | GScopeRoot => match sc with SRoot => true | SDatabase _ => false end
    | GDbBoundVerifies => match sc, bound, presented with SDatabase _, Some b, Some p => verify b p | _, _, _ => false end
    | GDbOtherwise => match sc with SDatabase _ => true | SRoot => false end
    end.

  (* auth::authorize as the first rule of the (generated) list whose guard holds *)
  Fixpoint authorize (rules : list rule) (admin bound : option hash) (sc : scope) (presented : option string) : outcome :=
    match rules with
    | [] => ErrOther "no rule applies"
    | (g, o) :: rest => if guard_holds g admin bound sc presented then o else authorize rest admin bound sc presented
    end.

  (* ---- server state ---- *)
  Record sstate := mk_state {
    s_admin : option hash;                 (* Inner::admin_key *)
    s_keys : list (string * hash);         (* Inner::api_keys, persisted under server:api_keys *)
    s_open : list string;                  (* keys of Inner::databases *)
    s_registry : list string;              (* Inner::registry *)
    s_disk : list string;                  (* databases whose metadata object exists in the object store *)
    s_primary : string;
    s_max : nat;                           (* ServerOptions::max_databases *)
    s_pkeys : list (string * hash);        (* the server:api_keys extension of the primary database, as last written *)
    s_preg : list string                   (* the server:databases extension of the primary database, as last written *)
  }.

  Definition init_state (admin : option string) (primary : string) (max : nat) : sstate :=
    mk_state (option_map hash_of admin) [] [primary] [] [primary] primary max [] [].

  (* AppState::authorize *)
  Definition state_authorize (rules : list rule) (st : sstate) (sc : scope) (presented : option string) : outcome :=
    let bound := match sc with SRoot => None | SDatabase name => lookup name st.(s_keys) end in
    authorize rules st.(s_admin) bound sc presented.

  (* ---- the admin operations that make up a history ---- *)
  Inductive op :=
  | OCreate (name : string) (key : option string)
  | OOpen (name : string)
  | OConnect (name : string)
  | OClose (name : string)
  | OSetKey (name : string) (key : string)      (* db.set_api_key with a supplied key; a generated key is a supplied fresh one *)
  | ORemoveKey (name : string)
  | ORestart.                                    (* shutdown + AppState::connect over the same store, same admin key *)

  Inductive opres := OpOk | OpInvalidInput | OpConflict | OpAlreadyExists | OpNotFound | OpLimit.

  (* store_api_key: change the in-memory map, then persist_api_keys writes the whole map into the extension *)
  Definition set_keys st k :=
    mk_state st.(s_admin) k st.(s_open) st.(s_registry) st.(s_disk) st.(s_primary) st.(s_max) k st.(s_preg).

  (* AppState::check_api_key_binding *)
  Definition check_binding (st : sstate) (name key : string) : option opres :=
    if blank key then Some OpInvalidInput
    else match st.(s_admin) with
         | None => Some OpConflict
         | Some _ => if String.eqb name st.(s_primary) then Some OpConflict else None
         end.

  Inductive open_mode := MCreate | MOpen | MConnect.

  (* AppState::register_db *)
  Definition register_db (st : sstate) (mode : open_mode) (name : string) (key : option string) : sstate * opres :=
    if negb (valid_name name) then (st, OpInvalidInput) else
    match (match key with Some k => check_binding st name k | None => None end) with
    | Some e => (st, e)
    | None =>
      if mem name st.(s_open) then
        (st, match mode with MCreate => OpAlreadyExists | _ => OpOk end)
      else if negb (mem name st.(s_registry)) && Nat.leb st.(s_max) (List.length st.(s_registry)) then (st, OpLimit)
      else
        let on_disk := mem name st.(s_disk) in
        match mode, on_disk with
        | MCreate, true => (st, OpAlreadyExists)
        | MOpen, false => (st, OpNotFound)
        | _, _ =>
          let keys := match key with Some k => insert name (hash_of k) st.(s_keys) | None => st.(s_keys) end in
          let pkeys := match key with Some _ => keys | None => st.(s_pkeys) end in      (* store_api_key persists *)
          (mk_state st.(s_admin) keys (add_str name st.(s_open)) (add_str name st.(s_registry))
                    (add_str name st.(s_disk)) st.(s_primary) st.(s_max) pkeys (add_str name st.(s_registry)), OpOk)   (* persist_registry *)
        end
    end.

  (* AppState::close_db *)
  Definition close_db (st : sstate) (name : string) : sstate * opres :=
    if String.eqb name st.(s_primary) then (st, OpInvalidInput)
    else if negb (mem name st.(s_open)) && negb (mem name st.(s_registry)) then (st, OpNotFound)
    else (mk_state st.(s_admin) st.(s_keys) (remove_str name st.(s_open)) (remove_str name st.(s_registry))
                   st.(s_disk) st.(s_primary) st.(s_max) st.(s_pkeys) (remove_str name st.(s_registry)), OpOk).

  (* AppState::require_known_db *)
  Definition known_db (st : sstate) (name : string) : bool := mem name st.(s_open) || mem name st.(s_registry).

  (* AppState::set_db_api_key *)
  Definition set_db_api_key (st : sstate) (name key : string) : sstate * opres :=
    match check_binding st name key with
    | Some e => (st, e)
    | None => if known_db st name then (set_keys st (insert name (hash_of key) st.(s_keys)), OpOk) else (st, OpNotFound)
    end.

  (* AppState::remove_db_api_key *)
  Definition remove_db_api_key (st : sstate) (name : string) : sstate * opres :=
    if known_db st name then (set_keys st (remove_key name st.(s_keys)), OpOk) else (st, OpNotFound).

  (* AppState::connect over the same object store: the key map and the registry are what the two
     extensions of the primary database say, not what the previous process had in memory *)
  Definition restart (st : sstate) : sstate :=
    let reg := filter (fun n => negb (String.eqb n st.(s_primary))) st.(s_preg) in
    mk_state st.(s_admin) st.(s_pkeys)
             (st.(s_primary) :: filter (fun n => mem n st.(s_disk)) reg)
             reg st.(s_disk) st.(s_primary) st.(s_max) st.(s_pkeys) st.(s_preg).

  Definition apply_op (st : sstate) (o : op) : sstate * opres :=
    match o with
    | OCreate n k => register_db st MCreate n k
    | OOpen n => register_db st MOpen n None
    | OConnect n => register_db st MConnect n None
    | OClose n => close_db st n
    | OSetKey n k => set_db_api_key st n k
    | ORemoveKey n => remove_db_api_key st n
    | ORestart => (restart st, OpOk)
    end.

  Fixpoint run_history (st : sstate) (h : list op) : sstate :=
    match h with [] => st | o :: r => run_history (fst (apply_op st o)) r end.
  Fixpoint history_results (st : sstate) (h : list op) : list opres :=
    match h with [] => [] | o :: r => snd (apply_op st o) :: history_results (fst (apply_op st o)) r end.

  (* ---- HTTP layer ---- *)
  Inductive verb := GET | POST | OTHER.
  Inductive ctype := CtCbor | CtJson | CtNone.            (* Content-Type recognised as CBOR / JSON / anything else or absent *)
  Inductive body := BOk (method : string) | BMalformed | BTooLarge.
  Record request := mk_req {
    r_verb : verb;
    r_path : list string;          (* percent-decoded path segments: "/" = [], "/x" = ["x"], "/x/" = ["x"; ""] *)
    r_auth : option string;        (* the Authorization header value, if any (visible ASCII) *)
    r_ctype : ctype;
    r_body : body
  }.

  Inductive response :=
  | RHealth                         (* GET / *)
  | RNoRoute                        (* router fallback 404 *)
  | RNotAllowed                     (* 405 *)
  | RUnauthorized                   (* ApiError::unauthorized() *)
  | RError (code : string)          (* any other error an authorize rule returns *)
  | RTooLarge | RUnsupportedMedia | RBadRequest | RMethodNotFound
  | RDbNotFound                     (* get_db: database not open *)
  | RDispatchRoot (variant : string) (e : effect)
  | RDispatchDb (variant : string) (e : effect) (db : string) (p : principal).

  Record tables := mk_tables { t_rules : list rule; t_root : list mrow; t_db : list mrow; t_prefix : string }.

  Definition bearer_token (T : tables) (r : request) : option string :=
    match r.(r_auth) with None => None | Some v => strip_prefix T.(t_prefix) v end.

  (* routing (lib.rs build_router): "/" and "/{db_name}" *)
  Inductive route := RtRoot | RtDb (name : string) | RtNone.
  Definition route_of (path : list string) : route :=
    match path with
    | [] => RtRoot
    | [seg] => if String.eqb seg "" then RtNone else RtDb seg
    | _ => RtNone
    end.
  Definition scope_of (rt : route) : scope := match rt with RtDb n => SDatabase n | _ => SRoot end.   (* scope_from_params *)

  Definition auth_result (T : tables) (st : sstate) (sc : scope) (r : request) : principal + response :=
    match state_authorize T.(t_rules) st sc (bearer_token T r) with
    | OkAdmin => inl PAdmin
    | OkDatabase => inl PDatabase
    | ErrUnauthorized => inr RUnauthorized
    | ErrOther c => inr (RError c)
    end.

  (* execute_rpc + rpc_root/rpc_db + dispatch_root/dispatch_db up to the handler call *)
  Definition execute_rpc (T : tables) (st : sstate) (rt : route) (r : request) : response :=
    match auth_result T st (scope_of rt) r with
    | inr e => e
    | inl p =>
      match r.(r_ctype), r.(r_body) with
      | CtNone, _ => RUnsupportedMedia
      | _, BMalformed => RBadRequest
      | _, BTooLarge => RTooLarge          (* unreachable behind the body limit; kept total *)
      | _, BOk m =>
        match rt with
        | RtDb name =>
          match parse_method T.(t_db) m with
          | None => RMethodNotFound
          | Some (v, e) => if mem name st.(s_open) then RDispatchDb v e name p else RDbNotFound
          end
        | _ =>
          match parse_method T.(t_root) m with
          | None => RMethodNotFound
          | Some (v, e) => RDispatchRoot v e
          end
        end
      end
    end.

  (* the whole router: require_auth route layer, body limit, handler *)
  Definition handle (T : tables) (st : sstate) (r : request) : response :=
    match route_of r.(r_path), r.(r_verb) with
    | RtNone, _ => RNoRoute
    | RtRoot, GET => RHealth
    | RtRoot, OTHER | RtDb _, GET | RtDb _, OTHER => RNotAllowed
    | rt, POST =>
      match auth_result T st (scope_of rt) r with           (* require_auth *)
      | inr e => e
      | inl _ =>
        match r.(r_body) with
        | BTooLarge => RTooLarge                             (* DefaultBodyLimit + normalize_rejections *)
        | _ => execute_rpc T st rt r
        end
      end
    end.
End WithHash.

Arguments sstate : clear implicits.
Arguments mk_state {hash}.
