(* C19 — pinned statements only. *)
From Coq Require Import List Ascii String Bool Arith NArith.
From Verif Require Import Gov.Model Gov.Proofs Gov.ProofsResolve Gov.ProofsRevoke Gov.NonInterference gen.Gen_Gov.
Import ListNotations.
Open Scope list_scope.

(* ---------------------------------------------------------------- authorize (decision.rs) *)

(* Access is denied unless an active owner, a matching Grant/Delegation candidate or a
   matching policy allow statement permits it — and no deny statement matches. *)
Theorem C19_default_deny :
  forall (LD : ladders) (AA : list string) e perm r a now,
    permitted (z_decision (authorize LD AA e perm r a now)) = true ->
    p_status (e_principal e) = ACTIVE /\ s_status (e_space e) <> "suspended"%string /\
    (e_owner e = true
     \/ (exists c, In c (e_cands e) /\
                   candidate_matches LD c perm (effective_resource e r) a now = true)
     \/ (exists s, In s (statements_of e) /\ st_effect s = "allow"%string /\
                   statement_matches LD e s perm (effective_resource e r) a now = true)) /\
    (forall s, In s (statements_of e) -> st_effect s = "deny"%string ->
               statement_matches LD e s perm (effective_resource e r) a now = false).
Proof. exact default_deny. Qed.
Print Assumptions C19_default_deny.

(* An explicit deny wins over every allow, the owner's included. *)
Theorem C19_deny_overrides :
  forall (LD : ladders) (AA : list string) e perm r a now s,
    In s (statements_of e) -> st_effect s = "deny"%string ->
    statement_matches LD e s perm (effective_resource e r) a now = true ->
    z_decision (authorize LD AA e perm r a now) = Deny.
Proof. exact deny_overrides. Qed.
Print Assumptions C19_deny_overrides.

(* A Principal that is not active is denied everything ... *)
Theorem C19_inactive_denied :
  forall (LD : ladders) (AA : list string) e perm r a now,
    p_status (e_principal e) <> ACTIVE -> z_decision (authorize LD AA e perm r a now) = Deny.
Proof. exact inactive_denied. Qed.
Print Assumptions C19_inactive_denied.

(* ... and resolves to no candidates, no ownership and no groups. *)
Theorem C19_inactive_holds_nothing :
  forall rd cp pid named pr e,
    find_principal cp pid = Some pr -> p_status pr <> ACTIVE ->
    resolve_with rd cp pid named = Ok e ->
    e_cands e = [] /\ e_owner e = false /\ e_groups e = [] /\ e_principal e = pr.
Proof. exact resolve_with_inactive. Qed.
Print Assumptions C19_inactive_holds_nothing.

Theorem C19_suspended_space_denied :
  forall (LD : ladders) (AA : list string) e perm r a now,
    s_status (e_space e) = "suspended"%string -> z_decision (authorize LD AA e perm r a now) = Deny.
Proof. exact suspended_space_denied. Qed.
Print Assumptions C19_suspended_space_denied.

(* The constraints (field mask, result cap, ceilings) of a permitted decision are those of one
   authority that independently permits the operation. *)
Theorem C19_decision_carries_an_allow :
  forall (LD : ladders) (AA : list string) e perm r a now,
    permitted (z_decision (authorize LD AA e perm r a now)) = true ->
    exists c, In c (allows_of LD e perm (effective_resource e r) a now) /\
              z_constr (authorize LD AA e perm r a now) = c_constr c /\
              z_used (authorize LD AA e perm r a now) = [c_id c].
Proof. exact chosen_is_an_allow. Qed.
Print Assumptions C19_decision_carries_an_allow.

(* ---------------------------------------------------------------- revocation, expiry *)

(* The decision is a function of the current control-plane state: revoking a Grant has, for every
   Principal, every delegation chain and every later request, exactly the effect of the Grant never
   having existed (resolve reads only rows in force; nothing is cached in the model, and
   C19_gen_authority_resolved_per_request says nothing is cached in the code). *)
Theorem C19_revocation_immediate :
  forall (LD : ladders) (PN : list string) maxd n cp a,
    resolve LD maxd PN (revoke_grant n cp) a = resolve LD maxd PN (remove_grant n cp) a.
Proof. exact revocation_immediate_grant. Qed.
Print Assumptions C19_revocation_immediate.

(* The same for a Delegation: revoked = absent, for every chain that links through it, named or
   discovered, and for every Principal. *)
Theorem C19_revocation_immediate_delegation :
  forall (LD : ladders) (PN : list string) maxd n cp a,
    resolve LD maxd PN (revoke_delegation n cp) a = resolve LD maxd PN (remove_delegation n cp) a.
Proof. exact revocation_immediate_delegation. Qed.
Print Assumptions C19_revocation_immediate_delegation.

(* Control planes that agree on everything but Grants not in force decide identically. *)
Theorem C19_only_rows_in_force_count :
  forall (LD : ladders) (PN : list string) maxd cp cp' a,
    same_live_grants cp cp' -> resolve LD maxd PN cp a = resolve LD maxd PN cp' a.
Proof. exact resolve_same. Qed.
Print Assumptions C19_only_rows_in_force_count.

Theorem C19_revoked_delegation_not_listed :
  forall cp sp pid d, In d (delegations_to cp sp pid) -> d_status d = ACTIVE.
Proof. exact inactive_delegation_not_listed. Qed.
Print Assumptions C19_revoked_delegation_not_listed.

(* Suspending or revoking a delegator disables, on the next resolve, what it delegated. *)
Theorem C19_suspended_delegator_confers_nothing :
  forall (LD : ladders) (PN : list string) fuel cp d pr,
    d_parent d = DNone -> find_principal cp (d_delegator d) = Some pr -> p_status pr <> ACTIVE ->
    resolve_delegation LD (S fuel) PN cp d = Ok None.
Proof. exact suspended_delegator_confers_nothing. Qed.
Print Assumptions C19_suspended_delegator_confers_nothing.

(* An authority at or past its valid_until matches no request. *)
Theorem C19_expiry_immediate :
  forall (LD : ladders) c perm r a now,
    cd_until (c_conds c) <> EmptyString -> String.leb (cd_until (c_conds c)) now = true ->
    candidate_matches LD c perm r a now = false.
Proof. exact expired_candidate_matches_nothing. Qed.
Print Assumptions C19_expiry_immediate.

(* ---------------------------------------------------------------- delegation *)

(* A delegated candidate permits nothing its root delegator's *current* authority does not: for
   every chain the code can walk (induction on it), every request the candidate matches is matched
   by a delegable authority the root delegator holds now, or the root delegator owns the Space. *)
Theorem C19_delegation_bounded :
  forall (LD : ladders) (PN : list string) fuel cp d c,
    resolve_delegation LD fuel PN cp d = Ok (Some c) ->
    c_scope c = d_scope d /\ c_conds c = d_conds d /\ c_constr c = d_constr d /\
    c_deleg_allowed c = false /\
    exists root, root_delegator fuel cp d = Some root /\
      forall perm r a now, candidate_matches LD c perm r a now = true ->
        exists fuel' e,
          resolve_with (resolve_delegation LD fuel' PN cp) cp root None = Ok e /\
          (e_owner e = true \/
           exists c0, In c0 (e_cands e) /\ c_deleg_allowed c0 = true /\
                      candidate_matches LD c0 perm r a now = true).
Proof. exact delegation_bounded. Qed.
Print Assumptions C19_delegation_bounded.

(* attenuation is sound: an authority inside another's bounds matches nothing the other does not *)
Theorem C19_contains_is_sound :
  forall (LD : ladders) c c' perm r a now,
    (str_in perm (c_actions c) = true -> str_in perm (c_actions c') = true) ->
    scope_contains (c_scope c') (c_scope c) = true ->
    conds_contains LD (c_conds c') (c_conds c) = true ->
    constr_contains LD (c_constr c') (c_constr c) = true ->
    candidate_matches LD c perm r a now = true -> candidate_matches LD c' perm r a now = true.
Proof. exact candidate_bounded. Qed.
Print Assumptions C19_contains_is_sound.

(* the depth bound: at the bound nothing is conferred *)
Theorem C19_delegation_depth_bound :
  forall (LD : ladders) (PN : list string) cp d, resolve_delegation LD 0 PN cp d = Ok None.
Proof. exact delegation_depth_zero. Qed.
Print Assumptions C19_delegation_depth_bound.

(* ---------------------------------------------------------------- read path *)

(* For ANY evaluator that reaches elements only through load/candidates -> admit (any join, count,
   ORDER BY, LIMIT/CURSOR page, ranking, by-id probe), the answer and the governed result cap on a
   store U equal those on U with the elements the caller may not read removed. *)
Theorem C19_noninterference :
  forall (LD : ladders) (AA : list string) (R : Type) (k : caller) (U : list element)
         (p : prog R) (g : option N),
    NoDup (map el_id U) ->
    run LD AA k U p g = run LD AA k (restrict LD AA k U) p g.
Proof. exact noninterference. Qed.
Print Assumptions C19_noninterference.

(* ... and equal the owner's (any reference caller's) answers on the restricted store, when the
   caller's read decisions carry no narrowing of their own. *)
Theorem C19_noninterference_owner :
  forall (LD : ladders) (AA : list string) (R : Type) (k owner : caller) (U : list element)
         (p : prog R) (g : option N),
    NoDup (map el_id U) ->
    (forall x g, In x U -> readable LD AA k x = true ->
                 admit_k LD AA k g (Some x) = admit_k LD AA owner g (Some x)) ->
    run LD AA k U p g = run LD AA owner (restrict LD AA k U) p g.
Proof. exact noninterference_owner. Qed.
Print Assumptions C19_noninterference_owner.

(* Masked fields cannot be inferred from which rows come back or how they are ordered: stores
   whose elements have the same admitted (redacted) views are indistinguishable. *)
Theorem C19_masked_fields_not_inferable :
  forall (LD : ladders) (AA : list string) (R : Type) (k : caller) (U U' : list element)
         (p : prog R) (g : option N),
    Forall2 (same_admitted LD AA k) U U' -> run LD AA k U p g = run LD AA k U' p g.
Proof. exact masked_fields_not_inferable. Qed.
Print Assumptions C19_masked_fields_not_inferable.

Theorem C19_mask_hides_members :
  forall (LD : ladders) (AA : list string) k x x' c,
    el_id x = el_id x' -> el_kind x = el_kind x' -> el_ref x = el_ref x' -> el_class x = el_class x' ->
    may_read LD AA (k_eff k) (k_auth k) (k_now k) x = Some c ->
    cs_fields c <> [] ->
    filter (fun kv => str_in (fst kv) ALWAYS_VISIBLE || str_in (fst kv) (cs_fields c)) (el_members x) =
    filter (fun kv => str_in (fst kv) ALWAYS_VISIBLE || str_in (fst kv) (cs_fields c)) (el_members x') ->
    (k_origin k = false \/ str_in "_system" (cs_fields c) = false \/ el_origin x = el_origin x') ->
    same_admitted LD AA k x x'.
Proof. exact masked_members_same_admitted. Qed.
Print Assumptions C19_mask_hides_members.

(* A read bound to a past coordinate (AS OF, snapshot token): an element the caller may not read
   NOW yields nothing at any earlier coordinate, whatever its past rows contained or were classified
   as — so a classification raised by the control plane takes effect on the next request for
   historical reads too. *)
Theorem C19_hidden_now_hidden_then :
  forall (LD : ladders) (AA : list string) (k : caller) (g : option N) (past : option element) (c : element),
    readable LD AA k c = false -> admit_hist LD AA k g past (Some c) = (None, g).
Proof. exact hidden_now_hidden_then. Qed.
Print Assumptions C19_hidden_now_hidden_then.

Theorem C19_past_of_hidden_not_inferable :
  forall (LD : ladders) (AA : list string) (k : caller) (g : option N) (past past' : option element) (c : element),
    readable LD AA k c = false ->
    admit_hist LD AA k g past (Some c) = admit_hist LD AA k g past' (Some c).
Proof. exact past_of_hidden_not_inferable. Qed.
Print Assumptions C19_past_of_hidden_not_inferable.

(* ... and the code has that shape on BOTH acquisition paths, each judged on its own: Context::load
   (by id, tuple endpoints, followed references, warm, export closure) and Context::candidates
   (type scans); historical rows are fetched nowhere else in kql/mod.rs; readable_now only judges. *)
Theorem C19_gen_load_judges_present_row : load_judges_present_row = true.
Proof. reflexivity. Qed.
Print Assumptions C19_gen_load_judges_present_row.

Theorem C19_gen_candidates_judges_present_row : candidates_judges_present_row = true.
Proof. reflexivity. Qed.
Print Assumptions C19_gen_candidates_judges_present_row.

Theorem C19_gen_historical_rows_fetched_in_two_places :
  historical_fetch_sites = [("load", "element_at"); ("candidates", "elements_at")]%string /\
  readable_now_only_judges = true.
Proof. split; reflexivity. Qed.
Print Assumptions C19_gen_historical_rows_fetched_in_two_places.

(* ---------------------------------------------------------------- generated facts: the code as it is now *)
Open Scope string_scope.

Theorem C19_gen_authorize_stage_order :
  authorize_stage_order =
    ["inactive"; "suspended"; "explicit_deny"; "owner"; "candidates"; "allow_statements";
     "least_restrictive"; "approvals"] /\ may_read_asks_read = true.
Proof. split; reflexivity. Qed.
Print Assumptions C19_gen_authorize_stage_order.

Theorem C19_gen_ladders_fail_closed :
  (* an unknown classification outranks every known one; an unknown strength / assurance /
     authority class is the lowest rung; the empty classification is not public *)
  (forall s n, In (s, n) (ld_table ladder_class) -> N.ltb n (ld_other ladder_class) = true) /\
  ld_other ladder_strength = 0%N /\ ld_other ladder_passur = 0%N /\ ld_other ladder_authority = 0%N /\
  N.ltb (rank ladder_class "public") (rank ladder_class "") = true /\
  max_delegation_depth = 8 /\ status_active = ACTIVE /\ always_visible = ALWAYS_VISIBLE.
Proof.
  split; [|repeat split; reflexivity].
  intros s n H. simpl in H.
  repeat (destruct H as [H | H]; [inversion H; reflexivity|]). contradiction.
Qed.
Print Assumptions C19_gen_ladders_fail_closed.

(* Authority is re-resolved from the control plane on every request: each arm of
   Session::execute resolves it, Session::authority is a bare EffectiveAuthority::resolve, and
   neither Session nor CognitiveNexus has a field that could hold a resolved authority. *)
Theorem C19_gen_authority_resolved_per_request :
  execute_command_arms = 3 /\ execute_arms_resolving_authority = 3 /\
  session_authority_resolves_fresh = true /\
  session_state_fields =
    ["Session.nexus: CognitiveNexus"; "Session.auth: Arc<AuthContext>"; "CognitiveNexus.store: Store";
     "CognitiveNexus.default_space: String"; "CognitiveNexus.lock: Arc<RwLock<()>>";
     "CognitiveNexus.approval_lock: Arc<Mutex<()>>"].
Proof. repeat split; reflexivity. Qed.
Print Assumptions C19_gen_authority_resolved_per_request.

(* Every element read under kql/, meta/, projection/ sits inside Context::load or
   Context::candidates, and both hand what they read to admit, which checks may_read, redacts,
   and only then caches the view (a syntactic fact about the source, not a proof of the engine). *)
Theorem C19_gen_reads_go_through_admit :
  forallb (fun site => let '(file, fn, _) := site in
             String.eqb file "kql/mod.rs" &&
             (String.eqb fn "load" || String.eqb fn "candidates" ||
              (* judging the present row of an element read at a past coordinate: yields a bool only *)
              (String.eqb fn "readable_now" && readable_now_only_judges)))
          element_reads = true /\
  element_reads <> [] /\
  load_goes_through_admit = true /\ candidates_goes_through_admit = true /\
  admit_checks_then_redacts_then_caches = true.
Proof. repeat split; try reflexivity. discriminate. Qed.
Print Assumptions C19_gen_reads_go_through_admit.

(* No KIP command can escalate: the control-plane collections are disjoint from the cognitive
   ones and are named nowhere outside governance/store.rs, whose handles are private; the only
   GovernanceStore writers called from anywhere else in the crate are the bootstrap
   (ensure_principal in connect), the append-only audit writers and the spending of an approval;
   the parser refuses the `governance` member; every KML clause asks for at least one permission
   and EXPORT asks for `export`. *)
Definition append_or_spend : list string := ["record_decision"; "record_mutation"; "consume_approval"].
Definition host_only_sites : list (string * string * string) := [("nexus.rs", "connect", "ensure_principal")].
Fixpoint lookup_perm (k : string) (t : list (string * list string)) : option (list string) :=
  match t with [] => None | (k', v) :: r => if String.eqb k k' then Some v else lookup_perm k r end.
Definition site_eqb (a b : string * string * string) : bool :=
  let '(a1, a2, a3) := a in let '(b1, b2, b3) := b in
  String.eqb a1 b1 && String.eqb a2 b2 && String.eqb a3 b3.

Theorem C19_gen_kip_cannot_escalate :
  forallb (fun c => negb (str_in c cognitive_collections)) gov_collections = true /\
  List.length gov_collections = 8 /\
  gov_names_referenced_outside_store = [] /\ gov_store_public_fields = [] /\
  forallb (fun site => let '(_, _, m) := site in
             negb (str_in m gov_store_mutators) || str_in m append_or_spend ||
             existsb (site_eqb site) host_only_sites) gov_store_calls = true /\
  str_in "create_grant" gov_store_mutators = true /\ str_in "revoke_grant" gov_store_mutators = true /\
  str_in "set_principal_status" gov_store_mutators = true /\ str_in "publish_policy" gov_store_mutators = true /\
  str_in "create_delegation" gov_store_mutators = true /\ str_in "put_group" gov_store_mutators = true /\
  str_in "governance" protected_fields = true /\
  forallb (fun kv => negb (is_empty (snd kv))) gate_clause_permissions = true /\
  gate_clause_wildcard = false /\ List.length gate_clause_permissions = 16 /\
  lookup_perm "ExportCapsule" gate_meta_permissions = Some ["export"] /\
  gate_kql_base = ["read"].
Proof. vm_compute. repeat split; reflexivity. Qed.
Print Assumptions C19_gen_kip_cannot_escalate.
Close Scope string_scope.

(* ---------------------------------------------------------------- non-vacuity *)
Open Scope string_scope.
Definition ex_space := mkSpace "s" "root" [] "active" "" "" "".
Definition ex_grant := mkGrant 1 "s" "lead" "" ["read"; "export"] scope_default conds_default
                               (mkConstr [] None "" "internal" true) true "active".
Definition ex_deleg := mkDeleg 1 "s" "lead" "bot" ["read"; "export"; "purge"] scope_default conds_default
                               (mkConstr [] None "" "internal" false) DNone true "active".
Definition ex_deleg2 := mkDeleg 2 "s" "bot" "sub" ["read"] (mkScope ["concept"] [] [] []) conds_default
                               (mkConstr [] None "" "public" false) (DCanon 1) false "active".
Definition ex_cp := mkCP ex_space
  [mkPrincipal "root" "active"; mkPrincipal "lead" "active"; mkPrincipal "bot" "active"; mkPrincipal "sub" "active"]
  [] [ex_grant] [ex_deleg; ex_deleg2] [].
Definition ex_auth p := mkAuth p "standard" "" "declared" [].
Definition ex_decide cp p perm r :=
  match resolve gen_ladders max_delegation_depth permission_names cp (ex_auth p) with
  | Ok e => Some (z_decision (authorize gen_ladders always_audited e perm r (ex_auth p) "2026-01-01T00:00:00.000Z"))
  | Err => None
  end.

(* a two-link chain: sub reads public Concepts through bot through lead's Grant; not above the
   ceiling, not other kinds, not `purge`; and revoking lead's Grant disables the whole chain *)
Example C19_delegation_nonvacuous :
  ex_decide ex_cp "sub" "read" (mkRes "concept" "" "public" "C-1") = Some AllowWithConstraints /\
  ex_decide ex_cp "sub" "read" (mkRes "concept" "" "internal" "C-1") = Some Deny /\
  ex_decide ex_cp "sub" "read" (mkRes "evidence" "" "public" "E-1") = Some Deny /\
  ex_decide ex_cp "bot" "read" (mkRes "evidence" "" "internal" "E-1") = Some AllowWithConstraints /\
  ex_decide ex_cp "bot" "purge" (mkRes "evidence" "" "internal" "E-1") = Some Deny /\
  ex_decide ex_cp "bot" "read" (mkRes "evidence" "" "secret" "E-1") = Some Deny /\
  ex_decide (revoke_grant 1 ex_cp) "sub" "read" (mkRes "concept" "" "public" "C-1") = Some Deny /\
  ex_decide (revoke_grant 1 ex_cp) "bot" "read" (mkRes "evidence" "" "internal" "E-1") = Some Deny /\
  ex_decide ex_cp "root" "purge" (mkRes "evidence" "" "secret" "E-1") = Some AllowWithConstraints.
Proof. vm_compute. repeat split; reflexivity. Qed.

(* a store with a hidden element: the evaluator "count the Concepts, then probe the hidden id" *)
Definition ex_U := [mkElem "C-1" "concept" "" "public" [("id", "C-1"); ("name", "Public Note")] "root";
                    mkElem "C-2" "concept" "" "secret" [("id", "C-2"); ("name", "Secret Note")] "root"].
Definition ex_caller (cp : cplane) p :=
  match resolve gen_ladders max_delegation_depth permission_names cp (ex_auth p) with
  | Ok e => Some (mkCaller e (ex_auth p) "2026-01-01T00:00:00.000Z" false)
  | Err => None
  end.
Definition ex_prog : prog (nat * bool) :=
  Scan "concept" (fun vs => Load "C-2" (fun v => Ret (List.length vs, match v with Some _ => true | None => false end))).
Example C19_noninterference_nonvacuous :
  match ex_caller ex_cp "bot", ex_caller ex_cp "root" with
  | Some bot, Some root =>
      fst (run gen_ladders always_audited bot ex_U ex_prog None) = (1, false) /\
      fst (run gen_ladders always_audited root ex_U ex_prog None) = (2, true) /\
      List.length (restrict gen_ladders always_audited bot ex_U) = 1
  | _, _ => False
  end.
Proof. vm_compute. repeat split; reflexivity. Qed.
Close Scope string_scope.
