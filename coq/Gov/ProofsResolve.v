(* C19 — lemmas about resolve / resolve_delegation (decision.rs): inactive principals hold
   nothing, a revoked Grant is the same as an absent one, and a delegated candidate is
   backed by its root delegator's current authority (induction on the chain). *)
From Coq Require Import List Ascii String Bool Arith NArith Lia.
From Verif Require Import Gov.Model Gov.Proofs.
Import ListNotations.
Open Scope list_scope.

Section WithLadders.
Variable LD : ladders.
Variable PN : list string.   (* the permission registry *)

Notation rdeleg := (resolve_delegation LD).

(* ------------------------------------------------------------------ inactive principal *)
Lemma resolve_with_inactive rd cp pid named pr e :
  find_principal cp pid = Some pr -> p_status pr <> ACTIVE ->
  resolve_with rd cp pid named = Ok e ->
  e_cands e = [] /\ e_owner e = false /\ e_groups e = [] /\ e_principal e = pr.
Proof.
  intros F S. unfold resolve_with. rewrite F. apply String.eqb_neq in S. rewrite S. simpl.
  intros H. inversion H. simpl. auto.
Qed.

Lemma resolve_principal rd cp pid named e :
  resolve_with rd cp pid named = Ok e -> find_principal cp pid = Some (e_principal e).
Proof.
  unfold resolve_with. destruct (find_principal cp pid) as [pr|]; [|discriminate].
  destruct (if String.eqb (p_status pr) ACTIVE then _ else _); [|discriminate].
  intros H. inversion H. reflexivity.
Qed.

(* ------------------------------------------------------------------ extensionality in rd *)
Lemma resolve_with_ext rd rd' cp pid named :
  (forall d, rd d = rd' d) -> resolve_with rd cp pid named = resolve_with rd' cp pid named.
Proof.
  intros E. unfold resolve_with. destruct (find_principal cp pid); [|reflexivity].
  destruct (String.eqb (p_status p) ACTIVE); [|reflexivity].
  destruct named; [reflexivity|].
  assert (X : forall l acc,
     fold_left (fun acc d => match acc with Err => Err | Ok l0 =>
        match rd d with Err => Err | Ok None => Ok l0 | Ok (Some c) => Ok (l0 ++ [c]) end end) l acc =
     fold_left (fun acc d => match acc with Err => Err | Ok l0 =>
        match rd' d with Err => Err | Ok None => Ok l0 | Ok (Some c) => Ok (l0 ++ [c]) end end) l acc).
  { induction l as [|d l IH]; intros acc; simpl; [reflexivity|]. rewrite E. apply IH. }
  rewrite X. reflexivity.
Qed.

(* ------------------------------------------------------------------ revocation = absence *)
Definition with_grants (cp : cplane) (gs : list grant) : cplane :=
  mkCP (cp_space cp) (cp_principals cp) (cp_groups cp) gs (cp_delegs cp) (cp_policies cp).
Definition revoke_grant (n : N) (cp : cplane) : cplane :=
  with_grants cp (map (fun g => if N.eqb (gr_row g) n
     then mkGrant (gr_row g) (gr_space g) (gr_principal g) (gr_group g) (gr_actions g) (gr_scope g)
                  (gr_conds g) (gr_constr g) (gr_deleg_allowed g) "revoked"
     else g) (cp_grants cp)).
Definition remove_grant (n : N) (cp : cplane) : cplane :=
  with_grants cp (filter (fun g => negb (N.eqb (gr_row g) n)) (cp_grants cp)).

(* two planes that differ only in Grants that are not in force *)
Definition same_live_grants (cp cp' : cplane) : Prop :=
  cp_space cp = cp_space cp' /\ cp_principals cp = cp_principals cp' /\ cp_groups cp = cp_groups cp' /\
  cp_delegs cp = cp_delegs cp' /\ cp_policies cp = cp_policies cp' /\
  filter (fun g => String.eqb (gr_status g) ACTIVE) (cp_grants cp) =
  filter (fun g => String.eqb (gr_status g) ACTIVE) (cp_grants cp').

Lemma filter_and_active {A} (f act : A -> bool) l :
  filter (fun g => f g && act g) l = filter f (filter act l).
Proof.
  induction l as [|x l IH]; simpl; [reflexivity|].
  destruct (act x); simpl; destruct (f x); simpl; rewrite ?IH; reflexivity.
Qed.

Lemma grants_for_same cp cp' sp pid groups :
  same_live_grants cp cp' -> grants_for cp sp pid groups = grants_for cp' sp pid groups.
Proof.
  intros (_ & _ & _ & _ & _ & F). unfold grants_for.
  rewrite !filter_and_active, F. f_equal.
  induction groups as [|g gs IH]; simpl; [reflexivity|].
  rewrite !filter_and_active, F, IH. reflexivity.
Qed.

Lemma resolve_with_same rd cp cp' pid named :
  same_live_grants cp cp' -> resolve_with rd cp pid named = resolve_with rd cp' pid named.
Proof.
  intros S. pose proof (grants_for_same cp cp') as G.
  destruct S as (E1 & E2 & E3 & E4 & E5 & F) eqn:SS.
  unfold resolve_with, find_principal, groups_of, delegations_to, active_policy.
  rewrite <- E1, <- E2, <- E3, <- E4, <- E5.
  destruct (find _ (cp_principals cp)); [|reflexivity].
  destruct (String.eqb (p_status p) ACTIVE); [|reflexivity].
  rewrite (G _ _ _ (conj E1 (conj E2 (conj E3 (conj E4 (conj E5 F)))))). reflexivity.
Qed.

Lemma resolve_delegation_same fuel cp cp' d :
  same_live_grants cp cp' -> rdeleg fuel PN cp d = rdeleg fuel PN cp' d.
Proof.
  intros S. revert d. induction fuel as [|f IH]; intros d; simpl; [reflexivity|].
  pose proof S as (E1 & E2 & E3 & E4 & E5 & F).
  destruct (d_parent d) eqn:P.
  - rewrite (resolve_with_ext _ (rdeleg f PN cp') cp _ _ IH).
    rewrite (resolve_with_same _ cp cp' _ _ S). reflexivity.
  - unfold delegation_by_row. rewrite <- E4, <- E1. simpl.
    destruct (find _ (cp_delegs cp)); [|reflexivity].
    destruct (_ || _ || _ || _); [reflexivity|]. rewrite IH. reflexivity.
  - unfold delegation_by_row. rewrite <- E4, <- E1. simpl. destruct parsed; [|reflexivity].
    destruct (find _ (cp_delegs cp)); [|reflexivity].
    destruct (_ || _ || _ || _); [reflexivity|]. rewrite IH. reflexivity.
Qed.

Lemma named_chain_same fuel cp cp' pid chain :
  same_live_grants cp cp' ->
  resolve_named_chain LD fuel PN cp pid chain = resolve_named_chain LD fuel PN cp' pid chain.
Proof.
  intros S. pose proof S as (E1 & E2 & E3 & E4 & E5 & F).
  unfold resolve_named_chain, delegation_by_row. rewrite <- E4, <- E1.
  destruct (fold_left _ chain (Ok None)) as [[last|]|]; try reflexivity.
  destruct (negb _); [reflexivity|].
  rewrite (resolve_delegation_same _ cp cp' _ S). reflexivity.
Qed.

Lemma resolve_same maxd cp cp' a :
  same_live_grants cp cp' -> resolve LD maxd PN cp a = resolve LD maxd PN cp' a.
Proof.
  intros S. pose proof S as (E1 & E2 & E3 & E4 & E5 & F).
  unfold resolve, find_principal. rewrite <- E2.
  destruct (find _ (cp_principals cp)); [|reflexivity].
  destruct (a_chain a) as [|c0 ch].
  - destruct (String.eqb (p_status p) ACTIVE);
      rewrite (resolve_with_ext _ (rdeleg maxd PN cp') cp _ _
                 (fun d => resolve_delegation_same maxd cp cp' d S));
      apply resolve_with_same; exact S.
  - rewrite (named_chain_same _ cp cp' _ _ S).
    destruct (String.eqb (p_status p) ACTIVE);
      rewrite (resolve_with_ext _ (rdeleg maxd PN cp') cp _ _
                 (fun d => resolve_delegation_same maxd cp cp' d S));
      apply resolve_with_same; exact S.
Qed.

Lemma revoke_remove_same n cp : same_live_grants (revoke_grant n cp) (remove_grant n cp).
Proof.
  unfold same_live_grants, revoke_grant, remove_grant, with_grants. simpl.
  repeat split; try reflexivity.
  induction (cp_grants cp) as [|g l IH]; simpl; [reflexivity|].
  destruct (N.eqb (gr_row g) n); simpl.
  - exact IH.
  - destruct (String.eqb (gr_status g) ACTIVE); simpl; rewrite IH; reflexivity.
Qed.

Lemma revocation_immediate_grant maxd n cp a :
  resolve LD maxd PN (revoke_grant n cp) a = resolve LD maxd PN (remove_grant n cp) a.
Proof. apply resolve_same. apply revoke_remove_same. Qed.

(* a Delegation that is not in force yields nothing, directly or as a parent link *)
Lemma inactive_delegation_not_listed cp sp pid d :
  In d (delegations_to cp sp pid) -> d_status d = ACTIVE.
Proof.
  unfold delegations_to. intros H. apply filter_In in H as [_ H].
  apply andb_true_iff in H as [_ H]. apply String.eqb_eq in H. exact H.
Qed.

(* ------------------------------------------------------------------ delegation bounded *)
(* What backs a request at the root of a chain: some Principal's current authority, resolved
   from the same control plane, owns the Space or holds a delegable authority matching it. *)
Definition backed_by (cp : cplane) (pid : string) (perm : string) (r : resource) (a : authctx) (now : string) : Prop :=
  exists fuel e, resolve_with (rdeleg fuel PN cp) cp pid None = Ok e /\
    (e_owner e = true \/
     exists c0, In c0 (e_cands e) /\ c_deleg_allowed c0 = true /\
                candidate_matches LD c0 perm r a now = true).

(* the root of a Delegation's parent chain, following at most [fuel] links the way the code does *)
Fixpoint root_delegator (fuel : nat) (cp : cplane) (d : delegation) : option string :=
  match fuel with
  | O => None
  | S f => match d_parent d with
           | DNone => Some (d_delegator d)
           | pd => match dref_row pd with
                   | None => None
                   | Some n => match delegation_by_row cp n with
                               | None => None
                               | Some linked => root_delegator f cp linked
                               end
                   end
           end
  end.

Lemma delegation_bounded fuel cp d c :
  rdeleg fuel PN cp d = Ok (Some c) ->
  c_scope c = d_scope d /\ c_conds c = d_conds d /\ c_constr c = d_constr d /\
  c_deleg_allowed c = false /\
  exists root, root_delegator fuel cp d = Some root /\
    forall perm r a now, candidate_matches LD c perm r a now = true -> backed_by cp root perm r a now.
Proof.
  revert d c. induction fuel as [|f IH]; intros d c; simpl; [discriminate|].
  destruct (d_parent d) eqn:P.
  - (* a direct Delegation: judged against the delegator's current authority *)
    destruct (resolve_with (rdeleg f PN cp) cp (d_delegator d) None) as [parent|] eqn:R; [|discriminate].
    destruct (is_empty _) eqn:Em; [discriminate|]. intros H. inversion H; subst c; clear H. simpl.
    repeat split; auto. exists (d_delegator d). split; [reflexivity|].
    intros perm r a now M. exists f, parent. split; [exact R|].
    pose proof M as M0. unfold candidate_matches in M. simpl in M.
    apply andb_true_iff in M as [M Mc]. apply andb_true_iff in M as [Mact Msc].
    apply str_in_In in Mact. apply filter_In in Mact as [_ Mact].
    apply andb_true_iff in Mact as [_ Mact]. apply orb_true_iff in Mact as [Mact | Mact]; [|left; exact Mact].
    right. apply existsb_exists in Mact as [c0 [Hin Hc0]].
    repeat (apply andb_true_iff in Hc0 as [Hc0 ?]).
    exists c0. repeat split; auto.
    eapply candidate_bounded; [| | | | exact M0]; simpl; auto.
  - (* linked through a canonical parent id *)
    simpl. destruct (delegation_by_row cp n) as [linked|] eqn:L; [|discriminate].
    destruct (_ || _ || _ || _); [discriminate|].
    destruct (rdeleg f PN cp linked) as [[inh|]|] eqn:R; try discriminate.
    destruct (_ || _ || _) eqn:C; [discriminate|].
    destruct (is_empty _) eqn:Em; [discriminate|]. intros H. inversion H; subst c; clear H. simpl.
    destruct (IH _ _ R) as (_ & _ & _ & _ & root & Hroot & Hb).
    repeat split; auto. exists root. split; [exact Hroot|].
    intros perm r a now M. apply Hb.
    apply orb_false_iff in C as [C C3]. apply orb_false_iff in C as [C1 C2].
    apply negb_false_iff in C1, C2, C3.
    eapply candidate_bounded; [| | | | exact M]; simpl; auto.
    intros Hact. apply str_in_In in Hact. apply filter_In in Hact as [_ Hact]. exact Hact.
  - (* linked through a non-canonical id that still parses to a row *)
    simpl. destruct parsed as [n|]; [|discriminate].
    destruct (delegation_by_row cp n) as [linked|] eqn:L; [|discriminate].
    destruct (_ || _ || _ || _); [discriminate|].
    destruct (rdeleg f PN cp linked) as [[inh|]|] eqn:R; try discriminate.
    destruct (_ || _ || _) eqn:C; [discriminate|].
    destruct (is_empty _) eqn:Em; [discriminate|]. intros H. inversion H; subst c; clear H. simpl.
    destruct (IH _ _ R) as (_ & _ & _ & _ & root & Hroot & Hb).
    repeat split; auto. exists root. split; [exact Hroot|].
    intros perm r a now M. apply Hb.
    apply orb_false_iff in C as [C C3]. apply orb_false_iff in C as [C1 C2].
    apply negb_false_iff in C1, C2, C3.
    eapply candidate_bounded; [| | | | exact M]; simpl; auto.
    intros Hact. apply str_in_In in Hact. apply filter_In in Hact as [_ Hact]. exact Hact.
Qed.

(* the depth bound: a chain longer than the fuel yields no candidate *)
Lemma delegation_depth_zero cp d : rdeleg 0 PN cp d = Ok None.
Proof. reflexivity. Qed.

(* a delegator that is not active confers nothing through a direct Delegation *)
Lemma suspended_delegator_confers_nothing fuel cp d pr :
  d_parent d = DNone -> find_principal cp (d_delegator d) = Some pr -> p_status pr <> ACTIVE ->
  rdeleg (S fuel) PN cp d = Ok None.
Proof.
  intros P F S. simpl. rewrite P.
  destruct (resolve_with (rdeleg fuel PN cp) cp (d_delegator d) None) as [parent|] eqn:R.
  - destruct (resolve_with_inactive _ _ _ _ _ _ F S R) as (Ec & Eo & _ & _). rewrite Ec, Eo. simpl.
    assert (X : filter (fun a => str_in a PN && false) (d_actions d) = []).
    { induction (d_actions d); simpl; auto. rewrite andb_false_r. exact IHl. }
    rewrite X. reflexivity.
  - unfold resolve_with in R. rewrite F in R. apply String.eqb_neq in S. rewrite S in R. discriminate.
Qed.

End WithLadders.
