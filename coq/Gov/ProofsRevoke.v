(* C19 — a revoked Delegation decides exactly like an absent one (no uniqueness of row ids
   is needed: every row carrying the id is revoked / removed). *)
From Coq Require Import List Ascii String Bool Arith NArith Lia.
From Verif Require Import Gov.Model Gov.Proofs Gov.ProofsResolve.
Import ListNotations.
Open Scope list_scope.

Section WithLadders.
Variable LD : ladders.
Variable PN : list string.
Notation rdeleg := (resolve_delegation LD).

Definition with_delegs (cp : cplane) (ds : list delegation) : cplane :=
  mkCP (cp_space cp) (cp_principals cp) (cp_groups cp) (cp_grants cp) ds (cp_policies cp).
Definition revoked (d : delegation) : delegation :=
  mkDeleg (d_row d) (d_space d) (d_delegator d) (d_delegate d) (d_actions d) (d_scope d) (d_conds d)
          (d_constr d) (d_parent d) (d_may_redelegate d) "revoked".
Definition revoke_delegation (n : N) (cp : cplane) : cplane :=
  with_delegs cp (map (fun d => if N.eqb (d_row d) n then revoked d else d) (cp_delegs cp)).
Definition remove_delegation (n : N) (cp : cplane) : cplane :=
  with_delegs cp (filter (fun d => negb (N.eqb (d_row d) n)) (cp_delegs cp)).

Section Fixed.
Variable n : N.
Variable cp : cplane.
Let cpa := revoke_delegation n cp.
Let cpb := remove_delegation n cp.

Lemma delegations_to_rr sp pid : delegations_to cpa sp pid = delegations_to cpb sp pid.
Proof.
  unfold delegations_to, cpa, cpb, revoke_delegation, remove_delegation, with_delegs. simpl.
  induction (cp_delegs cp) as [|d l IH]; simpl; [reflexivity|].
  destruct (N.eqb (d_row d) n) eqn:E; simpl.
  - rewrite andb_false_r. exact IH.
  - destruct (_ && _ && _); rewrite IH; reflexivity.
Qed.

(* a lookup by row: either both find the same row, or the revoked plane finds a row that is not
   in force and the other finds nothing *)
Lemma by_row_rr m :
  delegation_by_row cpa m = delegation_by_row cpb m \/
  (delegation_by_row cpb m = None /\ exists d, delegation_by_row cpa m = Some d /\ d_status d = "revoked"%string).
Proof.
  unfold delegation_by_row, cpa, cpb, revoke_delegation, remove_delegation, with_delegs. simpl.
  destruct (N.eqb m n) eqn:Em.
  - apply N.eqb_eq in Em. subst m.
    assert (Hb : find (fun d => N.eqb (d_row d) n) (filter (fun d => negb (N.eqb (d_row d) n)) (cp_delegs cp)) = None).
    { induction (cp_delegs cp) as [|d l IH]; simpl; [reflexivity|].
      destruct (N.eqb (d_row d) n) eqn:E; simpl; [exact IH|]. rewrite E. exact IH. }
    destruct (find (fun d => N.eqb (d_row d) n)
               (map (fun d => if N.eqb (d_row d) n then revoked d else d) (cp_delegs cp))) eqn:Fa.
    + right. split; [exact Hb|]. exists d. split; [reflexivity|].
      apply find_some in Fa as [Fin Fe]. apply in_map_iff in Fin as [d0 [Hd0 _]].
      destruct (N.eqb (d_row d0) n) eqn:E0; subst d; [reflexivity|].
      rewrite E0 in Fe. discriminate.
    + left. rewrite Hb. reflexivity.
  - left. induction (cp_delegs cp) as [|d l IH]; simpl; [reflexivity|].
    destruct (N.eqb (d_row d) n) eqn:E; simpl.
    + apply N.eqb_eq in E. rewrite E. rewrite N.eqb_sym, Em. exact IH.
    + destruct (N.eqb (d_row d) m); [reflexivity|exact IH].
Qed.

Lemma resolve_with_rr rd rd' pid named :
  (forall d, rd d = rd' d) -> resolve_with rd cpa pid named = resolve_with rd' cpb pid named.
Proof.
  intros E. rewrite (resolve_with_ext rd rd' cpa pid named E).
  unfold resolve_with. 
  change (find_principal cpa pid) with (find_principal cpb pid).
  change (cp_space cpa) with (cp_space cpb).
  destruct (find_principal cpb pid); [|reflexivity].
  change (groups_of cpa pid) with (groups_of cpb pid).
  change (grants_for cpa) with (grants_for cpb).
  rewrite delegations_to_rr.
  change (active_policy cpa) with (active_policy cpb). reflexivity.
Qed.

Lemma rdeleg_rr fuel d : rdeleg fuel PN cpa d = rdeleg fuel PN cpb d.
Proof.
  revert d. induction fuel as [|f IH]; intros d; [reflexivity|]. cbn [resolve_delegation].
  change (cp_space cpa) with (cp_space cpb).
  destruct (d_parent d) eqn:P.
  - rewrite (resolve_with_rr _ (rdeleg f PN cpb) _ _ IH). reflexivity.
  - cbn [dref_row]. destruct (by_row_rr n0) as [Eq | [Hn [dx [Ha Hs]]]].
    + rewrite Eq. destruct (delegation_by_row cpb n0); [|reflexivity].
      destruct (_ || _ || _ || _); [reflexivity|]. rewrite IH. reflexivity.
    + rewrite Hn, Ha, Hs. reflexivity.
  - cbn [dref_row]. destruct parsed as [m|]; [|reflexivity].
    destruct (by_row_rr m) as [Eq | [Hn [dx [Ha Hs]]]].
    + rewrite Eq. destruct (delegation_by_row cpb m); [|reflexivity].
      destruct (_ || _ || _ || _); [reflexivity|]. rewrite IH. reflexivity.
    + rewrite Hn, Ha, Hs. reflexivity.
Qed.

Lemma chain_step_rr fuel pid chain :
  resolve_named_chain LD fuel PN cpa pid chain = resolve_named_chain LD fuel PN cpb pid chain.
Proof.
  unfold resolve_named_chain. change (cp_space cpa) with (cp_space cpb).
  set (stepa := fun (acc : res (option delegation)) (id : dref) => _).
  match goal with |- context [fold_left ?f chain (Ok None)] => idtac end.
  assert (F : forall acc,
    fold_left (fun (acc : res (option delegation)) (id : dref) =>
      match acc with Err => Err | Ok previous =>
        match dref_row id with None => Err | Some k =>
          match delegation_by_row cpa k with None => Err | Some row =>
            if negb (String.eqb (d_status row) ACTIVE) || negb (String.eqb (d_space row) (s_id (cp_space cpb))) then Err
            else match previous with
                 | Some parent => if negb (dref_is_canon (d_parent row) (d_row parent)) then Err
                                  else if negb (d_may_redelegate parent) then Err else Ok (Some row)
                 | None => Ok (Some row) end end end end) chain acc =
    fold_left (fun (acc : res (option delegation)) (id : dref) =>
      match acc with Err => Err | Ok previous =>
        match dref_row id with None => Err | Some k =>
          match delegation_by_row cpb k with None => Err | Some row =>
            if negb (String.eqb (d_status row) ACTIVE) || negb (String.eqb (d_space row) (s_id (cp_space cpb))) then Err
            else match previous with
                 | Some parent => if negb (dref_is_canon (d_parent row) (d_row parent)) then Err
                                  else if negb (d_may_redelegate parent) then Err else Ok (Some row)
                 | None => Ok (Some row) end end end end) chain acc).
  { induction chain as [|id ch IHc]; intros acc; [reflexivity|]. cbn [fold_left].
    destruct acc as [previous|]; [|apply IHc].
    destruct (dref_row id) as [k|]; [|apply IHc].
    destruct (by_row_rr k) as [Eq | [Hn [dx [Ha Hs]]]].
    - rewrite Eq. apply IHc.
    - rewrite Hn, Ha, Hs. apply IHc. }
  subst stepa. rewrite F.
  destruct (fold_left _ chain (Ok None)) as [[last|]|]; try reflexivity.
  destruct (negb _); [reflexivity|]. rewrite rdeleg_rr. reflexivity.
Qed.

End Fixed.

Theorem revocation_immediate_delegation maxd n cp a :
  resolve LD maxd PN (revoke_delegation n cp) a = resolve LD maxd PN (remove_delegation n cp) a.
Proof.
  unfold resolve.
  change (find_principal (revoke_delegation n cp) (a_principal a))
    with (find_principal (remove_delegation n cp) (a_principal a)).
  destruct (find_principal (remove_delegation n cp) (a_principal a)); [|reflexivity].
  destruct (a_chain a) as [|c0 ch].
  - destruct (String.eqb (p_status p) ACTIVE); apply resolve_with_rr; intros d; apply rdeleg_rr.
  - rewrite chain_step_rr.
    destruct (String.eqb (p_status p) ACTIVE); apply resolve_with_rr; intros d; apply rdeleg_rr.
Qed.

End WithLadders.
