(* C19 — the model instantiated with the generated facts (gen/Gen_Gov.v) and the case
   runners for the correspondence check. *)
From Coq Require Import List Ascii String Bool Arith NArith.
From Verif Require Import Gov.Model gen.Gen_Gov.
Import ListNotations.
Open Scope list_scope.

Definition req := (authctx * string * resource * string)%type.   (* auth, permission, resource, now *)

Inductive obs :=
| ObsErr
| ObsAuthz (d : decision) (c : constr) (o : oblig) (used : list cand_id) (unrestricted owner : bool)
           (groups : list string) (policy_id : string) (policy_version : N).

Definition resolve_now := resolve gen_ladders max_delegation_depth permission_names.
Definition authorize_now := authorize gen_ladders always_audited.

Definition run_req (cp : cplane) (r : req) : obs :=
  let '(a, perm, rs, now) := r in
  match resolve_now cp a with
  | Err => ObsErr
  | Ok e =>
      let z := authorize_now e perm rs a now in
      ObsAuthz (z_decision z) (z_constr z) (z_oblig z) (z_used z) (z_unrestricted z) (e_owner e)
               (e_groups e) (fst (policy_ident e)) (snd (policy_ident e))
  end.

Definition decision_eqb (a b : decision) : bool :=
  match a, b with
  | Allow, Allow | AllowWithConstraints, AllowWithConstraints | Deny, Deny
  | RequireApproval, RequireApproval => true
  | _, _ => false
  end.
Definition cand_id_eqb (a b : cand_id) : bool :=
  match a, b with
  | IdOwner x, IdOwner y => String.eqb x y
  | IdGrant x, IdGrant y => N.eqb x y
  | IdDeleg x, IdDeleg y => N.eqb x y
  | IdPolicy x v, IdPolicy y w => String.eqb x y && N.eqb v w
  | _, _ => false
  end.
Fixpoint list_eqb {A} (eqb : A -> A -> bool) (a b : list A) : bool :=
  match a, b with
  | [], [] => true
  | x :: a', y :: b' => eqb x y && list_eqb eqb a' b'
  | _, _ => false
  end.
Definition oblig_eqb (a b : oblig) : bool :=
  Bool.eqb (ob_audit a) (ob_audit b) && N.eqb (ob_approvals a) (ob_approvals b) &&
  String.eqb (ob_redaction a) (ob_redaction b).

Definition obs_eqb (a b : obs) : bool :=
  match a, b with
  | ObsErr, ObsErr => true
  | ObsAuthz d c o u unr ow g pi pv, ObsAuthz d' c' o' u' unr' ow' g' pi' pv' =>
      decision_eqb d d' && constr_eqb c c' && oblig_eqb o o' && list_eqb cand_id_eqb u u' &&
      Bool.eqb unr unr' && Bool.eqb ow ow' && list_eqb String.eqb g g' &&
      String.eqb pi pi' && N.eqb pv pv'
  | _, _ => false
  end.

(* one stored control-plane state with the requests decided on it *)
Definition state_case := (cplane * list (req * obs))%type.
Definition check_state (sc : state_case) : bool :=
  forallb (fun ro => obs_eqb (run_req (fst sc) (fst ro)) (snd ro)) (snd sc).
(* index of the first disagreeing request, for the report *)
Definition first_bad (sc : state_case) : option (nat * obs) :=
  (fix go (i : nat) (l : list (req * obs)) :=
     match l with
     | [] => None
     | ro :: r => if obs_eqb (run_req (fst sc) (fst ro)) (snd ro) then go (S i) r
                  else Some (i, run_req (fst sc) (fst ro))
     end) 0 (snd sc).
