(* C19 — non-interference of the read path.

   The engine reaches elements only through Context::load (one id) and, at a past
   coordinate, Context::candidates (all elements of a kind); both hand every element to
   Context::admit.  An evaluator is therefore an arbitrary interaction tree over these two
   calls: it may compute anything (joins, counts, ORDER BY, LIMIT/CURSOR pages, search
   ranking, by-id probes) from what they return.  [run] interprets a tree against a store;
   the governed limit admit accumulates is part of the state, as in the code. *)
From Coq Require Import List Ascii String Bool Arith NArith Lia.
From Verif Require Import Gov.Model Gov.Proofs.
Import ListNotations.
Open Scope list_scope.

Inductive prog (R : Type) : Type :=
| Ret (r : R)
| Load (id : string) (k : option view -> prog R)
| Scan (kind : string) (k : list view -> prog R).
Arguments Ret {R} r. Arguments Load {R} id k. Arguments Scan {R} kind k.

Section NI.
Variable LD : ladders.
Variable AA : list string.

(* one caller: resolved authority, auth context, decision instant, read_raw_origin *)
Record caller := mkCaller { k_eff : eff; k_auth : authctx; k_now : string; k_origin : bool }.

Definition admit_k (k : caller) := admit_one LD AA (k_eff k) (k_auth k) (k_now k) (k_origin k).
Definition readable (k : caller) (x : element) : bool :=
  match may_read LD AA (k_eff k) (k_auth k) (k_now k) x with Some _ => true | None => false end.

Definition find_elem (U : list element) (id : string) : option element :=
  find (fun x => String.eqb (el_id x) id) U.

(* candidates(): every element of the kind goes through admit; admitted views are kept in order *)
Fixpoint scan (k : caller) (U : list element) (kind : string) (g : option N) : list view * option N :=
  match U with
  | [] => ([], g)
  | x :: r =>
      if String.eqb (el_kind x) kind then
        match admit_k k g (Some x) with
        | (Some v, g') => let '(vs, g'') := scan k r kind g' in (v :: vs, g'')
        | (None, g') => scan k r kind g'
        end
      else scan k r kind g
  end.

Fixpoint run {R} (k : caller) (U : list element) (p : prog R) (g : option N) : R * option N :=
  match p with
  | Ret r => (r, g)
  | Load id kont => let '(v, g') := admit_k k g (find_elem U id) in run k U (kont v) g'
  | Scan kind kont => let '(vs, g') := scan k U kind g in run k U (kont vs) g'
  end.

Definition restrict (k : caller) (U : list element) : list element := filter (readable k) U.

Lemma admit_unreadable k g x : readable k x = false -> admit_k k g (Some x) = (None, g).
Proof.
  unfold readable, admit_k, admit_one. destruct (may_read LD AA _ _ _ x); [discriminate|reflexivity].
Qed.

Lemma find_restrict k U id :
  NoDup (map el_id U) ->
  admit_k k = admit_k k ->
  forall g, admit_k k g (find_elem (restrict k U) id) = admit_k k g (find_elem U id).
Proof.
  intros ND _ g. unfold restrict. induction U as [|x U IH]; simpl; [reflexivity|].
  inversion ND as [|? ? Hnot ND']; subst.
  destruct (readable k x) eqn:Rd; simpl.
  - destruct (String.eqb (el_id x) id); [reflexivity|]. apply IH. exact ND'.
  - destruct (String.eqb (el_id x) id) eqn:E.
    + (* the hidden element is the one asked for: afterwards the id is absent *)
      apply String.eqb_eq in E. subst id.
      rewrite (admit_unreadable _ _ _ Rd).
      assert (Nf : find_elem (filter (readable k) U) (el_id x) = None).
      { unfold find_elem. destruct (find _ (filter (readable k) U)) eqn:F; [|reflexivity].
        apply find_some in F as [Fin Fe]. apply String.eqb_eq in Fe.
        apply filter_In in Fin as [Fin _]. exfalso. apply Hnot. rewrite <- Fe. apply in_map. exact Fin. }
      unfold find_elem in Nf. unfold find_elem. rewrite Nf. reflexivity.
    + apply IH. exact ND'.
Qed.

Lemma scan_restrict k U kind g : scan k (restrict k U) kind g = scan k U kind g.
Proof.
  unfold restrict. revert g. induction U as [|x U IH]; intros g; [reflexivity|].
  cbn [filter]. destruct (readable k x) eqn:Rd.
  - cbn [scan]. destruct (String.eqb (el_kind x) kind); [|apply IH].
    destruct (admit_k k g (Some x)) as [[v|] g']; rewrite IH; reflexivity.
  - cbn [scan]. destruct (String.eqb (el_kind x) kind); [|apply IH].
    rewrite (admit_unreadable _ _ _ Rd). apply IH.
Qed.

(* Unreadable elements are invisible: any evaluator, any store. *)
Theorem noninterference {R} (k : caller) (U : list element) (p : prog R) (g : option N) :
  NoDup (map el_id U) -> run k U p g = run k (restrict k U) p g.
Proof.
  intros ND. revert g. induction p as [r | id kont IH | kind kont IH]; intros g; cbn [run].
  - reflexivity.
  - rewrite (find_restrict k U id ND eq_refl g).
    destruct (admit_k k g (find_elem U id)) as [v g']. apply IH.
  - rewrite scan_restrict. destruct (scan k U kind g) as [vs g']. apply IH.
Qed.

(* Two callers whose admitted views agree on a store get the same answers from it. *)
Lemma run_same_views {R} (k k' : caller) (U : list element) (p : prog R) (g : option N) :
  (forall x g, In x U -> admit_k k g (Some x) = admit_k k' g (Some x)) ->
  run k U p g = run k' U p g.
Proof.
  intros H.
  assert (Hf : forall id g, admit_k k g (find_elem U id) = admit_k k' g (find_elem U id)).
  { intros id g0. unfold find_elem. destruct (find _ U) eqn:F; [|reflexivity].
    apply find_some in F as [Fin _]. apply H. exact Fin. }
  assert (Hs : forall kind g, scan k U kind g = scan k' U kind g).
  { intros kind. clear Hf. induction U as [|x U IH]; intros g0; [reflexivity|]. cbn [scan].
    assert (H' : forall x0 g1, In x0 U -> admit_k k g1 (Some x0) = admit_k k' g1 (Some x0))
      by (intros; apply H; right; assumption).
    destruct (String.eqb (el_kind x) kind); [|apply IH; exact H'].
    rewrite (H x g0 (or_introl eq_refl)).
    destruct (admit_k k' g0 (Some x)) as [[v|] g']; rewrite (IH H'); reflexivity. }
  revert g. induction p as [r | id kont IH | kind kont IH]; intros g; cbn [run].
  - reflexivity.
  - rewrite Hf. destruct (admit_k k' g (find_elem U id)) as [v g']. apply IH.
  - rewrite Hs. destruct (scan k' U kind g) as [vs g']. apply IH.
Qed.

(* ... as if the unreadable elements did not exist, even to the owner: when the caller's
   decisions carry no narrowing on what it may read (same views as the reference caller on the
   readable part), its answers on U are the reference caller's answers on the restricted store. *)
Theorem noninterference_owner {R} (k owner : caller) (U : list element) (p : prog R) (g : option N) :
  NoDup (map el_id U) ->
  (forall x g, In x U -> readable k x = true -> admit_k k g (Some x) = admit_k owner g (Some x)) ->
  run k U p g = run owner (restrict k U) p g.
Proof.
  intros ND H. rewrite (noninterference k U p g ND). apply run_same_views.
  intros x g0 Hin. apply filter_In in Hin as [Hin Rd]. apply H; assumption.
Qed.

(* Masked fields: two stores whose elements differ only in what the caller's decisions redact
   (pointwise equal admitted views, same ids and kinds) are indistinguishable — FILTER, ORDER BY
   and row membership included, because the evaluator only ever sees the redacted view. *)
Definition same_admitted (k : caller) (x x' : element) : Prop :=
  el_id x = el_id x' /\ el_kind x = el_kind x' /\
  forall g, admit_k k g (Some x) = admit_k k g (Some x').

Lemma find_pointwise k U U' id g :
  Forall2 (same_admitted k) U U' ->
  admit_k k g (find_elem U id) = admit_k k g (find_elem U' id).
Proof.
  intros F. induction F as [|x x' U U' (Ei & Ek & Ea) F IH]; simpl; [reflexivity|].
  rewrite <- Ei. destruct (String.eqb (el_id x) id); [apply Ea | apply IH].
Qed.

Lemma scan_pointwise k U U' kind g :
  Forall2 (same_admitted k) U U' -> scan k U kind g = scan k U' kind g.
Proof.
  intros F. revert g. induction F as [|x x' U U' (Ei & Ek & Ea) F IH]; intros g; [reflexivity|]. cbn [scan].
  rewrite <- Ek. destruct (String.eqb (el_kind x) kind); [|apply IH].
  rewrite <- Ea. destruct (admit_k k g (Some x)) as [[v|] g']; rewrite IH; reflexivity.
Qed.

Theorem masked_fields_not_inferable {R} (k : caller) (U U' : list element) (p : prog R) (g : option N) :
  Forall2 (same_admitted k) U U' -> run k U p g = run k U' p g.
Proof.
  intros F. revert g. induction p as [r | id kont IH | kind kont IH]; intros g; cbn [run].
  - reflexivity.
  - rewrite (find_pointwise k U U' id g F).
    destruct (admit_k k g (find_elem U' id)) as [v g']. apply IH.
  - rewrite (scan_pointwise k U U' kind g F). destruct (scan k U' kind g) as [vs g']. apply IH.
Qed.

(* what a field mask hides really is hidden: elements that differ only in masked members and
   (without read_raw_origin) in engine origin have the same admitted view *)
Lemma masked_members_same_admitted k x x' c :
  el_id x = el_id x' -> el_kind x = el_kind x' -> el_ref x = el_ref x' -> el_class x = el_class x' ->
  may_read LD AA (k_eff k) (k_auth k) (k_now k) x = Some c ->
  cs_fields c <> [] ->
  filter (fun kv => str_in (fst kv) ALWAYS_VISIBLE || str_in (fst kv) (cs_fields c)) (el_members x) =
  filter (fun kv => str_in (fst kv) ALWAYS_VISIBLE || str_in (fst kv) (cs_fields c)) (el_members x') ->
  (k_origin k = false \/ str_in "_system" (cs_fields c) = false \/ el_origin x = el_origin x') ->
  same_admitted k x x'.
Proof.
  intros Ei Ek Er Ec M Hf Hm Ho. split; [exact Ei|]. split; [exact Ek|]. intros g.
  unfold admit_k, admit_one.
  assert (M' : may_read LD AA (k_eff k) (k_auth k) (k_now k) x' = Some c).
  { unfold may_read, res_of_element in *. rewrite <- Ei, <- Ek, <- Er, <- Ec. exact M. }
  rewrite M, M'. f_equal. f_equal. unfold redact.
  destruct (is_empty (cs_fields c)) eqn:E; [apply is_empty_nil in E; contradiction|].
  rewrite Hm, Ei. f_equal.
  destruct Ho as [Ho | [Ho | Ho]].
  - rewrite Ho. reflexivity.
  - rewrite Ho. reflexivity.
  - rewrite Ho. reflexivity.
Qed.


(* A read bound to a past coordinate (AS OF): Context::load / candidates hand the row as it stood
   then to admit, after judging the row as it stands now (readable_now).  An element the caller
   may not read now yields nothing, whatever its past rows contained or were classified as. *)
Definition admit_hist (k : caller) (g : option N) (past now_row : option element) : option view * option N :=
  match past with
  | None => (None, g)
  | Some x =>
      match now_row with
      | Some c => if readable k c then admit_k k g (Some x) else (None, g)
      | None => admit_k k g (Some x)
      end
  end.

Lemma hidden_now_hidden_then k g past c :
  readable k c = false -> admit_hist k g past (Some c) = (None, g).
Proof. intros H. unfold admit_hist. destruct past; [rewrite H|]; reflexivity. Qed.

(* two histories of a now-unreadable element are indistinguishable at every coordinate *)
Lemma past_of_hidden_not_inferable k g past past' c :
  readable k c = false -> admit_hist k g past (Some c) = admit_hist k g past' (Some c).
Proof. intros H. rewrite !hidden_now_hidden_then by exact H. reflexivity. Qed.

End NI.
