(* C19 — executable model of rs/anda_cognitive_nexus/src/governance/decision.rs
   (EffectiveAuthority::resolve_at_depth, resolve_delegation, resolve_named_chain,
   authorize, candidate_matches, statement_matches, conditions_hold, covers),
   the `contains` relations of governance/rows.rs, may_read, Context::admit of
   kql/mod.rs and redact::apply.  Branch order follows the Rust.  No proofs here. *)
From Coq Require Import List Ascii String Bool Arith NArith.
Import ListNotations.
Open Scope nat_scope.
Open Scope list_scope.

Definition str_in (s : string) (l : list string) : bool := existsb (String.eqb s) l.
Definition is_empty {A} (l : list A) : bool := match l with [] => true | _ => false end.
Definition sempty (s : string) : bool := String.eqb s EmptyString.

(* ------------------------------------------------------------------ ranks *)
(* The four ladders are generated tables (gen/Gen_Gov.v): name -> rung, and the
   rung of a name that is not in the table. *)
Record ladder := { ld_table : list (string * N); ld_other : N }.
Fixpoint lookup (t : list (string * N)) (s : string) : option N :=
  match t with
  | [] => None
  | (k, v) :: r => if String.eqb k s then Some v else lookup r s
  end.
Definition rank (l : ladder) (s : string) : N :=
  match lookup (ld_table l) s with Some n => n | None => ld_other l end.

Record ladders := {
  L_class : ladder;      (* classification::rank *)
  L_authority : ladder;  (* authority::rank *)
  L_strength : ladder;   (* auth_strength::rank *)
  L_passur : ladder      (* purpose_assurance::rank *)
}.

(* ------------------------------------------------------------------ rows.rs shapes *)
Record scope := mkScope {
  sc_kinds : list string; sc_refs : list string;
  sc_classes : list string; sc_elems : list string }.
Record conds := mkConds {
  cd_purpose : list string; cd_min_passur : string; cd_min_strength : string;
  cd_from : string; cd_until : string }.
Record constr := mkConstr {
  cs_fields : list string; cs_max_results : option N;
  cs_max_infl : string; cs_max_class : string; cs_export : bool }.
Record oblig := mkOblig { ob_audit : bool; ob_approvals : N; ob_redaction : string }.

Definition scope_default := mkScope [] [] [] [].
Definition conds_default := mkConds [] EmptyString EmptyString EmptyString EmptyString.
Definition constr_default := mkConstr [] None EmptyString EmptyString false.

Definition list_str_eqb (a b : list string) : bool :=
  (fix go a b := match a, b with
                 | [], [] => true
                 | x :: a', y :: b' => String.eqb x y && go a' b'
                 | _, _ => false end) a b.
Definition scope_eqb (a b : scope) : bool :=
  list_str_eqb (sc_kinds a) (sc_kinds b) && list_str_eqb (sc_refs a) (sc_refs b) &&
  list_str_eqb (sc_classes a) (sc_classes b) && list_str_eqb (sc_elems a) (sc_elems b).
Definition optN_eqb (a b : option N) : bool :=
  match a, b with Some x, Some y => N.eqb x y | None, None => true | _, _ => false end.
Definition constr_eqb (a b : constr) : bool :=
  list_str_eqb (cs_fields a) (cs_fields b) && optN_eqb (cs_max_results a) (cs_max_results b) &&
  String.eqb (cs_max_infl a) (cs_max_infl b) && String.eqb (cs_max_class a) (cs_max_class b) &&
  Bool.eqb (cs_export a) (cs_export b).

(* rows.rs: narrows / at_least / at_most / within_ceiling *)
Definition narrows (parent child : list string) : bool :=
  if is_empty parent then true
  else negb (is_empty child) && forallb (fun v => str_in v parent) child.
Definition at_least (parent child : string) : bool :=
  sempty parent || (negb (sempty child) && String.leb parent child).
Definition at_most (parent child : string) : bool :=
  sempty parent || (negb (sempty child) && String.leb child parent).
Definition within_ceiling (l : ladder) (parent child : string) : bool :=
  sempty parent || (negb (sempty child) && N.leb (rank l child) (rank l parent)).

Inductive res (A : Type) := Ok (a : A) | Err.
Arguments Ok {A} a. Arguments Err {A}.

Section WithLadders.
Variable LD : ladders.

Definition scope_contains (p c : scope) : bool :=
  narrows (sc_kinds p) (sc_kinds c) && narrows (sc_refs p) (sc_refs c) &&
  narrows (sc_classes p) (sc_classes c) && narrows (sc_elems p) (sc_elems c).
Definition conds_contains (p c : conds) : bool :=
  narrows (cd_purpose p) (cd_purpose c) &&
  N.leb (rank (L_passur LD) (cd_min_passur p)) (rank (L_passur LD) (cd_min_passur c)) &&
  N.leb (rank (L_strength LD) (cd_min_strength p)) (rank (L_strength LD) (cd_min_strength c)) &&
  at_least (cd_from p) (cd_from c) && at_most (cd_until p) (cd_until c).
Definition constr_contains (p c : constr) : bool :=
  let bounded := match cs_max_results p with
                 | None => true
                 | Some pm => match cs_max_results c with Some cm => N.leb cm pm | None => false end
                 end in
  narrows (cs_fields p) (cs_fields c) && bounded &&
  within_ceiling (L_authority LD) (cs_max_infl p) (cs_max_infl c) &&
  within_ceiling (L_class LD) (cs_max_class p) (cs_max_class c) &&
  (cs_export p || negb (cs_export c)).

(* ------------------------------------------------------------------ decision.rs *)
Record resource := mkRes { r_kind : string; r_ref : string; r_class : string; r_elem : string }.
Definition res_default := mkRes EmptyString EmptyString EmptyString EmptyString.
Definition is_space_scope (r : resource) : bool :=
  sempty (r_kind r) && sempty (r_ref r) && sempty (r_class r) && sempty (r_elem r).

(* A Delegation identifier as the code reads it: `row_id_of` parses the digits after
   the last ':' and `delegation_id(n)` is the canonical spelling. *)
Inductive dref :=
| DNone                     (* the empty string *)
| DCanon (n : N)            (* exactly "kip:delegation:n" *)
| DOther (parsed : option N)(* any other non-empty string, with what row_id_of makes of it *).
Definition dref_row (d : dref) : option N :=
  match d with DNone => None | DCanon n => Some n | DOther p => p end.
Definition dref_is_canon (d : dref) (n : N) : bool :=
  match d with DCanon m => N.eqb m n | _ => false end.

Record authctx := mkAuth {
  a_principal : string; a_strength : string; a_purpose : string; a_passur : string;
  a_chain : list dref }.

Inductive cand_id :=
| IdOwner (p : string) | IdGrant (n : N) | IdDeleg (n : N) | IdPolicy (p : string) (v : N).

Record candidate := mkCand {
  c_id : cand_id; c_actions : list string; c_scope : scope; c_conds : conds;
  c_constr : constr; c_deleg_allowed : bool }.

Record statement := mkStmt {
  st_effect : string; st_principals : list string; st_groups : list string;
  st_actions : list string; st_resource : scope; st_conds : conds;
  st_constr : constr; st_oblig : oblig }.

(* control-plane rows (only the columns resolve reads) *)
Record principal := mkPrincipal { p_id : string; p_status : string }.
Record group := mkGroup { g_id : string; g_members : list string; g_status : string }.
Record grant := mkGrant {
  gr_row : N; gr_space : string; gr_principal : string; gr_group : string;
  gr_actions : list string; gr_scope : scope; gr_conds : conds; gr_constr : constr;
  gr_deleg_allowed : bool; gr_status : string }.
Record delegation := mkDeleg {
  d_row : N; d_space : string; d_delegator : string; d_delegate : string;
  d_actions : list string; d_scope : scope; d_conds : conds; d_constr : constr;
  d_parent : dref; d_may_redelegate : bool; d_status : string }.
Record policy := mkPolicy { po_id : string; po_version : N; po_statements : list statement }.
Record space := mkSpace {
  s_id : string; s_owner : string; s_owners : list string; s_status : string;
  s_policy_id : string; s_default_class : string; s_audit_mode : string }.

(* rows are kept in row-id order, which is the order query_all_ids returns them in *)
Record cplane := mkCP {
  cp_space : space; cp_principals : list principal; cp_groups : list group;
  cp_grants : list grant; cp_delegs : list delegation; cp_policies : list policy }.

Definition ACTIVE : string := "active".

Record eff := mkEff {
  e_space : space; e_principal : principal; e_groups : list string; e_owner : bool;
  e_policy : option policy; e_cands : list candidate }.


(* governance/store.rs lookups *)
Definition find_principal (cp : cplane) (id : string) : option principal :=
  find (fun p => String.eqb (p_id p) id) (cp_principals cp).
Definition groups_of (cp : cplane) (pid : string) : list string :=
  map g_id (filter (fun g => str_in pid (g_members g) && String.eqb (g_status g) ACTIVE) (cp_groups cp)).
Definition grants_for (cp : cplane) (sp pid : string) (groups : list string) : list grant :=
  filter (fun g => String.eqb (gr_space g) sp && String.eqb (gr_principal g) pid &&
                   String.eqb (gr_status g) ACTIVE) (cp_grants cp)
  ++ flat_map (fun grp =>
       filter (fun g => String.eqb (gr_space g) sp && String.eqb (gr_group g) grp &&
                        String.eqb (gr_status g) ACTIVE) (cp_grants cp)) groups.
Definition delegations_to (cp : cplane) (sp pid : string) : list delegation :=
  filter (fun d => String.eqb (d_space d) sp && String.eqb (d_delegate d) pid &&
                   String.eqb (d_status d) ACTIVE) (cp_delegs cp).
Definition delegation_by_row (cp : cplane) (n : N) : option delegation :=
  find (fun d => N.eqb (d_row d) n) (cp_delegs cp).
(* active_policy: rows.sort_by_key(version); rows.pop() *)
Definition active_policy (cp : cplane) (id : string) : option policy :=
  fold_left (fun best p =>
      if String.eqb (po_id p) id then
        match best with
        | None => Some p
        | Some b => if N.leb (po_version b) (po_version p) then Some p else Some b
        end
      else best) (cp_policies cp) None.

Definition candidate_of_grant (g : grant) : candidate :=
  mkCand (IdGrant (gr_row g)) (gr_actions g) (gr_scope g) (gr_conds g) (gr_constr g)
         (gr_deleg_allowed g).

(* resolve_at_depth, given the resolver for one Delegation at the same depth *)
Definition resolve_with (rd : delegation -> res (option candidate))
           (cp : cplane) (pid : string) (named : option (res (list candidate))) : res eff :=
  let sp := cp_space cp in
  match find_principal cp pid with
  | None => Err
  | Some pr =>
      let live := String.eqb (p_status pr) ACTIVE in
      let groups := if live then groups_of cp pid else [] in
      let owner := live && (String.eqb (s_owner sp) pid || str_in pid (s_owners sp)) in
      let cands : res (list candidate) :=
        if live then
          match named with
          | None =>
              let gs := map candidate_of_grant (grants_for cp (s_id sp) pid groups) in
              fold_left (fun acc d =>
                  match acc with
                  | Err => Err
                  | Ok l => match rd d with
                            | Err => Err
                            | Ok None => Ok l
                            | Ok (Some c) => Ok (l ++ [c])
                            end
                  end) (delegations_to cp (s_id sp) pid) (Ok gs)
          | Some r => r
          end
        else Ok [] in
      match cands with
      | Err => Err
      | Ok cs =>
          let pol := if sempty (s_policy_id sp) then None else active_policy cp (s_policy_id sp) in
          Ok (mkEff sp pr groups owner pol cs)
      end
  end.

(* resolve_delegation; fuel = MAX_DELEGATION_DEPTH - depth *)
Fixpoint resolve_delegation (fuel : nat) (perm_names : list string) (cp : cplane)
         (d : delegation) : res (option candidate) :=
  match fuel with
  | O => Ok None
  | S f =>
      let sp := s_id (cp_space cp) in
      match d_parent d with
      | DNone =>
          match resolve_with (resolve_delegation f perm_names cp) cp (d_delegator d) None with
          | Err => Err
          | Ok parent =>
              let actions := filter (fun a =>
                  str_in a perm_names &&
                  (existsb (fun c => c_deleg_allowed c && str_in a (c_actions c) &&
                                     scope_contains (c_scope c) (d_scope d) &&
                                     conds_contains (c_conds c) (d_conds d) &&
                                     constr_contains (c_constr c) (d_constr d)) (e_cands parent)
                   || e_owner parent)) (d_actions d) in
              if is_empty actions then Ok None
              else Ok (Some (mkCand (IdDeleg (d_row d)) actions (d_scope d) (d_conds d) (d_constr d) false))
          end
      | pd =>
          match dref_row pd with
          | None => Ok None
          | Some pid =>
              match delegation_by_row cp pid with
              | None => Ok None
              | Some linked =>
                  if negb (String.eqb (d_status linked) ACTIVE)
                     || negb (String.eqb (d_space linked) sp)
                     || negb (String.eqb (d_delegate linked) (d_delegator d))
                     || negb (d_may_redelegate linked)
                  then Ok None
                  else
                    match resolve_delegation f perm_names cp linked with
                    | Err => Err
                    | Ok None => Ok None
                    | Ok (Some inh) =>
                        if negb (scope_contains (c_scope inh) (d_scope d))
                           || negb (conds_contains (c_conds inh) (d_conds d))
                           || negb (constr_contains (c_constr inh) (d_constr d))
                        then Ok None
                        else
                          let actions := filter (fun a => str_in a (c_actions inh)) (d_actions d) in
                          if is_empty actions then Ok None
                          else Ok (Some (mkCand (IdDeleg (d_row d)) actions (d_scope d) (d_conds d)
                                                (d_constr d) false))
                    end
              end
          end
      end
  end.

(* resolve_named_chain *)
Definition resolve_named_chain (fuel : nat) (perm_names : list string) (cp : cplane)
           (pid : string) (chain : list dref) : res (list candidate) :=
  let sp := s_id (cp_space cp) in
  let step (acc : res (option delegation)) (id : dref) : res (option delegation) :=
    match acc with
    | Err => Err
    | Ok previous =>
        match dref_row id with
        | None => Err
        | Some n =>
            match delegation_by_row cp n with
            | None => Err
            | Some row =>
                if negb (String.eqb (d_status row) ACTIVE) || negb (String.eqb (d_space row) sp) then Err
                else match previous with
                     | Some parent =>
                         if negb (dref_is_canon (d_parent row) (d_row parent)) then Err
                         else if negb (d_may_redelegate parent) then Err
                         else Ok (Some row)
                     | None => Ok (Some row)
                     end
            end
        end
    end in
  match fold_left step chain (Ok None) with
  | Err => Err
  | Ok None => Ok []
  | Ok (Some last) =>
      if negb (String.eqb (d_delegate last) pid) then Err
      else match resolve_delegation fuel perm_names cp last with
           | Err => Err
           | Ok None => Ok []
           | Ok (Some c) => Ok [c]
           end
  end.

(* EffectiveAuthority::resolve *)
Definition resolve (maxdepth : nat) (perm_names : list string) (cp : cplane) (a : authctx) : res eff :=
  let named :=
    match a_chain a with
    | [] => None
    | ch => Some (resolve_named_chain maxdepth perm_names cp (a_principal a) ch)
    end in
  (* the chain is resolved only for a live Principal; resolve_with ignores [named] otherwise,
     and the Rust evaluates it lazily inside `if live`, so an error in it must not surface
     for a Principal that is not live *)
  match find_principal cp (a_principal a) with
  | None => Err
  | Some pr =>
      if String.eqb (p_status pr) ACTIVE
      then resolve_with (resolve_delegation maxdepth perm_names cp) cp (a_principal a) named
      else resolve_with (resolve_delegation maxdepth perm_names cp) cp (a_principal a) None
  end.

(* covers / scope_matches / reaches_classification / conditions_hold *)
Definition covers (bound : list string) (v : string) : bool :=
  is_empty bound || (negb (sempty v) && str_in v bound).
Definition scope_matches (s : scope) (r : resource) : bool :=
  covers (sc_kinds s) (r_kind r) && covers (sc_refs s) (r_ref r) &&
  covers (sc_classes s) (r_class r) && covers (sc_elems s) (r_elem r).
Definition reaches_classification (c : constr) (r : resource) : bool :=
  sempty (cs_max_class c) || N.leb (rank (L_class LD) (r_class r)) (rank (L_class LD) (cs_max_class c)).
Definition conditions_hold (c : conds) (a : authctx) (now : string) : bool :=
  if negb (sempty (cd_from c)) && String.ltb now (cd_from c) then false
  else if negb (sempty (cd_until c)) && String.leb (cd_until c) now then false
  else if N.ltb (rank (L_strength LD) (a_strength a)) (rank (L_strength LD) (cd_min_strength c)) then false
  else if N.ltb (rank (L_passur LD) (a_passur a)) (rank (L_passur LD) (cd_min_passur c)) then false
  else if negb (is_empty (cd_purpose c)) && negb (str_in (a_purpose a) (cd_purpose c)) then false
  else true.

Definition candidate_matches (c : candidate) (perm : string) (r : resource) (a : authctx) (now : string) : bool :=
  str_in perm (c_actions c) &&
  (is_space_scope r || (scope_matches (c_scope c) r && reaches_classification (c_constr c) r)) &&
  conditions_hold (c_conds c) a now.

Definition statement_matches (e : eff) (s : statement) (perm : string) (r : resource)
           (a : authctx) (now : string) : bool :=
  let pid := p_id (e_principal e) in
  if negb (is_empty (st_principals s)) && negb (str_in pid (st_principals s)) then false
  else if negb (is_empty (st_groups s)) && negb (existsb (fun g => str_in g (e_groups e)) (st_groups s)) then false
  else if negb (is_empty (st_actions s)) && negb (str_in perm (st_actions s)) then false
  else (is_space_scope r || scope_matches (st_resource s) r) && conditions_hold (st_conds s) a now.

Definition is_unrestricted (c : candidate) : bool :=
  scope_eqb (c_scope c) scope_default && is_empty (cs_fields (c_constr c)) &&
  sempty (cs_max_class (c_constr c)) &&
  match cs_max_results (c_constr c) with None => true | Some _ => false end.

Definition restrictiveness (c : candidate) : nat :=
  List.length (sc_kinds (c_scope c)) + List.length (sc_refs (c_scope c)) +
  List.length (sc_classes (c_scope c)) + List.length (sc_elems (c_scope c)) +
  List.length (cs_fields (c_constr c)) +
  (if cs_export (c_constr c) then 0 else 1) +
  (match cs_max_results (c_constr c) with Some _ => 1 | None => 0 end) +
  (if sempty (cs_max_class (c_constr c)) then 0 else 1).

(* Iterator::min_by_key returns the first minimum *)
Fixpoint min_by_restr (best : candidate) (l : list candidate) : candidate :=
  match l with
  | [] => best
  | c :: r => if Nat.ltb (restrictiveness c) (restrictiveness best) then min_by_restr c r
              else min_by_restr best r
  end.
Definition least_restrictive (l : list candidate) : option candidate :=
  match l with [] => None | c :: r => Some (min_by_restr c r) end.

Definition oblig_merge (a b : oblig) : oblig :=
  mkOblig (ob_audit a || ob_audit b) (N.max (ob_approvals a) (ob_approvals b))
          (if sempty (ob_redaction b) then ob_redaction a else ob_redaction b).

Inductive decision := Allow | AllowWithConstraints | Deny | RequireApproval.
Definition permitted (d : decision) : bool :=
  match d with Allow | AllowWithConstraints => true | _ => false end.

Record authz := mkAuthz {
  z_decision : decision; z_constr : constr; z_oblig : oblig;
  z_used : list cand_id; z_unrestricted : bool }.

Definition default_classification (e : eff) : string :=
  if sempty (s_default_class (e_space e)) then "internal"%string else s_default_class (e_space e).

Variable always_audited : list string.

Definition baseline_obligations (e : eff) (perm : string) : oblig :=
  mkOblig (str_in perm always_audited || String.eqb (s_audit_mode (e_space e)) "verbose") 0 EmptyString.

Definition statements_of (e : eff) : list statement :=
  match e_policy e with Some p => po_statements p | None => [] end.

Definition policy_ident (e : eff) : string * N :=
  match e_policy e with Some p => (po_id p, po_version p) | None => (EmptyString, 0%N) end.

Definition allows_of (e : eff) (perm : string) (r : resource) (a : authctx) (now : string) : list candidate :=
  (if e_owner e
   then [mkCand (IdOwner (p_id (e_principal e))) [] scope_default conds_default
                (mkConstr [] None EmptyString EmptyString true) true]
   else [])
  ++ filter (fun c => candidate_matches c perm r a now) (e_cands e)
  ++ map (fun s => mkCand (IdPolicy (fst (policy_ident e)) (snd (policy_ident e)))
                          (st_actions s) (st_resource s) (st_conds s) (st_constr s) false)
         (filter (fun s => String.eqb (st_effect s) "allow" && statement_matches e s perm r a now)
                 (statements_of e)).

(* a resource that names something but no classification carries the Space default *)
Definition effective_resource (e : eff) (r0 : resource) : resource :=
  if is_space_scope r0 || negb (sempty (r_class r0)) then r0
  else mkRes (r_kind r0) (r_ref r0) (default_classification e) (r_elem r0).

Definition matching_allow_statements (e : eff) (perm : string) (r : resource) (a : authctx) (now : string) :=
  filter (fun s => String.eqb (st_effect s) "allow" && statement_matches e s perm r a now) (statements_of e).

Definition authorize (e : eff) (perm : string) (r0 : resource) (a : authctx) (now : string) : authz :=
  let deny := mkAuthz Deny constr_default (baseline_obligations e perm) [] false in
  if negb (String.eqb (p_status (e_principal e)) ACTIVE) then deny
  else if String.eqb (s_status (e_space e)) "suspended" then deny
  else
    let r := effective_resource e r0 in
    if existsb (fun s => String.eqb (st_effect s) "deny" && statement_matches e s perm r a now)
               (statements_of e)
    then deny
    else
      let allows := allows_of e perm r a now in
      let obligations :=
        fold_left (fun o s => oblig_merge o (st_oblig s))
                  (filter (fun s => String.eqb (st_effect s) "allow" && statement_matches e s perm r a now)
                          (statements_of e))
                  (baseline_obligations e perm) in
      match least_restrictive allows with
      | None => deny
      | Some chosen =>
          if N.ltb 0 (ob_approvals obligations)
          then mkAuthz RequireApproval (c_constr chosen) obligations [c_id chosen] false
          else
            let constrained := negb (constr_eqb (c_constr chosen) constr_default) in
            mkAuthz (if constrained then AllowWithConstraints else Allow)
                    (c_constr chosen) obligations [c_id chosen] (is_unrestricted chosen)
      end.

(* ------------------------------------------------------------------ read path *)
(* An element as authorization sees it (ResourceContext::of_element) plus its
   rendered view: a list of top-level members; "_system" carries the origin. *)
Record element := mkElem {
  el_id : string; el_kind : string; el_ref : string; el_class : string;
  el_members : list (string * string);   (* top-level member name -> rendered value *)
  el_origin : string                     (* _system.origin, rendered *) }.

Definition res_of_element (x : element) : resource :=
  mkRes (el_kind x) (el_ref x) (el_class x) (el_id x).

Definition may_read (e : eff) (a : authctx) (now : string) (x : element) : option constr :=
  let z := authorize e "read" (res_of_element x) a now in
  if permitted (z_decision z) then Some (z_constr z) else None.

Definition ALWAYS_VISIBLE : list string := ["id"; "kind"; "space_id"]%string.

Record view := mkView { v_id : string; v_members : list (string * string); v_origin : option string }.

(* redact::apply on the rendered view *)
Definition redact (x : element) (c : constr) (read_origin : bool) : view :=
  let origin := if read_origin then Some (el_origin x) else None in
  if is_empty (cs_fields c) then mkView (el_id x) (el_members x) origin
  else mkView (el_id x)
              (filter (fun kv => str_in (fst kv) ALWAYS_VISIBLE || str_in (fst kv) (cs_fields c)) (el_members x))
              (if str_in "_system" (cs_fields c) then origin else None).

(* Context::admit: the governed limit is tightened by every admitted element *)
Definition tighten (g : option N) (c : constr) : option N :=
  match cs_max_results c with
  | None => g
  | Some l => Some (match g with None => l | Some cur => N.min cur l end)
  end.
Definition admit_one (e : eff) (a : authctx) (now : string) (read_origin : bool)
           (g : option N) (x : option element) : option view * option N :=
  match x with
  | None => (None, g)
  | Some x => match may_read e a now x with
              | None => (None, g)
              | Some c => (Some (redact x c read_origin), tighten g c)
              end
  end.

End WithLadders.
