(* C19 — lemmas about authorize / resolve (decision.rs). *)
From Coq Require Import List Ascii String Bool Arith NArith Lia OrderedTypeEx.
From Verif Require Import Gov.Model.
Import ListNotations.
Open Scope list_scope.

(* ------------------------------------------------------------------ strings *)
Lemma sleb_refl s : String.leb s s = true.
Proof.
  unfold String.leb. destruct (String.compare s s) eqn:E; auto.
  pose proof (String.compare_antisym s s) as H. rewrite E in H. discriminate.
Qed.

Lemma scompare_lt_trans a b c :
  String.compare a b = Lt -> String.compare b c = Lt -> String.compare a c = Lt.
Proof.
  intros H1 H2. apply String_as_OT.cmp_lt. apply String_as_OT.cmp_lt in H1, H2.
  eapply String_as_OT.lt_trans; eauto.
Qed.

Lemma sleb_trans a b c : String.leb a b = true -> String.leb b c = true -> String.leb a c = true.
Proof.
  unfold String.leb. intros H1 H2.
  destruct (String.compare a b) eqn:E1; try discriminate;
  destruct (String.compare b c) eqn:E2; try discriminate.
  - apply String.compare_eq_iff in E1. apply String.compare_eq_iff in E2. subst.
    destruct (String.compare c c) eqn:E; auto.
    pose proof (String.compare_antisym c c) as H. rewrite E in H. discriminate.
  - apply String.compare_eq_iff in E1. subst. rewrite E2. reflexivity.
  - apply String.compare_eq_iff in E2. subst. rewrite E1. reflexivity.
  - rewrite (scompare_lt_trans _ _ _ E1 E2). reflexivity.
Qed.

Lemma sltb_leb_false a b : String.ltb a b = true -> String.leb b a = false.
Proof.
  unfold String.ltb, String.leb. intros H.
  destruct (String.compare a b) eqn:E; try discriminate.
  rewrite String.compare_antisym, E. reflexivity.
Qed.

Lemma sltb_false_leb a b : String.ltb a b = false -> String.leb b a = true.
Proof.
  unfold String.ltb, String.leb. intros H.
  rewrite String.compare_antisym. destruct (String.compare a b); simpl; auto; discriminate.
Qed.

Lemma str_in_In s l : str_in s l = true <-> In s l.
Proof.
  unfold str_in. rewrite existsb_exists. split.
  - intros [x [Hx E]]. apply String.eqb_eq in E. subst. exact Hx.
  - intros H. exists s. split; auto. apply String.eqb_refl.
Qed.

Lemma is_empty_nil {A} (l : list A) : is_empty l = true <-> l = [].
Proof. destruct l; simpl; split; intros; congruence. Qed.

(* ------------------------------------------------------------------ contains => matches *)
Lemma narrows_covers p c v : narrows p c = true -> covers c v = true -> covers p v = true.
Proof.
  unfold narrows, covers. destruct (is_empty p) eqn:Ep; [reflexivity|].
  intros Hn Hc. apply andb_true_iff in Hn as [Hne Hall]. apply negb_true_iff in Hne.
  rewrite Hne in Hc. rewrite orb_false_l in Hc. apply andb_true_iff in Hc as [Hv Hin].
  rewrite Hv. rewrite orb_false_l, andb_true_l.
  rewrite forallb_forall in Hall. apply Hall. apply str_in_In. exact Hin.
Qed.

Section WithLadders.
Variable LD : ladders.
Variable AA : list string.

Lemma scope_contains_matches p c r :
  scope_contains p c = true -> scope_matches c r = true -> scope_matches p r = true.
Proof.
  unfold scope_contains, scope_matches. intros H M.
  repeat (apply andb_true_iff in H as [H ?]). repeat (apply andb_true_iff in M as [M ?]).
  repeat (apply andb_true_iff; split); eapply narrows_covers; eauto.
Qed.

Lemma constr_contains_reaches p c r :
  constr_contains LD p c = true -> reaches_classification LD c r = true ->
  reaches_classification LD p r = true.
Proof.
  unfold constr_contains, reaches_classification, within_ceiling. intros H M.
  repeat (apply andb_true_iff in H as [H ?]).
  match goal with Hc : (sempty (cs_max_class p) || _) = true |- _ => rename Hc into HC end.
  apply orb_true_iff in HC as [HC | HC]; [rewrite HC; reflexivity|].
  apply andb_true_iff in HC as [Hne Hle]. apply negb_true_iff in Hne. rewrite Hne in M. simpl in M.
  apply orb_true_iff. right. apply N.leb_le in Hle, M. apply N.leb_le. lia.
Qed.

Lemma conds_contains_hold p c a now :
  conds_contains LD p c = true -> conditions_hold LD c a now = true -> conditions_hold LD p a now = true.
Proof.
  unfold conds_contains, conditions_hold. intros H M.
  apply andb_true_iff in H as [H Huntil]. apply andb_true_iff in H as [H Hfrom].
  apply andb_true_iff in H as [H Hstr]. apply andb_true_iff in H as [Hpur Hpa].
  destruct (negb (sempty (cd_from c)) && String.ltb now (cd_from c)) eqn:C1; try discriminate.
  destruct (negb (sempty (cd_until c)) && String.leb (cd_until c) now) eqn:C2; try discriminate.
  destruct (N.ltb (rank (L_strength LD) (a_strength a)) (rank (L_strength LD) (cd_min_strength c))) eqn:C3; try discriminate.
  destruct (N.ltb (rank (L_passur LD) (a_passur a)) (rank (L_passur LD) (cd_min_passur c))) eqn:C4; try discriminate.
  destruct (negb (is_empty (cd_purpose c)) && negb (str_in (a_purpose a) (cd_purpose c))) eqn:C5; try discriminate.
  (* from *)
  assert (G1 : negb (sempty (cd_from p)) && String.ltb now (cd_from p) = false).
  { unfold at_least in Hfrom. apply orb_true_iff in Hfrom as [E | E].
    - rewrite E. reflexivity.
    - apply andb_true_iff in E as [Ene Ele]. rewrite Ene in C1. simpl in C1.
      apply andb_false_iff. right.
      destruct (String.ltb now (cd_from p)) eqn:L; auto.
      apply sltb_leb_false in L. apply sltb_false_leb in C1.
      rewrite (sleb_trans _ _ _ Ele C1) in L. discriminate. }
  rewrite G1.
  assert (G2 : negb (sempty (cd_until p)) && String.leb (cd_until p) now = false).
  { unfold at_most in Huntil. apply orb_true_iff in Huntil as [E | E].
    - rewrite E. reflexivity.
    - apply andb_true_iff in E as [Ene Ele]. rewrite Ene in C2. simpl in C2.
      apply andb_false_iff. right.
      destruct (String.leb (cd_until p) now) eqn:L; auto.
      rewrite (sleb_trans _ _ _ Ele L) in C2. discriminate. }
  rewrite G2.
  apply N.leb_le in Hstr, Hpa. apply N.ltb_ge in C3, C4.
  assert (G3 : N.ltb (rank (L_strength LD) (a_strength a)) (rank (L_strength LD) (cd_min_strength p)) = false)
    by (apply N.ltb_ge; lia).
  assert (G4 : N.ltb (rank (L_passur LD) (a_passur a)) (rank (L_passur LD) (cd_min_passur p)) = false)
    by (apply N.ltb_ge; lia).
  rewrite G3, G4.
  assert (G5 : negb (is_empty (cd_purpose p)) && negb (str_in (a_purpose a) (cd_purpose p)) = false).
  { unfold narrows in Hpur. destruct (is_empty (cd_purpose p)) eqn:Ep; [reflexivity|].
    apply andb_true_iff in Hpur as [Hne Hall]. rewrite Hne in C5. simpl in C5.
    apply negb_false_iff in C5. apply str_in_In in C5.
    rewrite forallb_forall in Hall. rewrite (Hall _ C5). reflexivity. }
  rewrite G5. reflexivity.
Qed.

(* a candidate whose actions and bounds sit inside another's permits nothing the other does not *)
Lemma candidate_bounded c c' perm r a now :
  (str_in perm (c_actions c) = true -> str_in perm (c_actions c') = true) ->
  scope_contains (c_scope c') (c_scope c) = true ->
  conds_contains LD (c_conds c') (c_conds c) = true ->
  constr_contains LD (c_constr c') (c_constr c) = true ->
  candidate_matches LD c perm r a now = true -> candidate_matches LD c' perm r a now = true.
Proof.
  unfold candidate_matches. intros Ha Hs Hc Hk M.
  apply andb_true_iff in M as [M Mc]. apply andb_true_iff in M as [Mact Msc].
  rewrite (Ha Mact). rewrite (conds_contains_hold _ _ _ _ Hc Mc). simpl.
  rewrite andb_true_r.
  apply orb_true_iff in Msc as [Msp | Msc]; [rewrite Msp; reflexivity|].
  apply andb_true_iff in Msc as [M1 M2].
  rewrite (scope_contains_matches _ _ _ Hs M1), (constr_contains_reaches _ _ _ Hk M2).
  apply orb_true_r.
Qed.

(* ------------------------------------------------------------------ authorize *)
Notation authorize := (authorize LD AA).

Lemma inactive_denied e perm r a now :
  p_status (e_principal e) <> ACTIVE -> z_decision (authorize e perm r a now) = Deny.
Proof.
  intros H. unfold authorize, Model.authorize.
  apply String.eqb_neq in H. rewrite H. reflexivity.
Qed.

Lemma suspended_space_denied e perm r a now :
  s_status (e_space e) = "suspended"%string -> z_decision (authorize e perm r a now) = Deny.
Proof.
  intros H. unfold authorize, Model.authorize.
  destruct (negb (String.eqb (p_status (e_principal e)) ACTIVE)); [reflexivity|].
  rewrite H. reflexivity.
Qed.

Lemma deny_overrides e perm r a now s :
  In s (statements_of e) -> st_effect s = "deny"%string ->
  statement_matches LD e s perm (effective_resource e r) a now = true ->
  z_decision (authorize e perm r a now) = Deny.
Proof.
  intros Hin He Hm. unfold authorize, Model.authorize.
  destruct (negb (String.eqb (p_status (e_principal e)) ACTIVE)); [reflexivity|].
  destruct (String.eqb (s_status (e_space e)) "suspended"); [reflexivity|].
  assert (X : existsb (fun s0 => String.eqb (st_effect s0) "deny" &&
                         statement_matches LD e s0 perm (effective_resource e r) a now)
                      (statements_of e) = true).
  { apply existsb_exists. exists s. split; auto. rewrite He, Hm. reflexivity. }
  rewrite X. reflexivity.
Qed.

Lemma least_restrictive_none l : least_restrictive l = None <-> l = [].
Proof. destruct l; simpl; split; intros; congruence. Qed.

Lemma min_by_restr_in b l : In (min_by_restr b l) (b :: l).
Proof.
  revert b. induction l as [|c r IH]; intros b; simpl; auto.
  destruct (Nat.ltb (restrictiveness c) (restrictiveness b)).
  - destruct (IH c) as [E | E]; [right; left; exact E | right; right; exact E].
  - destruct (IH b) as [E | E]; [left; exact E | right; right; exact E].
Qed.

Lemma least_restrictive_in l c : least_restrictive l = Some c -> In c l.
Proof.
  destruct l as [|b r]; simpl; [discriminate|]. intros H. inversion H. apply min_by_restr_in.
Qed.

(* what an allow is: the owner, a matching Grant/Delegation candidate, or a matching allow statement *)
Definition allow_source (e : eff) (perm : string) (r : resource) (a : authctx) (now : string) : Prop :=
  e_owner e = true
  \/ (exists c, In c (e_cands e) /\ candidate_matches LD c perm r a now = true)
  \/ (exists s, In s (statements_of e) /\ st_effect s = "allow"%string /\
                statement_matches LD e s perm r a now = true).

Lemma allows_nonempty_source e perm r a now :
  allows_of LD e perm r a now <> [] -> allow_source e perm r a now.
Proof.
  unfold allows_of, allow_source. intros H.
  destruct (e_owner e) eqn:Ow; [left; reflexivity|]. simpl in H.
  destruct (filter (fun c => candidate_matches LD c perm r a now) (e_cands e)) as [|c0 l0] eqn:F.
  - simpl in H. right. right.
    destruct (filter (fun s => String.eqb (st_effect s) "allow" && statement_matches LD e s perm r a now)
                     (statements_of e)) as [|s0 l1] eqn:F2; [simpl in H; congruence|].
    assert (I : In s0 (s0 :: l1)) by (left; reflexivity). rewrite <- F2 in I.
    apply filter_In in I as [I1 I2]. apply andb_true_iff in I2 as [I2 I3].
    apply String.eqb_eq in I2. exists s0. auto.
  - right. left. assert (I : In c0 (c0 :: l0)) by (left; reflexivity). rewrite <- F in I.
    apply filter_In in I as [I1 I2]. exists c0. auto.
Qed.

Lemma default_deny e perm r a now :
  permitted (z_decision (authorize e perm r a now)) = true ->
  p_status (e_principal e) = ACTIVE /\ s_status (e_space e) <> "suspended"%string /\
  allow_source e perm (effective_resource e r) a now /\
  (forall s, In s (statements_of e) -> st_effect s = "deny"%string ->
             statement_matches LD e s perm (effective_resource e r) a now = false).
Proof.
  unfold authorize, Model.authorize. intros H.
  destruct (String.eqb (p_status (e_principal e)) ACTIVE) eqn:A; simpl in H; [|discriminate].
  destruct (String.eqb (s_status (e_space e)) "suspended") eqn:S; simpl in H; [discriminate|].
  destruct (existsb _ (statements_of e)) eqn:D in H; simpl in H; [discriminate|].
  apply String.eqb_eq in A. apply String.eqb_neq in S. repeat split; auto.
  - destruct (least_restrictive (allows_of LD e perm (effective_resource e r) a now)) eqn:L.
    + apply allows_nonempty_source. intros E. rewrite E in L. discriminate.
    + simpl in H. discriminate.
  - intros s Hin He.
    destruct (statement_matches LD e s perm (effective_resource e r) a now) eqn:M; auto.
    assert (X : existsb (fun s0 => String.eqb (st_effect s0) "deny" &&
                         statement_matches LD e s0 perm (effective_resource e r) a now)
                      (statements_of e) = true).
    { apply existsb_exists. exists s. split; auto. rewrite He, M. reflexivity. }
    rewrite X in D. discriminate.
Qed.

(* the constraints a permitted decision carries are those of one of the allows *)
Lemma chosen_is_an_allow e perm r a now :
  permitted (z_decision (authorize e perm r a now)) = true ->
  exists c, In c (allows_of LD e perm (effective_resource e r) a now) /\
            z_constr (authorize e perm r a now) = c_constr c /\
            z_used (authorize e perm r a now) = [c_id c].
Proof.
  unfold authorize, Model.authorize. intros H.
  destruct (negb (String.eqb (p_status (e_principal e)) ACTIVE)); simpl in *; [discriminate|].
  destruct (String.eqb (s_status (e_space e)) "suspended"); simpl in *; [discriminate|].
  destruct (existsb _ (statements_of e)); simpl in *; [discriminate|].
  destruct (least_restrictive (allows_of LD e perm (effective_resource e r) a now)) eqn:L; simpl in *; [|discriminate].
  exists c. split; [apply least_restrictive_in; exact L|].
  destruct (N.ltb 0 _); simpl in *; [discriminate|]. auto.
Qed.

(* expiry: an authority past its valid_until (or before valid_from) matches nothing *)
Lemma expired_conditions_fail c a now :
  cd_until c <> EmptyString -> String.leb (cd_until c) now = true -> conditions_hold LD c a now = false.
Proof.
  intros Hne Hle. unfold conditions_hold.
  destruct (negb (sempty (cd_from c)) && String.ltb now (cd_from c)); [reflexivity|].
  unfold sempty. apply String.eqb_neq in Hne. rewrite Hne, Hle. reflexivity.
Qed.

Lemma expired_candidate_matches_nothing c perm r a now :
  cd_until (c_conds c) <> EmptyString -> String.leb (cd_until (c_conds c)) now = true ->
  candidate_matches LD c perm r a now = false.
Proof.
  intros H1 H2. unfold candidate_matches. rewrite (expired_conditions_fail _ a _ H1 H2).
  apply andb_false_r.
Qed.

End WithLadders.
