(* C05 — C. forward simulation to the sequential collection.
   The ghost history [c_lin] (appended at the linearization points) is, in every reachable
   state and under every schedule, a sequential execution of the specification that starts
   from the initial documents and ends in the documents currently visible through the handle
   ([abs]); the return value recorded for each operation is the one the specification gives. *)
From Coq Require Import List Bool Arith ZArith Lia.
From Verif Require Import Conc.Model Conc.Steps Conc.Proofs Conc.Ids Conc.Run Conc.Sound.
Import ListNotations.
Open Scope Z_scope.

Local Arguments set : simpl never.
Local Arguments del : simpl never.
Local Arguments get : simpl never.
Local Arguments mem : simpl never.
Local Arguments remove_id : simpl never.
Local Arguments added_ids : simpl never.

Definition mark (s : cstate) : Prop := True.

Definition past_check (p : tpc) : bool :=
  match p with
  | TChecked | TLocked | TUpdGot _ | TUpdIntent _ | TRemGot _ | TRemIntent _ | TRemDeleted _ => true
  | _ => false
  end.

Lemma at_fun s t o p o' p' : at_t s t o p -> at_t s t o' p' -> o = o' /\ p = p'.
Proof. unfold at_t. intros A B. rewrite A in B. inversion B; auto. Qed.

Section Sim.
  Variable docs0 : list (id * doc).
  Variable ops0 : list op.
  Hypothesis docs0_nodup : NoDup (map fst docs0).
  Notation used := (used docs0).
  Notation ids_inv := (ids_inv docs0).

  Record sim_inv (s : cstate) : Prop := mkSim {
    si_bitmap_used : forall i, mem i (c_bitmap s) = true -> In i (used s);
    si_target_used : forall t o p i, at_t s t o p -> target o = Some i -> past_check p = true -> In i (used s);
    si_store : forall i d, get (c_store s) i = Some d ->
                 mem i (c_bitmap s) = true \/ exists t d', at_t s t (OAdd d') (TAddCreated i);
    si_upd_got : forall t i u d, at_t s t (OUpdate i u) (TUpdGot d) \/ at_t s t (OUpdate i u) (TUpdIntent d) ->
                   get (c_store s) i = Some d;
    si_rem_got : forall t i r, at_t s t (ORemove i) (TRemGot r) -> get (c_store s) i = r;
    si_rem_intent : forall t i d, at_t s t (ORemove i) (TRemIntent d) -> get (c_store s) i = Some d;
    si_rem_deleted : forall t i d, at_t s t (ORemove i) (TRemDeleted d) -> get (c_store s) i = None;
    si_created : forall t d i, at_t s t (OAdd d) (TAddCreated i) -> get (c_store s) i = Some d;
    si_exec : seq_exec (abs (init docs0 ops0), map fst docs0) (c_lin s) (abs s, used s);
    si_get_used : forall t i h, at_t s t (OGet i h) TGetChecked -> In i (used s) }.

  Ltac prep :=
    match goal with
    | Hm : mark ?S', Hat : at_t ?s ?t ?o ?p |- _ =>
        let T := eval simpl in (c_threads S') in
        match T with
        | upd_nth _ _ (_, ?p') => assert (Hu : threads_upd s S' t o p p') by (split; [exact Hat|reflexivity])
        end
    end.

  (* an id held by an in-flight add is not the target of any thread past its bitmap check *)
  Lemma alloc_not_target s t o p i t2 o2 p2 :
    ids_inv s -> sim_inv s -> at_t s t o p -> alloc_of p = Some i ->
    at_t s t2 o2 p2 -> target o2 = Some i -> past_check p2 = true -> False.
  Proof.
    intros HI HS A E A2 T2 P2.
    assert (Hin : In i (used s)) by (eapply (si_target_used _ HS); eauto).
    exact (ii_used_fresh _ _ HI i t o p Hin A E).
  Qed.

  Lemma alloc_not_in_bitmap s t o p i :
    ids_inv s -> sim_inv s -> at_t s t o p -> alloc_of p = Some i -> mem i (c_bitmap s) = false.
  Proof.
    intros HI HS A E. destruct (mem i (c_bitmap s)) eqn:M; auto. exfalso.
    assert (Hin : In i (used s)) by (eapply (si_bitmap_used _ HS); eauto).
    exact (ii_used_fresh _ _ HI i t o p Hin A E).
  Qed.

  (* two distinct threads cannot both be inside the critical section of the same id *)
  Lemma cs_excl s t o p t2 o2 p2 i :
    mutex s -> at_t s t o p -> at_t s t2 o2 p2 -> target o = Some i -> target o2 = Some i ->
    in_cs p = true -> in_cs p2 = true -> t = t2.
  Proof.
    intros (ML & _) A A2 T T2 C C2. apply (ML t t2 i).
    - exists o, p. split; auto. unfold holds_lock_t; simpl. rewrite T, Z.eqb_refl, C. auto.
    - exists o2, p2. split; auto. unfold holds_lock_t; simpl. rewrite T2, Z.eqb_refl, C2. auto.
  Qed.

  Lemma used_cons_or_same s t l s' : cstep s t l s' -> used s' = used s \/ exists i, used s' = i :: used s.
  Proof.
    intros H. destruct (cstep_ids _ _ _ _ H) as (o & p & p' & _ & [(_ & E & _)|[(_ & E & _)|(i & _ & E & _)]]);
      unfold Ids.used; rewrite E; auto. right. exists i. rewrite rev_app_distr. reflexivity.
  Qed.

  Lemma used_mono s t l s' i : cstep s t l s' -> In i (used s) -> In i (used s').
  Proof. intros H Hi. destruct (used_cons_or_same _ _ _ _ H) as [->|(j & ->)]; simpl; auto. Qed.

  Definition will_write (p : tpc) : bool := match p with TUpdIntent _ | TRemIntent _ => true | _ => false end.

  (* store[j] changes only by: the create of a thread at TAddAlloc j, the put / delete of a
     thread targeting j at TUpdIntent / TRemIntent *)
  Lemma store_frame s t l s' j :
    cstep s t l s' ->
    (forall o p, at_t s t o p -> p <> TAddAlloc j) ->
    (forall o p, at_t s t o p -> target o = Some j -> will_write p = false) ->
    get (c_store s') j = get (c_store s) j.
  Proof.
    intros Hst NA NT. inversion Hst; subst; unfold with_threads, set_pc, lin_add; simpl; auto.
    - rewrite get_set. destruct (Z.eqb i j) eqn:E; auto. apply Z.eqb_eq in E. subst. exfalso. eapply NA; eauto.
    - rewrite get_set. destruct (Z.eqb i j) eqn:E; auto. apply Z.eqb_eq in E. subst.
      specialize (NT _ _ H eq_refl). discriminate.
    - rewrite get_del. destruct (Z.eqb i j) eqn:E; auto. apply Z.eqb_eq in E. subst.
      specialize (NT _ _ H eq_refl). discriminate.
  Qed.

  (* a thread other than the stepper, inside the critical section of j or holding the fresh id j,
     sees store[j] unchanged *)
  Lemma store_frame_other s t l s' t2 o2 p2 j :
    mutex s -> ids_inv s -> sim_inv s -> cstep s t l s' -> t2 <> t -> at_t s t2 o2 p2 ->
    (target o2 = Some j /\ in_cs p2 = true /\ past_check p2 = true) \/ alloc_of p2 = Some j ->
    get (c_store s') j = get (c_store s) j.
  Proof.
    intros HM HI HS Hst Hne A2 Hc. eapply store_frame; eauto.
    - intros o p A E. subst p. destruct Hc as [(T2 & C2 & P2)|E2].
      + exact (alloc_not_target _ _ _ _ _ _ _ _ HI HS A eq_refl A2 T2 P2).
      + apply Hne. symmetry. exact (ii_alloc_inj _ _ HI _ _ _ _ _ _ j A A2 eq_refl E2).
    - intros o p A T. destruct (will_write p) eqn:W; auto. exfalso.
      assert (C : in_cs p = true /\ past_check p = true) by (destruct p; simpl in W; try discriminate; auto).
      destruct C as [C P]. destruct Hc as [(T2 & C2 & P2)|E2].
      + apply Hne. symmetry. exact (cs_excl _ _ _ _ _ _ _ _ HM A A2 T T2 C C2).
      + exact (alloc_not_target _ _ _ _ _ _ _ _ HI HS A2 E2 A T P).
  Qed.

  (* what one step does to the store and the bitmap *)
  Inductive effect (s s' : cstate) (t : nat) : Prop :=
  | ef_none : c_store s' = c_store s -> c_bitmap s' = c_bitmap s ->
      (forall d i, ~ at_t s t (OAdd d) (TAddCreated i)) -> effect s s' t
  | ef_create d i : at_t s t (OAdd d) (TAddAlloc i) -> c_store s' = set (c_store s) i d -> c_bitmap s' = c_bitmap s ->
      at_t s' t (OAdd d) (TAddCreated i) -> effect s s' t
  | ef_put i u d : at_t s t (OUpdate i u) (TUpdIntent d) -> get (c_store s) i = Some d ->
      c_store s' = set (c_store s) i (merge d u) -> c_bitmap s' = c_bitmap s -> effect s s' t
  | ef_delete i d : at_t s t (ORemove i) (TRemIntent d) -> c_store s' = del (c_store s) i -> c_bitmap s' = c_bitmap s ->
      effect s s' t
  | ef_bm_add d i : at_t s t (OAdd d) (TAddCreated i) -> c_store s' = c_store s -> c_bitmap s' = i :: c_bitmap s -> effect s s' t
  | ef_bm_rem i : (at_t s t (ORemove i) (TRemGot None) \/ exists d, at_t s t (ORemove i) (TRemDeleted d)) ->
      c_store s' = c_store s -> c_bitmap s' = remove_id i (c_bitmap s) -> effect s s' t.

  Lemma cstep_effect s t l s' : cstep s t l s' -> effect s s' t.
  Proof.
    intros H. inversion H; subst; unfold with_threads, set_pc, lin_add; simpl;
      try (apply ef_none; simpl; auto; intros d0 i0 A;
           match goal with H1 : at_t s t _ _ |- _ => destruct (at_fun _ _ _ _ _ _ A H1) as [_ X]; discriminate X end).
    - eapply ef_create; eauto. unfold at_t; simpl. eapply nth_upd_same; eauto.
    - eapply ef_bm_add; eauto.
    - eapply ef_put; eauto.
    - eapply ef_bm_rem; eauto.
    - eapply ef_delete; eauto.
    - eapply ef_bm_rem; eauto.
  Qed.

  Lemma sim_store s t l s' : mutex s -> ids_inv s -> sim_inv s -> cstep s t l s' ->
    forall j d, get (c_store s') j = Some d ->
      mem j (c_bitmap s') = true \/ exists t2 d', at_t s' t2 (OAdd d') (TAddCreated j).
  Proof.
    intros HM HI HS Hst j d Hg.
    destruct (cstep_shape _ _ _ _ Hst) as (o0 & p0 & p0' & Hu & _).
    assert (Hold := si_store _ HS j).
    assert (Hkeep : forall t2 d', at_t s t2 (OAdd d') (TAddCreated j) -> t2 <> t ->
                                  exists t3 d3, at_t s' t3 (OAdd d3) (TAddCreated j)).
    { intros t2 d' A N. exists t2, d'. eapply at_before; eauto. }
    destruct (cstep_effect _ _ _ _ Hst) as [ES EB NC|d0 i A ES EB A'|i u d0 A G ES EB|i d0 A ES EB|d0 i A ES EB|i A ES EB];
      rewrite ES in Hg; rewrite EB.
    - destruct (Hold _ Hg) as [M|(t2 & d' & A2)]; auto. right.
      destruct (Nat.eq_dec t2 t) as [->|N]; [exfalso; eapply NC; eauto|eauto].
    - rewrite get_set in Hg. destruct (Z.eqb i j) eqn:E.
      + apply Z.eqb_eq in E. subst. right. eauto.
      + destruct (Hold _ Hg) as [M|(t2 & d' & A2)]; auto. right.
        destruct (Nat.eq_dec t2 t) as [->|N]; [destruct (at_fun _ _ _ _ _ _ A A2) as [_ X]; discriminate X|eauto].
    - assert (Hg' : exists d1, get (c_store s) j = Some d1).
      { rewrite get_set in Hg. destruct (Z.eqb i j) eqn:E; eauto. apply Z.eqb_eq in E. subst. eauto. }
      destruct Hg' as (d1 & Hg1). destruct (Hold _ Hg1) as [M|(t2 & d' & A2)]; auto. right.
      destruct (Nat.eq_dec t2 t) as [->|N]; [destruct (at_fun _ _ _ _ _ _ A A2) as [X _]; discriminate X|eauto].
    - rewrite get_del in Hg. destruct (Z.eqb i j) eqn:E; [discriminate|].
      destruct (Hold _ Hg) as [M|(t2 & d' & A2)]; auto. right.
      destruct (Nat.eq_dec t2 t) as [->|N]; [destruct (at_fun _ _ _ _ _ _ A A2) as [X _]; discriminate X|eauto].
    - rewrite mem_cons. destruct (Hold _ Hg) as [M|(t2 & d' & A2)]; [left; rewrite M; apply orb_true_r|].
      destruct (Nat.eq_dec t2 t) as [->|N]; [|right; eauto].
      destruct (at_fun _ _ _ _ _ _ A A2) as [_ X]. inversion X; subst. left. rewrite Z.eqb_refl. reflexivity.
    - rewrite mem_remove.
      assert (Hnone : get (c_store s) i = None).
      { destruct A as [A|(d1 & A)]; [exact (si_rem_got _ HS _ _ _ A)|exact (si_rem_deleted _ HS _ _ _ A)]. }
      destruct (Z.eqb j i) eqn:E; [apply Z.eqb_eq in E; subst; congruence|].
      destruct (Hold _ Hg) as [M|(t2 & d' & A2)]; auto. right.
      destruct (Nat.eq_dec t2 t) as [->|N]; [|eauto].
      destruct A as [A|(d1 & A)]; destruct (at_fun _ _ _ _ _ _ A A2) as [X _]; discriminate X.
  Qed.

  Ltac self_case Hst A2 :=
    inversion Hst; subst;
    (unfold at_t, with_threads, set_pc, lin_add in A2; simpl in A2;
     match goal with H1 : at_t _ _ _ _ |- _ => rewrite (nth_upd_same _ _ _ _ H1) in A2 end;
     inversion A2; subst);
    unfold with_threads, set_pc, lin_add; simpl.

  Lemma sim_upd_got s t l s' : mutex s -> ids_inv s -> sim_inv s -> cstep s t l s' ->
    forall t2 i u d, at_t s' t2 (OUpdate i u) (TUpdGot d) \/ at_t s' t2 (OUpdate i u) (TUpdIntent d) ->
      get (c_store s') i = Some d.
  Proof.
    intros HM HI HS Hst t2 i u d H2.
    destruct (cstep_shape _ _ _ _ Hst) as (o0 & p0 & p0' & Hu & _).
    destruct H2 as [A2|A2]; destruct (at_after _ _ _ _ _ _ _ _ _ Hu A2) as [(E1 & E2 & E3)|(N & B)].
    - subst t2. clear Hu E2 E3. self_case Hst A2. assumption.
    - rewrite (store_frame_other _ _ _ _ _ _ _ i HM HI HS Hst N B); [eapply (si_upd_got _ HS); eauto|left; auto].
    - subst t2. clear Hu E2 E3. self_case Hst A2. eapply (si_upd_got _ HS); eauto.
    - rewrite (store_frame_other _ _ _ _ _ _ _ i HM HI HS Hst N B); [eapply (si_upd_got _ HS); eauto|left; auto].
  Qed.

  Lemma sim_rem_got s t l s' : mutex s -> ids_inv s -> sim_inv s -> cstep s t l s' ->
    forall t2 i r, at_t s' t2 (ORemove i) (TRemGot r) -> get (c_store s') i = r.
  Proof.
    intros HM HI HS Hst t2 i r A2.
    destruct (cstep_shape _ _ _ _ Hst) as (o0 & p0 & p0' & Hu & _).
    destruct (at_after _ _ _ _ _ _ _ _ _ Hu A2) as [(E1 & E2 & E3)|(N & B)].
    - subst t2. clear Hu E2 E3. self_case Hst A2. reflexivity.
    - rewrite (store_frame_other _ _ _ _ _ _ _ i HM HI HS Hst N B); [eapply (si_rem_got _ HS); eauto|left; auto].
  Qed.

  Lemma sim_rem_intent s t l s' : mutex s -> ids_inv s -> sim_inv s -> cstep s t l s' ->
    forall t2 i d, at_t s' t2 (ORemove i) (TRemIntent d) -> get (c_store s') i = Some d.
  Proof.
    intros HM HI HS Hst t2 i d A2.
    destruct (cstep_shape _ _ _ _ Hst) as (o0 & p0 & p0' & Hu & _).
    destruct (at_after _ _ _ _ _ _ _ _ _ Hu A2) as [(E1 & E2 & E3)|(N & B)].
    - subst t2. clear Hu E2 E3. self_case Hst A2. eapply (si_rem_got _ HS); eauto.
    - rewrite (store_frame_other _ _ _ _ _ _ _ i HM HI HS Hst N B); [eapply (si_rem_intent _ HS); eauto|left; auto].
  Qed.

  Lemma sim_rem_deleted s t l s' : mutex s -> ids_inv s -> sim_inv s -> cstep s t l s' ->
    forall t2 i d, at_t s' t2 (ORemove i) (TRemDeleted d) -> get (c_store s') i = None.
  Proof.
    intros HM HI HS Hst t2 i d A2.
    destruct (cstep_shape _ _ _ _ Hst) as (o0 & p0 & p0' & Hu & _).
    destruct (at_after _ _ _ _ _ _ _ _ _ Hu A2) as [(E1 & E2 & E3)|(N & B)].
    - subst t2. clear Hu E2 E3. self_case Hst A2. rewrite get_del, Z.eqb_refl. reflexivity.
    - rewrite (store_frame_other _ _ _ _ _ _ _ i HM HI HS Hst N B); [eapply (si_rem_deleted _ HS); eauto|left; auto].
  Qed.

  Lemma sim_created s t l s' : mutex s -> ids_inv s -> sim_inv s -> cstep s t l s' ->
    forall t2 d i, at_t s' t2 (OAdd d) (TAddCreated i) -> get (c_store s') i = Some d.
  Proof.
    intros HM HI HS Hst t2 d i A2.
    destruct (cstep_shape _ _ _ _ Hst) as (o0 & p0 & p0' & Hu & _).
    destruct (at_after _ _ _ _ _ _ _ _ _ Hu A2) as [(E1 & E2 & E3)|(N & B)].
    - subst t2. clear Hu E2 E3. self_case Hst A2. rewrite get_set, Z.eqb_refl. reflexivity.
    - rewrite (store_frame_other _ _ _ _ _ _ _ i HM HI HS Hst N B); [eapply (si_created _ HS); eauto|right; auto].
  Qed.

  Lemma added_ids_snoc_noadd lin t o r :
    match o, r with OAdd _, RId _ => False | _, _ => True end ->
    added_ids (lin ++ [(t, o, r)]) = added_ids lin.
  Proof.
    intros H. rewrite added_ids_app. unfold added_ids. destruct o, r; simpl in *; try contradiction; rewrite app_nil_r; auto.
  Qed.

  Notation S0 := (abs (init docs0 ops0), map fst docs0).

  Lemma exec_stutter s s' : seq_exec S0 (c_lin s) (abs s, used s) ->
    c_lin s' = c_lin s -> (forall j, abs s' j = abs s j) -> seq_exec S0 (c_lin s') (abs s', used s').
  Proof.
    intros H E A. unfold Ids.used. rewrite E. eapply seq_exec_ext; eauto.
  Qed.

  Lemma exec_snoc_same s s' t o r : seq_exec S0 (c_lin s) (abs s, used s) ->
    c_lin s' = c_lin s ++ [(t, o, r)] -> match o, r with OAdd _, RId _ => False | _, _ => True end ->
    seq_step (abs s, used s) o r (abs s', used s) -> seq_exec S0 (c_lin s') (abs s', used s').
  Proof.
    intros H E N St. unfold Ids.used. rewrite E, added_ids_snoc_noadd by auto.
    eapply se_snoc; eauto.
  Qed.

  Lemma exec_snoc_add s s' t d i : seq_exec S0 (c_lin s) (abs s, used s) ->
    c_lin s' = c_lin s ++ [(t, OAdd d, RId i)] ->
    seq_step (abs s, used s) (OAdd d) (RId i) (abs s', i :: used s) -> seq_exec S0 (c_lin s') (abs s', used s').
  Proof.
    intros H E St. unfold Ids.used. rewrite E, added_ids_app, rev_app_distr.
    eapply se_snoc; eauto.
  Qed.

  Lemma sim_exec s t l s' : mutex s -> ids_inv s -> sim_inv s -> cstep s t l s' ->
    seq_exec S0 (c_lin s') (abs s', used s').
  Proof.
    intros HM HI HS Hst. assert (EX := si_exec _ HS).
    inversion Hst; subst; unfold with_threads, set_pc, lin_add.
    - (* finish *) apply (exec_stutter s); auto.
    - (* gate x *) apply (exec_stutter s); auto.
    - (* gate s *) apply (exec_stutter s); auto.
    - (* alloc *) apply (exec_stutter s); auto.
    - (* create: the fresh id is not registered yet *)
      apply (exec_stutter s); auto. intros j. unfold abs; simpl.
      destruct (mem j (c_bitmap s)) eqn:M; auto. rewrite get_set. destruct (Z.eqb i j) eqn:E; auto.
      apply Z.eqb_eq in E. subst. rewrite (alloc_not_in_bitmap _ _ _ _ _ HI HS H eq_refl) in M. discriminate.
    - (* create conflict *) eapply (exec_snoc_same s _ t (OAdd d) RErr); [exact EX|reflexivity|exact I|]. apply sq_err; auto.
    - (* add: linearization point *)
      eapply (exec_snoc_add s _ t d i); [exact EX|reflexivity|]. apply sq_add.
      + unfold abs. rewrite (alloc_not_in_bitmap _ _ _ _ _ HI HS H eq_refl). reflexivity.
      + intros Hin. exact (ii_used_fresh _ _ HI i t _ _ Hin H eq_refl).
      + intros j. unfold abs; simpl. rewrite mem_cons. destruct (Z.eqb j i) eqn:E; simpl; auto.
        apply Z.eqb_eq in E. subst. exact (si_created _ HS _ _ _ H).
    - (* bitmap check passed *) apply (exec_stutter s); auto.
    - (* update of an unregistered id *)
      eapply (exec_snoc_same s _ t (OUpdate i u) RNotFound); [exact EX|reflexivity|exact I|]. apply sq_update_missing; auto. unfold abs. rewrite H0. reflexivity.
    - (* remove of an unregistered id *)
      eapply (exec_snoc_same s _ t (ORemove i) RNone); [exact EX|reflexivity|exact I|]. apply sq_remove_missing; auto. unfold abs. rewrite H0. reflexivity.
    - (* lock *) apply (exec_stutter s); auto.
    - (* update: get *) apply (exec_stutter s); auto.
    - (* update: document gone *)
      eapply (exec_snoc_same s _ t (OUpdate i u) RNotFound); [exact EX|reflexivity|exact I|]. apply sq_update_missing; auto. unfold abs. rewrite H0. destruct (mem i (c_bitmap s)); auto.
    - (* update: intent *) apply (exec_stutter s); auto.
    - (* update: linearization point *)
      assert (Hm : mem i (c_bitmap s) = true).
      { destruct (si_store _ HS _ _ H0) as [M|(t2 & d' & A2)]; auto. exfalso.
        exact (alloc_not_target _ _ _ _ _ _ _ _ HI HS A2 eq_refl H eq_refl eq_refl). }
      eapply (exec_snoc_same s _ t (OUpdate i u) (RDoc (merge d u))); [exact EX|reflexivity|exact I|]. apply sq_update.
      + unfold abs. rewrite Hm. auto.
      + intros j. unfold abs; simpl. rewrite get_set. rewrite (Z.eqb_sym i j).
        destruct (Z.eqb j i) eqn:E; auto. apply Z.eqb_eq in E. subst. rewrite Hm. reflexivity.
    - (* update: conflict *) eapply (exec_snoc_same s _ t (OUpdate i u) RErr); [exact EX|reflexivity|exact I|]. apply sq_err; auto.
    - (* remove: get *) apply (exec_stutter s); auto.
    - (* remove: intent *) apply (exec_stutter s); auto.
    - (* remove of a dead id *)
      assert (Hn : get (c_store s) i = None) by exact (si_rem_got _ HS _ _ _ H).
      eapply (exec_snoc_same s _ t (ORemove i) RNone); [exact EX|reflexivity|exact I|]. apply sq_remove_missing.
      + unfold abs. rewrite Hn. destruct (mem i (c_bitmap s)); auto.
      + intros j. unfold abs; simpl. rewrite mem_remove. destruct (Z.eqb j i) eqn:E; auto.
        apply Z.eqb_eq in E. subst. rewrite Hn. destruct (mem i (c_bitmap s)); auto.
    - (* remove: linearization point *)
      assert (Hg : get (c_store s) i = Some d) by exact (si_rem_intent _ HS _ _ _ H).
      assert (Hm : mem i (c_bitmap s) = true).
      { destruct (si_store _ HS _ _ Hg) as [M|(t2 & d' & A2)]; auto. exfalso.
        exact (alloc_not_target _ _ _ _ _ _ _ _ HI HS A2 eq_refl H eq_refl eq_refl). }
      eapply (exec_snoc_same s _ t (ORemove i) (RDoc d)); [exact EX|reflexivity|exact I|]. apply sq_remove.
      + unfold abs. rewrite Hm. auto.
      + intros j. unfold abs; simpl. rewrite get_del. rewrite (Z.eqb_sym i j).
        destruct (Z.eqb j i) eqn:E; auto. destruct (mem j (c_bitmap s)); auto.
    - (* remove: bitmap *)
      assert (Hn : get (c_store s) i = None) by exact (si_rem_deleted _ HS _ _ _ H).
      apply (exec_stutter s); auto. intros j. unfold abs; simpl. rewrite mem_remove. destruct (Z.eqb j i) eqn:E; auto.
      apply Z.eqb_eq in E. subst. rewrite Hn. destruct (mem i (c_bitmap s)); auto.
    - (* flush: linearization point *) eapply (exec_snoc_same s _ t OFlush RFlushed); [exact EX|reflexivity|exact I|]. apply sq_flush; auto.
    - (* flush: persist *) apply (exec_stutter s); auto.
    - (* get: bitmap check passed *) apply (exec_stutter s); auto.
    - (* get of an unregistered id *)
      eapply (exec_snoc_same s _ t (OGet i h) RNotFound); [exact EX|reflexivity|exact I|]. apply sq_get_missing; auto. unfold abs. rewrite H0. reflexivity.
    - (* get: the read *)
      assert (Hm : mem i (c_bitmap s) = true).
      { destruct (si_store _ HS _ _ H0) as [M|(t2 & d' & A2)]; auto. exfalso.
        exact (ii_used_fresh _ _ HI i t2 _ _ (si_get_used _ HS _ _ _ H) A2 eq_refl). }
      eapply (exec_snoc_same s _ t (OGet i h) (RDoc d)); [exact EX|reflexivity|exact I|]. apply sq_get; auto.
      unfold abs. rewrite Hm. auto.
    - (* get: document gone *)
      eapply (exec_snoc_same s _ t (OGet i h) RNotFound); [exact EX|reflexivity|exact I|]. apply sq_get_missing; auto.
      unfold abs. rewrite H0. destruct (mem i (c_bitmap s)); auto.
  Qed.

  Lemma sim_step s t l s' : mutex s -> ids_inv s -> sim_inv s -> cstep s t l s' -> sim_inv s'.
  Proof.
    intros HM HI HS Hst.
    assert (Hmono := fun i => used_mono _ _ _ _ i Hst).
    assert (Hfr := fun t2 o2 p2 j => store_frame_other s t l s' t2 o2 p2 j HM HI HS Hst).
    destruct (cstep_shape _ _ _ _ Hst) as (o0 & p0 & p0' & Hu & _).
    assert (Hat0 := proj1 Hu).
    constructor.
    - (* bitmap within used *)
      intros i Hi. destruct HS as [BU _ _ _ _ _ _ _ _ _].
      inversion Hst; subst; simpl in *; auto;
        try (rewrite mem_remove in Hi; destruct (Z.eqb i i0); [discriminate|auto]).
      rewrite mem_cons in Hi. apply orb_true_iff in Hi. destruct Hi as [E|Hi].
      + apply Z.eqb_eq in E. subst. unfold Ids.used. simpl. rewrite added_ids_app, rev_app_distr. simpl. auto.
      + apply Hmono. auto.
    - (* targets past their bitmap check are used ids *)
      intros t2 o2 p2 i A2 T2 P2.
      destruct (at_after _ _ _ _ _ _ _ _ _ Hu A2) as [(E1 & E2 & E3)|(N & B)].
      + subst t2 o2 p2. apply Hmono. destruct (past_check p0) eqn:P0; [eapply (si_target_used _ HS); eauto|].
        (* the only way into the checked region is the bitmap test *)
        clear A2. destruct Hu as [_ Hth].
        inversion Hst; subst; unfold with_threads, set_pc, lin_add in Hth; simpl in Hth;
          match goal with H1 : at_t s _ _ _ |- _ => destruct (at_fun _ _ _ _ _ _ Hat0 H1) as [X1 X2] end;
          subst; simpl in P0; try discriminate P0;
          apply (f_equal (fun l => nth_error l t)) in Hth;
          rewrite !(nth_upd_same _ _ _ _ Hat0) in Hth; inversion Hth; subst; simpl in P2; try discriminate P2.
        eapply (si_bitmap_used _ HS). rewrite T2 in H0. inversion H0; subst. assumption.
      + apply Hmono. eapply (si_target_used _ HS); eauto.
    - eapply sim_store; eauto.
    - eapply sim_upd_got; eauto.
    - eapply sim_rem_got; eauto.
    - eapply sim_rem_intent; eauto.
    - eapply sim_rem_deleted; eauto.
    - eapply sim_created; eauto.
    - eapply sim_exec; eauto.
    - intros t2 i h A2.
      destruct (at_after _ _ _ _ _ _ _ _ _ Hu A2) as [(E1 & E2 & E3)|(N & B)].
      + subst t2. clear Hu E2 E3. apply Hmono. self_case Hst A2. eapply (si_bitmap_used _ HS); eauto.
      + apply Hmono. eapply (si_get_used _ HS); eauto.
  Qed.

  Lemma get_some_in m i d : get m i = Some d -> In i (map fst m).
  Proof.
    unfold get. induction m as [|[k x] r IH]; simpl; [discriminate|].
    destruct (Z.eqb k i) eqn:E; [apply Z.eqb_eq in E; auto|auto].
  Qed.

  Lemma sim_init : sim_inv (init docs0 ops0).
  Proof.
    assert (H : forall t o p, at_t (init docs0 ops0) t o p -> p = TIdle).
    { unfold at_t, init; simpl. intros t o p H. apply nth_error_In in H. apply in_map_iff in H.
      destruct H as (x & E & _). inversion E; auto. }
    constructor; unfold Ids.used; simpl.
    - intros i M. apply mem_In in M. exact M.
    - intros t o p i A _ P. rewrite (H _ _ _ A) in P. discriminate.
    - intros i d G. left. apply mem_In. eapply get_some_in; eauto.
    - intros t i u d [A|A]; apply H in A; discriminate.
    - intros t i r A; apply H in A; discriminate.
    - intros t i d A; apply H in A; discriminate.
    - intros t i d A; apply H in A; discriminate.
    - intros t d i A; apply H in A; discriminate.
    - constructor. auto.
    - intros t i h A; apply H in A; discriminate.
  Qed.

  Theorem reach_sim s : reach (init docs0 ops0) s -> sim_inv s.
  Proof.
    induction 1; [apply sim_init|].
    eapply sim_step; eauto using reach_mutex. eapply reach_ids; eauto.
  Qed.

  (* under the document lock the update still sees the document it read: the version-conditioned
     put cannot fail and builds on the latest acknowledged value (no lost update) *)
  Theorem upd_reads_current s t i u d : reach (init docs0 ops0) s ->
    at_t s t (OUpdate i u) (TUpdGot d) \/ at_t s t (OUpdate i u) (TUpdIntent d) ->
    get (c_store s) i = Some d /\ abs s i = Some d.
  Proof.
    intros R A. assert (HS := reach_sim _ R). assert (HI := reach_ids docs0 ops0 docs0_nodup _ R).
    assert (G : get (c_store s) i = Some d) by (eapply (si_upd_got _ HS); eauto).
    split; auto. unfold abs.
    destruct (si_store _ HS _ _ G) as [M|(t2 & d' & A2)]; [rewrite M; auto|exfalso].
    destruct A as [A|A]; exact (alloc_not_target _ _ _ _ _ _ _ _ HI HS A2 eq_refl A eq_refl eq_refl).
  Qed.

  (* the value an operation returns is the one recorded at its linearization point *)
  Definition returned (s : cstate) (t : nat) (o : op) (r : ret) : Prop :=
    at_t s t o (TDone r) \/ at_t s t o (TFinishing r) \/
    (exists i d, o = ORemove i /\ r = RDoc d /\ at_t s t o (TRemDeleted d)) \/
    (exists ids, o = OFlush /\ r = RFlushed /\ at_t s t o (TFlushSnap ids)).

  Lemma lin_mono s t l s' e : cstep s t l s' -> In e (c_lin s) -> In e (c_lin s').
  Proof.
    intros H Hin. inversion H; subst; unfold with_threads, set_pc, lin_add; simpl; auto; apply in_or_app; auto.
  Qed.

  Lemma returned_step s t l s' : cstep s t l s' ->
    (forall t2 o r, returned s t2 o r -> In (t2, o, r) (c_lin s)) ->
    forall t2 o r, returned s' t2 o r -> In (t2, o, r) (c_lin s').
  Proof.
    intros Hst IH t2 o r Hr.
    destruct (cstep_shape _ _ _ _ Hst) as (o0 & p0 & p0' & Hu & _).
    assert (Hother : forall p2, at_t s' t2 o p2 -> t2 <> t -> at_t s t2 o p2).
    { intros p2 A N. destruct (at_after _ _ _ _ _ _ _ _ _ Hu A) as [(E & _)|(_ & B)]; [contradiction|auto]. }
    destruct (Nat.eq_dec t2 t) as [->|N].
    - clear Hother Hu.
      destruct Hr as [A2|[A2|[(i & d & -> & -> & A2)|(ids & -> & -> & A2)]]];
        self_case Hst A2; try (apply in_or_app; right; simpl; auto; fail);
        try (apply IH; unfold returned; eauto 8; fail).
    - eapply lin_mono; eauto. apply IH.
      destruct Hr as [A2|[A2|[(i & d & E1 & E2 & A2)|(ids & E1 & E2 & A2)]]]; unfold returned; eauto 10.
  Qed.

  Theorem returned_in_lin s : reach (init docs0 ops0) s ->
    forall t o r, returned s t o r -> In (t, o, r) (c_lin s).
  Proof.
    induction 1.
    - intros t o r Hr. exfalso.
      assert (H : forall t o p, at_t (init docs0 ops0) t o p -> p = TIdle).
      { unfold at_t, init; simpl. intros t' o' p H. apply nth_error_In in H. apply in_map_iff in H.
        destruct H as (x & E & _). inversion E; auto. }
      destruct Hr as [A|[A|[(i & d & _ & _ & A)|(ids & _ & _ & A)]]]; apply H in A; discriminate.
    - eapply returned_step; eauto.
  Qed.

  (* what a flush is about to persist is the id set of its linearization point: no mutation
     changed the bitmap since, because none runs while the flush holds the gate *)
  Lemma flush_snap_step s t l s' : mutex s -> cstep s t l s' ->
    (forall f ids, at_t s f OFlush (TFlushSnap ids) -> ids = c_bitmap s) ->
    forall f ids, at_t s' f OFlush (TFlushSnap ids) -> ids = c_bitmap s'.
  Proof.
    intros (_ & _ & MS) Hst IH f ids A2.
    destruct (cstep_shape _ _ _ _ Hst) as (o0 & p0 & p0' & Hu & _).
    destruct (at_after _ _ _ _ _ _ _ _ _ Hu A2) as [(E1 & E2 & E3)|(N & B)].
    - subst f. clear Hu E2 E3. self_case Hst A2. reflexivity.
    - rewrite (IH _ _ B).
      assert (HX : holds_excl s f) by (exists OFlush, (TFlushSnap ids); split; auto).
      assert (Hrun : forall o p, at_t s t o p -> is_flush o = false -> is_read o = false -> running p = true -> False).
      { intros o p A F F2 Rn. apply (MS f t HX). exists o, p. split; auto. unfold holds_shared_t; simpl. rewrite F, F2, Rn. auto. }
      destruct (cstep_effect _ _ _ _ Hst) as [ES EB NC|d0 i A ES EB A'|i u d0 A G ES EB|i d0 A ES EB|d0 i A ES EB|i A ES EB];
        try (symmetry; exact EB); exfalso.
      + eapply Hrun; eauto.
      + destruct A as [A|(d1 & A)]; eapply Hrun; eauto.
  Qed.

  Theorem flush_sees_current s : reach (init docs0 ops0) s ->
    forall f ids, at_t s f OFlush (TFlushSnap ids) -> ids = c_bitmap s.
  Proof.
    induction 1.
    - intros f ids A. exfalso. unfold at_t, init in A; simpl in A. apply nth_error_In in A. apply in_map_iff in A.
      destruct A as (x & E & _). inversion E.
    - eapply flush_snap_step; eauto using reach_mutex.
  Qed.
End Sim.
