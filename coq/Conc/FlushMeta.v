(* C05 — the collection-metadata step of a flush against extension writers that take no gate.

   In-memory metadata is a log of mutations (every set_extension* / any other metadata change
   appends one entry and thereby bumps the version = length of the log).  A flush
     FSnap   : takes the exclusive gate; if last_saved >= version it is a no-op (fast path),
               otherwise it snapshots the metadata (version v_s = length of the snapshot)
     FPut    : writes the snapshot to meta.cbor
     FRecord : advances last_saved — to v_s (FRecordSnap) or to the LIVE version (FRecordLive) —
               and releases the gate
   The program is DATA regenerated from Collection::store_metadata (gen/Gen_FlushMeta.v).
   Synchronous extension writers run at any time, also between the steps of a flush.
   Any number of flushers and writers, any schedule. *)
From Coq Require Import List Bool Arith Lia.
From Verif Require Import Common.Gate.
Import ListNotations.

Inductive fop := FSnap | FPut | FRecordSnap | FRecordLive.

Inductive mthread :=
| Flusher (prog : list fop) (snap : option (list nat))
| ExtWriter (pending : list nat).

Record mstate := mkM {
  m_log : list nat;            (* in-memory metadata mutations, oldest first; version = length *)
  m_saved : nat;               (* last_saved_version *)
  m_persist : list nat;        (* what meta.cbor holds *)
  m_busy : option nat;         (* the flusher holding the exclusive gate *)
  m_threads : list mthread }.

Definition release (rest : list fop) (i : nat) : option nat := match rest with [] => None | _ => Some i end.

Definition mstep (s : mstate) (i : nat) : option mstate :=
  match nth_error (m_threads s) i with
  | Some (ExtWriter (x :: r)) =>
      Some (mkM (m_log s ++ [x]) (m_saved s) (m_persist s) (m_busy s) (upd (m_threads s) i (ExtWriter r)))
  | Some (Flusher (op :: rest) snap) =>
      match op with
      | FSnap =>
          match m_busy s with
          | Some _ => None
          | None =>
              if List.length (m_log s) <=? m_saved s
              then Some (mkM (m_log s) (m_saved s) (m_persist s) None (upd (m_threads s) i (Flusher [] None)))
              else Some (mkM (m_log s) (m_saved s) (m_persist s) (release rest i)
                             (upd (m_threads s) i (Flusher rest (Some (m_log s)))))
          end
      | FPut =>
          Some (mkM (m_log s) (m_saved s) (match snap with Some e => e | None => m_persist s end) (release rest i)
                    (upd (m_threads s) i (Flusher rest snap)))
      | FRecordSnap =>
          Some (mkM (m_log s) (Nat.max (m_saved s) (match snap with Some e => List.length e | None => 0 end))
                    (m_persist s) (release rest i) (upd (m_threads s) i (Flusher rest snap)))
      | FRecordLive =>
          Some (mkM (m_log s) (Nat.max (m_saved s) (List.length (m_log s))) (m_persist s) (release rest i)
                    (upd (m_threads s) i (Flusher rest snap)))
      end
  | _ => None
  end.

Fixpoint mrun (s : mstate) (sched : list nat) : mstate :=
  match sched with
  | [] => s
  | i :: r => match mstep s i with Some s' => mrun s' r | None => mrun s r end
  end.

Definition minit (ths : list mthread) : mstate := mkM [] 0 [] None ths.

Definition good_flush : list fop := [FSnap; FPut; FRecordSnap].
Definition bad_flush : list fop := [FSnap; FPut; FRecordLive].

Definition fresh (th : mthread) : Prop := th = Flusher good_flush None \/ exists l, th = ExtWriter l.

(* ------------------------------------------------------------------ invariant *)
Definition prefix_of (e l : list nat) : Prop := e = firstn (List.length e) l.

Lemma prefix_len e l : prefix_of e l -> List.length e <= List.length l.
Proof. unfold prefix_of. intros H. rewrite H at 1. rewrite firstn_length. lia. Qed.

Lemma prefix_snoc e l x : prefix_of e l -> prefix_of e (l ++ [x]).
Proof.
  intros H. pose proof (prefix_len _ _ H). unfold prefix_of in *. rewrite firstn_app.
  replace (List.length e - List.length l) with 0 by lia. simpl. rewrite app_nil_r. exact H.
Qed.

Lemma prefix_refl l : prefix_of l l.
Proof. unfold prefix_of. rewrite firstn_all. reflexivity. Qed.

Lemma prefix_full e l : prefix_of e l -> List.length l <= List.length e -> e = l.
Proof.
  intros H L. pose proof (prefix_len _ _ H). unfold prefix_of in H. rewrite H.
  rewrite firstn_all2 by lia. reflexivity.
Qed.

Definition finv (s : mstate) (i : nat) (th : mthread) : Prop :=
  match th with
  | ExtWriter _ => m_busy s <> Some i
  | Flusher prog snap =>
      match prog with
      | [FSnap; FPut; FRecordSnap] => snap = None /\ m_busy s <> Some i
      | [FPut; FRecordSnap] => m_busy s = Some i /\ exists e, snap = Some e /\ prefix_of e (m_log s) /\
                                                    List.length (m_persist s) <= List.length e
      | [FRecordSnap] => m_busy s = Some i /\ snap = Some (m_persist s)
      | [] => m_busy s <> Some i
      | _ => False
      end
  end.

Definition minv (s : mstate) : Prop :=
  prefix_of (m_persist s) (m_log s) /\ m_saved s <= List.length (m_persist s) /\
  (forall i th, nth_error (m_threads s) i = Some th -> finv s i th) /\
  (forall i, m_busy s = Some i -> exists th, nth_error (m_threads s) i = Some th).

Lemma minv_init ths : Forall fresh ths -> minv (minit ths).
Proof.
  intros H. split; [reflexivity|]. split; [simpl; lia|]. split; [|simpl; intros; discriminate].
  intros i th Hn. simpl in Hn. rewrite Forall_forall in H.
  destruct (H _ (nth_error_In _ _ Hn)) as [->|(l & ->)]; simpl; [split; auto; discriminate|discriminate].
Qed.

Definition idle (th : mthread) : Prop :=
  match th with
  | ExtWriter _ => True
  | Flusher p sn => (p = good_flush /\ sn = None) \/ p = []
  end.

Lemma finv_idle_intro s j th : idle th -> m_busy s <> Some j -> finv s j th.
Proof.
  destruct th as [p sn|pe]; simpl; auto. intros [(-> & ->)| ->] H; simpl; auto.
Qed.

Lemma finv_not_busy s j th : finv s j th -> m_busy s <> Some j -> idle th.
Proof.
  destruct th as [p sn|pe]; simpl; auto.
  destruct p as [|[] [|[] [|[] [|]]]]; try contradiction; auto.
  - intros (-> & _) _. left; auto.
  - intros (E & _) H. contradiction.
  - intros (E & _) H. contradiction.
Qed.

Lemma minv_step s i s' : minv s -> mstep s i = Some s' -> minv s'.
Proof.
  intros (P & S & T & B) H. unfold mstep in H.
  destruct (nth_error (m_threads s) i) as [[prog snap|pending]|] eqn:Hn; try discriminate.
  - pose proof (T _ _ Hn) as F. simpl in F.
    destruct prog as [|op rest]; [discriminate|]. destruct op.
    + (* snapshot *)
      destruct rest as [|[] [|[] [|]]]; try contradiction. destruct F as (-> & Fb).
      destruct (m_busy s) eqn:Hb; [discriminate|].
      assert (Hidle : forall j th, nth_error (m_threads s) j = Some th -> idle th).
      { intros j th Hj. eapply finv_not_busy; [apply (T _ _ Hj)|]. rewrite Hb. discriminate. }
      destruct (List.length (m_log s) <=? m_saved s) eqn:Hl; inversion H; subst; clear H.
      * split; [exact P|]. split; [exact S|]. split; [|simpl; intros; discriminate].
        intros j th Hj. simpl in Hj.
        destruct (nth_error_upd _ _ _ _ _ _ Hn Hj) as [[-> ->]|[Hne Hj']]; [simpl; discriminate|].
        apply finv_idle_intro; [eauto|simpl; discriminate].
      * apply Nat.leb_gt in Hl. split; [exact P|]. split; [exact S|]. split.
        -- intros j th Hj. simpl in Hj.
           destruct (nth_error_upd _ _ _ _ _ _ Hn Hj) as [[-> ->]|[Hne Hj']].
           ++ simpl. split; auto. exists (m_log s). repeat split; auto using prefix_refl. apply prefix_len; auto.
           ++ apply finv_idle_intro; [eauto|simpl; intros E; inversion E; congruence].
        -- simpl. intros j E. inversion E; subst. eexists. eapply nth_error_upd_same; eauto.
    + (* put *)
      destruct rest as [|[] [|]]; try contradiction. destruct F as (Fb & e & -> & Fp & Fl).
      inversion H; subst; clear H. split; [exact Fp|]. split; [simpl; lia|]. split.
      * intros j th Hj. simpl in Hj.
        destruct (nth_error_upd _ _ _ _ _ _ Hn Hj) as [[-> ->]|[Hne Hj']]; [simpl; split; auto|].
        apply finv_idle_intro; [|simpl; intros E; inversion E; congruence].
        eapply finv_not_busy; [apply (T _ _ Hj')|]. rewrite Fb. intros E; inversion E; congruence.
      * simpl. intros j E. inversion E; subst. eexists. eapply nth_error_upd_same; eauto.
    + (* record the snapshot's version *)
      destruct rest as [|]; try contradiction. destruct F as (Fb & ->).
      inversion H; subst; clear H. split; [exact P|]. split; [simpl; apply Nat.max_lub; auto|]. split; [|simpl; intros; discriminate].
      intros j th Hj. simpl in Hj.
      destruct (nth_error_upd _ _ _ _ _ _ Hn Hj) as [[-> ->]|[Hne Hj']]; [simpl; discriminate|].
      apply finv_idle_intro; [|simpl; discriminate].
      eapply finv_not_busy; [apply (T _ _ Hj')|]. rewrite Fb. intros E; inversion E; congruence.
    + destruct rest as [|? ?]; simpl in F; try contradiction; destruct rest; contradiction.
  - (* extension writer: appends to the log, no gate *)
    destruct pending as [|x r]; [discriminate|]. inversion H; subst; clear H.
    pose proof (T _ _ Hn) as Fw. simpl in Fw.
    split; [simpl; apply prefix_snoc; auto|]. split; [exact S|]. split.
    + intros j th Hj. simpl in Hj.
      destruct (nth_error_upd _ _ _ _ _ _ Hn Hj) as [[-> ->]|[Hne Hj']]; [simpl; exact Fw|].
      specialize (T _ _ Hj'). destruct th as [p sn|pe]; simpl in *; auto.
      destruct p as [|[] [|[] [|[] [|]]]]; auto.
      destruct T as (T1 & e & T2 & T3 & T4). split; auto. exists e. repeat split; auto using prefix_snoc.
    + simpl. intros j E. destruct (B _ E) as (th & Hth). destruct (Nat.eq_dec j i) as [->|Hne].
      * eexists. eapply nth_error_upd_same; eauto.
      * exists th. rewrite nth_error_upd_other; auto.
Qed.

Lemma minv_run sched : forall s, minv s -> minv (mrun s sched).
Proof.
  induction sched as [|i r IH]; simpl; intros s H; auto.
  destruct (mstep s i) eqn:E; auto. apply IH. eapply minv_step; eauto.
Qed.

Lemma mstep_other s i s' q : mstep s i = Some s' -> q <> i -> nth_error (m_threads s') q = nth_error (m_threads s) q.
Proof.
  unfold mstep. intros H Hne.
  destruct (nth_error (m_threads s) i) as [[[|op rest] snap|[|x r]]|]; try discriminate.
  - destruct op; [destruct (m_busy s); [discriminate|]; destruct (List.length (m_log s) <=? m_saved s)| | |];
      inversion H; subst; simpl; apply nth_error_upd_other; auto.
  - inversion H; subst; simpl. apply nth_error_upd_other; auto.
Qed.

Lemma mrun_other sched q : ~ In q sched -> forall s, nth_error (m_threads (mrun s sched)) q = nth_error (m_threads s) q.
Proof.
  induction sched as [|i r IH]; simpl; intros Hq s; auto.
  destruct (mstep s i) eqn:E; [|apply IH; tauto].
  rewrite IH by tauto. eapply mstep_other; eauto.
Qed.

(* Any number of flushes and gate-free extension writers, any interleaving, followed by a flush
   that runs alone: what meta.cbor holds IS the in-memory metadata — no acknowledged write is
   skipped by the no-op fast path. *)
Theorem flush_converges ths sched q :
  Forall fresh ths -> nth_error ths q = Some (Flusher good_flush None) -> ~ In q sched ->
  let s := mrun (minit ths) sched in
  m_busy s = None ->
  let s' := mrun s [q; q; q] in
  m_persist s' = m_log s' /\ m_log s' = m_log s.
Proof.
  intros Hf Hq Hn s Hb.
  assert (I : minv s) by (apply minv_run, minv_init; auto).
  assert (Tq : nth_error (m_threads s) q = Some (Flusher good_flush None)) by (unfold s; rewrite mrun_other; auto).
  destruct I as (P & S & _ & _).
  intros s'. subst s'. cbn [mrun].
  destruct (List.length (m_log s) <=? m_saved s) eqn:Hl.
  - apply Nat.leb_le in Hl.
    set (s1 := mkM (m_log s) (m_saved s) (m_persist s) None (upd (m_threads s) q (Flusher [] None))).
    assert (E0 : mstep s q = Some s1).
    { unfold mstep. rewrite Tq. unfold good_flush. rewrite Hb. apply Nat.leb_le in Hl. rewrite Hl. reflexivity. }
    assert (E1 : mstep s1 q = None).
    { unfold mstep, s1; simpl. rewrite (nth_error_upd_same _ _ _ _ Tq). reflexivity. }
    rewrite E0. cbv iota beta. rewrite E1. cbv iota beta. try rewrite E1. simpl. split; auto. apply prefix_full; auto. lia.
  - set (s1 := mkM (m_log s) (m_saved s) (m_persist s) (Some q) (upd (m_threads s) q (Flusher [FPut; FRecordSnap] (Some (m_log s))))).
    assert (E0 : mstep s q = Some s1).
    { unfold mstep. rewrite Tq. unfold good_flush. rewrite Hb, Hl. reflexivity. }
    assert (T1 : nth_error (m_threads s1) q = Some (Flusher [FPut; FRecordSnap] (Some (m_log s))))
      by (unfold s1; simpl; eapply nth_error_upd_same; eauto).
    set (s2 := mkM (m_log s) (m_saved s) (m_log s) (Some q) (upd (m_threads s1) q (Flusher [FRecordSnap] (Some (m_log s))))).
    assert (E1 : mstep s1 q = Some s2).
    { unfold mstep. rewrite T1. reflexivity. }
    assert (T2 : nth_error (m_threads s2) q = Some (Flusher [FRecordSnap] (Some (m_log s))))
      by (unfold s2; simpl; eapply nth_error_upd_same; eauto).
    rewrite E0. cbv iota beta. rewrite E1. cbv iota beta. unfold mstep. rewrite T2. simpl. auto.
Qed.

(* ------------------------------------------------------------------ recording the LIVE version is wrong *)
(* writer 1 appends (version 1); flush 0 snapshots [1] and writes it; writer 2 appends
   (version 2) while the PUT is in flight; flush 0 records the live version 2; the later flush 3,
   running alone, takes the no-op fast path: meta.cbor holds [1], memory holds [1; 2] *)
Definition flush_refutation : mstate :=
  mrun (minit [Flusher bad_flush None; ExtWriter [1]; ExtWriter [2]; Flusher bad_flush None])
       [1; 0; 0; 2; 0; 3; 3; 3].
