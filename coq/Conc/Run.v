(* C05 — executable checkers for real traces:
   [admits]  : is this sequence of (thread, backend step, result) events a run of the concurrent
               model, do the observed return values and the final dump agree with it?
   [lin_ok]  : is this claimed order a linearization (sequential spec accepts every observed
               return value, real-time precedences respected, final dump equal)?
   Both are proved sound in Conc/Proofs.v. *)
From Coq Require Import List Bool Arith ZArith Lia.
From Verif Require Import Conc.Model.
Import ListNotations.
Open Scope Z_scope.

Inductive event :=
| EvStart (t : nat)
| EvApply (t : nat) (l : label)
| EvResume (t : nat)
| EvReturn (t : nat) (r : ret).

Definition doc_eqb (a b : doc) : bool := Z.eqb (fst a) (fst b) && Z.eqb (snd a) (snd b).
Definition odoc_eqb (a b : option doc) : bool :=
  match a, b with Some x, Some y => doc_eqb x y | None, None => true | _, _ => false end.
Definition is_some {A} (o : option A) : bool := match o with Some _ => true | None => false end.

(* the harness does not decode payloads: labels are compared on kind, id and found/not-found;
   values are checked through the return values and the final dump *)
Definition label_eqb (a b : label) : bool :=
  match a, b with
  | LCreate i _, LCreate j _ => Z.eqb i j
  | LGet i r, LGet j r' => Z.eqb i j && Bool.eqb (is_some r) (is_some r')
  | LIntent i, LIntent j => Z.eqb i j
  | LPut i _, LPut j _ => Z.eqb i j
  | LDelete i, LDelete j => Z.eqb i j
  | LPersist, LPersist => true
  | _, _ => false
  end.

Definition ret_eqb (a b : ret) : bool :=
  match a, b with
  | RId i, RId j => Z.eqb i j
  | RDoc d, RDoc e => doc_eqb d e
  | RNone, RNone | RNotFound, RNotFound | RFlushed, RFlushed | RErr, RErr => true
  | _, _ => false
  end.

Definition natmem (t : nat) (l : list nat) : bool := existsb (Nat.eqb t) l.

Definition is_idle (s : cstate) (t : nat) : bool :=
  match nth_error (c_threads s) t with Some (_, TIdle) => true | _ => false end.

(* tokio's gate is FIFO: a thread leaves TIdle only if no started thread with a smaller index
   (= earlier in the queue: the explorer starts operations in index order) is still waiting.
   This is a scheduling STRATEGY of the replay, not a restriction of the model. *)
(* only operations that take the gate queue on it: a get takes none, is never held back by the
   queue and does not hold anybody back *)
Definition queues_on_gate (s : cstate) (t : nat) : bool :=
  match nth_error (c_threads s) t with Some (o, TIdle) => negb (is_read o) | _ => false end.

Definition fifo_ok (s : cstate) (started : list nat) (t : nat) : bool :=
  forallb (fun t' => negb ((t' <? t)%nat && queues_on_gate s t')) started.

(* replay state: model state, schedule so far (reversed) *)
Definition rs := (cstate * list nat)%type.

Fixpoint advance (fuel : nat) (started : list nat) (t : nat) (x : rs) : rs :=
  match fuel with
  | O => x
  | S f =>
    let '(s, sched) := x in
    if queues_on_gate s t && negb (fifo_ok s started t) then x
    else match tstep s t with
         | Some (s', None) => advance f started t (s', t :: sched)
         | _ => x
         end
  end.

Definition settle_round (started wait : list nat) (x : rs) : rs :=
  fold_left (fun x t => if natmem t wait then x else advance 8 started t x) started x.

Fixpoint settle (rounds : nat) (started wait : list nat) (x : rs) : rs :=
  match rounds with
  | O => x
  | S r => settle r started wait (settle_round started wait x)
  end.

Fixpoint insert_sorted (t : nat) (l : list nat) : list nat :=
  match l with
  | [] => [t]
  | a :: r => if (t <? a)%nat then t :: l else if Nat.eqb t a then l else a :: insert_sorted t r
  end.

(* with the read cache on, the storage.get inside update/remove may be served without a backend
   call: when the next observed step of a thread is not the GET the model expects, the model's
   read step is taken unobserved (under the document lock it reads the same value) *)
Definition is_lget (l : label) : bool := match l with LGet _ _ => true | _ => false end.
Definition silent_read (x : rs) (t : nat) : rs :=
  match tstep (fst x) t with
  | Some (s', Some (LGet _ _)) => (s', t :: snd x)
  | _ => x
  end.

Record replay_state := mkR { r_x : rs; r_started : list nat; r_wait : list nat; r_rets : list (nat * ret) }.

Definition process (post : bool) (st : replay_state) (e : event) : option replay_state :=
  let n := S (List.length (c_threads (fst (r_x st)))) in
  match e with
  | EvStart t =>
      let started := insert_sorted t (r_started st) in
      Some (mkR (settle n started (r_wait st) (r_x st)) started (r_wait st) (r_rets st))
  | EvApply t l =>
      if natmem t (r_wait st) then None else
      let x0 := if is_lget l then r_x st else silent_read (r_x st) t in
      match tstep (fst x0) t with
      | Some (s', Some l') =>
          if label_eqb l l'
          then let wait := if post then t :: r_wait st else r_wait st in
               Some (mkR (settle n (r_started st) wait (s', t :: snd x0)) (r_started st) wait (r_rets st))
          else None
      | _ => None
      end
  | EvResume t =>
      let wait := filter (fun t' => negb (Nat.eqb t' t)) (r_wait st) in
      Some (mkR (settle n (r_started st) wait (r_x st)) (r_started st) wait (r_rets st))
  | EvReturn t r =>
      (* a flush that found nothing dirty returns without touching ids.cbor: its persist step is
         vacuous and is taken here, unobserved (what a flush persists is C01's subject) *)
      let x := match nth_error (c_threads (fst (r_x st))) t with
               | Some (OFlush, TFlushSnap _) =>
                   match tstep (fst (r_x st)) t with
                   | Some (s', _) => settle n (r_started st) (r_wait st) (s', t :: snd (r_x st))
                   | None => r_x st
                   end
               | _ => r_x st
               end in
      Some (mkR x (r_started st) (r_wait st) ((t, r) :: r_rets st))
  end.

Fixpoint replay (post : bool) (st : replay_state) (evs : list event) : option replay_state :=
  match evs with
  | [] => Some st
  | e :: r => match process post st e with Some st' => replay post st' r | None => None end
  end.

Definition thread_done (s : cstate) (t : nat) : option ret :=
  match nth_error (c_threads s) t with Some (_, TDone r) => Some r | _ => None end.

Definition dump_ok (s : cstate) (final : list (id * doc)) : bool :=
  forallb (fun i => odoc_eqb (abs s i) (get final i))
          (map fst final ++ c_bitmap s ++ map fst (c_store s)).

Definition admits_with (docs : list (id * doc)) (ops : list op) (post : bool) (evs : list event)
           (final : list (id * doc)) : option (cstate * list nat) :=
  match replay post (mkR (init docs ops, []) [] [] []) evs with
  | None => None
  | Some st =>
    let s := fst (r_x st) in
    if forallb (fun t => is_some (thread_done s t)) (seq 0 (List.length ops))
       && forallb (fun p => match thread_done s (fst p) with Some r' => ret_eqb (snd p) r' | None => false end) (r_rets st)
       && forallb (fun t => natmem t (map fst (r_rets st))) (seq 0 (List.length ops))
       && dump_ok s final
    then Some (s, rev (snd (r_x st))) else None
  end.

Definition admits docs ops post evs final : bool := is_some (admits_with docs ops post evs final).

(* ------------------------------------------------------------------ witness checker *)
Fixpoint index_of (t : nat) (h : list (nat * op * ret)) (k : nat) : option nat :=
  match h with
  | [] => None
  | (t', _, _) :: r => if Nat.eqb t t' then Some k else index_of t r (S k)
  end.

Definition lin_ok (docs : list (id * doc)) (h : list (nat * op * ret)) (prec : list (nat * nat))
           (nops : nat) (final : list (id * doc)) : bool :=
  match seq_run (docs, map fst docs) h with
  | None => false
  | Some (m, _) =>
      forallb (fun i => odoc_eqb (get m i) (get final i)) (map fst final ++ map fst m)
      && forallb (fun t => is_some (index_of t h 0)) (seq 0 nops)
      && Nat.eqb (List.length h) nops
      && forallb (fun p => match index_of (fst p) h 0, index_of (snd p) h 0 with
                           | Some a, Some b => (a <? b)%nat
                           | _, _ => false
                           end) prec
  end.

(* runners for the harness cases (ids and field values arrive as Z, thread ids as nat) *)
Definition admits_case := (list (id * doc) * list op * bool * list event * list (id * doc))%type.
Definition check_admits (c : admits_case) : bool :=
  let '(docs, ops, post, evs, final) := c in admits docs ops post evs final.

Definition lin_case := (list (id * doc) * list (nat * op * ret) * list (nat * nat) * nat * list (id * doc))%type.
Definition check_lin (c : lin_case) : bool :=
  let '(docs, h, prec, n, final) := c in lin_ok docs h prec n final.
