(* C05 — invariants of the concurrent model under ANY schedule and any number of threads:
   doc-lock mutual exclusion, gate exclusion, distinct ids, and the forward simulation to the
   sequential collection through the linearization points. *)
From Coq Require Import List Bool Arith ZArith Lia.
From Verif Require Import Conc.Model Conc.Steps.
Import ListNotations.
Open Scope Z_scope.

(* ------------------------------------------------------------------ list / map lemmas *)
Lemma get_set m i d j : get (set m i d) j = if Z.eqb i j then Some d else get m j.
Proof.
  unfold set. simpl. destruct (Z.eqb i j) eqn:E; auto.
  unfold del. induction m as [|[k x] r IH]; simpl; auto.
  destruct (Z.eqb k i) eqn:Ek; simpl.
  - apply Z.eqb_eq in Ek. subst. rewrite E. auto.
  - destruct (Z.eqb k j); auto.
Qed.

Lemma get_del m i j : get (del m i) j = if Z.eqb i j then None else get m j.
Proof.
  unfold del. induction m as [|[k x] r IH]; simpl; [destruct (Z.eqb i j); auto|].
  destruct (Z.eqb k i) eqn:Ek; simpl.
  - apply Z.eqb_eq in Ek. subst. rewrite IH. destruct (Z.eqb i j); auto.
  - rewrite IH. destruct (Z.eqb k j) eqn:Ekj; auto.
    destruct (Z.eqb i j) eqn:Eij; auto. apply Z.eqb_eq in Ekj, Eij. subst. rewrite Z.eqb_refl in Ek. discriminate.
Qed.

Lemma mem_cons i j l : mem i (j :: l) = Z.eqb i j || mem i l.
Proof. reflexivity. Qed.

Lemma mem_remove i j l : mem i (remove_id j l) = if Z.eqb i j then false else mem i l.
Proof.
  unfold remove_id, mem. induction l as [|k r IH]; simpl; [destruct (Z.eqb i j); auto|].
  destruct (Z.eqb k j) eqn:Ek; simpl.
  - rewrite IH. destruct (Z.eqb i j) eqn:Eij; auto.
    destruct (Z.eqb i k) eqn:Eik; auto. apply Z.eqb_eq in Ek, Eik. subst. rewrite Z.eqb_refl in Eij. discriminate.
  - rewrite IH. destruct (Z.eqb i j) eqn:Eij; auto.
    destruct (Z.eqb i k) eqn:Eik; auto. apply Z.eqb_eq in Eij, Eik. subst. rewrite Z.eqb_refl in Ek. discriminate.
Qed.

Lemma mem_In i l : mem i l = true <-> In i l.
Proof.
  unfold mem. rewrite existsb_exists. split.
  - intros (x & Hx & E). apply Z.eqb_eq in E. subst; auto.
  - intros H. exists i. split; auto. apply Z.eqb_refl.
Qed.

Lemma forallb_nth_error {A} (f : A -> bool) l n x : forallb f l = true -> nth_error l n = Some x -> f x = true.
Proof. intros H Hn. rewrite forallb_forall in H. apply H. eapply nth_error_In; eauto. Qed.

(* ------------------------------------------------------------------ shape of a step *)
Definition threads_upd (s s' : cstate) (t : nat) (o : op) (p p' : tpc) : Prop :=
  at_t s t o p /\ c_threads s' = upd_nth (c_threads s) t (o, p').

Lemma at_after s s' t o p p' t2 o2 p2 :
  threads_upd s s' t o p p' -> at_t s' t2 o2 p2 ->
  (t2 = t /\ o2 = o /\ p2 = p') \/ (t2 <> t /\ at_t s t2 o2 p2).
Proof.
  intros [Hat Hth] H. unfold at_t in *. rewrite Hth in H.
  destruct (nth_upd_inv _ _ _ _ _ _ Hat H) as [[-> E]|[Hne H2]]; [left|right; auto].
  inversion E; subst; auto.
Qed.

Lemma at_before s s' t o p p' t2 o2 p2 :
  threads_upd s s' t o p p' -> t2 <> t -> at_t s t2 o2 p2 -> at_t s' t2 o2 p2.
Proof. intros [Hat Hth] Hne H. unfold at_t in *. rewrite Hth, nth_upd_other; auto. Qed.

Lemma at_self s s' t o p p' : threads_upd s s' t o p p' -> at_t s' t o p'.
Proof. intros [Hat Hth]. unfold at_t in *. rewrite Hth. eapply nth_upd_same; eauto. Qed.

(* every step rewrites exactly the stepping thread's program counter; locks and gate leases are
   taken only by the lock / gate steps, whose guards say nobody else holds them *)
Lemma cstep_shape s t l s' : cstep s t l s' ->
  exists o p p', threads_upd s s' t o p p' /\
    (forall i, holds_lock_t i (o, p') = true -> holds_lock_t i (o, p) = true \/ lock_free s i = true) /\
    (holds_shared_t (o, p') = true -> holds_shared_t (o, p) = true \/ no_excl s = true) /\
    (holds_excl_t (o, p') = true -> holds_excl_t (o, p) = true \/ no_holder s = true).
Proof.
  intros H; inversion H; subst; unfold with_threads, set_pc, lin_add; simpl;
    match goal with Hat : at_t s t ?o ?p |- _ =>
      match goal with |- context [upd_nth _ t (_, ?p')] => exists o, p, p' end end;
    (split; [split; [assumption|reflexivity]|]);
    unfold holds_lock_t, holds_shared_t, holds_excl_t; simpl;
    repeat split; intros; auto;
    try (match goal with Ht : target _ = Some _ |- _ => simpl in Ht; try rewrite Ht end);
    try (destruct o; simpl in *; try discriminate; auto; fail).
  all: try (right; assumption).
  all: try (match goal with Ht : target ?o = Some ?i, H0 : context [target ?o] |- _ =>
              rewrite Ht in H0; apply andb_true_iff in H0; destruct H0 as [E _]; apply Z.eqb_eq in E; subst; right; assumption end).
  all: try (exfalso; match goal with Hx : match target ?o with _ => _ end = true |- _ => destruct (target o); [rewrite andb_false_r in Hx|]; discriminate end).
Qed.

(* ------------------------------------------------------------------ A. mutual exclusion *)
Definition holds_lock (s : cstate) (t : nat) (i : id) : Prop := exists o p, at_t s t o p /\ holds_lock_t i (o, p) = true.
Definition holds_shared (s : cstate) (t : nat) : Prop := exists o p, at_t s t o p /\ holds_shared_t (o, p) = true.
Definition holds_excl (s : cstate) (t : nat) : Prop := exists o p, at_t s t o p /\ holds_excl_t (o, p) = true.

Definition mutex (s : cstate) : Prop :=
  (forall t1 t2 i, holds_lock s t1 i -> holds_lock s t2 i -> t1 = t2) /\
  (forall t1 t2, holds_excl s t1 -> holds_excl s t2 -> t1 = t2) /\
  (forall t1 t2, holds_excl s t1 -> holds_shared s t2 -> False).

Lemma mutex_step s t l s' : mutex s -> cstep s t l s' -> mutex s'.
Proof.
  intros (ML & MX & MS) Hst. destruct (cstep_shape _ _ _ _ Hst) as (o & p & p' & Hu & HL & HS & HX).
  assert (Hat := proj1 Hu).
  split; [|split].
  - intros t1 t2 i (o1 & p1 & A1 & L1) (o2 & p2 & A2 & L2).
    destruct (at_after _ _ _ _ _ _ _ _ _ Hu A1) as [(-> & -> & ->)|(N1 & B1)];
    destruct (at_after _ _ _ _ _ _ _ _ _ Hu A2) as [(-> & -> & ->)|(N2 & B2)]; auto.
    + destruct (HL _ L1) as [Hold|Hfree].
      * exfalso. apply N2. symmetry. apply (ML t t2 i); [exists o, p; auto|exists o2, p2; auto].
      * pose proof (forallb_nth_error _ _ _ _ Hfree B2) as F. cbv beta in F. rewrite L2 in F. discriminate.
    + destruct (HL _ L2) as [Hold|Hfree].
      * exfalso. apply N1. apply (ML t1 t i); [exists o1, p1; auto|exists o, p; auto].
      * pose proof (forallb_nth_error _ _ _ _ Hfree B1) as F. cbv beta in F. rewrite L1 in F. discriminate.
    + apply (ML t1 t2 i); [exists o1, p1; auto|exists o2, p2; auto].
  - intros t1 t2 (o1 & p1 & A1 & L1) (o2 & p2 & A2 & L2).
    destruct (at_after _ _ _ _ _ _ _ _ _ Hu A1) as [(-> & -> & ->)|(N1 & B1)];
    destruct (at_after _ _ _ _ _ _ _ _ _ Hu A2) as [(-> & -> & ->)|(N2 & B2)]; auto.
    + destruct (HX L1) as [Hold|Hfree].
      * exfalso. apply N2. symmetry. apply (MX t t2); [exists o, p; auto|exists o2, p2; auto].
      * pose proof (forallb_nth_error _ _ _ _ Hfree B2) as F. cbv beta in F. rewrite L2, orb_true_r in F. discriminate.
    + destruct (HX L2) as [Hold|Hfree].
      * exfalso. apply N1. apply (MX t1 t); [exists o1, p1; auto|exists o, p; auto].
      * pose proof (forallb_nth_error _ _ _ _ Hfree B1) as F. cbv beta in F. rewrite L1, orb_true_r in F. discriminate.
    + apply (MX t1 t2); [exists o1, p1; auto|exists o2, p2; auto].
  - intros t1 t2 (o1 & p1 & A1 & L1) (o2 & p2 & A2 & L2).
    destruct (at_after _ _ _ _ _ _ _ _ _ Hu A1) as [(-> & -> & ->)|(N1 & B1)];
    destruct (at_after _ _ _ _ _ _ _ _ _ Hu A2) as [(-> & -> & ->)|(N2 & B2)].
    + unfold holds_excl_t, holds_shared_t in *. simpl in *. destruct (is_flush o); simpl in *; discriminate.
    + destruct (HX L1) as [Hold|Hfree].
      * apply (MS t t2); [exists o, p; auto|exists o2, p2; auto].
      * pose proof (forallb_nth_error _ _ _ _ Hfree B2) as F. cbv beta in F. rewrite L2 in F. discriminate.
    + destruct (HS L2) as [Hold|Hfree].
      * apply (MS t1 t); [exists o1, p1; auto|exists o, p; auto].
      * pose proof (forallb_nth_error _ _ _ _ Hfree B1) as F. cbv beta in F. rewrite L1 in F. discriminate.
    + apply (MS t1 t2); [exists o1, p1; auto|exists o2, p2; auto].
Qed.

Lemma mutex_init docs ops : mutex (init docs ops).
Proof.
  assert (H : forall t o p, at_t (init docs ops) t o p -> p = TIdle).
  { unfold at_t, init; simpl. intros t o p H. apply nth_error_In in H. apply in_map_iff in H.
    destruct H as (x & E & _). inversion E; auto. }
  split; [|split].
  - intros t1 t2 i (o & p & A & L). rewrite (H _ _ _ A) in L. unfold holds_lock_t in L; simpl in L.
    destruct (target o); simpl in L; try discriminate. rewrite andb_false_r in L. discriminate.
  - intros t1 t2 (o & p & A & L). rewrite (H _ _ _ A) in L. unfold holds_excl_t in L; simpl in L. rewrite andb_false_r in L. discriminate.
  - intros t1 t2 (o & p & A & L). rewrite (H _ _ _ A) in L. unfold holds_excl_t in L; simpl in L. rewrite andb_false_r in L. discriminate.
Qed.

Theorem reach_mutex docs ops s : reach (init docs ops) s -> mutex s.
Proof. induction 1; eauto using mutex_init, mutex_step. Qed.
