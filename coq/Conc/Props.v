(* C05 — pinned statements only. *)
From Coq Require Import List Bool Arith ZArith.
From Verif Require Import Conc.Model Conc.Steps Conc.Proofs Conc.Ids Conc.Run Conc.Sound Conc.Sim Conc.SeqFacts Conc.Cache gen.Gen_Cache Conc.FlushMeta gen.Gen_FlushMeta.
Import ListNotations.
Open Scope Z_scope.

(* For every initial collection, every list of operations (any number of threads) and every
   schedule: at most one thread is inside the per-document critical section of an id. *)
Theorem C05_doc_lock_mutex :
  forall docs ops sched t1 t2 i,
    let s := run (init docs ops) sched in
    holds_lock s t1 i -> holds_lock s t2 i -> t1 = t2.
Proof.
  intros docs ops sched t1 t2 i s H1 H2.
  assert (R : reach (init docs ops) s) by (apply run_reach; constructor).
  destruct (reach_mutex _ _ _ R) as (ML & _). eauto.
Qed.
Print Assumptions C05_doc_lock_mutex.

(* ... and a flush holds the gate alone: no mutation is between its admission and its return *)
Theorem C05_flush_excludes_mutations :
  forall docs ops sched t1 t2,
    let s := run (init docs ops) sched in
    holds_excl s t1 -> (holds_shared s t2 -> False) /\ (holds_excl s t2 -> t1 = t2).
Proof.
  intros docs ops sched t1 t2 s H1.
  assert (R : reach (init docs ops) s) by (apply run_reach; constructor).
  destruct (reach_mutex _ _ _ R) as (_ & MX & MS). split; eauto.
Qed.
Print Assumptions C05_flush_excludes_mutations.

(* every successful add receives a distinct id, different from every id of the initial collection *)
Theorem C05_ids_distinct :
  forall docs ops sched, NoDup (map fst docs) ->
    let s := run (init docs ops) sched in
    NoDup (added_ids (c_lin s)) /\ forall i, In i (added_ids (c_lin s)) -> ~ In i (map fst docs).
Proof.
  intros docs ops sched ND s. apply (ids_distinct docs ops ND). apply run_reach; constructor.
Qed.
Print Assumptions C05_ids_distinct.

(* FORWARD SIMULATION.  Under every schedule, the history of linearization points (add at the
   bitmap insert, update at the conditional put, remove at the storage delete, flush at the
   exclusive gate, failed calls at the test that fails them) is a sequential execution of the
   collection specification from the initial documents to the documents currently visible
   through the handle; every recorded return value is the one that order produces. *)
Theorem C05_linearizable :
  forall docs ops sched, NoDup (map fst docs) ->
    let s := run (init docs ops) sched in
    seq_exec (abs (init docs ops), map fst docs) (c_lin s) (abs s, used docs s).
Proof.
  intros docs ops sched ND s. apply (si_exec docs ops). apply reach_sim; auto. apply run_reach; constructor.
Qed.
Print Assumptions C05_linearizable.

(* each call returns the value recorded at its linearization point *)
Theorem C05_returns_are_linearized :
  forall docs ops sched t o r, NoDup (map fst docs) ->
    let s := run (init docs ops) sched in
    nth_error (c_threads s) t = Some (o, TDone r) -> In (t, o, r) (c_lin s).
Proof.
  intros docs ops sched t o r ND s H. apply (returned_in_lin docs ops).
  - apply run_reach; constructor.
  - left. exact H.
Qed.
Print Assumptions C05_returns_are_linearized.

(* no lost update: under the document lock the update still sees exactly the document it read,
   so its version-conditioned put applies on top of the latest acknowledged value *)
Theorem C05_no_lost_update :
  forall docs ops sched t i u d, NoDup (map fst docs) ->
    let s := run (init docs ops) sched in
    nth_error (c_threads s) t = Some (OUpdate i u, TUpdIntent d) ->
    get (c_store s) i = Some d /\ abs s i = Some d.
Proof.
  intros docs ops sched t i u d ND s H. apply (upd_reads_current docs ops ND s t i u d).
  - apply run_reach; constructor.
  - right. exact H.
Qed.
Print Assumptions C05_no_lost_update.

(* exactly one of several concurrent removes of a document returns it: in every concurrent run,
   under every schedule, at most one linearized remove of an id carries the document *)
Theorem C05_exactly_one_remove_returns :
  forall docs ops sched i, NoDup (map fst docs) ->
    let s := run (init docs ops) sched in
    (rm_count i (c_lin s) <= 1)%nat.
Proof.
  intros docs ops sched i ND s.
  assert (L := C05_linearizable docs ops sched ND). cbv zeta in L. fold s in L.
  refine (proj1 (remove_returns_once _ _ _ L _ i)).
  simpl. intros j d H. unfold abs in H. simpl in H.
  destruct (mem j (map fst docs)) eqn:M; [apply mem_In in M; exact M|discriminate].
Qed.
Print Assumptions C05_exactly_one_remove_returns.

(* flush sees a prefix: the id set a flush persists is the one of its linearization point (the
   moment it obtained the exclusive gate), i.e. the state after a prefix of the linearization *)
Theorem C05_flush_sees_prefix :
  forall docs ops sched f ids, NoDup (map fst docs) ->
    let s := run (init docs ops) sched in
    nth_error (c_threads s) f = Some (OFlush, TFlushSnap ids) -> ids = c_bitmap s.
Proof.
  intros docs ops sched f ids ND s H. apply (flush_sees_current docs ops s) with (f := f); auto.
  apply run_reach; constructor.
Qed.
Print Assumptions C05_flush_sees_prefix.

(* an accepted trace is therefore linearizable: the run it denotes ends in the dumped documents
   and its linearization is a sequential execution ending in exactly those documents *)
Theorem C05_admitted_trace_is_linearizable :
  forall docs ops post evs final, NoDup (map fst docs) -> admits docs ops post evs final = true ->
  exists s f used',
    reach (init docs ops) s /\
    (forall t, (t < List.length ops)%nat -> exists r, thread_done s t = Some r) /\
    seq_exec (abs (init docs ops), map fst docs) (c_lin s) (f, used') /\
    (forall i, f i = get final i).
Proof.
  intros docs ops post evs final ND H.
  destruct (admits_sound _ _ _ _ _ H) as (sched & s & A & B & C & _ & D).
  exists s, (abs s), (used docs s). repeat split; auto.
  apply (si_exec docs ops). apply reach_sim; auto.
Qed.
Print Assumptions C05_admitted_trace_is_linearizable.

(* the trace checker is sound: an accepted trace is a run of the model with every thread
   returned and the dumped documents equal to the model's visible documents *)
Theorem C05_admits_sound :
  forall docs ops post evs final, admits docs ops post evs final = true ->
  exists sched s, run (init docs ops) sched = s /\ reach (init docs ops) s /\
    (forall t, (t < List.length ops)%nat -> exists r, thread_done s t = Some r) /\
    (forall i, abs s i = get final i).
Proof.
  intros docs ops post evs final H.
  destruct (admits_sound _ _ _ _ _ H) as (sched & s & A & B & C & _ & D). eauto 8.
Qed.
Print Assumptions C05_admits_sound.

Theorem C05_admits_returns :
  forall docs ops post evs final s sched, admits_with docs ops post evs final = Some (s, sched) ->
    run (init docs ops) sched = s /\
    forall t, (t < List.length ops)%nat -> exists r r', thread_done s t = Some r' /\ ret_eqb r r' = true.
Proof. exact admits_returns. Qed.
Print Assumptions C05_admits_returns.

(* the witness checker is sound: an accepted order is a sequential execution of the collection
   specification with exactly the observed return values, every operation once, every
   real-time precedence respected, ending in the dumped documents *)
Theorem C05_lin_ok_sound :
  forall docs h prec n final, lin_ok docs h prec n final = true ->
  exists f used,
    seq_exec (get docs, map fst docs) h (f, used) /\
    (forall i, f i = get final i) /\
    List.length h = n /\
    (forall t, (t < n)%nat -> exists k o r, nth_error h k = Some (t, o, r)) /\
    (forall a b, In (a, b) prec -> exists ka kb, index_of a h 0 = Some ka /\ index_of b h 0 = Some kb /\ (ka < kb)%nat).
Proof. exact lin_ok_sound. Qed.
Print Assumptions C05_lin_ok_sound.

(* ------------------------------------------------------------------ C05.5 the read cache *)
(* the order of the protocol steps as regenerated from storage.rs: reader = lookup, load the
   generation, fetch, re-check, insert (tagged with the LOADED generation); every write path =
   backend write, bump, evict; the lookup compares the entry's tag with the current generation *)
Theorem C05_cache_protocol_order :
  inner_get_order = good_reader /\ lookup_checks_generation = true /\
  Forall (fun p => snd p = good_writer) write_orders /\ backend_mutation_sites = 3%nat.
Proof. repeat split; try reflexivity. repeat constructor. Qed.
Print Assumptions C05_cache_protocol_order.

(* Any number of readers running the generated reader program and writers running any of the
   generated write paths, any schedule: a read — served from the cache or from the backend —
   returns a value that is not older than the newest write acknowledged before the read took
   its first step ([a], see C05_cache_read_start) and not newer than the backend holds. Hence
   after an acknowledged write no later read returns an older value, and a value served from
   the cache was written no earlier than the last write acknowledged before the read began. *)
Theorem C05_cache_coherent :
  forall ths sched,
    Forall (fun th => th = fresh_reader inner_get_order \/
                      exists n w, In (n, w) write_orders /\ th = fresh_writer w) ths ->
    let s := krun (kinit ths) sched in
    forall i prog s0 v a r, nth_error (k_threads s) i = Some (Reader prog s0 v (Some a) (Some r)) ->
      (a <= r <= k_store s)%nat.
Proof.
  intros ths sched H. apply cache_coherent.
  destruct C05_cache_protocol_order as (E1 & _ & E2 & _). rewrite Forall_forall in *.
  intros th Hin. destruct (H th Hin) as [->|(n & w & Hw & ->)].
  - left. rewrite E1. reflexivity.
  - right. rewrite (E2 _ Hw : w = good_writer). reflexivity.
Qed.
Print Assumptions C05_cache_coherent.

Theorem C05_cache_read_start :
  forall s i s' prog s0 v res,
    nth_error (k_threads s) i = Some (Reader prog s0 v None res) -> kstep s i = Some s' ->
    exists prog' s0' v' res', nth_error (k_threads s') i = Some (Reader prog' s0' v' (Some (k_acked s)) res').
Proof. exact kstep_records_start. Qed.
Print Assumptions C05_cache_read_start.

(* the order "fetch, then load the generation" is wrong: a reader whose fetch was served before
   a write but resumed after it caches the old value under the new generation, and a read that
   begins after the write was acknowledged (level 1) is served value 0 *)
Theorem C05_cache_fetch_before_load_refuted :
  exists ths sched i prog s0 v a r,
    Forall (fun th => th = fresh_reader [RLookup; RFetch; RLoadSeq; RInsert] \/ th = fresh_writer good_writer) ths /\
    nth_error (k_threads (krun (kinit ths) sched)) i = Some (Reader prog s0 v (Some a) (Some r)) /\ (r < a)%nat.
Proof.
  exists [fresh_reader bad_reader; fresh_writer good_writer; fresh_reader bad_reader],
         [0; 0; 1; 1; 1; 0; 0; 2]%nat, 2%nat, [], None, None, 1%nat, 0%nat.
  split; [repeat (constructor; [first [left; reflexivity|right; reflexivity]|]); constructor|]. split; [vm_compute; reflexivity|auto].
Qed.
Print Assumptions C05_cache_fetch_before_load_refuted.

(* ------------------------------------------------------------------ flush metadata vs gate-free extension writers *)
(* Collection::store_metadata as regenerated from the source: snapshot, PUT of the snapshot,
   watermark advanced to THE SNAPSHOT'S version; the no-op fast path exists *)
Theorem C05_flush_metadata_program :
  store_metadata_program = good_flush /\ store_metadata_has_fast_path = true.
Proof. split; reflexivity. Qed.
Print Assumptions C05_flush_metadata_program.

(* Any number of flushes running the generated program and of extension writers that take no
   gate (so they also run between the steps of a flush), any interleaving, followed by a flush
   that runs alone: meta.cbor holds exactly the in-memory metadata — no acknowledged write is
   skipped by the no-op fast path, what a flush persists is a prefix of the mutation log. *)
Theorem C05_flush_persists_every_acknowledged_write :
  forall ths sched q,
    Forall (fun th => th = Flusher store_metadata_program None \/ exists l, th = ExtWriter l) ths ->
    nth_error ths q = Some (Flusher store_metadata_program None) -> ~ In q sched ->
    let s := mrun (minit ths) sched in
    m_busy s = None ->
    let s' := mrun s [q; q; q] in
    m_persist s' = m_log s' /\ m_log s' = m_log s.
Proof.
  destruct C05_flush_metadata_program as (E & _). rewrite E. exact flush_converges.
Qed.
Print Assumptions C05_flush_persists_every_acknowledged_write.

Theorem C05_flush_persists_a_prefix :
  forall ths sched,
    Forall (fun th => th = Flusher store_metadata_program None \/ exists l, th = ExtWriter l) ths ->
    let s := mrun (minit ths) sched in
    m_persist s = firstn (List.length (m_persist s)) (m_log s) /\ (m_saved s <= List.length (m_persist s))%nat.
Proof.
  destruct C05_flush_metadata_program as (E & _). rewrite E. intros ths sched H s.
  destruct (minv_run sched _ (minv_init _ H)) as (P & S & _). split; auto.
Qed.
Print Assumptions C05_flush_persists_a_prefix.

(* advancing the watermark to the LIVE version is wrong: an extension written while the PUT is
   in flight is recorded as saved, the next flush (alone) is a no-op and meta.cbor lacks it *)
Theorem C05_flush_record_live_version_refuted :
  exists ths sched q,
    Forall (fun th => th = Flusher [FSnap; FPut; FRecordLive] None \/ exists l, th = ExtWriter l) ths /\
    nth_error ths q = Some (Flusher [FSnap; FPut; FRecordLive] None) /\ ~ In q sched /\
    m_busy (mrun (minit ths) sched) = None /\
    m_persist (mrun (mrun (minit ths) sched) [q; q; q]) <> m_log (mrun (mrun (minit ths) sched) [q; q; q]).
Proof.
  exists [Flusher bad_flush None; ExtWriter [1]; ExtWriter [2]; Flusher bad_flush None]%nat, [1; 0; 0; 2; 0]%nat, 3%nat.
  split; [repeat (constructor; [first [left; reflexivity|right; eexists; reflexivity]|]); constructor|].
  split; [reflexivity|]. split; [simpl; intuition discriminate|]. split; [vm_compute; reflexivity|].
  vm_compute. discriminate.
Qed.
Print Assumptions C05_flush_record_live_version_refuted.

(* ------------------------------------------------------------------ non-vacuity *)
(* two updates of document 1 and a remove of it: after thread 0 took the lock, thread 1 is blocked *)
Example C05_mutex_nonvacuous :
  let s := run (init [(1, (10, 1))] [OUpdate 1 (Some 5, None); OUpdate 1 (None, Some 7)]) [0; 0; 0; 1; 1; 1]%nat in
  holds_lock s 0%nat 1 /\ tstep s 1%nat = None.
Proof. split; [exists (OUpdate 1 (Some 5, None)), TLocked; split; reflexivity|vm_compute; reflexivity]. Qed.

(* a complete interleaved run of the two updates: both fields survive (no lost update) *)
Example C05_no_lost_update_nonvacuous :
  let s := run (init [(1, (10, 1))] [OUpdate 1 (Some 5, None); OUpdate 1 (None, Some 7)])
               [0; 1; 0; 1; 0; 1; 0; 0; 0; 0; 0; 1; 1; 1; 1; 1; 1]%nat in
  abs s 1 = Some (5, 7) /\ thread_done s 0%nat = Some (RDoc (5, 1)) /\ thread_done s 1%nat = Some (RDoc (5, 7)).
Proof. vm_compute. auto. Qed.

Example C05_admits_nonvacuous :
  admits [(1, (10, 1))] [OUpdate 1 (Some 5, None); ORemove 1] false
         [EvStart 0%nat; EvStart 1%nat; EvApply 0%nat (LGet 1 (Some (0, 0))); EvApply 0%nat (LIntent 1); EvApply 0%nat (LPut 1 (0, 0));
          EvReturn 0%nat (RDoc (5, 1)); EvApply 1%nat (LGet 1 (Some (0, 0))); EvApply 1%nat (LIntent 1); EvApply 1%nat (LDelete 1);
          EvReturn 1%nat (RDoc (5, 1))] [] = true
  /\ (* the same trace with the remove returning the OLD document is rejected *)
  admits [(1, (10, 1))] [OUpdate 1 (Some 5, None); ORemove 1] false
         [EvStart 0%nat; EvStart 1%nat; EvApply 0%nat (LGet 1 (Some (0, 0))); EvApply 0%nat (LIntent 1); EvApply 0%nat (LPut 1 (0, 0));
          EvReturn 0%nat (RDoc (5, 1)); EvApply 1%nat (LGet 1 (Some (0, 0))); EvApply 1%nat (LIntent 1); EvApply 1%nat (LDelete 1);
          EvReturn 1%nat (RDoc (10, 1))] [] = false.
Proof. split; vm_compute; reflexivity. Qed.

(* the generated protocol with a writer overlapping a reader: the read that starts after the
   acknowledgement sees the new value *)
Example C05_cache_nonvacuous :
  let s := krun (kinit [fresh_reader inner_get_order; fresh_writer good_writer; fresh_reader inner_get_order])
                [0; 0; 0; 1; 1; 1; 0; 0; 2; 2; 2; 2; 2]%nat in
  nth_error (k_threads s) 0%nat = Some (Reader [] (Some 0%nat) (Some 0%nat) (Some 0%nat) (Some 0%nat)) /\
  nth_error (k_threads s) 2%nat = Some (Reader [] (Some 1%nat) (Some 1%nat) (Some 1%nat) (Some 1%nat)).
Proof. vm_compute. auto. Qed.
