(* C05 — B. the allocator: every id handed out is fresh (never used before, not in the initial
   collection, not held by another in-flight add), under any schedule. *)
From Coq Require Import List Bool Arith ZArith Lia.
From Verif Require Import Conc.Model Conc.Steps Conc.Proofs.
Import ListNotations.
Open Scope Z_scope.

Definition alloc_of (p : tpc) : option id := match p with TAddAlloc i | TAddCreated i => Some i | _ => None end.

Lemma added_ids_app h e : added_ids (h ++ [e]) = added_ids h ++ added_ids [e].
Proof. unfold added_ids. rewrite flat_map_app. reflexivity. Qed.

Lemma cstep_ids s t l s' : cstep s t l s' ->
  exists o p p', threads_upd s s' t o p p' /\
   ((c_next s' = c_next s /\ added_ids (c_lin s') = added_ids (c_lin s) /\ (alloc_of p' = alloc_of p \/ alloc_of p' = None))
    \/ (c_next s' = c_next s + 1 /\ added_ids (c_lin s') = added_ids (c_lin s) /\ alloc_of p = None /\ alloc_of p' = Some (c_next s + 1))
    \/ (exists i, c_next s' = c_next s /\ added_ids (c_lin s') = added_ids (c_lin s) ++ [i] /\ alloc_of p = Some i /\ alloc_of p' = None)).
Proof.
  intros H; inversion H; subst; unfold with_threads, set_pc, lin_add; simpl;
    match goal with Hat : at_t s t ?o ?p |- _ =>
      match goal with |- context [upd_nth _ t (_, ?p')] => exists o, p, p' end end;
    (split; [split; [assumption|reflexivity]|]); simpl;
    try rewrite added_ids_app; simpl; try rewrite app_nil_r;
    try (left; repeat split; auto; fail).
  - right; left. repeat split; auto.
  - right; right. exists i. repeat split; auto.
Qed.

Lemma nodup_app_inv {A} (a b : list A) : NoDup (a ++ b) -> NoDup a /\ forall x, In x a -> ~ In x b.
Proof.
  induction a as [|x r IH]; simpl; intros H; [split; [constructor|contradiction]|].
  inversion H; subst. destruct (IH H3) as [N1 N2]. split.
  - constructor; auto. intros Hx. apply H2. apply in_or_app; auto.
  - intros y [<-|Hy]; auto. intros Hb. apply H2. apply in_or_app; auto.
Qed.

Section Ids.
  Variable docs0 : list (id * doc).
  Variable ops0 : list op.
  Hypothesis docs0_nodup : NoDup (map fst docs0).
  Let ids0 := map fst docs0.

  Definition used (s : cstate) : list id := rev (added_ids (c_lin s)) ++ ids0.

  Record ids_inv (s : cstate) : Prop := mkIds {
    ii_alloc_le : forall t o p i, at_t s t o p -> alloc_of p = Some i -> i <= c_next s;
    ii_alloc_inj : forall t1 o1 p1 t2 o2 p2 i, at_t s t1 o1 p1 -> at_t s t2 o2 p2 ->
                     alloc_of p1 = Some i -> alloc_of p2 = Some i -> t1 = t2;
    ii_used_le : forall i, In i (used s) -> i <= c_next s;
    ii_used_fresh : forall i t o p, In i (used s) -> at_t s t o p -> alloc_of p <> Some i;
    ii_nodup : NoDup (used s) }.

  Lemma fold_max_le l i : In i l -> i <= fold_right Z.max 0 l.
  Proof. induction l; simpl; intros H; [contradiction|]. destruct H as [->|H]; [lia|]. specialize (IHl H). lia. Qed.

  Lemma ids_init : ids_inv (init docs0 ops0).
  Proof.
    assert (H : forall t o p, at_t (init docs0 ops0) t o p -> p = TIdle).
    { unfold at_t, init; simpl. intros t o p H. apply nth_error_In in H. apply in_map_iff in H.
      destruct H as (x & E & _). inversion E; auto. }
    constructor; unfold used; simpl.
    - intros t o p i A E. rewrite (H _ _ _ A) in E. discriminate.
    - intros t1 o1 p1 t2 o2 p2 i A1 _ E. rewrite (H _ _ _ A1) in E. discriminate.
    - intros i Hi. apply fold_max_le; auto.
    - intros i t o p _ A. rewrite (H _ _ _ A). discriminate.
    - exact docs0_nodup.
  Qed.

  Lemma ids_step s t l s' : ids_inv s -> cstep s t l s' -> ids_inv s'.
  Proof.
    intros [ALE AINJ ULE UFR UND] Hst.
    destruct (cstep_ids _ _ _ _ Hst) as (o & p & p' & Hu & Hcase).
    assert (Hat := proj1 Hu).
    destruct Hcase as [(Hn & Hl & Ha)|[(Hn & Hl & Ha & Ha')|(i0 & Hn & Hl & Ha & Ha')]].
    - (* nothing allocated, nothing added *)
      assert (Hused : used s' = used s) by (unfold used; rewrite Hl; auto).
      assert (Hal : forall i, alloc_of p' = Some i -> alloc_of p = Some i).
      { intros i E. destruct Ha as [Ha|Ha]; rewrite Ha in E; auto; discriminate. }
      constructor; rewrite ?Hused, ?Hn.
      + intros t2 o2 p2 i A E. destruct (at_after _ _ _ _ _ _ _ _ _ Hu A) as [(-> & -> & ->)|(N & B)]; eauto.
      + intros t1 o1 p1 t2 o2 p2 i A1 A2 E1 E2.
        destruct (at_after _ _ _ _ _ _ _ _ _ Hu A1) as [(-> & -> & ->)|(N1 & B1)];
        destruct (at_after _ _ _ _ _ _ _ _ _ Hu A2) as [(-> & -> & ->)|(N2 & B2)]; eauto.
      + auto.
      + intros i t2 o2 p2 Hi A. destruct (at_after _ _ _ _ _ _ _ _ _ Hu A) as [(-> & -> & ->)|(N & B)]; eauto.
        intros E. eapply UFR; eauto.
      + auto.
    - (* allocation of next+1 *)
      assert (Hused : used s' = used s) by (unfold used; rewrite Hl; auto).
      constructor; rewrite ?Hused, ?Hn.
      + intros t2 o2 p2 i A E. destruct (at_after _ _ _ _ _ _ _ _ _ Hu A) as [(-> & -> & ->)|(N & B)].
        * rewrite Ha' in E. inversion E. lia.
        * specialize (ALE _ _ _ _ B E). lia.
      + intros t1 o1 p1 t2 o2 p2 i A1 A2 E1 E2.
        destruct (at_after _ _ _ _ _ _ _ _ _ Hu A1) as [(-> & -> & ->)|(N1 & B1)];
        destruct (at_after _ _ _ _ _ _ _ _ _ Hu A2) as [(-> & -> & ->)|(N2 & B2)]; eauto.
        * rewrite Ha' in E1. inversion E1; subst. specialize (ALE _ _ _ _ B2 E2). lia.
        * rewrite Ha' in E2. inversion E2; subst. specialize (ALE _ _ _ _ B1 E1). lia.
      + intros i Hi. specialize (ULE _ Hi). lia.
      + intros i t2 o2 p2 Hi A. destruct (at_after _ _ _ _ _ _ _ _ _ Hu A) as [(-> & -> & ->)|(N & B)]; eauto.
        rewrite Ha'. intros E. inversion E; subst. specialize (ULE _ Hi). lia.
      + auto.
    - (* the add's linearization point: its id joins the used set *)
      assert (Hused : used s' = i0 :: used s).
      { unfold used. rewrite Hl, rev_app_distr. reflexivity. }
      assert (Hfresh : ~ In i0 (used s)) by (intros Hi; eapply UFR; eauto).
      constructor; rewrite ?Hused, ?Hn.
      + intros t2 o2 p2 i A E. destruct (at_after _ _ _ _ _ _ _ _ _ Hu A) as [(-> & -> & ->)|(N & B)]; eauto.
        rewrite Ha' in E. discriminate.
      + intros t1 o1 p1 t2 o2 p2 i A1 A2 E1 E2.
        destruct (at_after _ _ _ _ _ _ _ _ _ Hu A1) as [(-> & -> & ->)|(N1 & B1)];
        destruct (at_after _ _ _ _ _ _ _ _ _ Hu A2) as [(-> & -> & ->)|(N2 & B2)]; eauto;
        try (rewrite Ha' in *; discriminate).
      + intros i [<-|Hi]; eauto.
      + intros i t2 o2 p2 Hi A. destruct (at_after _ _ _ _ _ _ _ _ _ Hu A) as [(-> & -> & ->)|(N & B)].
        * rewrite Ha'. discriminate.
        * destruct Hi as [<-|Hi]; eauto.
      + constructor; auto.
  Qed.

  Theorem reach_ids s : reach (init docs0 ops0) s -> ids_inv s.
  Proof. induction 1; eauto using ids_init, ids_step. Qed.

  (* every successful add received a distinct id, different from every id of the initial collection *)
  Theorem ids_distinct s : reach (init docs0 ops0) s ->
    NoDup (added_ids (c_lin s)) /\ forall i, In i (added_ids (c_lin s)) -> ~ In i (map fst docs0).
  Proof.
    intros Hr. destruct (reach_ids _ Hr) as [_ _ _ _ ND]. unfold used in ND.
    destruct (nodup_app_inv _ _ ND) as [N1 N2]. split.
    - apply NoDup_rev in N1. rewrite rev_involutive in N1. exact N1.
    - intros i Hi. apply N2. apply -> in_rev. exact Hi.
  Qed.
End Ids.
