(* C05 — concurrent add / update / remove / flush on one collection.

   A small-step transition system over: the backend documents, the id bitmap, the atomic id
   allocator, and one program counter per thread (any number of threads).  The operation gate
   (shared for mutations, exclusive for flush) and the per-document locks are DERIVED from the
   program counters, as in Common/Gate.  The steps transcribe add_impl / update_impl /
   remove_impl / flush of rs/anda_db/src/collection.rs at backend-call granularity: every
   storage call is one visible step, the in-memory work between two calls is split into the
   atomic pieces that matter (gate, bitmap test, allocation, doc lock, bitmap mutation).
   Linearization points append to the ghost history [c_lin].
   128 lock stripes are abstracted to one lock per id (a stripe collision only blocks more).
   No proofs in this file. *)
From Coq Require Import List Bool Arith ZArith Lia.
Import ListNotations.
Open Scope Z_scope.

Definition id := Z.
Definition doc := (Z * Z)%type.                       (* fields a, b *)
Definition upd := (option Z * option Z)%type.         (* update(id, fields): None = field not mentioned *)

Definition merge (d : doc) (u : upd) : doc :=
  (match fst u with Some x => x | None => fst d end,
   match snd u with Some x => x | None => snd d end).

(* OGet i hit: Collection::get; [hit] says whether the read cache served it (no backend GET) *)
Inductive op := OAdd (d : doc) | OUpdate (i : id) (u : upd) | ORemove (i : id) | OFlush | OGet (i : id) (hit : bool).

Inductive ret :=
| RId (i : id)          (* add -> Ok(id) *)
| RDoc (d : doc)        (* update -> Ok(doc) ; remove -> Ok(Some(doc)) *)
| RNone                 (* remove -> Ok(None) *)
| RNotFound             (* update -> Err(NotFound) *)
| RFlushed              (* flush -> Ok(_) *)
| RErr.                 (* any other error: no effect *)

(* ------------------------------------------------------------------ association lists *)
Fixpoint get (m : list (id * doc)) (i : id) : option doc :=
  match m with
  | [] => None
  | (j, d) :: r => if Z.eqb j i then Some d else get r i
  end.
Definition del (m : list (id * doc)) (i : id) : list (id * doc) := filter (fun p => negb (Z.eqb (fst p) i)) m.
Definition set (m : list (id * doc)) (i : id) (d : doc) : list (id * doc) := (i, d) :: del m i.
Definition mem (i : id) (l : list id) : bool := existsb (Z.eqb i) l.
Definition remove_id (i : id) (l : list id) : list id := filter (fun j => negb (Z.eqb j i)) l.

(* ------------------------------------------------------------------ threads *)
Inductive tpc :=
| TIdle                                   (* not yet past the operation gate *)
| TGate                                   (* holds its gate lease (shared; exclusive for flush) *)
| TAddAlloc (i : id)                      (* id allocated; next: storage.create *)
| TAddCreated (i : id)                    (* document object written; next: bitmap insert *)
| TChecked                                (* update/remove: bitmap said present; next: doc lock *)
| TLocked                                 (* holds the doc lock; next: storage.get *)
| TUpdGot (d : doc)                       (* read d; next: intent *)
| TUpdIntent (d : doc)                    (* intent written; next: conditional put *)
| TRemGot (d : option doc)                (* read; next: intent (Some) or bitmap removal (None) *)
| TRemIntent (d : doc)                    (* intent written; next: storage.delete *)
| TRemDeleted (d : doc)                   (* object deleted; next: bitmap removal *)
| TFlushSnap (ids : list id)              (* exclusive; snapshot taken; next: persist *)
| TGetChecked                             (* get: bitmap said present; next: the read *)
| TFinishing (r : ret)                    (* last storage call done; next: drop guards, return *)
| TDone (r : ret).

Definition thread := (op * tpc)%type.

Inductive label :=
| LCreate (i : id) (d : doc)
| LGet (i : id) (r : option doc)
| LIntent (i : id)
| LPut (i : id) (d : doc)
| LDelete (i : id)
| LPersist.

Record cstate := mkC {
  c_store : list (id * doc);
  c_bitmap : list id;
  c_next : id;                              (* max_document_id *)
  c_threads : list thread;
  c_lin : list (nat * op * ret);            (* ghost: linearization so far *)
  c_persist : list (nat * list id) }.       (* ghost: the id set each flush persisted *)

Definition running (p : tpc) : bool := match p with TIdle | TDone _ => false | _ => true end.
Definition is_flush (o : op) : bool := match o with OFlush => true | _ => false end.
Definition is_read (o : op) : bool := match o with OGet _ _ => true | _ => false end.
(* reads take no gate lease *)
Definition holds_shared_t (t : thread) : bool := negb (is_flush (fst t)) && negb (is_read (fst t)) && running (snd t).
Definition holds_excl_t (t : thread) : bool := is_flush (fst t) && running (snd t).

Definition target (o : op) : option id :=
  match o with OUpdate i _ => Some i | ORemove i => Some i | _ => None end.
Definition in_cs (p : tpc) : bool :=
  match p with TLocked | TUpdGot _ | TUpdIntent _ | TRemGot _ | TRemIntent _ | TRemDeleted _ => true
          | TFinishing _ => true | _ => false end.
Definition holds_lock_t (i : id) (t : thread) : bool :=
  match target (fst t) with Some j => Z.eqb j i && in_cs (snd t) | None => false end.

Fixpoint upd_nth {A} (l : list A) (n : nat) (x : A) : list A :=
  match l, n with
  | [], _ => []
  | _ :: r, O => x :: r
  | a :: r, S n' => a :: upd_nth r n' x
  end.

Definition set_pc (s : cstate) (t : nat) (o : op) (p : tpc) : cstate :=
  mkC (c_store s) (c_bitmap s) (c_next s) (upd_nth (c_threads s) t (o, p)) (c_lin s) (c_persist s).

Definition lin_add (s : cstate) (t : nat) (o : op) (r : ret) : cstate :=
  mkC (c_store s) (c_bitmap s) (c_next s) (c_threads s) (c_lin s ++ [(t, o, r)]) (c_persist s).

(* One atomic step of thread t: None = blocked, not started past its end, or no such thread. *)
Definition tstep (s : cstate) (t : nat) : option (cstate * option label) :=
  match nth_error (c_threads s) t with
  | None => None
  | Some (o, p) =>
    match p with
    | TDone _ => None
    | TFinishing r => Some (set_pc s t o (TDone r), None)
    | TIdle =>
        match o with
        | OGet i _ =>
            (* no gate: the bitmap test is the first thing a get does *)
            if mem i (c_bitmap s) then Some (set_pc s t o TGetChecked, None)
            else Some (set_pc (lin_add s t o RNotFound) t o (TDone RNotFound), None)
        | _ =>
        if is_flush o
        then if forallb (fun th => negb (holds_shared_t th || holds_excl_t th)) (c_threads s)
             then Some (set_pc s t o TGate, None) else None
        else if forallb (fun th => negb (holds_excl_t th)) (c_threads s)
             then Some (set_pc s t o TGate, None) else None
        end
    | _ =>
      match o with
      | OAdd d =>
        match p with
        | TGate => let i := c_next s + 1 in
                   Some (mkC (c_store s) (c_bitmap s) i (upd_nth (c_threads s) t (o, TAddAlloc i)) (c_lin s) (c_persist s), None)
        | TAddAlloc i =>
            match get (c_store s) i with
            | None => Some (mkC (set (c_store s) i d) (c_bitmap s) (c_next s)
                                (upd_nth (c_threads s) t (o, TAddCreated i)) (c_lin s) (c_persist s), Some (LCreate i d))
            | Some _ => Some (set_pc (lin_add s t o RErr) t o (TFinishing RErr), Some (LCreate i d))
            end
        | TAddCreated i =>
            Some (mkC (c_store s) (i :: c_bitmap s) (c_next s) (upd_nth (c_threads s) t (o, TDone (RId i)))
                      (c_lin s ++ [(t, o, RId i)]) (c_persist s), None)
        | _ => None
        end
      | OUpdate i u =>
        match p with
        | TGate => if mem i (c_bitmap s) then Some (set_pc s t o TChecked, None)
                   else Some (set_pc (lin_add s t o RNotFound) t o (TDone RNotFound), None)
        | TChecked => if forallb (fun th => negb (holds_lock_t i th)) (c_threads s)
                      then Some (set_pc s t o TLocked, None) else None
        | TLocked => match get (c_store s) i with
                     | Some d => Some (set_pc s t o (TUpdGot d), Some (LGet i (Some d)))
                     | None => Some (set_pc (lin_add s t o RNotFound) t o (TFinishing RNotFound), Some (LGet i None))
                     end
        | TUpdGot d => Some (set_pc s t o (TUpdIntent d), Some (LIntent i))
        | TUpdIntent d =>
            let d' := merge d u in
            match get (c_store s) i with
            | Some d0 => if Z.eqb (fst d0) (fst d) && Z.eqb (snd d0) (snd d)
                         then Some (mkC (set (c_store s) i d') (c_bitmap s) (c_next s)
                                        (upd_nth (c_threads s) t (o, TFinishing (RDoc d')))
                                        (c_lin s ++ [(t, o, RDoc d')]) (c_persist s), Some (LPut i d'))
                         else Some (set_pc (lin_add s t o RErr) t o (TFinishing RErr), Some (LPut i d'))
            | None => Some (set_pc (lin_add s t o RErr) t o (TFinishing RErr), Some (LPut i d'))
            end
        | _ => None
        end
      | ORemove i =>
        match p with
        | TGate => if mem i (c_bitmap s) then Some (set_pc s t o TChecked, None)
                   else Some (set_pc (lin_add s t o RNone) t o (TDone RNone), None)
        | TChecked => if forallb (fun th => negb (holds_lock_t i th)) (c_threads s)
                      then Some (set_pc s t o TLocked, None) else None
        | TLocked => Some (set_pc s t o (TRemGot (get (c_store s) i)), Some (LGet i (get (c_store s) i)))
        | TRemGot (Some d) => Some (set_pc s t o (TRemIntent d), Some (LIntent i))
        | TRemGot None =>
            Some (mkC (c_store s) (remove_id i (c_bitmap s)) (c_next s) (upd_nth (c_threads s) t (o, TFinishing RNone))
                      (c_lin s ++ [(t, o, RNone)]) (c_persist s), None)
        | TRemIntent d =>
            Some (mkC (del (c_store s) i) (c_bitmap s) (c_next s) (upd_nth (c_threads s) t (o, TRemDeleted d))
                      (c_lin s ++ [(t, o, RDoc d)]) (c_persist s), Some (LDelete i))
        | TRemDeleted d =>
            Some (mkC (c_store s) (remove_id i (c_bitmap s)) (c_next s) (upd_nth (c_threads s) t (o, TFinishing (RDoc d)))
                      (c_lin s) (c_persist s), None)
        | _ => None
        end
      | OGet i hit =>
        match p with
        | TGetChecked =>
            (* the read: storage.get through the cache (hit: no backend call) or the backend *)
            let r := match get (c_store s) i with Some d => RDoc d | None => RNotFound end in
            Some (set_pc (lin_add s t o r) t o (TFinishing r),
                  if hit then None else Some (LGet i (get (c_store s) i)))
        | _ => None
        end
      | OFlush =>
        match p with
        | TGate => Some (set_pc (lin_add s t o RFlushed) t o (TFlushSnap (c_bitmap s)), None)
        | TFlushSnap ids =>
            Some (mkC (c_store s) (c_bitmap s) (c_next s) (upd_nth (c_threads s) t (o, TFinishing RFlushed))
                      (c_lin s) (c_persist s ++ [(t, ids)]), Some LPersist)
        | _ => None
        end
      end
    end
  end.

(* a run under a schedule (a list of thread indices); steps of blocked threads are skipped *)
Fixpoint run (s : cstate) (sched : list nat) : cstate :=
  match sched with
  | [] => s
  | t :: r => match tstep s t with Some (s', _) => run s' r | None => run s r end
  end.

Definition init (docs : list (id * doc)) (ops : list op) : cstate :=
  mkC docs (map fst docs) (fold_right Z.max 0 (map fst docs)) (map (fun o => (o, TIdle)) ops) [] [].

(* abstraction: the documents a reader of the handle can see *)
Definition abs (s : cstate) (i : id) : option doc := if mem i (c_bitmap s) then get (c_store s) i else None.

(* ------------------------------------------------------------------ sequential collection *)
(* states are functions id -> option doc plus the ids ever handed out; steps are pointwise *)
Definition amap := id -> option doc.

Inductive seq_step : amap * list id -> op -> ret -> amap * list id -> Prop :=
| sq_add f used d i f' : f i = None -> ~ In i used ->
    (forall j, f' j = if Z.eqb j i then Some d else f j) ->
    seq_step (f, used) (OAdd d) (RId i) (f', i :: used)
| sq_update f used i u d f' : f i = Some d ->
    (forall j, f' j = if Z.eqb j i then Some (merge d u) else f j) ->
    seq_step (f, used) (OUpdate i u) (RDoc (merge d u)) (f', used)
| sq_update_missing f used i u f' : f i = None -> (forall j, f' j = f j) ->
    seq_step (f, used) (OUpdate i u) RNotFound (f', used)
| sq_remove f used i d f' : f i = Some d ->
    (forall j, f' j = if Z.eqb j i then None else f j) ->
    seq_step (f, used) (ORemove i) (RDoc d) (f', used)
| sq_remove_missing f used i f' : f i = None -> (forall j, f' j = f j) ->
    seq_step (f, used) (ORemove i) RNone (f', used)
| sq_flush f used f' : (forall j, f' j = f j) -> seq_step (f, used) OFlush RFlushed (f', used)
| sq_get f used i h d f' : f i = Some d -> (forall j, f' j = f j) -> seq_step (f, used) (OGet i h) (RDoc d) (f', used)
| sq_get_missing f used i h f' : f i = None -> (forall j, f' j = f j) -> seq_step (f, used) (OGet i h) RNotFound (f', used)
| sq_err f used o f' : (forall j, f' j = f j) -> seq_step (f, used) o RErr (f', used).

Inductive seq_exec : amap * list id -> list (nat * op * ret) -> amap * list id -> Prop :=
| se_nil f used f' : (forall j, f' j = f j) -> seq_exec (f, used) [] (f', used)
| se_snoc st h st' t o r st'' : seq_exec st h st' -> seq_step st' o r st'' -> seq_exec st (h ++ [(t, o, r)]) st''.

(* ids handed out by the adds of a history *)
Definition added_ids (h : list (nat * op * ret)) : list id :=
  flat_map (fun e => match e with (_, OAdd _, RId i) => [i] | _ => [] end) h.

(* ------------------------------------------------------------------ executable sequential spec *)
(* used by the witness checker: run a claimed order, with the observed return values *)
Definition seq_fn (st : list (id * doc) * list id) (o : op) (r : ret) : option (list (id * doc) * list id) :=
  let '(m, used) := st in
  match r with
  | RErr => Some st
  | _ =>
    match o, r with
    | OAdd d, RId i => if mem i used then None
                       else match get m i with None => Some (set m i d, i :: used) | Some _ => None end
    | OUpdate i u, RDoc d' => match get m i with
                              | Some d => if Z.eqb (fst d') (fst (merge d u)) && Z.eqb (snd d') (snd (merge d u))
                                          then Some (set m i (merge d u), used) else None
                              | None => None
                              end
    | OUpdate i _, RNotFound => match get m i with None => Some st | Some _ => None end
    | ORemove i, RDoc d' => match get m i with
                            | Some d => if Z.eqb (fst d') (fst d) && Z.eqb (snd d') (snd d)
                                        then Some (del m i, used) else None
                            | None => None
                            end
    | ORemove i, RNone => match get m i with None => Some st | Some _ => None end
    | OFlush, RFlushed => Some st
    | OGet i _, RDoc d' => match get m i with
                           | Some d => if Z.eqb (fst d') (fst d) && Z.eqb (snd d') (snd d) then Some st else None
                           | None => None
                           end
    | OGet i _, RNotFound => match get m i with None => Some st | Some _ => None end
    | _, _ => None
    end
  end.

Fixpoint seq_run (st : list (id * doc) * list id) (h : list (nat * op * ret)) : option (list (id * doc) * list id) :=
  match h with
  | [] => Some st
  | (_, o, r) :: rest => match seq_fn st o r with Some st' => seq_run st' rest | None => None end
  end.
