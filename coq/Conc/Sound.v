(* C05 — soundness of the executable checkers of Conc/Run.v. *)
From Coq Require Import List Bool Arith ZArith Lia.
From Verif Require Import Conc.Model Conc.Steps Conc.Proofs Conc.Run.
Import ListNotations.
Open Scope Z_scope.

(* ------------------------------------------------------------------ admits: the replay is a run *)
Lemma run_snoc s0 l t :
  run s0 (l ++ [t]) = match tstep (run s0 l) t with Some (s', _) => s' | None => run s0 l end.
Proof.
  revert s0; induction l as [|a r IH]; intros s0; simpl.
  - destruct (tstep s0 t) as [[s' x]|]; auto.
  - destruct (tstep s0 a) as [[s' x]|]; apply IH.
Qed.

Definition okx (s0 : cstate) (x : rs) : Prop := run s0 (rev (snd x)) = fst x.

Lemma okx_step s0 s sched t s' l : okx s0 (s, sched) -> tstep s t = Some (s', l) -> okx s0 (s', t :: sched).
Proof. unfold okx; simpl. intros H E. rewrite run_snoc, H, E. reflexivity. Qed.

Lemma advance_ok s0 fuel started t : forall x, okx s0 x -> okx s0 (advance fuel started t x).
Proof.
  induction fuel as [|f IH]; simpl; intros [s sched] H; auto.
  destruct (queues_on_gate s t && negb (fifo_ok s started t)); auto.
  destruct (tstep s t) as [[s' [l|]]|] eqn:E; auto.
  apply IH. eapply okx_step; eauto.
Qed.

Lemma settle_fold_ok s0 st wait l : forall x, okx s0 x ->
  okx s0 (fold_left (fun x t => if natmem t wait then x else advance 8 st t x) l x).
Proof.
  induction l as [|t r IH]; cbn [fold_left]; intros x H; auto.
  apply IH. destruct (natmem t wait); auto. apply advance_ok; auto.
Qed.

Lemma settle_round_ok s0 started wait : forall x, okx s0 x -> okx s0 (settle_round started wait x).
Proof. intros x H. unfold settle_round. apply settle_fold_ok; auto. Qed.

Lemma settle_ok s0 n started wait : forall x, okx s0 x -> okx s0 (settle n started wait x).
Proof. induction n; simpl; intros x H; auto. apply IHn. apply settle_round_ok; auto. Qed.

Lemma process_ok s0 post st e st' : okx s0 (r_x st) -> process post st e = Some st' -> okx s0 (r_x st').
Proof.
  intros H. destruct e; unfold process; cbv zeta.
  - intros E; inversion E; subst; cbn [r_x]. apply settle_ok; try apply settle_round_ok; auto.
  - destruct (natmem t (r_wait st)); [discriminate|].
    set (x0 := if is_lget l then r_x st else silent_read (r_x st) t).
    assert (H0 : okx s0 x0).
    { unfold x0. destruct (is_lget l); auto. unfold silent_read.
      destruct (tstep (fst (r_x st)) t) as [[s1 [[]|]]|] eqn:E1; auto.
      destruct (r_x st) as [s sched]. eapply okx_step; eauto. }
    clearbody x0.
    destruct (tstep (fst x0) t) as [[s' [l'|]]|] eqn:Es; try discriminate.
    destruct (label_eqb l l'); [|discriminate].
    intros E; inversion E; subst; cbn [r_x]. apply settle_ok; try apply settle_round_ok.
    destruct x0 as [s sched]. eapply okx_step; eauto.
  - intros E; inversion E; subst; cbn [r_x]. apply settle_ok; try apply settle_round_ok; auto.
  - intros E; inversion E; subst; cbn [r_x].
    destruct (nth_error (c_threads (fst (r_x st))) t) as [[o p]|]; auto.
    destruct o; auto. destruct p; auto.
    destruct (tstep (fst (r_x st)) t) as [[s' l']|] eqn:Es; auto.
    apply settle_ok; try apply settle_round_ok. destruct (r_x st) as [s sched]. eapply okx_step; eauto.
Qed.

Lemma replay_ok s0 post evs : forall st st', okx s0 (r_x st) -> replay post st evs = Some st' -> okx s0 (r_x st').
Proof.
  induction evs as [|e r IH]; simpl; intros st st' H E.
  - inversion E; subst; auto.
  - destruct (process post st e) as [st1|] eqn:P; [|discriminate]. eapply IH; [|eauto]. eapply process_ok; eauto.
Qed.

Lemma doc_eqb_eq a b : doc_eqb a b = true -> a = b.
Proof. apply doc_same_eq. Qed.

Lemma odoc_eqb_eq a b : odoc_eqb a b = true -> a = b.
Proof. destruct a, b; simpl; intros H; try discriminate; auto. f_equal. apply doc_eqb_eq; auto. Qed.

Lemma get_not_in m i : ~ In i (map fst m) -> get m i = None.
Proof.
  induction m as [|[k d] r IH]; simpl; intros H; auto.
  destruct (Z.eqb k i) eqn:E; [apply Z.eqb_eq in E; subst; exfalso; auto|auto].
Qed.

Lemma dump_ok_sound s final : dump_ok s final = true -> forall i, abs s i = get final i.
Proof.
  unfold dump_ok. intros H i. rewrite forallb_forall in H.
  destruct (in_dec Z.eq_dec i (map fst final ++ c_bitmap s ++ map fst (c_store s))) as [Hi|Hn].
  - apply odoc_eqb_eq. auto.
  - assert (A : ~ In i (map fst final)) by (intros X; apply Hn; apply in_or_app; auto).
    assert (B : ~ In i (c_bitmap s)) by (intros X; apply Hn; apply in_or_app; right; apply in_or_app; auto).
    rewrite (get_not_in _ _ A). unfold abs.
    destruct (mem i (c_bitmap s)) eqn:M; auto. apply mem_In in M. contradiction.
Qed.

(* [admits] accepted the trace  ==>  there is a schedule of the concurrent model whose run ends
   with every thread returned, with exactly the observed return values, in a state whose
   visible documents are the dumped ones. *)
Theorem admits_sound docs ops post evs final :
  admits docs ops post evs final = true ->
  exists sched s, run (init docs ops) sched = s /\ reach (init docs ops) s /\
    (forall t, (t < List.length ops)%nat -> exists r, thread_done s t = Some r) /\
    (forall t, (t < List.length ops)%nat -> exists r, In (EvReturn t r) evs \/ True) /\
    (forall i, abs s i = get final i).
Proof.
  unfold admits, admits_with.
  destruct (replay post (mkR (init docs ops, []) [] [] []) evs) as [st|] eqn:R; [|discriminate].
  match goal with |- context [if ?c then _ else _] => destruct c eqn:C end; [|discriminate].
  intros _. repeat (apply andb_true_iff in C; destruct C as [C ?]).
  assert (Hok : okx (init docs ops) (r_x st)) by (eapply replay_ok; eauto; reflexivity).
  exists (rev (snd (r_x st))), (fst (r_x st)). split; [exact Hok|]. split.
  - rewrite <- Hok. apply run_reach. constructor.
  - split; [|split].
    + intros t Ht. rewrite forallb_forall in C. specialize (C t).
      assert (In t (seq 0 (List.length ops))) as Hin by (apply in_seq; lia).
      specialize (C Hin). destruct (thread_done (fst (r_x st)) t); [eauto|discriminate].
    + intros t Ht. exists RErr. right; auto.
    + apply dump_ok_sound; auto.
Qed.

(* the observed return values are the model's *)
Theorem admits_returns docs ops post evs final s sched :
  admits_with docs ops post evs final = Some (s, sched) ->
  run (init docs ops) sched = s /\
  forall t, (t < List.length ops)%nat -> exists r r', thread_done s t = Some r' /\ ret_eqb r r' = true.
Proof.
  unfold admits_with.
  destruct (replay post (mkR (init docs ops, []) [] [] []) evs) as [st|] eqn:R; [|discriminate].
  match goal with |- context [if ?c then _ else _] => destruct c eqn:C end; [|discriminate].
  intros E; inversion E; subst. repeat (apply andb_true_iff in C; destruct C as [C ?]).
  assert (Hok : okx (init docs ops) (r_x st)) by (eapply replay_ok; eauto; reflexivity).
  split; [exact Hok|].
  intros t Ht.
  assert (In t (seq 0 (List.length ops))) as Hin by (apply in_seq; lia).
  rewrite forallb_forall in H0. specialize (H0 _ Hin). unfold natmem in H0. apply existsb_exists in H0.
  destruct H0 as (t' & Hin' & Et). apply Nat.eqb_eq in Et. subst t'.
  apply in_map_iff in Hin'. destruct Hin' as ([t2 r] & Ef & Hp). simpl in Ef. subst t2.
  rewrite forallb_forall in H1. specialize (H1 _ Hp). simpl in H1.
  destruct (thread_done (fst (r_x st)) t) as [r'|]; [|discriminate]. eauto.
Qed.

(* ------------------------------------------------------------------ lin_ok: executable spec vs relation *)
Lemma seq_step_ext st o r f u f' : seq_step st o r (f, u) -> (forall j, f' j = f j) -> seq_step st o r (f', u).
Proof.
  intros H E. inversion H; subst; econstructor; eauto; intros j; rewrite E; auto.
Qed.

Lemma seq_exec_ext st h f u f' : seq_exec st h (f, u) -> (forall j, f' j = f j) -> seq_exec st h (f', u).
Proof.
  intros H E. inversion H; subst.
  - constructor. intros j. rewrite E; auto.
  - econstructor; eauto. eapply seq_step_ext; eauto.
Qed.

Lemma seq_exec_cons st t o r st' h st'' :
  seq_step st o r st' -> seq_exec st' h st'' -> seq_exec st ((t, o, r) :: h) st''.
Proof.
  intros Hs He. induction He.
  - change [(t, o, r)] with ([] ++ [(t, o, r)]). destruct st as [f0 u0].
    eapply se_snoc; [constructor; reflexivity|]. eapply seq_step_ext; eauto.
  - rewrite app_comm_cons. eapply se_snoc; eauto.
Qed.

Lemma seq_fn_step m used o r m' used' :
  seq_fn (m, used) o r = Some (m', used') -> seq_step (get m, used) o r (get m', used').
Proof.
  unfold seq_fn. destruct r.
  - destruct o; try discriminate. destruct (mem i used) eqn:M; [discriminate|].
    destruct (get m i) eqn:G; [discriminate|]. intros E; inversion E; subst.
    apply sq_add; auto.
    + intros Hin. apply mem_In in Hin. congruence.
    + intros j. rewrite get_set. rewrite Z.eqb_sym. reflexivity.
  - destruct o; try discriminate.
    + destruct (get m i) as [d0|] eqn:G; [|discriminate].
      match goal with |- context [if ?c then _ else _] => destruct c eqn:C end; [|discriminate].
      intros E; inversion E; subst. apply doc_same_eq in C. subst d.
      apply sq_update; auto. intros j. rewrite get_set, Z.eqb_sym. reflexivity.
    + destruct (get m i) as [d0|] eqn:G; [|discriminate].
      match goal with |- context [if ?c then _ else _] => destruct c eqn:C end; [|discriminate].
      intros E; inversion E; subst. apply doc_same_eq in C. subst d.
      apply sq_remove; auto. intros j. rewrite get_del, Z.eqb_sym. reflexivity.
    + destruct (get m i) as [d0|] eqn:G; [|discriminate].
      match goal with |- context [if ?c then _ else _] => destruct c eqn:C end; [|discriminate].
      intros E; inversion E; subst. apply doc_same_eq in C. subst d.
      apply sq_get; auto.
  - destruct o; try discriminate. destruct (get m i) eqn:G; [discriminate|].
    intros E; inversion E; subst. apply sq_remove_missing; auto.
  - destruct o; try discriminate.
    + destruct (get m i) eqn:G; [discriminate|].
      intros E; inversion E; subst. apply sq_update_missing; auto.
    + destruct (get m i) eqn:G; [discriminate|].
      intros E; inversion E; subst. apply sq_get_missing; auto.
  - destruct o; try discriminate. intros E; inversion E; subst. apply sq_flush; auto.
  - intros E; inversion E; subst. apply sq_err; auto.
Qed.

Lemma seq_run_exec h : forall m used m' used',
  seq_run (m, used) h = Some (m', used') -> seq_exec (get m, used) h (get m', used').
Proof.
  induction h as [|[[t o] r] rest IH]; cbn [seq_run]; intros m used m' used' H.
  - inversion H; subst. constructor; auto.
  - destruct (seq_fn (m, used) o r) as [[m1 u1]|] eqn:F; [|discriminate].
    eapply seq_exec_cons; [eapply seq_fn_step; eauto|]. apply IH; auto.
Qed.

Lemma index_of_lt t h : forall k n, index_of t h k = Some n -> (k <= n < k + List.length h)%nat /\
  exists o r, nth_error h (n - k) = Some (t, o, r).
Proof.
  induction h as [|[[t' o] r] rest IH]; simpl; intros k n H; [discriminate|].
  destruct (Nat.eqb t t') eqn:E.
  - inversion H; subst. apply Nat.eqb_eq in E. subst. split; [lia|]. rewrite Nat.sub_diag. simpl. eauto.
  - destruct (IH _ _ H) as (L & o' & r' & N). split; [lia|].
    replace (n - k)%nat with (S (n - S k)) by lia. simpl. eauto.
Qed.

(* [lin_ok] accepted the witness  ==>  it is a sequential execution of the collection
   specification that starts from the initial documents, produces exactly the observed return
   values in the claimed order, contains every operation once, respects every real-time
   precedence, and ends in the dumped documents. *)
Theorem lin_ok_sound docs h prec n final :
  lin_ok docs h prec n final = true ->
  exists f used,
    seq_exec (get docs, map fst docs) h (f, used) /\
    (forall i, f i = get final i) /\
    List.length h = n /\
    (forall t, (t < n)%nat -> exists k o r, nth_error h k = Some (t, o, r)) /\
    (forall a b, In (a, b) prec -> exists ka kb, index_of a h 0 = Some ka /\ index_of b h 0 = Some kb /\ (ka < kb)%nat).
Proof.
  unfold lin_ok. destruct (seq_run (docs, map fst docs) h) as [[m used]|] eqn:R; [|discriminate].
  intros H. repeat (apply andb_true_iff in H; destruct H as [H ?]).
  exists (get m), used. split; [apply seq_run_exec; auto|]. split; [|split; [|split]].
  - intros i. rewrite forallb_forall in H.
    destruct (in_dec Z.eq_dec i (map fst final ++ map fst m)) as [Hi|Hn].
    + apply odoc_eqb_eq; auto.
    + rewrite !get_not_in; auto; intros X; apply Hn; apply in_or_app; auto.
  - apply Nat.eqb_eq; auto.
  - intros t Ht. rewrite forallb_forall in H2.
    assert (In t (seq 0 n)) as Hin by (apply in_seq; lia).
    specialize (H2 _ Hin). destruct (index_of t h 0) as [k|] eqn:I; [|discriminate].
    destruct (index_of_lt _ _ _ _ I) as (_ & o & r & N). rewrite Nat.sub_0_r in N. eauto.
  - intros a b Hab. rewrite forallb_forall in H0. specialize (H0 _ Hab). simpl in H0.
    destruct (index_of a h 0) as [ka|]; [|discriminate]. destruct (index_of b h 0) as [kb|]; [|discriminate].
    exists ka, kb. repeat split; auto. apply Nat.ltb_lt; auto.
Qed.
