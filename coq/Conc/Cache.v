(* C05.5 — the read cache of rs/anda_db/src/storage.rs (cache_write_seq protocol), one path.

   reader (Storage::inner_get):  lookup (serve the entry if its tag equals the current generation);
                                 load the generation; fetch from the backend; re-check the
                                 generation; insert the entry tagged with the LOADED generation
   writer (InnerStorage::put / Storage::delete / drop_prefix / StreamWriter):
                                 backend write; bump the generation; evict the entry

   The two programs are DATA (lists of micro-operations, regenerated from the source into
   gen/Gen_Cache.v); the interpreter below runs any number of readers and writers under any
   schedule.  Values are write indices: the k-th backend write stores k, so "older" is "<".
   [k_acked] is the largest value whose writer has executed its bump (the last instruction of
   the write path before the call can return).  Moka's capacity evictions only remove entries
   (more misses); a generation-stripe collision only bumps more often: neither is modelled. *)
From Coq Require Import List Bool Arith Lia.
From Verif Require Import Common.Gate.
Import ListNotations.

Inductive rop := RLookup | RLoadSeq | RFetch | RRecheck | RInsert.
Inductive wop := WPut | WBump | WEvict.

Inductive kthread :=
| Reader (prog : list rop) (s0 : option nat) (v : option nat) (ack0 : option nat) (res : option nat)
| Writer (prog : list wop) (wv : option nat).

Record kstate := mkK {
  k_store : nat;                       (* backend value = number of writes applied *)
  k_seq : nat;                         (* write generation of the path *)
  k_cache : option (nat * nat);        (* (value, generation tag) *)
  k_acked : nat;                       (* largest value whose write path has bumped *)
  k_threads : list kthread }.

Definition finish (prog : list rop) (v res : option nat) : option nat :=
  match prog, res with [], None => v | _, _ => res end.

Definition kstep (s : kstate) (i : nat) : option kstate :=
  match nth_error (k_threads s) i with
  | Some (Reader (op :: rest) s0 v ack0 res) =>
      let a := match ack0 with Some a => Some a | None => Some (k_acked s) end in
      let put th cache := Some (mkK (k_store s) (k_seq s) cache (k_acked s) (upd (k_threads s) i th)) in
      match op with
      | RLookup =>
          match k_cache s with
          | Some (cv, tag) => if tag =? k_seq s then put (Reader [] s0 v a (Some cv)) (k_cache s)
                              else put (Reader rest s0 v a (finish rest v res)) (k_cache s)
          | None => put (Reader rest s0 v a (finish rest v res)) (k_cache s)
          end
      | RLoadSeq => put (Reader rest (Some (k_seq s)) v a (finish rest v res)) (k_cache s)
      | RFetch => put (Reader rest s0 (Some (k_store s)) a (finish rest (Some (k_store s)) res)) (k_cache s)
      | RRecheck =>
          match s0 with
          | Some t => if t =? k_seq s then put (Reader rest s0 v a (finish rest v res)) (k_cache s)
                      else put (Reader [] s0 v a (finish [] v res)) (k_cache s)
          | None => put (Reader rest s0 v a (finish rest v res)) (k_cache s)
          end
      | RInsert =>
          match v, s0 with
          | Some x, Some t => put (Reader rest s0 v a (finish rest v res)) (Some (x, t))
          | _, _ => put (Reader rest s0 v a (finish rest v res)) (k_cache s)
          end
      end
  | Some (Writer (op :: rest) wv) =>
      match op with
      | WPut => Some (mkK (S (k_store s)) (k_seq s) (k_cache s) (k_acked s)
                          (upd (k_threads s) i (Writer rest (Some (S (k_store s))))))
      | WBump => Some (mkK (k_store s) (S (k_seq s)) (k_cache s)
                           (match wv with Some w => Nat.max (k_acked s) w | None => k_acked s end)
                           (upd (k_threads s) i (Writer rest wv)))
      | WEvict => Some (mkK (k_store s) (k_seq s) None (k_acked s) (upd (k_threads s) i (Writer rest wv)))
      end
  | _ => None
  end.

Fixpoint krun (s : kstate) (sched : list nat) : kstate :=
  match sched with
  | [] => s
  | i :: r => match kstep s i with Some s' => krun s' r | None => krun s r end
  end.

Definition kinit (ths : list kthread) : kstate := mkK 0 0 None 0 ths.

(* the order the code has *)
Definition good_reader : list rop := [RLookup; RLoadSeq; RFetch; RRecheck; RInsert].
Definition good_writer : list wop := [WPut; WBump; WEvict].
Definition fresh_reader (p : list rop) : kthread := Reader p None None None None.
Definition fresh_writer (p : list wop) : kthread := Writer p None.

(* ------------------------------------------------------------------ invariant *)
Definition rinv (s : kstate) (prog : list rop) (s0 v ack0 res : option nat) : Prop :=
  (forall a, ack0 = Some a -> a <= k_acked s) /\
  (forall a r, ack0 = Some a -> res = Some r -> a <= r <= k_store s) /\
  (res <> None -> prog = []) /\
  match prog with
  | [RLookup; RLoadSeq; RFetch; RRecheck; RInsert] => res = None
  | [RLoadSeq; RFetch; RRecheck; RInsert] => ack0 <> None
  | [RFetch; RRecheck; RInsert] => ack0 <> None /\ exists t, s0 = Some t /\ t <= k_seq s
  | [RRecheck; RInsert] | [RInsert] =>
      exists a t x, ack0 = Some a /\ s0 = Some t /\ v = Some x /\ t <= k_seq s /\ a <= x <= k_store s /\
                    (t = k_seq s -> k_acked s <= x)
  | [] => ack0 <> None /\ res <> None
  | _ => False
  end.

Definition tinv (s : kstate) (th : kthread) : Prop :=
  match th with
  | Reader prog s0 v ack0 res => rinv s prog s0 v ack0 res
  | Writer prog wv =>
      match prog with
      | [WPut; WBump; WEvict] => True
      | [WBump; WEvict] => exists w, wv = Some w /\ w <= k_store s
      | [WEvict] | [] => True
      | _ => False
      end
  end.

Definition kinv (s : kstate) : Prop :=
  k_acked s <= k_store s /\
  (forall cv tag, k_cache s = Some (cv, tag) -> tag <= k_seq s /\ cv <= k_store s /\ (tag = k_seq s -> k_acked s <= cv)) /\
  (forall i th, nth_error (k_threads s) i = Some th -> tinv s th).

(* how the globals may move between two states *)
Definition gle (s s' : kstate) : Prop :=
  k_store s <= k_store s' /\ k_acked s <= k_acked s' /\ k_acked s' <= k_store s' /\
  k_seq s <= k_seq s' /\ (k_seq s = k_seq s' -> k_acked s = k_acked s').

Lemma tinv_mono s s' th : gle s s' -> tinv s th -> tinv s' th.
Proof.
  intros (G1 & G2 & G3 & G4 & G5) H. destruct th as [prog s0 v ack0 res|prog wv]; simpl in *.
  - destruct H as (A & B & C & D). repeat split.
    + intros a E. specialize (A a E). lia.
    + specialize (B a r H H0). lia.
    + specialize (B a r H H0). lia.
    + exact C.
    + destruct prog as [|[] [|[] [|[] [|[] [|[] [|]]]]]]; auto;
        try (destruct D as (D1 & t & D2 & D3); split; auto; exists t; split; auto; lia);
        try (destruct D as (a & t & x & D1 & D2 & D3 & D4 & D5 & D6); exists a, t, x; repeat split; auto; try lia;
             intros E; assert (k_seq s = k_seq s') by lia; rewrite <- (G5 H); apply D6; lia).
  - destruct prog as [|[] [|[] [|[] [|]]]]; auto. destruct H as (w & E & L). exists w. split; auto. lia.
Qed.

Lemma kinv_init ths :
  Forall (fun th => th = fresh_reader good_reader \/ th = fresh_writer good_writer) ths -> kinv (kinit ths).
Proof.
  intros H. split; [simpl; lia|]. split; [simpl; intros; discriminate|].
  intros i th Hn. simpl in Hn. rewrite Forall_forall in H. destruct (H _ (nth_error_In _ _ Hn)) as [->| ->]; simpl; auto.
  unfold rinv. repeat split; intros; try discriminate; auto. exfalso; auto.
Qed.

Lemma others_keep s s' i th :
  (forall j t, nth_error (k_threads s) j = Some t -> tinv s t) -> gle s s' ->
  k_threads s' = upd (k_threads s) i th -> (exists old, nth_error (k_threads s) i = Some old) -> tinv s' th ->
  forall j t, nth_error (k_threads s') j = Some t -> tinv s' t.
Proof.
  intros H G E (old & Ho) Hth j t Hj. rewrite E in Hj.
  destruct (nth_error_upd _ _ _ _ _ _ Ho Hj) as [[-> ->]|[Hne Hj']]; auto.
  eapply tinv_mono; eauto.
Qed.

Lemma kinv_update s s' i th old :
  kinv s -> nth_error (k_threads s) i = Some old -> k_threads s' = upd (k_threads s) i th -> gle s s' ->
  (forall cv tag, k_cache s' = Some (cv, tag) -> tag <= k_seq s' /\ cv <= k_store s' /\ (tag = k_seq s' -> k_acked s' <= cv)) ->
  tinv s' th -> kinv s'.
Proof.
  intros (I1 & I2 & I3) Hn E G Hc Ht. split; [destruct G as (_ & _ & G3 & _); exact G3|]. split; [exact Hc|].
  eapply others_keep; eauto.
Qed.

Lemma gle_same s cache ths : k_acked s <= k_store s -> gle s (mkK (k_store s) (k_seq s) cache (k_acked s) ths).
Proof. intros H. unfold gle; simpl. repeat split; auto; lia. Qed.

Lemma kinv_step s i s' : kinv s -> kstep s i = Some s' -> kinv s'.
Proof.
  intros Hinv H. pose proof Hinv as (I1 & I2 & I3). unfold kstep in H.
  destruct (nth_error (k_threads s) i) as [[prog s0 v ack0 res|prog wv]|] eqn:Hn; try discriminate.
  - (* reader *)
    pose proof (I3 _ _ Hn) as T. simpl in T. destruct T as (A & B & C & D).
    destruct prog as [|op rest]; [discriminate|].
    assert (Hres : res = None) by (destruct res; auto; exfalso; assert (op :: rest = []) by (apply C; discriminate); discriminate).
    subst res.
    assert (Hsame : forall th, tinv s th ->
              kinv (mkK (k_store s) (k_seq s) (k_cache s) (k_acked s) (upd (k_threads s) i th))).
    { intros th Ht. eapply (kinv_update s _ i th _ Hinv Hn); [reflexivity|apply gle_same; exact I1|exact I2|exact Ht]. }
    set (a := match ack0 with Some a => Some a | None => Some (k_acked s) end) in *.
    assert (Ha : exists a0, a = Some a0 /\ a0 <= k_acked s) by (unfold a; destruct ack0 as [a0|]; eauto).
    destruct Ha as (a0 & Ea & La).
    assert (Hrel : forall x, ack0 = Some x -> a0 = x) by (intros x E; unfold a in Ea; rewrite E in Ea; congruence).
    rewrite Ea in H. clear Ea a.
    destruct op.
    + (* lookup *)
      destruct rest as [|[] [|[] [|[] [|[] [|]]]]]; try contradiction.
      destruct (k_cache s) as [[cv tag]|] eqn:Hc.
      * destruct (I2 _ _ eq_refl) as (C1 & C2 & C3). destruct (tag =? k_seq s) eqn:Et; inversion H; subst; clear H.
        -- apply Nat.eqb_eq in Et. assert (Hcv := C3 Et). apply Hsame. simpl. unfold rinv.
           split; [intros x E; inversion E; subst; auto|]. split; [intros x r E1 E2; inversion E1; inversion E2; subst; lia|].
           split; [auto|]. split; discriminate.
        -- apply Hsame. simpl. unfold rinv.
           split; [intros x E; inversion E; subst; auto|]. split; [intros x r E1 E2; discriminate|].
           split; [intros X; contradiction X; auto|discriminate].
      * inversion H; subst; clear H. apply Hsame. simpl. unfold rinv.
        split; [intros x E; inversion E; subst; auto|]. split; [intros x r E1 E2; discriminate|].
        split; [intros X; contradiction X; auto|discriminate].
    + (* load seq *)
      destruct rest as [|[] [|[] [|[] [|]]]]; try contradiction.
      inversion H; subst; clear H. apply Hsame. simpl. unfold rinv.
      split; [intros x E; inversion E; subst; auto|]. split; [intros x r E1 E2; discriminate|].
      split; [intros X; contradiction X; auto|]. split; [discriminate|]. exists (k_seq s). split; auto.
    + (* fetch *)
      destruct rest as [|[] [|[] [|]]]; try contradiction.
      destruct D as (D1 & t & D2 & D3). subst s0.
      inversion H; subst; clear H. apply Hsame. simpl. unfold rinv.
      split; [intros x E; inversion E; subst; auto|]. split; [intros x r E1 E2; discriminate|].
      split; [intros X; contradiction X; auto|].
      exists a0, t, (k_store s). repeat split; auto; lia.
    + (* recheck *)
      destruct rest as [|[] [|]]; try contradiction.
      destruct D as (a1 & t & x & E1 & -> & -> & D4 & D5 & D6).
      assert (a0 = a1) by (apply Hrel; auto). subst a1.
      simpl in H. destruct (t =? k_seq s) eqn:Et; inversion H; subst; clear H; apply Hsame; simpl; unfold rinv.
      * split; [intros y E; inversion E; subst; auto|]. split; [intros y r E2 E3; discriminate|].
        split; [intros X; contradiction X; auto|]. exists a0, t, x. repeat split; auto; lia.
      * split; [intros y E; inversion E; subst; auto|].
        split; [intros y r E2 E3; inversion E2; inversion E3; subst; lia|]. split; [auto|]. split; discriminate.
    + (* insert *)
      destruct rest as [|]; try contradiction.
      destruct D as (a1 & t & x & E1 & -> & -> & D4 & D5 & D6).
      assert (a0 = a1) by (apply Hrel; auto). subst a1.
      simpl in H. inversion H; subst; clear H.
      eapply (kinv_update s _ i _ _ Hinv Hn); [reflexivity|apply gle_same; exact I1| |].
      * simpl. intros cv tag E. inversion E; subst. repeat split; auto; lia.
      * simpl. unfold rinv. split; [intros y E; inversion E; subst; auto|].
        split. { intros y r E2 E3. inversion E2. inversion E3. subst. simpl. lia. } split; [auto|]. split; discriminate.
  - (* writer *)
    pose proof (I3 _ _ Hn) as T. simpl in T.
    destruct prog as [|op rest]; [discriminate|]. destruct op.
    + (* put *)
      destruct rest as [|[] [|[] [|]]]; try contradiction.
      inversion H; subst; clear H.
      eapply (kinv_update s _ i _ _ Hinv Hn); [reflexivity| | |].
      * unfold gle; simpl. repeat split; auto; lia.
      * simpl. intros cv tag E. destruct (I2 _ _ E) as (C1 & C2 & C3). repeat split; auto.
      * simpl. exists (S (k_store s)). split; auto.
    + (* bump *)
      destruct rest as [|[] [|]]; try contradiction.
      destruct T as (w & -> & Lw).
      inversion H; subst; clear H.
      eapply (kinv_update s _ i _ _ Hinv Hn); [reflexivity| | |].
      * unfold gle; simpl. repeat split; auto; try lia; try (apply Nat.max_lub; auto).
      * simpl. intros cv tag E. destruct (I2 _ _ E) as (C1 & C2 & C3). repeat split; auto; lia.
      * simpl. auto.
    + (* evict *)
      destruct rest as [|]; try contradiction.
      inversion H; subst; clear H.
      eapply (kinv_update s _ i _ _ Hinv Hn); [reflexivity| | |].
      * apply gle_same; exact I1.
      * simpl. intros; discriminate.
      * simpl. auto.
Qed.

Lemma kinv_run sched : forall s, kinv s -> kinv (krun s sched).
Proof.
  induction sched as [|i r IH]; simpl; intros s H; auto.
  destruct (kstep s i) eqn:E; auto. apply IH. eapply kinv_step; eauto.
Qed.

(* Any number of readers and writers, any schedule: a read returns a value that is not older
   than the newest write acknowledged (bumped) before the read started, and not newer than
   what the backend holds — whether it was served from the cache or from the backend. *)
Theorem cache_coherent ths sched :
  Forall (fun th => th = fresh_reader good_reader \/ th = fresh_writer good_writer) ths ->
  let s := krun (kinit ths) sched in
  forall i prog s0 v a r, nth_error (k_threads s) i = Some (Reader prog s0 v (Some a) (Some r)) ->
    a <= r <= k_store s.
Proof.
  intros H s i prog s0 v a r Hn.
  destruct (kinv_run sched _ (kinv_init _ H)) as (_ & _ & I3).
  specialize (I3 _ _ Hn). simpl in I3. destruct I3 as (_ & B & _). apply B; auto.
Qed.

(* [ack0] really is the acknowledged level when the read took its first step *)
Lemma kstep_records_start s i s' prog s0 v res :
  nth_error (k_threads s) i = Some (Reader prog s0 v None res) -> kstep s i = Some s' ->
  exists prog' s0' v' res', nth_error (k_threads s') i = Some (Reader prog' s0' v' (Some (k_acked s)) res').
Proof.
  intros Hn H. unfold kstep in H. rewrite Hn in H. destruct prog as [|op rest]; [discriminate|].
  assert (X : forall th cache, nth_error (k_threads (mkK (k_store s) (k_seq s) cache (k_acked s) (upd (k_threads s) i th))) i = Some th)
    by (intros; simpl; eapply nth_error_upd_same; eauto).
  destruct op; simpl in H.
  - destruct (k_cache s) as [[cv tag]|]; [destruct (tag =? k_seq s)|]; inversion H; subst; rewrite X; eauto.
  - inversion H; subst; rewrite X; eauto.
  - inversion H; subst; rewrite X; eauto.
  - destruct s0 as [t|]; [destruct (t =? k_seq s)|]; inversion H; subst; rewrite X; eauto.
  - destruct v as [x|]; [destruct s0 as [t|]|]; inversion H; subst; rewrite X; eauto.
Qed.

(* ------------------------------------------------------------------ the other order is wrong *)
(* "fetch, then load the generation, then insert" (no effective re-check): a reader whose fetch
   was served before a write but which resumes after it caches the stale value under the NEW
   generation; a read that starts after the write was acknowledged is then served the old value *)
Definition bad_reader : list rop := [RLookup; RFetch; RLoadSeq; RInsert].

Definition refutation_state : kstate :=
  krun (kinit [fresh_reader bad_reader; fresh_writer good_writer; fresh_reader bad_reader])
       [0; 0;          (* reader 0: lookup (miss), fetch value 0 *)
        1; 1; 1;       (* writer: put value 1, bump, evict — acknowledged *)
        0; 0;          (* reader 0: load generation 1, insert (0, 1) *)
        2].            (* reader 2 starts after the acknowledgement: lookup hits *)
