(* C05 — facts about sequential executions of the collection specification (they transfer to
   every concurrent run through C05_linearizable). *)
From Coq Require Import List Bool Arith ZArith Lia.
From Verif Require Import Conc.Model.
Import ListNotations.
Open Scope Z_scope.

Definition is_rm (i : id) (e : nat * op * ret) : bool :=
  match e with (_, ORemove j, RDoc _) => Z.eqb j i | _ => false end.
Definition rm_count (i : id) (h : list (nat * op * ret)) : nat := List.length (filter (is_rm i) h).

Lemma rm_count_snoc i h e : rm_count i (h ++ [e]) = (rm_count i h + (if is_rm i e then 1 else 0))%nat.
Proof. unfold rm_count. rewrite filter_app, app_length. simpl. destruct (is_rm i e); reflexivity. Qed.

(* however many removes of one document are issued, at most one of them returns it *)
Theorem remove_returns_once st h st' :
  seq_exec st h st' -> (forall i d, fst st i = Some d -> In i (snd st)) ->
  forall i, (rm_count i h <= 1)%nat /\
            (forall d, fst st' i = Some d -> In i (snd st')) /\
            (rm_count i h = 1%nat -> fst st' i = None /\ In i (snd st')).
Proof.
  intros H H0. induction H as [f used f' E|st h st1 t o r st2 Hex IH Hst]; intros i.
  - simpl. split; [unfold rm_count; simpl; lia|]. split.
    + intros d Hd. rewrite E in Hd. eauto.
    + unfold rm_count; simpl; intros; discriminate.
  - destruct (IH H0 i) as (C & U & R). rewrite rm_count_snoc.
    inversion Hst; subst; simpl in *;
      first [match goal with Hp : forall j : Z, @?A j = @?B j |- _ => rename Hp into HP end
            |match goal with Hp : forall j : id, @?A j = @?B j |- _ => rename Hp into HP end].
    + (* add *) split; [lia|split].
      * intros d0 Hd. rewrite HP in Hd. destruct (Z.eqb i i0) eqn:E; [apply Z.eqb_eq in E; subst; auto|right; eauto].
      * intros Hc. rewrite Nat.add_0_r in Hc. destruct (R Hc) as (Fn & Iu).
        rewrite HP. destruct (Z.eqb i i0) eqn:E; [apply Z.eqb_eq in E; subst; contradiction|split; auto].
    + (* update *) split; [lia|split].
      * intros d0 Hd. rewrite HP in Hd. destruct (Z.eqb i i0) eqn:E; [apply Z.eqb_eq in E; subst; eauto|eauto].
      * intros Hc. rewrite Nat.add_0_r in Hc. destruct (R Hc) as (Fn & Iu).
        rewrite HP. destruct (Z.eqb i i0) eqn:E; [apply Z.eqb_eq in E; subst; congruence|split; auto].
    + (* update of a missing document *) split; [lia|split].
      * intros d0 Hd. rewrite HP in Hd. eauto.
      * intros Hc. rewrite Nat.add_0_r in Hc. destruct (R Hc). rewrite HP. auto.
    + (* remove returning the document *)
      destruct (Z.eqb i0 i) eqn:E.
      * apply Z.eqb_eq in E. subst i0.
        assert (rm_count i h = 0%nat).
        { destruct (rm_count i h) as [|[|n]] eqn:Ec; auto; [destruct (R eq_refl); congruence|lia]. }
        split; [lia|split].
        -- intros d0 Hd. rewrite HP, Z.eqb_refl in Hd. discriminate.
        -- intros _. split; [rewrite HP, Z.eqb_refl; reflexivity|eauto].
      * split; [lia|split].
        -- intros d0 Hd. rewrite HP in Hd. rewrite Z.eqb_sym, E in Hd. eauto.
        -- intros Hc. rewrite Nat.add_0_r in Hc. destruct (R Hc). rewrite HP, Z.eqb_sym, E. auto.
    + (* remove of a missing document *) split; [lia|split].
      * intros d0 Hd. rewrite HP in Hd. eauto.
      * intros Hc. rewrite Nat.add_0_r in Hc. destruct (R Hc). rewrite HP. auto.
    + (* flush *) split; [lia|split].
      * intros d0 Hd. rewrite HP in Hd. eauto.
      * intros Hc. rewrite Nat.add_0_r in Hc. destruct (R Hc). rewrite HP. auto.
    + (* get *) split; [lia|split].
      * intros d0 Hd. rewrite HP in Hd. eauto.
      * intros Hc. rewrite Nat.add_0_r in Hc. destruct (R Hc). rewrite HP. auto.
    + (* get of a missing document *) split; [lia|split].
      * intros d0 Hd. rewrite HP in Hd. eauto.
      * intros Hc. rewrite Nat.add_0_r in Hc. destruct (R Hc). rewrite HP. auto.
    + (* error *)
      assert (E0 : (if match o with OAdd _ => false | _ => false end then 1 else 0)%nat = 0%nat) by (destruct o; reflexivity).
      rewrite E0.
      split; [lia|split].
      * intros d0 Hd. rewrite HP in Hd. eauto.
      * intros Hc. rewrite Nat.add_0_r in Hc. destruct (R Hc). rewrite HP. auto.
Qed.
