(* C05 — the step function [tstep] as an inductive relation (one constructor per branch of the
   code), and basic list lemmas.  Everything in Conc/Proofs.v goes through [tstep_cstep]. *)
From Coq Require Import List Bool Arith ZArith Lia.
From Verif Require Import Conc.Model.
Import ListNotations.
Open Scope Z_scope.

Definition at_t (s : cstate) (t : nat) (o : op) (p : tpc) : Prop := nth_error (c_threads s) t = Some (o, p).

Lemma nth_upd_same {A} (l : list A) n x y : nth_error l n = Some y -> nth_error (upd_nth l n x) n = Some x.
Proof. revert n; induction l; destruct n; simpl; intros; try discriminate; auto. Qed.
Lemma nth_upd_other {A} (l : list A) n m x : n <> m -> nth_error (upd_nth l n x) m = nth_error l m.
Proof. revert n m; induction l; intros n m H; destruct n, m; simpl; auto; try congruence. Qed.
Lemma nth_upd_inv {A} (l : list A) n m x y z :
  nth_error l n = Some z -> nth_error (upd_nth l n x) m = Some y ->
  (m = n /\ y = x) \/ (m <> n /\ nth_error l m = Some y).
Proof.
  intros Hn Hm. destruct (Nat.eq_dec m n) as [->|Hne].
  - rewrite (nth_upd_same _ _ _ _ Hn) in Hm. left; split; congruence.
  - rewrite nth_upd_other in Hm by congruence. auto.
Qed.
Lemma length_upd {A} (l : list A) n x : List.length (upd_nth l n x) = List.length l.
Proof. revert n; induction l; destruct n; simpl; auto. Qed.

Definition no_excl (s : cstate) : bool := forallb (fun th => negb (holds_excl_t th)) (c_threads s).
Definition no_holder (s : cstate) : bool := forallb (fun th => negb (holds_shared_t th || holds_excl_t th)) (c_threads s).
Definition lock_free (s : cstate) (i : id) : bool := forallb (fun th => negb (holds_lock_t i th)) (c_threads s).
Definition doc_same (a b : doc) : bool := Z.eqb (fst a) (fst b) && Z.eqb (snd a) (snd b).
Lemma doc_same_eq a b : doc_same a b = true -> a = b.
Proof.
  destruct a, b; unfold doc_same; simpl. intros H. apply andb_true_iff in H. destruct H as [H1 H2].
  apply Z.eqb_eq in H1. apply Z.eqb_eq in H2. subst; auto.
Qed.

Definition with_threads (s : cstate) (t : nat) (o : op) (p : tpc) (store : list (id * doc)) (bm : list id) (nx : id)
           (lin : list (nat * op * ret)) (ps : list (nat * list id)) : cstate :=
  mkC store bm nx (upd_nth (c_threads s) t (o, p)) lin ps.

Inductive cstep (s : cstate) (t : nat) : option label -> cstate -> Prop :=
| cs_finish o r : at_t s t o (TFinishing r) -> cstep s t None (set_pc s t o (TDone r))
| cs_gate_x : at_t s t OFlush TIdle -> no_holder s = true -> cstep s t None (set_pc s t OFlush TGate)
| cs_gate_s o : at_t s t o TIdle -> is_flush o = false -> no_excl s = true -> cstep s t None (set_pc s t o TGate)
| cs_alloc d : at_t s t (OAdd d) TGate ->
    cstep s t None (with_threads s t (OAdd d) (TAddAlloc (c_next s + 1)) (c_store s) (c_bitmap s) (c_next s + 1) (c_lin s) (c_persist s))
| cs_create d i : at_t s t (OAdd d) (TAddAlloc i) -> get (c_store s) i = None ->
    cstep s t (Some (LCreate i d)) (with_threads s t (OAdd d) (TAddCreated i) (set (c_store s) i d) (c_bitmap s) (c_next s) (c_lin s) (c_persist s))
| cs_create_conflict d i x : at_t s t (OAdd d) (TAddAlloc i) -> get (c_store s) i = Some x ->
    cstep s t (Some (LCreate i d)) (set_pc (lin_add s t (OAdd d) RErr) t (OAdd d) (TFinishing RErr))
| cs_add_lp d i : at_t s t (OAdd d) (TAddCreated i) ->
    cstep s t None (with_threads s t (OAdd d) (TDone (RId i)) (c_store s) (i :: c_bitmap s) (c_next s) (c_lin s ++ [(t, OAdd d, RId i)]) (c_persist s))
| cs_check_ok o i : at_t s t o TGate -> target o = Some i -> mem i (c_bitmap s) = true -> cstep s t None (set_pc s t o TChecked)
| cs_upd_check_no i u : at_t s t (OUpdate i u) TGate -> mem i (c_bitmap s) = false ->
    cstep s t None (set_pc (lin_add s t (OUpdate i u) RNotFound) t (OUpdate i u) (TDone RNotFound))
| cs_rem_check_no i : at_t s t (ORemove i) TGate -> mem i (c_bitmap s) = false ->
    cstep s t None (set_pc (lin_add s t (ORemove i) RNone) t (ORemove i) (TDone RNone))
| cs_lock o i : at_t s t o TChecked -> target o = Some i -> lock_free s i = true -> cstep s t None (set_pc s t o TLocked)
| cs_upd_get i u d : at_t s t (OUpdate i u) TLocked -> get (c_store s) i = Some d ->
    cstep s t (Some (LGet i (Some d))) (set_pc s t (OUpdate i u) (TUpdGot d))
| cs_upd_get_none i u : at_t s t (OUpdate i u) TLocked -> get (c_store s) i = None ->
    cstep s t (Some (LGet i None)) (set_pc (lin_add s t (OUpdate i u) RNotFound) t (OUpdate i u) (TFinishing RNotFound))
| cs_upd_intent i u d : at_t s t (OUpdate i u) (TUpdGot d) -> cstep s t (Some (LIntent i)) (set_pc s t (OUpdate i u) (TUpdIntent d))
| cs_upd_put i u d : at_t s t (OUpdate i u) (TUpdIntent d) -> get (c_store s) i = Some d ->
    cstep s t (Some (LPut i (merge d u)))
          (with_threads s t (OUpdate i u) (TFinishing (RDoc (merge d u))) (set (c_store s) i (merge d u)) (c_bitmap s) (c_next s)
                        (c_lin s ++ [(t, OUpdate i u, RDoc (merge d u))]) (c_persist s))
| cs_upd_put_conflict i u d : at_t s t (OUpdate i u) (TUpdIntent d) -> get (c_store s) i <> Some d ->
    cstep s t (Some (LPut i (merge d u))) (set_pc (lin_add s t (OUpdate i u) RErr) t (OUpdate i u) (TFinishing RErr))
| cs_rem_get i : at_t s t (ORemove i) TLocked ->
    cstep s t (Some (LGet i (get (c_store s) i))) (set_pc s t (ORemove i) (TRemGot (get (c_store s) i)))
| cs_rem_intent i d : at_t s t (ORemove i) (TRemGot (Some d)) -> cstep s t (Some (LIntent i)) (set_pc s t (ORemove i) (TRemIntent d))
| cs_rem_nodoc i : at_t s t (ORemove i) (TRemGot None) ->
    cstep s t None (with_threads s t (ORemove i) (TFinishing RNone) (c_store s) (remove_id i (c_bitmap s)) (c_next s)
                                 (c_lin s ++ [(t, ORemove i, RNone)]) (c_persist s))
| cs_rem_delete i d : at_t s t (ORemove i) (TRemIntent d) ->
    cstep s t (Some (LDelete i)) (with_threads s t (ORemove i) (TRemDeleted d) (del (c_store s) i) (c_bitmap s) (c_next s)
                                               (c_lin s ++ [(t, ORemove i, RDoc d)]) (c_persist s))
| cs_rem_bitmap i d : at_t s t (ORemove i) (TRemDeleted d) ->
    cstep s t None (with_threads s t (ORemove i) (TFinishing (RDoc d)) (c_store s) (remove_id i (c_bitmap s)) (c_next s) (c_lin s) (c_persist s))
| cs_flush_snap : at_t s t OFlush TGate ->
    cstep s t None (set_pc (lin_add s t OFlush RFlushed) t OFlush (TFlushSnap (c_bitmap s)))
| cs_flush_persist ids : at_t s t OFlush (TFlushSnap ids) ->
    cstep s t (Some LPersist) (with_threads s t OFlush (TFinishing RFlushed) (c_store s) (c_bitmap s) (c_next s) (c_lin s) (c_persist s ++ [(t, ids)]))
| cs_get_check_ok i h : at_t s t (OGet i h) TIdle -> mem i (c_bitmap s) = true -> cstep s t None (set_pc s t (OGet i h) TGetChecked)
| cs_get_check_no i h : at_t s t (OGet i h) TIdle -> mem i (c_bitmap s) = false ->
    cstep s t None (set_pc (lin_add s t (OGet i h) RNotFound) t (OGet i h) (TDone RNotFound))
| cs_get_read i h d : at_t s t (OGet i h) TGetChecked -> get (c_store s) i = Some d ->
    cstep s t (if h then None else Some (LGet i (Some d))) (set_pc (lin_add s t (OGet i h) (RDoc d)) t (OGet i h) (TFinishing (RDoc d)))
| cs_get_read_none i h : at_t s t (OGet i h) TGetChecked -> get (c_store s) i = None ->
    cstep s t (if h then None else Some (LGet i None)) (set_pc (lin_add s t (OGet i h) RNotFound) t (OGet i h) (TFinishing RNotFound)).

Lemma tstep_cstep s t s' l : tstep s t = Some (s', l) -> cstep s t l s'.
Proof.
  unfold tstep. destruct (nth_error (c_threads s) t) as [[o p]|] eqn:Hat; [|discriminate].
  fold (no_excl s) (no_holder s).
  destruct p; try discriminate.
  - (* TIdle *) destruct o as [d|i u|i| |i h].
    5: { destruct (mem i (c_bitmap s)) eqn:Hm; intros H; inversion H; subst.
         - apply cs_get_check_ok; auto.
         - apply cs_get_check_no; auto. }
    4: { simpl. destruct (no_holder s) eqn:Hn; [|discriminate].
         intros H; inversion H; subst. apply cs_gate_x; auto. }
    all: simpl; destruct (no_excl s) eqn:Hn; [|discriminate]; intros H; inversion H; subst; apply cs_gate_s; auto.
  - (* TGate *) destruct o.
    + intros H; inversion H; subst. apply (cs_alloc s t d); auto.
    + destruct (mem i (c_bitmap s)) eqn:Hm; intros H; inversion H; subst.
      * eapply cs_check_ok; eauto. reflexivity.
      * apply cs_upd_check_no; auto.
    + destruct (mem i (c_bitmap s)) eqn:Hm; intros H; inversion H; subst.
      * eapply cs_check_ok; eauto. reflexivity.
      * apply cs_rem_check_no; auto.
    + intros H; inversion H; subst. apply cs_flush_snap; auto.
    + discriminate.
  - (* TAddAlloc *) destruct o; try discriminate.
    destruct (get (c_store s) i) eqn:Hg; intros H; inversion H; subst.
    + eapply cs_create_conflict; eauto.
    + apply cs_create; auto.
  - (* TAddCreated *) destruct o; try discriminate. intros H; inversion H; subst. apply cs_add_lp; auto.
  - (* TChecked *) destruct o; try discriminate.
    + fold (lock_free s i). destruct (lock_free s i) eqn:Hl; [|discriminate].
      intros H; inversion H; subst. eapply cs_lock; eauto. reflexivity.
    + fold (lock_free s i). destruct (lock_free s i) eqn:Hl; [|discriminate].
      intros H; inversion H; subst. eapply cs_lock; eauto. reflexivity.
  - (* TLocked *) destruct o; try discriminate.
    + destruct (get (c_store s) i) eqn:Hg; intros H; inversion H; subst.
      * apply cs_upd_get; auto.
      * apply cs_upd_get_none; auto.
    + intros H; inversion H; subst. apply cs_rem_get; auto.
  - (* TUpdGot *) destruct o; try discriminate. intros H; inversion H; subst. apply cs_upd_intent; auto.
  - (* TUpdIntent *) destruct o; try discriminate.
    destruct (get (c_store s) i) as [d0|] eqn:Hg.
    + fold (doc_same d0 d). destruct (doc_same d0 d) eqn:Hd; intros H; inversion H; subst.
      * apply doc_same_eq in Hd. subst. apply cs_upd_put; auto.
      * apply cs_upd_put_conflict; auto. rewrite Hg. intros E; inversion E; subst.
        unfold doc_same in Hd. rewrite !Z.eqb_refl in Hd. discriminate.
    + intros H; inversion H; subst. apply cs_upd_put_conflict; auto. rewrite Hg. discriminate.
  - (* TRemGot *) destruct o; try discriminate. destruct d; intros H; inversion H; subst.
    + apply cs_rem_intent; auto.
    + apply cs_rem_nodoc; auto.
  - (* TRemIntent *) destruct o; try discriminate. intros H; inversion H; subst. apply cs_rem_delete; auto.
  - (* TRemDeleted *) destruct o; try discriminate. intros H; inversion H; subst. apply cs_rem_bitmap; auto.
  - (* TFlushSnap *) destruct o; try discriminate. intros H; inversion H; subst. apply cs_flush_persist; auto.
  - (* TGetChecked *) destruct o; try discriminate.
    destruct (get (c_store s) i) eqn:Hg; intros H; inversion H; subst.
    + apply cs_get_read; auto.
    + apply cs_get_read_none; auto.
  - (* TFinishing *) intros H; inversion H; subst. apply cs_finish; auto.
Qed.

(* reachability under any schedule *)
Inductive reach (s0 : cstate) : cstate -> Prop :=
| reach_refl : reach s0 s0
| reach_step s t l s' : reach s0 s -> cstep s t l s' -> reach s0 s'.

Lemma run_reach s0 sched : forall s, reach s0 s -> reach s0 (run s sched).
Proof.
  induction sched as [|t r IH]; simpl; intros s Hs; auto.
  destruct (tstep s t) as [[s' l]|] eqn:E; auto.
  apply IH. eapply reach_step; eauto using tstep_cstep.
Qed.
