(* C16 — pinned statements only.  Each is closed by [exact] of a lemma proved in
   Kip/Proofs*.v or Kip/Desugar.v and followed by Print Assumptions.
   [gen_cfg] (Kip/Run.v) is built from gen/Gen_Kip.v, which the translator regenerates
   from /repo's working tree on every run; the statements below are re-checked against it. *)
From Coq Require Import List String Bool Arith Ascii.
From Verif Require Import Kip.Model Kip.Safe Kip.ProofsDecide Kip.Proofs Kip.Desugar Kip.Run Kip.ProofsEq gen.Gen_Kip.
Import ListNotations.
Open Scope string_scope.
Open Scope list_scope.

(* The tables in the source cover every name the property protects.  Deleting an entry
   from PROTECTED_FIELDS / *_IMMUTABLE, dropping a kind from guard_structural_mutation,
   widening the UPSERT identity fields or changing the PURGE literal breaks this lemma. *)
Theorem C16_protected_complete :
  incl spec_engine_owned Gen_Kip.PROTECTED_FIELDS /\
  incl spec_assertion_payload (c_assertion_imm gen_cfg) /\
  incl spec_evidence_payload (c_evidence_imm gen_cfg) /\
  incl spec_proposition_payload (c_proposition_imm gen_cfg) /\
  incl ["Assertion"; "Evidence"; "Proposition"; "Activity"] Gen_Kip.structural_rejects /\
  incl Gen_Kip.upsert_identity_fields ["id"; "key"] /\
  Gen_Kip.purge_literal = "PURGE".
Proof.
  pose proof (cfg_okb_sound gen_cfg eq_refl) as H. destruct H. repeat split; assumption.
Qed.
Print Assumptions C16_protected_complete.

Lemma gen_cfg_ok : cfg_ok gen_cfg.
Proof. exact (cfg_okb_sound gen_cfg eq_refl). Qed.
Print Assumptions gen_cfg_ok.

(* Whatever tree the validator accepts — from the text parser or injected pre-parsed — is Safe:
   no engine-owned key in any FIELDS / ATTRIBUTES / FACET / RETENTION / UNSET block; no
   immutable payload field and no structural action on an UPDATE target its own WHERE types as
   Assertion / Evidence / Proposition (/ Activity), at any nesting depth and whatever else the
   block types it as; no BELIEF pattern and no raw predicate path at any depth of any KML or
   EXPORT selection; ENSURE PROPOSITION has an exact predicate and an element subject; UPSERT
   matches id or key by literal or parameter; PURGE carries the exact literal; handles are
   claimed once and every referenced handle is claimed by the plan or bound by that clause's WHERE. *)
Theorem C16_validate_sound :
  forall c : command, validate_command gen_cfg c = VOk -> Safe c.
Proof. exact (validate_sound gen_cfg gen_cfg_ok). Qed.
Print Assumptions C16_validate_sound.

(* Every action of an UPDATE's action list is guarded — in any position, however often a kind
   is repeated: engine-owned keys in no block of any action, no payload field in any SET FIELDS
   action and no structural action under any record typing of the target. *)
Theorem C16_every_update_action_guarded :
  forall ex cs u a k,
  validate_command gen_cfg (CKml ex cs) = VOk -> In (Update u) cs -> In a (up_actions u) -> TargetTyped u k ->
  (forall f, In f (action_written a) -> ~ In f spec_engine_owned) /\
  (forall asg f, a = USetFields asg -> In f (keys asg) -> ~ In f (spec_payload k)) /\
  (k <> KConcept -> ~ is_structural_action a).
Proof. exact (every_action_guarded gen_cfg gen_cfg_ok). Qed.
Print Assumptions C16_every_update_action_guarded.

(* the same for any constant tables that cover the property's sets *)
Theorem C16_validate_sound_any_tables :
  forall cfg, cfg_ok cfg -> forall c : command, validate_command cfg c = VOk -> Safe c.
Proof. exact validate_sound. Qed.
Print Assumptions C16_validate_sound_any_tables.

(* the decision procedure run on every accepted tree decides Safe *)
Theorem C16_safe_b_decides : forall c : command, safe_b c = true <-> Safe c.
Proof. exact safe_b_iff. Qed.
Print Assumptions C16_safe_b_decides.

Theorem C16_accepted_trees_pass_safe_b :
  forall c : command, validate_command gen_cfg c = VOk -> safe_b c = true.
Proof. exact (validate_safe_b gen_cfg gen_cfg_ok). Qed.
Print Assumptions C16_accepted_trees_pass_safe_b.

(* The dispatch the model transcribes is the dispatch the source has (finite generated
   tables): which fields of which MutationClause variant validate_clause and
   collect_clause_handles read, which variants carry a WHERE / claim a handle, which table
   guards which kind, the exact-membership test, that parse_kip / validate_command run
   the tree validator, that guard_update applies its payload and structural guards inside a walk
   over every UPDATE action and selects no single action out of the list, and that the tree validator names nothing of the payloads the Coq AST
   keeps opaque (FILTER expressions, AsOf, hop ranges, numbers, KipValue objects) — if it ever
   looks inside one, this lemma breaks and the AST has to be widened. *)
Theorem C16_dispatch_as_modelled :
  Gen_Kip.validate_clause_reads =
    [("CreateConcept", ["set_fields"; "set_attributes"; "set_facets"; "set_structural"]);
     ("UpsertConcept", ["set_fields"; "set_attributes"; "set_facets"; "unset_attributes"; "unset_facets";
                        "set_structural"; "match"; "unset_structural"]);
     ("CreateEvidence", ["set_fields"; "set_facets"; "set_structural"]);
     ("CreateAssertion", ["set_fields"; "set_facets"; "set_structural"]);
     ("CreateActivity", ["set_fields"; "set_facets"; "set_structural"]);
     ("EnsureProposition", ["predicate"; "subject"; "object"]);
     ("Update", ["actions"]);
     ("TransitionActivity", ["set_fields"; "set_structural"]);
     ("SetRetention", ["values"]);
     ("Purge", ["confirm"])] /\
  Gen_Kip.collect_handles_reads =
    [("CreateConcept", ["set_fields"; "set_attributes"; "set_facets"; "set_structural"]);
     ("UpsertConcept", ["set_fields"; "set_attributes"; "set_facets"; "set_structural"; "unset_structural"]);
     ("CreateEvidence", ["set_fields"; "set_facets"; "set_structural"]);
     ("CreateAssertion", ["set_fields"; "set_facets"; "set_structural"]);
     ("CreateActivity", ["set_fields"; "set_facets"; "set_structural"]);
     ("EnsureProposition", ["subject"; "object"]);
     ("Update", ["target"; "actions"]);
     ("RetractAssertion", ["target"]);
     ("SupersedeAssertion", ["target"; "by"]);
     ("CorrectEvidence", ["target"; "by"]);
     ("TransitionActivity", ["target"; "set_fields"; "set_structural"]);
     ("SetRetention", ["target"; "values"]);
     ("Archive", ["target"]);
     ("Tombstone", ["target"]);
     ("Purge", ["target"]);
     ("MergeConcept", ["source"; "into"])] /\
  Gen_Kip.clause_where_variants =
    ["Update"; "RetractAssertion"; "SetRetention"; "Archive"; "Tombstone"; "Purge"; "MergeConcept"] /\
  Gen_Kip.handle_variants =
    ["CreateConcept"; "UpsertConcept"; "CreateEvidence"; "CreateAssertion"; "CreateActivity"; "EnsureProposition"] /\
  Gen_Kip.immutable_guard =
    [("Assertion", "ASSERTION_IMMUTABLE"); ("Evidence", "EVIDENCE_IMMUTABLE"); ("Proposition", "PROPOSITION_IMMUTABLE")] /\
  Gen_Kip.upsert_identity_forms = ["Literal"; "Param"] /\
  Gen_Kip.is_protected_exact = true /\
  Gen_Kip.validate_command_kml_runs_validate_plan = true /\
  Gen_Kip.validate_command_export_runs_exact_patterns = true /\
  Gen_Kip.parse_kip_runs_validate_command = true /\
  Gen_Kip.guard_update_per_action = true /\
  Gen_Kip.guard_update_action_selectors = [] /\
  Gen_Kip.opaque_payloads_inspected = [] /\
  Gen_Kip.filter_binds_nothing = true /\
  map (fun f => (f, gen_arity f)) [FAdd; FMul; FClamp; FCoalesce] = [(FAdd, 2); (FMul, 2); (FClamp, 3); (FCoalesce, 2)].
Proof. repeat split; vm_compute; reflexivity. Qed.
Print Assumptions C16_dispatch_as_modelled.

(* ------------------------------------------------------------------ the runner is faithful
   A passing correspondence case means what it says: the model's verdict IS the observed
   verdict and an accepted tree IS Safe; the model's ASSERT expansion IS the clause list the
   implementation produced (the structural equality tests of Kip/Run.v reflect equality). *)
Theorem C16_passing_tree_case_means :
  forall c v, check_tree (c, v) = true -> validate_command gen_cfg c = v /\ (v = VOk -> Safe c).
Proof.
  intros c v H. destruct (check_tree_sound c v H) as [H1 H2]. split; [exact H1|].
  intro E. apply safe_b_iff, H2, E.
Qed.
Print Assumptions C16_passing_tree_case_means.

Theorem C16_passing_assert_case_means :
  forall a seq obs, check_desugar (a, seq, obs) = true -> desugar Gen_Kip.ASSERT_MEMBERS seq a = obs.
Proof. exact check_desugar_sound. Qed.
Print Assumptions C16_passing_assert_case_means.

Theorem C16_runner_equality_reflects :
  (forall a b, ensure_eqb a b = true <-> a = b) /\ (forall a b, record_eqb a b = true <-> a = b) /\
  (forall a b, by_eqb a b = true <-> a = b) /\ (forall a b, verdict_eqb a b = true <-> a = b).
Proof. exact runner_equality_reflects. Qed.
Print Assumptions C16_runner_equality_reflects.

(* ------------------------------------------------------------------ ASSERT *)
(* The shorthand expands to exactly ENSURE PROPOSITION + CREATE ASSERTION (+ SUPERSEDE iff
   written), the Assertion carries proposition / asserted_by / mode / stance (default
   "support") plus exactly the optional members the author wrote with the values written,
   one `evidence` edge with role "support" per cited artifact, no facets, and the client
   key only from `key`. *)
Theorem C16_desugar_exact :
  forall seq a cs,
  desugar Gen_Kip.ASSERT_MEMBERS seq a = Some cs ->
  exists by_ mode client_key,
    lookup "by" (as_members a) = Some by_ /\
    lookup "mode" (as_members a) = Some mode /\
    client_key_of (lookup "key" (as_members a)) = Some client_key /\
    (forall k v, In (k, v) (as_members a) -> mem k Gen_Kip.ASSERT_MEMBERS = true) /\
    (forall n, as_predicate a <> PAVar n) /\
    let ah := assertion_handle (as_handle a) seq in
    let ph := proposition_handle ah in
    let stance := match lookup "stance" (as_members a) with Some v => v | None => MVal (KStr "support") end in
    let cites := match lookup "evidence" (as_members a) with Some v => evidence_refs v | None => [] end in
    cs =
      [EnsureProposition (mkEP (Some ph) (as_subject a) (as_predicate a) (as_object a) None);
       CreateAssertion
         (mkRC ah client_key
            (Some ([("proposition", MHandle ph); ("asserted_by", by_); ("mode", mode); ("stance", stance)]
                   ++ written_fields (as_members a)))
            []
            (match cites with
             | [] => None
             | _ => Some (map (fun v => mkEdge (SymName "evidence") v (Some [("role", BVal (KStr "support"))])) cites)
             end))]
      ++ match as_superseding a with
         | Some target => [SupersedeAssertion (mkBy target (EHandle ah) None)]
         | None => []
         end.
Proof. exact (desugar_exact Gen_Kip.ASSERT_MEMBERS). Qed.
Print Assumptions C16_desugar_exact.

Theorem C16_assert_refused_without_actor :
  forall seq a, lookup "by" (as_members a) = None -> desugar Gen_Kip.ASSERT_MEMBERS seq a = None.
Proof. exact (desugar_refuses_missing_actor Gen_Kip.ASSERT_MEMBERS). Qed.
Print Assumptions C16_assert_refused_without_actor.

Theorem C16_assert_refused_without_mode :
  forall seq a, lookup "mode" (as_members a) = None -> desugar Gen_Kip.ASSERT_MEMBERS seq a = None.
Proof. exact (desugar_refuses_missing_mode Gen_Kip.ASSERT_MEMBERS). Qed.
Print Assumptions C16_assert_refused_without_mode.

Theorem C16_assert_refuses_unknown_member :
  forall seq a k v, In (k, v) (as_members a) -> mem k Gen_Kip.ASSERT_MEMBERS = false ->
    desugar Gen_Kip.ASSERT_MEMBERS seq a = None.
Proof. exact (desugar_refuses_unknown_member Gen_Kip.ASSERT_MEMBERS). Qed.
Print Assumptions C16_assert_refuses_unknown_member.

Theorem C16_synthetic_handles_distinct :
  forall n m, n <> m -> assertion_handle None n <> assertion_handle None m.
Proof. exact synthetic_handles_distinct. Qed.
Print Assumptions C16_synthetic_handles_distinct.

Theorem C16_synthetic_handles_marked :
  forall seq h, has_char "#"%char (assertion_handle None seq) = true /\ has_char "#"%char (proposition_handle h) = true.
Proof. exact synthetic_handles_marked. Qed.
Print Assumptions C16_synthetic_handles_marked.

(* the member vocabulary is exactly the one 55.1 defines *)
Theorem C16_assert_members_as_specified :
  Gen_Kip.ASSERT_MEMBERS = ["by"; "mode"; "stance"; "confidence"; "at"; "valid"; "evidence"; "key"].
Proof. vm_compute. reflexivity. Qed.
Print Assumptions C16_assert_members_as_specified.

(* ------------------------------------------------------------------ non-vacuity *)
Definition idm (v : string) : matcher := MCons "id" (MVLit (KStr v)) MNil.

(* an accepted multi-clause plan with a handle graph and a WHERE-bound UPDATE *)
Definition plan_ok : command :=
  CKml true
    [CreateConcept (mkCC "alice" (Some (SymName "Person")) None (Some (SLit (KStr "Alice")))
                         (Some [("note", MVal (KStr "x"))]) None [] None);
     CreateEvidence (mkRC "msg" None (Some [("evidence_class", MVal (KStr "user_statement"))]) [] None);
     EnsureProposition (mkEP (Some "p") (TVar "alice") (PALit "prefers") (TParam "dark_mode") None);
     CreateAssertion (mkRC "a" None
        (Some [("proposition", MHandle "p"); ("asserted_by", MHandle "alice"); ("mode", MVal (KStr "stated"))])
        [] (Some [mkEdge (SymName "evidence") (MHandle "msg") (Some [("role", BVal (KStr "support"))])]));
     Update (mkUp (EHandle "c") None
        [USetFields [("confidence", MVal (KNum "0.1"))]; USetStructural [mkEdge (SymName "has_step") (MHandle "c") None]]
        (Some (WCons (WConcept "c" (idm "C-1")) WNil)) None)].

Example C16_accepts_nonvacuous : validate_command gen_cfg plan_ok = VOk /\ safe_b plan_ok = true.
Proof. split; vm_compute; reflexivity. Qed.

(* the same UPDATE on an Assertion-typed target is refused — also when an earlier NOT /
   OPTIONAL / UNION block types the target as something else first *)
Definition upd (ws : wcs) (acts : list update_action) : command :=
  CKml false [Update (mkUp (EHandle "a") None acts (Some ws) None)].
Definition conf := [USetFields [("confidence", MVal (KNum "0.1"))]].

Example C16_rejects_payload_rewrite :
  validate_command gen_cfg (upd (WCons (WAssertion "a" (idm "A-1")) WNil) conf) = VErr InvalidSyntax /\
  validate_command gen_cfg
    (upd (WCons (WNot (WCons (WConcept "a" (idm "C-1")) WNil)) (WCons (WAssertion "a" (idm "A-1")) WNil)) conf)
    = VErr InvalidSyntax /\
  safe_b (upd (WCons (WNot (WCons (WConcept "a" (idm "C-1")) WNil)) (WCons (WAssertion "a" (idm "A-1")) WNil)) conf)
    = false /\
  validate_command gen_cfg
    (upd (WCons (WConcept "a" (idm "C-1")) (WCons (WUnion (WCons (WEvidence "a" (idm "E-1")) WNil)) WNil))
         [USetStructural [mkEdge (SymName "source") (MParam "e") None]])
    = VErr InvalidSyntax.
Proof. repeat split; vm_compute; reflexivity. Qed.

(* a second SET FIELDS block, a payload field after an ordinary one, a structural action last:
   the offending action is found wherever it stands *)
Example C16_rejects_in_every_position :
  let ws := WCons (WAssertion "a" (idm "A-1")) WNil in
  validate_command gen_cfg (upd ws [USetFields [("note", MVal (KStr "a"))]; USetFields [("confidence", MVal (KNum "0.1"))]])
    = VErr InvalidSyntax /\
  validate_command gen_cfg (upd ws [USetAttributes [("x", MVal (KNum "1"))]; UUnsetAttributes ["y"];
                                    USetFields [("note", MVal (KStr "a")); ("stance", MVal (KStr "oppose"))]])
    = VErr InvalidSyntax /\
  validate_command gen_cfg (upd ws [USetFields [("note", MVal (KStr "a"))]; USetFacet (mkFA (SymName "F") [("m", MVal (KNum "1"))]);
                                    UUnsetStructural [mkRemoval (SymName "evidence") (MParam "e")]])
    = VErr InvalidSyntax /\
  validate_command gen_cfg (upd ws [USetFields [("note", MVal (KStr "a"))]; USetFields [("note2", MVal (KStr "b"))];
                                    USetFacet (mkFA (SymName "F") [("governance", MVal (KNum "1"))])])
    = VErr InvalidSyntax /\
  validate_command gen_cfg (upd ws [USetFields [("note", MVal (KStr "a"))]; USetFields [("note2", MVal (KStr "b"))]]) = VOk.
Proof. repeat split; vm_compute; reflexivity. Qed.

Example C16_rejects_each_guard :
  (* engine-owned key in a facet block of a CREATE *)
  validate_command gen_cfg (CKml false [CreateConcept (mkCC "c" None None None None None
      [mkFA (SymName "F") [("space_seq", MVal (KNum "1"))]] None)]) = VErr InvalidSyntax /\
  (* UNSET of an engine-owned key *)
  validate_command gen_cfg (CKml false [Update (mkUp (EParam "c") None [UUnsetAttributes ["governance"]] None None)])
    = VErr InvalidSyntax /\
  (* BELIEF as an export selector, nested *)
  validate_command gen_cfg (CExport (EParam "out")
      (WCons (WOptional (WCons (WBelief "b" (BTProp "p")) WNil)) WNil) None None) = VErr InvalidSyntax /\
  (* raw predicate path inside a nested term of a mutation selection *)
  validate_command gen_cfg (CKml false [Archive (mkRem (EHandle "x")
      (Some (WCons (WConcept "x" (MCons "about"
         (MVProp (PMTuple (TParam "a") (PTPath [(PALit "p", None); (PALit "q", None)]) (TParam "b"))) MNil)) WNil))
      None None)]) = VErr InvalidSyntax /\
  (* name-only UPSERT *)
  validate_command gen_cfg (CKml false [UpsertConcept (mkCU "c" (Some (MCons "name" (MVLit (KStr "Alice")) MNil))
      None None None [] None [] None None)]) = VErr InvalidSyntax /\
  (* a handle claimed twice, a handle never bound, an unbound tuple endpoint *)
  validate_command gen_cfg (CKml true
     [CreateConcept (mkCC "c" None None None None None [] None);
      CreateConcept (mkCC "c" None None None None None [] None)]) = VErr DuplicateLocalHandle /\
  validate_command gen_cfg (CKml false [Archive (mkRem (EHandle "x") None None None)]) = VErr ReferenceError /\
  validate_command gen_cfg (CKml false
     [EnsureProposition (mkEP None (TVar "nowhere") (PALit "prefers") (TParam "x") None)]) = VErr ReferenceError /\
  (* PURGE with a near-miss confirmation *)
  validate_command gen_cfg (CKml false [Purge (mkPurge (EParam "e") None None None "purge")]) = VErr InvalidSyntax.
Proof. repeat split; vm_compute; reflexivity. Qed.

(* handle graphs: a forward reference resolves; a variable bound only by a sibling clause's
   WHERE does not (the later UPDATE would otherwise escape every kind guard) *)
Example C16_handle_graphs :
  validate_command gen_cfg (CKml true
    [CreateAssertion (mkRC "s" None None []
       (Some [mkEdge (SymName "evidence") (MHandle "e") (Some [("role", BVal (KStr "support"))])]));
     CreateEvidence (mkRC "e" None None [] None)]) = VOk /\
  validate_command gen_cfg (CKml true
    [Update (mkUp (EHandle "w") None [USetAttributes [("seen", MVal (KNum "1"))]]
                  (Some (WCons (WAssertion "w" (idm "A-1")) WNil)) None);
     Update (mkUp (EHandle "w") None [USetFields [("confidence", MVal (KNum "0.1"))]] None None)])
    = VErr ReferenceError.
Proof. split; vm_compute; reflexivity. Qed.

Example C16_desugar_nonvacuous :
  desugar Gen_Kip.ASSERT_MEMBERS 0
    (mkAssert None (TParam "a") (PALit "p") (TParam "b")
       [("by", MParam "me"); ("mode", MVal (KStr "stated"));
        ("evidence", MVal (KArr (KVCons (KStr "E-1") (KVCons (KStr "E-2") KVNil))))]
       (Some (EParam "old")))
  = Some
     [EnsureProposition (mkEP (Some "#assert0#proposition") (TParam "a") (PALit "p") (TParam "b") None);
      CreateAssertion (mkRC "#assert0" None
        (Some [("proposition", MHandle "#assert0#proposition"); ("asserted_by", MParam "me");
               ("mode", MVal (KStr "stated")); ("stance", MVal (KStr "support"))])
        []
        (Some [mkEdge (SymName "evidence") (MVal (KStr "E-1")) (Some [("role", BVal (KStr "support"))]);
               mkEdge (SymName "evidence") (MVal (KStr "E-2")) (Some [("role", BVal (KStr "support"))])]));
      SupersedeAssertion (mkBy (EParam "old") (EHandle "#assert0") None)].
Proof. vm_compute. reflexivity. Qed.
