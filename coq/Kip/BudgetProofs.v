(* C15 — the budget scanner against the lexical reading, for every input and every bracket
   alphabet / limit / strictness. *)
From Coq Require Import List NArith Bool Arith Lia.
From Verif Require Import Kip.Budget.
Import ListNotations.
Local Open Scope N_scope.

Section Proofs.
  Variable openers : list N.
  Variable pairs : list (N * N).
  Variable terms : list N.
  Variable max_depth : nat.
  Variable depth_strict : bool.

  Notation bstep := (bstep openers pairs terms max_depth depth_strict).
  Notation bscan := (bscan openers pairs terms max_depth depth_strict).
  Notation bracket_step := (bracket_step openers pairs max_depth depth_strict).
  Notation over := (over max_depth depth_strict).
  Notation bracket_free := (bracket_free openers pairs).
  Notation lex_end := (lex_end openers pairs terms).

  (* the lexical reading with the limit built in: None as soon as a push goes over *)
  Fixpoint lex_chk (m : lmode) (st : list N) (cs : list N) : option (lmode * list N) :=
    match cs with
    | [] => Some (m, st)
    | c :: rest =>
      match m with
      | MComment => lex_chk (if is_term terms c then MCode else MComment) st rest
      | MStrEsc => lex_chk MStr st rest
      | MStr => lex_chk (if c =? c_bslash then MStrEsc else if c =? c_quote then MCode else MStr) st rest
      | MCode =>
        if c =? c_slash then
          match rest with
          | c2 :: rest' => if c2 =? c_slash then lex_chk MComment st rest' else lex_chk MCode st rest
          | [] => Some (MCode, st)
          end
        else if c =? c_quote then lex_chk MStr st rest
        else match bracket_step st c with
             | Some st' => lex_chk MCode st' rest
             | None => None
             end
      end
    end.

  Definition mode_of (s : bstate) : lmode :=
    if b_in_comment s then MComment
    else if b_in_string s then (if b_escaped s then MStrEsc else MStr)
    else MCode.

  Definition view (o : option bstate) : option (lmode * list N) :=
    match o with Some s => Some (mode_of s, b_stack s) | None => None end.

  Definition St_code (s : bstate) : Prop :=
    b_in_comment s = false /\ b_in_string s = false /\ b_escaped s = false.
  Definition St_comment (s : bstate) : Prop :=
    b_in_comment s = true /\ b_in_string s = false /\ b_escaped s = false /\ b_prev_slash s = false.
  Definition St_str (s : bstate) : Prop :=
    b_in_comment s = false /\ b_in_string s = true.

  (* ---- the flag machine and the lookahead reading coincide ----------------------------- *)
  Lemma sim : forall cs s,
    (St_comment s -> view (bscan s cs) = lex_chk MComment (b_stack s) cs) /\
    (St_str s -> view (bscan s cs) = lex_chk (if b_escaped s then MStrEsc else MStr) (b_stack s) cs) /\
    (St_code s -> b_prev_slash s = false -> view (bscan s cs) = lex_chk MCode (b_stack s) cs) /\
    (St_code s -> b_prev_slash s = true -> view (bscan s cs) = lex_chk MCode (b_stack s) (c_slash :: cs)).
  Proof.
    induction cs as [|c r IH]; intros s.
    - repeat split.
      + intros (Hc & Hs & He & Hp). simpl. unfold mode_of. now rewrite Hc.
      + intros (Hc & Hs). simpl. unfold mode_of. rewrite Hc, Hs. reflexivity.
      + intros (Hc & Hs & He) Hp. simpl. unfold mode_of. now rewrite Hc, Hs.
      + intros (Hc & Hs & He) Hp. simpl. unfold mode_of. now rewrite Hc, Hs.
    - repeat split.
      + (* in a comment *)
        intros (Hc & Hs & He & Hp). simpl. unfold Budget.bstep. rewrite Hc.
        destruct (is_term terms c).
        * destruct (IH (mkB (b_stack s) (b_in_string s) (b_escaped s) false (b_prev_slash s))) as (_ & _ & H3 & _).
          apply H3; [repeat split; assumption | exact Hp].
        * destruct (IH s) as (H1 & _). apply H1. repeat split; assumption.
      + (* in a string *)
        intros (Hc & Hs). simpl. unfold Budget.bstep. rewrite Hc, Hs.
        destruct (b_escaped s).
        * destruct (IH (mkB (b_stack s) true false false false)) as (_ & H2 & _). apply H2. split; reflexivity.
        * destruct (c =? c_bslash).
          -- destruct (IH (mkB (b_stack s) true true false false)) as (_ & H2 & _). apply H2. split; reflexivity.
          -- destruct (c =? c_quote).
             ++ destruct (IH (mkB (b_stack s) false false false false)) as (_ & _ & H3 & _).
                apply H3; [repeat split; reflexivity | reflexivity].
             ++ destruct (IH (mkB (b_stack s) true false false false)) as (_ & H2 & _). apply H2. split; reflexivity.
      + (* code, no pending slash *)
        intros (Hc & Hs & He) Hp. simpl bscan. unfold Budget.bstep. rewrite Hc, Hs, Hp.
        cbn [lex_chk]. destruct (c =? c_slash) eqn:Hsl.
        * apply N.eqb_eq in Hsl. subst c. rewrite He.
          destruct (IH (mkB (b_stack s) false false false true)) as (_ & _ & _ & H4).
          specialize (H4 (conj eq_refl (conj eq_refl eq_refl)) eq_refl). cbn [b_stack] in H4.
          rewrite H4. cbn [lex_chk]. rewrite N.eqb_refl. reflexivity.
        * destruct (c =? c_quote).
          -- rewrite He. destruct (IH (mkB (b_stack s) true false false false)) as (_ & H2 & _).
             apply H2. split; reflexivity.
          -- rewrite He. destruct (bracket_step (b_stack s) c) as [st'|]; [|reflexivity].
             destruct (IH (mkB st' false false false false)) as (_ & _ & H3 & _).
             apply H3; [repeat split; reflexivity | reflexivity].
      + (* code, the previous character was a lone slash *)
        intros (Hc & Hs & He) Hp. simpl bscan. unfold Budget.bstep. rewrite Hc, Hs, Hp.
        cbn [lex_chk]. rewrite N.eqb_refl. destruct (c =? c_slash) eqn:Hsl.
        * rewrite He. destruct (IH (mkB (b_stack s) false false true false)) as (H1 & _).
          apply H1. repeat split; reflexivity.
        * cbn [lex_chk]. rewrite ?Hsl. destruct (c =? c_quote).
          -- rewrite He. destruct (IH (mkB (b_stack s) true false false false)) as (_ & H2 & _).
             apply H2. split; reflexivity.
          -- rewrite He. destruct (bracket_step (b_stack s) c) as [st'|]; [|reflexivity].
             destruct (IH (mkB st' false false false false)) as (_ & _ & H3 & _).
             apply H3; [repeat split; reflexivity | reflexivity].
  Qed.

  Corollary sim_init cs : view (bscan b_init cs) = lex_chk MCode [] cs.
  Proof. destruct (sim cs b_init) as (_ & _ & H & _). apply H; repeat split; reflexivity. Qed.

  (* ---- the limited and the unlimited reading ------------------------------------------- *)
  Lemma bracket_step_free st c st' : bracket_step st c = Some st' -> st' = bracket_free st c.
  Proof.
    unfold Budget.bracket_step, Budget.bracket_free. destruct (is_opener openers c).
    - destruct (over _); [discriminate|]. now intros [= <-].
    - destruct (opener_of pairs c); [|now intros [= <-]].
      destruct st as [|top rest]; [now intros [= <-]|]. destruct (top =? n); now intros [= <-].
  Qed.

  Lemma over_false n : over n = false -> (n <= max_depth)%nat.
  Proof.
    unfold Budget.over. destruct depth_strict; intros H.
    - apply Nat.ltb_ge in H. exact H.
    - apply Nat.leb_gt in H. lia.
  Qed.

  Lemma over_true n : (max_depth < n)%nat -> over n = true.
  Proof.
    unfold Budget.over. destruct depth_strict; intros H.
    - now apply Nat.ltb_lt.
    - apply Nat.leb_le. lia.
  Qed.

  Lemma bracket_step_len st c st' :
    bracket_step st c = Some st' -> (length st <= max_depth)%nat -> (length st' <= max_depth)%nat.
  Proof.
    unfold Budget.bracket_step. destruct (is_opener openers c).
    - destruct (over _) eqn:Ho; [discriminate|]. intros [= <-] _. now apply over_false.
    - destruct (opener_of pairs c); [|now intros [= <-]].
      destruct st as [|top rest]; [now intros [= <-]|].
      destruct (top =? n); intros [= <-]; simpl; lia.
  Qed.

  Lemma bracket_step_none st c :
    bracket_step st c = None -> over (length (bracket_free st c)) = true.
  Proof.
    unfold Budget.bracket_step, Budget.bracket_free. destruct (is_opener openers c).
    - destruct (over _) eqn:Ho; [intros _; reflexivity|discriminate].
    - destruct (opener_of pairs c); [|discriminate].
      destruct st as [|top rest]; [discriminate|]. destruct (top =? n); discriminate.
  Qed.

  (* accepted: the limited reading is the unlimited one *)
  Lemma lex_chk_some : forall n cs, (length cs < n)%nat -> forall m st r,
    lex_chk m st cs = Some r -> r = lex_end m st cs.
  Proof.
    induction n as [|n IH]; intros cs Hn; [lia|]. intros m st r H.
    destruct cs as [|c rest]; [simpl in *; now inversion H|].
    simpl in Hn. destruct m; cbn [lex_chk Budget.lex_end] in *.
    - destruct (c =? c_slash).
      + destruct rest as [|c2 rest']; [now inversion H|].
        destruct (c2 =? c_slash); (apply IH in H; [exact H | simpl in *; lia]).
      + destruct (c =? c_quote); [apply IH in H; [exact H|lia]|].
        destruct (bracket_step st c) as [st'|] eqn:Hb; [|discriminate].
        apply bracket_step_free in Hb. subst st'. apply IH in H; [exact H|lia].
    - apply IH in H; [exact H|lia].
    - apply IH in H; [exact H|lia].
    - apply IH in H; [exact H|lia].
  Qed.

  (* refused: some prefix is over the limit in the unlimited reading *)
  Lemma lex_chk_none : forall n cs, (length cs < n)%nat -> forall m st,
    lex_chk m st cs = None ->
    exists k, over (length (snd (lex_end m st (firstn k cs)))) = true.
  Proof.
    induction n as [|n IH]; intros cs Hn; [lia|]. intros m st H.
    destruct cs as [|c rest]; [simpl in H; discriminate|].
    simpl in Hn. destruct m; cbn [lex_chk] in H.
    - destruct (c =? c_slash) eqn:Hsl.
      + destruct rest as [|c2 rest']; [discriminate|].
        destruct (c2 =? c_slash) eqn:Hs2.
        * apply IH in H; [|simpl in *; lia]. destruct H as [k Hk]. exists (S (S k)).
          cbn [firstn Budget.lex_end]. rewrite Hsl, Hs2. exact Hk.
        * apply IH in H; [|simpl in *; lia]. destruct H as [k Hk]. exists (S k).
          cbn [firstn Budget.lex_end]. rewrite Hsl.
          destruct k as [|k]; [cbn [firstn] in *; exact Hk|].
          cbn [firstn] in *. rewrite Hs2. exact Hk.
      + destruct (c =? c_quote) eqn:Hq.
        * apply IH in H; [|lia]. destruct H as [k Hk]. exists (S k).
          cbn [firstn Budget.lex_end]. rewrite Hsl, Hq. exact Hk.
        * destruct (bracket_step st c) as [st'|] eqn:Hb.
          -- pose proof (bracket_step_free _ _ _ Hb) as ->.
             apply IH in H; [|lia]. destruct H as [k Hk]. exists (S k).
             cbn [firstn Budget.lex_end]. rewrite Hsl, Hq. exact Hk.
          -- exists 1%nat. cbn [firstn Budget.lex_end]. rewrite Hsl, Hq. cbn [snd].
             now apply bracket_step_none.
    - apply IH in H; [|lia]. destruct H as [k Hk]. exists (S k). cbn [firstn Budget.lex_end]. exact Hk.
    - apply IH in H; [|lia]. destruct H as [k Hk]. exists (S k). cbn [firstn Budget.lex_end]. exact Hk.
    - apply IH in H; [|lia]. destruct H as [k Hk]. exists (S k). cbn [firstn Budget.lex_end]. exact Hk.
  Qed.

  (* ---- prefixes and the depth invariant of the scanner ---------------------------------- *)
  Lemma bscan_prefix : forall cs s s' k, bscan s cs = Some s' -> exists sk, bscan s (firstn k cs) = Some sk.
  Proof.
    induction cs as [|c r IH]; intros s s' k H.
    - destruct k; simpl; eauto.
    - destruct k as [|k]; [simpl; eauto|]. simpl in *.
      destruct (bstep s c) as [s1|]; [|discriminate]. eapply IH; eauto.
  Qed.

  Lemma bstep_len s c s' :
    bstep s c = Some s' -> (length (b_stack s) <= max_depth)%nat -> (length (b_stack s') <= max_depth)%nat.
  Proof.
    unfold Budget.bstep. intros H Hl.
    destruct (b_in_comment s).
    { destruct (is_term terms c); inversion H; subst; simpl; exact Hl. }
    destruct (b_in_string s).
    { destruct (b_escaped s); [inversion H; subst; exact Hl|].
      destruct (c =? c_bslash); [inversion H; subst; exact Hl|].
      destruct (c =? c_quote); inversion H; subst; exact Hl. }
    destruct (c =? c_slash).
    { destruct (b_prev_slash s); inversion H; subst; exact Hl. }
    destruct (c =? c_quote); [inversion H; subst; exact Hl|].
    destruct (bracket_step (b_stack s) c) as [st'|] eqn:Hb; [|discriminate].
    inversion H; subst. simpl. eapply bracket_step_len; eauto.
  Qed.

  Lemma bscan_len : forall cs s s',
    bscan s cs = Some s' -> (length (b_stack s) <= max_depth)%nat -> (length (b_stack s') <= max_depth)%nat.
  Proof.
    induction cs as [|c r IH]; intros s s' H Hl; simpl in H.
    - now inversion H; subst.
    - destruct (bstep s c) as [s1|] eqn:Hs; [|discriminate].
      eapply IH; eauto. eapply bstep_len; eauto.
  Qed.

  (* ---- the statements -------------------------------------------------------------------- *)
  (* the scanner and the lexical reading agree on where strings and comments are and on the
     open brackets, at every point it reaches *)
  Theorem scanner_agrees_with_lexical_reading cs s :
    bscan b_init cs = Some s ->
    mode_of s = mode_after openers pairs terms cs /\ b_stack s = open_stack openers pairs terms cs.
  Proof.
    intros H. pose proof (sim_init cs) as Hv. rewrite H in Hv. simpl in Hv. symmetry in Hv.
    apply (lex_chk_some (S (length cs))) in Hv; [|lia].
    unfold mode_after, open_stack. rewrite <- Hv. split; reflexivity.
  Qed.

  Theorem accepted_is_within_depth cs s :
    bscan b_init cs = Some s ->
    forall k, (length (open_stack openers pairs terms (firstn k cs)) <= max_depth)%nat.
  Proof.
    intros H k. destruct (bscan_prefix cs b_init s k H) as [sk Hk].
    destruct (scanner_agrees_with_lexical_reading _ _ Hk) as [_ <-].
    eapply bscan_len; eauto. simpl. lia.
  Qed.

  Theorem beyond_depth_is_refused cs k :
    (max_depth < length (open_stack openers pairs terms (firstn k cs)))%nat ->
    bscan b_init cs = None.
  Proof.
    intros Hk. destruct (bscan b_init cs) as [s|] eqn:H; [|reflexivity].
    pose proof (accepted_is_within_depth cs s H k). lia.
  Qed.

  (* refused for nesting only when some prefix really is over the limit *)
  Theorem refused_has_deep_prefix cs :
    bscan b_init cs = None ->
    exists k, over (length (open_stack openers pairs terms (firstn k cs))) = true.
  Proof.
    intros H. pose proof (sim_init cs) as Hv. rewrite H in Hv. simpl in Hv. symmetry in Hv.
    apply (lex_chk_none (S (length cs))) in Hv; [|lia]. exact Hv.
  Qed.
End Proofs.

Lemma validate_ok_iff openers pairs terms max_len len_strict max_depth depth_strict cs :
  validate_parser_budget openers pairs terms max_len len_strict max_depth depth_strict cs = BOk ->
  (input_len cs <= max_len)%N /\
  exists s, bscan openers pairs terms max_depth depth_strict b_init cs = Some s.
Proof.
  unfold validate_parser_budget.
  destruct len_strict.
  - destruct (max_len <? input_len cs) eqn:Hl; [discriminate|].
    destruct (bscan _ _ _ _ _ _ _) as [s|]; [|discriminate]. intros _. split; [|eauto].
    apply N.ltb_ge in Hl. exact Hl.
  - destruct (max_len <=? input_len cs) eqn:Hl; [discriminate|].
    destruct (bscan _ _ _ _ _ _ _) as [s|]; [|discriminate]. intros _. split; [|eauto].
    apply N.leb_gt in Hl. lia.
Qed.
