(* C15 — a reference tokenizer for KIP text: what "the same tokens up to keyword case,
   inter-token whitespace and comments" means.  No proofs here (LexProofs.v).

   Tokens: a quoted string (raw content between the quotes, escapes kept), a word (a maximal run
   of ASCII letters, digits, '_', '?', '.'), or one punctuation character.  Whitespace
   (char::is_whitespace) and line comments (two slashes up to and including the next newline)
   separate tokens and are dropped.  The tokenizer is deliberately finer than the grammar (":x",
   "&&", "-1" are several tokens): the harness inserts trivia only at grammar-token boundaries;
   this file certifies that what it produced differs from the base text by trivia and case
   only. *)
From Coq Require Import List NArith Bool.
From Verif Require Import Kip.Budget.
Import ListNotations.
Local Open Scope N_scope.

Inductive token := TWord (w : list N) | TStr (s : list N) | TPunct (c : N).

(* Rust char::is_whitespace (White_Space) *)
Definition is_ws (c : N) : bool :=
  ((9 <=? c) && (c <=? 13)) || (c =? 32) || (c =? 133) || (c =? 160) || (c =? 5760) ||
  ((8192 <=? c) && (c <=? 8202)) || (c =? 8232) || (c =? 8233) || (c =? 8239) || (c =? 8287) ||
  (c =? 12288).

Definition is_upper (c : N) : bool := (65 <=? c) && (c <=? 90).
Definition is_lower (c : N) : bool := (97 <=? c) && (c <=? 122).
Definition is_letter (c : N) : bool := is_upper c || is_lower c.
Definition is_digit (c : N) : bool := (48 <=? c) && (c <=? 57).
Definition is_wordc (c : N) : bool :=
  is_letter c || is_digit c || (c =? 95) || (c =? 63) || (c =? 46).   (* _ ? . *)

Inductive tmode := LCode | LSlash | LStr | LStrEsc | LComment.

(* a finished word (the accumulator is reversed) *)
Definition flush (acc : list N) : list token :=
  match acc with [] => [] | _ => [TWord (rev acc)] end.

(* one character in code position: emitted tokens, next mode, next accumulator *)
Definition code_char (acc : list N) (c : N) : list token * tmode * list N :=
  if is_ws c then (flush acc, LCode, [])
  else if c =? c_slash then (flush acc, LSlash, [])
  else if c =? c_quote then (flush acc, LStr, [])
  else if is_wordc c then ([], LCode, c :: acc)
  else (flush acc ++ [TPunct c], LCode, []).

Section Lexer.
  (* the characters at which a line comment ends (gen: trivia_comment_terms) *)
  Variable terms : list N.
  Definition is_cterm (c : N) : bool := existsb (N.eqb c) terms.

Definition tstep (m : tmode) (acc : list N) (c : N) : list token * tmode * list N :=
  match m with
  | LComment => ([], (if is_cterm c then LCode else LComment), [])
  | LStrEsc => ([], LStr, c :: acc)
  | LStr => if c =? c_bslash then ([], LStrEsc, c :: acc)
            else if c =? c_quote then ([TStr (rev acc)], LCode, [])
            else ([], LStr, c :: acc)
  | LSlash => if c =? c_slash then ([], LComment, [])
              else let '(out, m', acc') := code_char [] c in (TPunct c_slash :: out, m', acc')
  | LCode => code_char acc c
  end.

(* tokens emitted while reading [cs], and the state reached *)
Fixpoint run (m : tmode) (acc : list N) (cs : list N) : list token * tmode * list N :=
  match cs with
  | [] => ([], m, acc)
  | c :: r => let '(out, m', acc') := tstep m acc c in
              let '(out2, m2, acc2) := run m' acc' r in (out ++ out2, m2, acc2)
  end.

(* what is still pending at the end of the text *)
Definition finish (m : tmode) (acc : list N) : list token :=
  match m with
  | LCode => flush acc
  | LSlash => [TPunct c_slash]
  | LStr | LStrEsc => [TStr (rev acc)]       (* unterminated string *)
  | LComment => []
  end.

Definition tokens (cs : list N) : list token :=
  let '(out, m, acc) := run LCode [] cs in out ++ finish m acc.

(* ---- case ------------------------------------------------------------------------------ *)
Definition upper (c : N) : N := if is_lower c then c - 32 else c.
Definition flipc (c : N) : N := if is_lower c then c - 32 else if is_upper c then c + 32 else c.

Definition norm (t : token) : token :=
  match t with TWord w => TWord (map upper w) | _ => t end.
Definition tokens_ci (cs : list N) : list token := map norm (tokens cs).

(* flip the case of the letters selected by [mask], but only where the tokenizer reads a word
   character in code position (never inside strings or comments) *)
Fixpoint flip_words (m : tmode) (acc : list N) (mask : list bool) (cs : list N) : list N :=
  match cs with
  | [] => []
  | c :: r =>
    let b := match mask with b :: _ => b | [] => false end in
    let mask' := tl mask in
    let in_code := match m with LCode | LSlash => true | _ => false end in
    let c' := if in_code && b && is_letter c then flipc c else c in
    let '(_, m', acc') := tstep m acc c in
    c' :: flip_words m' acc' mask' r
  end.

(* ---- trivia ------------------------------------------------------------------------------ *)
Inductive trivia : list N -> Prop :=
| tr_ws c : is_ws c = true -> trivia [c]
| tr_comment body t : (forall x, In x body -> is_cterm x = false) -> is_cterm t = true ->
                      trivia (c_slash :: c_slash :: body ++ [t])
| tr_app t1 t2 : trivia t1 -> trivia t2 -> trivia (t1 ++ t2).

Definition starts_word (cs : list N) : bool :=
  match cs with c :: _ => is_wordc c | [] => false end.

(* the executable relation used on the harness's pairs *)
Fixpoint codes_eqb (x y : list N) : bool :=
  match x, y with
  | [], [] => true
  | p :: x', q :: y' => (p =? q) && codes_eqb x' y'
  | _, _ => false
  end.

Definition tok_eqb (a b : token) : bool :=
  match a, b with
  | TWord x, TWord y => codes_eqb x y
  | TStr x, TStr y => codes_eqb x y
  | TPunct p, TPunct q => p =? q
  | _, _ => false
  end.

Fixpoint toks_eqb (a b : list token) : bool :=
  match a, b with
  | [], [] => true
  | x :: a', y :: b' => tok_eqb x y && toks_eqb a' b'
  | _, _ => false
  end.

Definition lex_equiv (a b : list N) : bool := toks_eqb (tokens_ci a) (tokens_ci b).
End Lexer.
