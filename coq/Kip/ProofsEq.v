(* C16 — the structural equality tests of Kip/Run.v reflect equality: when a runner
   comparison answers [true] the two terms are equal, so a passing correspondence case
   cannot hide a difference between the model's result and what the implementation produced. *)
From Coq Require Import List String Bool Arith.
From Verif Require Import Kip.Model Kip.Safe Kip.Desugar Kip.Run.
Import ListNotations.
Open Scope string_scope.
Open Scope list_scope.

Ltac split_and :=
  repeat match goal with H : _ && _ = true |- _ => apply andb_true_iff in H; destruct H end.

Ltac destr_snd := match goal with |- _ = ?y => destruct y end.

Lemma seqb x y : String.eqb x y = true -> x = y.
Proof. apply String.eqb_eq. Qed.
Lemma beqb x y : Bool.eqb x y = true -> x = y.
Proof. apply Bool.eqb_prop. Qed.
Create HintDb eqs.
#[local] Hint Resolve seqb beqb : eqs.

Lemma opt_eqb_sound {A} (f : A -> A -> bool) :
  (forall x y, f x y = true -> x = y) -> forall a b, opt_eqb f a b = true -> a = b.
Proof. intros Hf [x|] [y|] H; simpl in H; try discriminate; auto. f_equal. auto. Qed.

Lemma list_eqb_sound {A} (f : A -> A -> bool) :
  (forall x y, f x y = true -> x = y) -> forall a b, list_eqb f a b = true -> a = b.
Proof.
  intros Hf a. induction a as [|x a IH]; intros [|y b] H; simpl in H; try discriminate; auto.
  split_and. f_equal; auto.
Qed.

Lemma pair_eqb_sound {A B} (f : A -> A -> bool) (g : B -> B -> bool) :
  (forall x y, f x y = true -> x = y) -> (forall x y, g x y = true -> x = y) ->
  forall a b, pair_eqb f g a b = true -> a = b.
Proof. intros Hf Hg [a1 a2] [b1 b2] H. unfold pair_eqb in H. simpl in H. split_and. f_equal; auto. Qed.

Scheme kv_mind := Induction for kv Sort Prop
  with kvs_mind := Induction for kvs Sort Prop.
Combined Scheme kv_mutind from kv_mind, kvs_mind.

Lemma kv_eqb_sound_both :
  (forall a b, kv_eqb a b = true -> a = b) /\ (forall a b, kvs_eqb a b = true -> a = b).
Proof.
  apply kv_mutind; intros; destr_snd; simpl in *; try discriminate; split_and; f_equal; auto with eqs.
Qed.
Definition kv_eqb_sound := proj1 kv_eqb_sound_both.
#[local] Hint Resolve kv_eqb_sound : eqs.

Ltac leaf := intros a b H; destruct a, b; simpl in H; try discriminate; split_and; f_equal; auto with eqs.

Lemma scalar_eqb_sound : forall a b, scalar_eqb a b = true -> a = b. Proof. leaf. Qed.
Lemma symref_eqb_sound : forall a b, symref_eqb a b = true -> a = b. Proof. leaf. Qed.
Lemma eref_eqb_sound : forall a b, eref_eqb a b = true -> a = b. Proof. leaf. Qed.
Lemma pathstep_eqb_sound : forall a b, pathstep_eqb a b = true -> a = b. Proof. leaf. Qed.
Lemma predatom_eqb_sound : forall a b, predatom_eqb a b = true -> a = b. Proof. leaf. Qed.
Lemma ufunc_eqb_sound : forall a b, ufunc_eqb a b = true -> a = b. Proof. leaf. Qed.
Lemma ecode_eqb_sound : forall a b, ecode_eqb a b = true -> a = b. Proof. leaf. Qed.
#[local] Hint Resolve scalar_eqb_sound symref_eqb_sound eref_eqb_sound pathstep_eqb_sound
  predatom_eqb_sound ufunc_eqb_sound ecode_eqb_sound : eqs.

Lemma verdict_eqb_sound : forall a b, verdict_eqb a b = true -> a = b. Proof. leaf. Qed.

Lemma dotpath_eqb_sound : forall a b, dotpath_eqb a b = true -> a = b.
Proof.
  intros [v p] [v' p'] H. unfold dotpath_eqb in H. simpl in H. split_and. f_equal; auto with eqs.
  eapply list_eqb_sound; eauto with eqs.
Qed.
#[local] Hint Resolve dotpath_eqb_sound : eqs.

Lemma predterm_eqb_sound : forall a b, predterm_eqb a b = true -> a = b.
Proof.
  intros [a|l] [b|l'] H; simpl in H; try discriminate; f_equal; auto with eqs.
  eapply list_eqb_sound; [|exact H]. apply pair_eqb_sound; auto with eqs.
  apply opt_eqb_sound. auto with eqs.
Qed.
#[local] Hint Resolve predterm_eqb_sound : eqs.

Scheme term_mind2 := Induction for term Sort Prop
  with matchv_mind2 := Induction for matchv Sort Prop
  with matchvs_mind2 := Induction for matchvs Sort Prop
  with matcher_mind2 := Induction for matcher Sort Prop
  with propm_mind2 := Induction for propm Sort Prop.
Combined Scheme tm_mutind2 from term_mind2, matchv_mind2, matchvs_mind2, matcher_mind2, propm_mind2.

Lemma term_eqb_sound_all :
  (forall a b, term_eqb a b = true -> a = b) /\
  (forall a b, matchv_eqb a b = true -> a = b) /\
  (forall a b, matchvs_eqb a b = true -> a = b) /\
  (forall a b, matcher_eqb a b = true -> a = b) /\
  (forall a b, propm_eqb a b = true -> a = b).
Proof.
  apply tm_mutind2; intros; destr_snd; simpl in *; try discriminate; split_and; f_equal; auto with eqs.
Qed.
Definition term_eqb_sound := proj1 term_eqb_sound_all.
#[local] Hint Resolve term_eqb_sound : eqs.

Scheme bv_mind := Induction for bv Sort Prop
  with bvs_mind := Induction for bvs Sort Prop
  with bvo_mind := Induction for bvo Sort Prop.
Combined Scheme bv_mutind from bv_mind, bvs_mind, bvo_mind.

Lemma bv_eqb_sound_all :
  (forall a b, bv_eqb a b = true -> a = b) /\
  (forall a b, bvs_eqb a b = true -> a = b) /\
  (forall a b, bvo_eqb a b = true -> a = b).
Proof.
  apply bv_mutind; intros; destr_snd; simpl in *; try discriminate; split_and; f_equal; auto with eqs.
Qed.
Definition bv_eqb_sound := proj1 bv_eqb_sound_all.
Definition bvs_eqb_sound := proj1 (proj2 bv_eqb_sound_all).
Definition bvo_eqb_sound := proj2 (proj2 bv_eqb_sound_all).
#[local] Hint Resolve bv_eqb_sound bvs_eqb_sound bvo_eqb_sound : eqs.

Scheme uexpr_mind := Induction for uexpr Sort Prop
  with uexprs_mind := Induction for uexprs Sort Prop.
Combined Scheme uexpr_mutind from uexpr_mind, uexprs_mind.

Lemma uexpr_eqb_sound_all :
  (forall a b, uexpr_eqb a b = true -> a = b) /\ (forall a b, uexprs_eqb a b = true -> a = b).
Proof.
  apply uexpr_mutind; intros; destr_snd; simpl in *; try discriminate; split_and; f_equal; auto with eqs.
Qed.
Definition uexpr_eqb_sound := proj1 uexpr_eqb_sound_all.
#[local] Hint Resolve uexpr_eqb_sound : eqs.

Lemma mutval_eqb_sound : forall a b, mutval_eqb a b = true -> a = b. Proof. leaf. Qed.
#[local] Hint Resolve mutval_eqb_sound : eqs.

Lemma assignments_eqb_sound : forall a b, assignments_eqb a b = true -> a = b.
Proof. apply list_eqb_sound, pair_eqb_sound; auto with eqs. Qed.
Lemma bobject_eqb_sound : forall a b, bobject_eqb a b = true -> a = b.
Proof. apply list_eqb_sound, pair_eqb_sound; auto with eqs. Qed.
#[local] Hint Resolve assignments_eqb_sound bobject_eqb_sound : eqs.

Lemma facet_eqb_sound : forall a b, facet_eqb a b = true -> a = b.
Proof. intros [f v] [f' v'] H. unfold facet_eqb in H. simpl in H. split_and. f_equal; auto with eqs. Qed.

Lemma sedge_eqb_sound : forall a b, sedge_eqb a b = true -> a = b.
Proof.
  intros [f v o] [f' v' o'] H. unfold sedge_eqb in H. simpl in H. split_and. f_equal; auto with eqs.
  eapply opt_eqb_sound; eauto with eqs.
Qed.
#[local] Hint Resolve facet_eqb_sound sedge_eqb_sound : eqs.

Lemma record_eqb_sound : forall a b, record_eqb a b = true -> a = b.
Proof.
  intros [h k f fs st] [h' k' f' fs' st'] H. unfold record_eqb in H. simpl in H. split_and.
  f_equal; auto with eqs.
  - eapply opt_eqb_sound; eauto with eqs.
  - eapply opt_eqb_sound; eauto with eqs.
  - eapply list_eqb_sound; eauto with eqs.
  - eapply opt_eqb_sound; [|eassumption]. apply list_eqb_sound. auto with eqs.
Qed.

Lemma ensure_eqb_sound : forall a b, ensure_eqb a b = true -> a = b.
Proof.
  intros [h s p o v] [h' s' p' o' v'] H. unfold ensure_eqb in H. simpl in H. split_and.
  f_equal; auto with eqs; eapply opt_eqb_sound; eauto with eqs.
Qed.

Lemma by_eqb_sound : forall a b, by_eqb a b = true -> a = b.
Proof.
  intros [t b s] [t' b' s'] H. unfold by_eqb in H. simpl in H. split_and.
  f_equal; auto with eqs. eapply opt_eqb_sound; eauto with eqs.
Qed.

Lemma assert_clause_eqb_sound : forall a b, assert_clause_eqb a b = true -> a = b.
Proof.
  intros a b H. destruct a, b; simpl in H; try discriminate; f_equal;
    auto using ensure_eqb_sound, record_eqb_sound, by_eqb_sound.
Qed.

(* ------------------------------------------------------------------ and conversely: equal terms test equal *)
Create HintDb eqr.
Lemma breflx b : Bool.eqb b b = true. Proof. destruct b; reflexivity. Qed.
#[local] Hint Rewrite String.eqb_refl breflx andb_true_l : eqr.
Ltac refl_tac := simpl; autorewrite with eqr; repeat match goal with H : _ = true |- _ => rewrite H end; simpl; auto.

Lemma opt_eqb_refl {A} (f : A -> A -> bool) : (forall x, f x x = true) -> forall a, opt_eqb f a a = true.
Proof. intros H [x|]; simpl; auto. Qed.
Lemma list_eqb_refl {A} (f : A -> A -> bool) : (forall x, f x x = true) -> forall a, list_eqb f a a = true.
Proof. intros H a. induction a; simpl; auto. rewrite H, IHa. reflexivity. Qed.
Lemma pair_eqb_refl {A B} (f : A -> A -> bool) (g : B -> B -> bool) :
  (forall x, f x x = true) -> (forall x, g x x = true) -> forall a, pair_eqb f g a a = true.
Proof. intros Hf Hg [a b]. unfold pair_eqb. simpl. rewrite Hf, Hg. reflexivity. Qed.

Lemma kv_eqb_refl_both : (forall a, kv_eqb a a = true) /\ (forall a, kvs_eqb a a = true).
Proof. apply kv_mutind; intros; refl_tac. Qed.
Definition kv_eqb_refl := proj1 kv_eqb_refl_both.
#[local] Hint Rewrite kv_eqb_refl : eqr.
Lemma scalar_eqb_refl a : scalar_eqb a a = true. Proof. destruct a; refl_tac. Qed.
Lemma symref_eqb_refl a : symref_eqb a a = true. Proof. destruct a; refl_tac. Qed.
Lemma eref_eqb_refl a : eref_eqb a a = true. Proof. destruct a; refl_tac. Qed.
Lemma pathstep_eqb_refl a : pathstep_eqb a a = true. Proof. destruct a; refl_tac. Qed.
Lemma predatom_eqb_refl a : predatom_eqb a a = true. Proof. destruct a; refl_tac. Qed.
Lemma ufunc_eqb_refl a : ufunc_eqb a a = true. Proof. destruct a; refl_tac. Qed.
#[local] Hint Rewrite scalar_eqb_refl symref_eqb_refl eref_eqb_refl pathstep_eqb_refl predatom_eqb_refl ufunc_eqb_refl : eqr.
Lemma dotpath_eqb_refl a : dotpath_eqb a a = true.
Proof. destruct a. unfold dotpath_eqb. simpl. rewrite String.eqb_refl, (list_eqb_refl _ pathstep_eqb_refl). reflexivity. Qed.
Lemma predterm_eqb_refl a : predterm_eqb a a = true.
Proof.
  destruct a; simpl; [apply predatom_eqb_refl|].
  apply list_eqb_refl, pair_eqb_refl; [apply predatom_eqb_refl | apply opt_eqb_refl, String.eqb_refl].
Qed.
#[local] Hint Rewrite dotpath_eqb_refl predterm_eqb_refl : eqr.
Lemma term_eqb_refl_all :
  (forall a, term_eqb a a = true) /\ (forall a, matchv_eqb a a = true) /\ (forall a, matchvs_eqb a a = true) /\
  (forall a, matcher_eqb a a = true) /\ (forall a, propm_eqb a a = true).
Proof. apply tm_mutind2; intros; refl_tac. Qed.
Definition term_eqb_refl := proj1 term_eqb_refl_all.
Lemma bv_eqb_refl_all : (forall a, bv_eqb a a = true) /\ (forall a, bvs_eqb a a = true) /\ (forall a, bvo_eqb a a = true).
Proof. apply bv_mutind; intros; refl_tac. Qed.
Definition bv_eqb_refl := proj1 bv_eqb_refl_all.
Definition bvs_eqb_refl := proj1 (proj2 bv_eqb_refl_all).
Definition bvo_eqb_refl := proj2 (proj2 bv_eqb_refl_all).
Lemma uexpr_eqb_refl_all : (forall a, uexpr_eqb a a = true) /\ (forall a, uexprs_eqb a a = true).
Proof. apply uexpr_mutind; intros; refl_tac. Qed.
Definition uexpr_eqb_refl := proj1 uexpr_eqb_refl_all.
#[local] Hint Rewrite term_eqb_refl bv_eqb_refl bvs_eqb_refl bvo_eqb_refl uexpr_eqb_refl : eqr.
Lemma mutval_eqb_refl a : mutval_eqb a a = true. Proof. destruct a; refl_tac. Qed.
Lemma assignments_eqb_refl a : assignments_eqb a a = true.
Proof. apply list_eqb_refl, pair_eqb_refl; [apply String.eqb_refl | apply mutval_eqb_refl]. Qed.
Lemma bobject_eqb_refl a : bobject_eqb a a = true.
Proof. apply list_eqb_refl, pair_eqb_refl; [apply String.eqb_refl | apply bv_eqb_refl]. Qed.
Lemma facet_eqb_refl a : facet_eqb a a = true.
Proof. destruct a. unfold facet_eqb. simpl. rewrite symref_eqb_refl, assignments_eqb_refl. reflexivity. Qed.
Lemma sedge_eqb_refl a : sedge_eqb a a = true.
Proof. destruct a. unfold sedge_eqb. simpl. rewrite symref_eqb_refl, mutval_eqb_refl, (opt_eqb_refl _ bobject_eqb_refl). reflexivity. Qed.
Lemma record_eqb_refl a : record_eqb a a = true.
Proof.
  destruct a. unfold record_eqb. simpl.
  rewrite String.eqb_refl, (opt_eqb_refl _ scalar_eqb_refl), (opt_eqb_refl _ assignments_eqb_refl),
    (list_eqb_refl _ facet_eqb_refl), (opt_eqb_refl _ (list_eqb_refl _ sedge_eqb_refl)). reflexivity.
Qed.
Lemma ensure_eqb_refl a : ensure_eqb a a = true.
Proof.
  destruct a. unfold ensure_eqb. simpl.
  rewrite (opt_eqb_refl _ String.eqb_refl), !term_eqb_refl, predatom_eqb_refl, (opt_eqb_refl _ scalar_eqb_refl). reflexivity.
Qed.
Lemma by_eqb_refl a : by_eqb a a = true.
Proof. destruct a. unfold by_eqb. simpl. rewrite !eref_eqb_refl, (opt_eqb_refl _ scalar_eqb_refl). reflexivity. Qed.

(* on the clause kinds an ASSERT can expand to, the test decides equality *)
Definition assert_kind (c : clause) : Prop :=
  match c with EnsureProposition _ | CreateAssertion _ | SupersedeAssertion _ => True | _ => False end.
Lemma assert_clause_eqb_refl c : assert_kind c -> assert_clause_eqb c c = true.
Proof. destruct c; simpl; intro H; try contradiction; auto using ensure_eqb_refl, record_eqb_refl, by_eqb_refl. Qed.

Lemma verdict_eqb_refl a : verdict_eqb a a = true.
Proof. destruct a as [|c]; simpl; auto. destruct c; reflexivity. Qed.

Theorem runner_equality_reflects :
  (forall a b, ensure_eqb a b = true <-> a = b) /\ (forall a b, record_eqb a b = true <-> a = b) /\
  (forall a b, by_eqb a b = true <-> a = b) /\ (forall a b, verdict_eqb a b = true <-> a = b).
Proof.
  repeat split; intros; subst;
    auto using ensure_eqb_sound, record_eqb_sound, by_eqb_sound, verdict_eqb_sound,
               ensure_eqb_refl, record_eqb_refl, by_eqb_refl, verdict_eqb_refl.
Qed.

(* ------------------------------------------------------------------ what a passing case means *)
Theorem check_verdict_sound c v : check_verdict (c, v) = true -> run_validate c = v.
Proof. unfold check_verdict. simpl. apply verdict_eqb_sound. Qed.

Theorem check_desugar_sound a seq obs : check_desugar (a, seq, obs) = true -> run_desugar a seq = obs.
Proof.
  unfold check_desugar. apply opt_eqb_sound, list_eqb_sound, assert_clause_eqb_sound.
Qed.

Theorem check_tree_sound c v :
  check_tree (c, v) = true -> run_validate c = v /\ (v = VOk -> safe_b c = true).
Proof.
  unfold check_tree, check_safe. simpl. intro H. apply andb_true_iff in H. destruct H as [H1 H2].
  split; [apply check_verdict_sound, H1|]. intros ->. exact H2.
Qed.
