(* C16 — the validator instantiated with the tables regenerated from the source
   (gen/Gen_Kip.v), and the case runners used by the correspondence check.
   The structural equality tests below are runner code (used to compare the model's
   ASSERT expansion with the clauses the implementation produced); no theorem depends
   on them. *)
From Coq Require Import List String Bool Arith.
From Verif Require Import Kip.Model Kip.Safe Kip.Desugar gen.Gen_Kip.
Import ListNotations.
Open Scope string_scope.
Open Scope list_scope.

Fixpoint assoc_nat (k : string) (l : list (string * nat)) : nat :=
  match l with [] => 0 | (k', n) :: tl => if String.eqb k' k then n else assoc_nat k tl end.

Definition gen_arity (f : ufunc) : nat :=
  assoc_nat (match f with FAdd => "Add" | FMul => "Mul" | FClamp => "Clamp" | FCoalesce => "Coalesce" end)
            Gen_Kip.update_arity.

Fixpoint assoc_list (k : string) (l : list (string * string)) : option string :=
  match l with [] => None | (k', v) :: tl => if String.eqb k' k then Some v else assoc_list k tl end.

(* guard_immutable_field: the constant table each kind is checked against *)
Definition table_named (n : option string) : list string :=
  match n with
  | Some "ASSERTION_IMMUTABLE" => Gen_Kip.ASSERTION_IMMUTABLE
  | Some "EVIDENCE_IMMUTABLE" => Gen_Kip.EVIDENCE_IMMUTABLE
  | Some "PROPOSITION_IMMUTABLE" => Gen_Kip.PROPOSITION_IMMUTABLE
  | _ => []
  end.

Definition gen_cfg : consts :=
  mkConsts Gen_Kip.PROTECTED_FIELDS
           (table_named (assoc_list "Assertion" Gen_Kip.immutable_guard))
           (table_named (assoc_list "Evidence" Gen_Kip.immutable_guard))
           (table_named (assoc_list "Proposition" Gen_Kip.immutable_guard))
           gen_arity
           Gen_Kip.upsert_identity_fields
           Gen_Kip.purge_literal
           Gen_Kip.structural_rejects.

(* ------------------------------------------------------------------ tree cases *)
Definition ecode_eqb (a b : ecode) : bool :=
  match a, b with
  | InvalidSyntax, InvalidSyntax | DuplicateLocalHandle, DuplicateLocalHandle
  | ReferenceError, ReferenceError => true
  | _, _ => false
  end.
Definition verdict_eqb (a b : verdict) : bool :=
  match a, b with VOk, VOk => true | VErr x, VErr y => ecode_eqb x y | _, _ => false end.

Definition run_validate (c : command) : verdict := validate_command gen_cfg c.

(* model verdict = observed verdict *)
Definition check_verdict (co : command * verdict) : bool := verdict_eqb (run_validate (fst co)) (snd co).
(* a tree the implementation accepted is Safe *)
Definition check_safe (co : command * verdict) : bool := if is_ok (snd co) then safe_b (fst co) else true.
Definition check_tree (co : command * verdict) : bool := check_verdict co && check_safe co.

(* ------------------------------------------------------------------ structural equality (runner) *)
Definition opt_eqb {A} (f : A -> A -> bool) (a b : option A) : bool :=
  match a, b with Some x, Some y => f x y | None, None => true | _, _ => false end.
Fixpoint list_eqb {A} (f : A -> A -> bool) (a b : list A) : bool :=
  match a, b with [] , [] => true | x :: a', y :: b' => f x y && list_eqb f a' b' | _, _ => false end.
Definition pair_eqb {A B} (f : A -> A -> bool) (g : B -> B -> bool) (a b : A * B) : bool :=
  f (fst a) (fst b) && g (snd a) (snd b).

Fixpoint kv_eqb (a b : kv) : bool :=
  match a, b with
  | KNull, KNull => true
  | KBool x, KBool y => Bool.eqb x y
  | KNum x, KNum y | KStr x, KStr y | KObj x, KObj y => String.eqb x y
  | KArr x, KArr y => kvs_eqb x y
  | _, _ => false
  end
with kvs_eqb (a b : kvs) : bool :=
  match a, b with
  | KVNil, KVNil => true
  | KVCons x a', KVCons y b' => kv_eqb x y && kvs_eqb a' b'
  | _, _ => false
  end.

Definition scalar_eqb (a b : scalar) : bool :=
  match a, b with SLit x, SLit y => kv_eqb x y | SParam x, SParam y => String.eqb x y | _, _ => false end.
Definition symref_eqb (a b : symref) : bool :=
  match a, b with SymName x, SymName y | SymParam x, SymParam y => String.eqb x y | _, _ => false end.
Definition eref_eqb (a b : eref) : bool :=
  match a, b with EHandle x, EHandle y | EParam x, EParam y | EId x, EId y => String.eqb x y | _, _ => false end.
Definition pathstep_eqb (a b : pathstep) : bool :=
  match a, b with PField x, PField y | PKey x, PKey y => String.eqb x y | _, _ => false end.
Definition dotpath_eqb (a b : dotpath) : bool :=
  String.eqb (dp_var a) (dp_var b) && list_eqb pathstep_eqb (dp_path a) (dp_path b).
Definition predatom_eqb (a b : predatom) : bool :=
  match a, b with PAVar x, PAVar y | PALit x, PALit y | PAParam x, PAParam y => String.eqb x y | _, _ => false end.
Definition predterm_eqb (a b : predterm) : bool :=
  match a, b with
  | PTAtom x, PTAtom y => predatom_eqb x y
  | PTPath x, PTPath y => list_eqb (pair_eqb predatom_eqb (opt_eqb String.eqb)) x y
  | _, _ => false
  end.

Fixpoint term_eqb (a b : term) : bool :=
  match a, b with
  | TVar x, TVar y | TParam x, TParam y => String.eqb x y
  | TLit x, TLit y => kv_eqb x y
  | TMatch x, TMatch y => matcher_eqb x y
  | TProp x, TProp y => propm_eqb x y
  | _, _ => false
  end
with matchv_eqb (a b : matchv) : bool :=
  match a, b with
  | MVVar x, MVVar y | MVParam x, MVParam y => String.eqb x y
  | MVLit x, MVLit y => kv_eqb x y
  | MVArray x, MVArray y => matchvs_eqb x y
  | MVMatch x, MVMatch y => matcher_eqb x y
  | MVProp x, MVProp y => propm_eqb x y
  | _, _ => false
  end
with matchvs_eqb (a b : matchvs) : bool :=
  match a, b with
  | MVNil, MVNil => true
  | MVCons x a', MVCons y b' => matchv_eqb x y && matchvs_eqb a' b'
  | _, _ => false
  end
with matcher_eqb (a b : matcher) : bool :=
  match a, b with
  | MNil, MNil => true
  | MCons k x a', MCons k' y b' => String.eqb k k' && matchv_eqb x y && matcher_eqb a' b'
  | _, _ => false
  end
with propm_eqb (a b : propm) : bool :=
  match a, b with
  | PMTuple s p o, PMTuple s' p' o' => term_eqb s s' && predterm_eqb p p' && term_eqb o o'
  | PMId x, PMId y => scalar_eqb x y
  | _, _ => false
  end.

Fixpoint bv_eqb (a b : bv) : bool :=
  match a, b with
  | BVal x, BVal y => kv_eqb x y
  | BParam x, BParam y | BHandle x, BHandle y => String.eqb x y
  | BVar x, BVar y => dotpath_eqb x y
  | BArray x, BArray y => bvs_eqb x y
  | BObject x, BObject y => bvo_eqb x y
  | _, _ => false
  end
with bvs_eqb (a b : bvs) : bool :=
  match a, b with
  | BNil, BNil => true
  | BCons x a', BCons y b' => bv_eqb x y && bvs_eqb a' b'
  | _, _ => false
  end
with bvo_eqb (a b : bvo) : bool :=
  match a, b with
  | BONil, BONil => true
  | BOCons k x a', BOCons k' y b' => String.eqb k k' && bv_eqb x y && bvo_eqb a' b'
  | _, _ => false
  end.

Definition ufunc_eqb (a b : ufunc) : bool :=
  match a, b with FAdd, FAdd | FMul, FMul | FClamp, FClamp | FCoalesce, FCoalesce => true | _, _ => false end.
Fixpoint uexpr_eqb (a b : uexpr) : bool :=
  match a, b with
  | UVar x, UVar y => dotpath_eqb x y
  | UNum x, UNum y | UParam x, UParam y => String.eqb x y
  | UFun f x, UFun g y => ufunc_eqb f g && uexprs_eqb x y
  | _, _ => false
  end
with uexprs_eqb (a b : uexprs) : bool :=
  match a, b with
  | UNil, UNil => true
  | UCons x a', UCons y b' => uexpr_eqb x y && uexprs_eqb a' b'
  | _, _ => false
  end.

Definition mutval_eqb (a b : mutval) : bool :=
  match a, b with
  | MVal x, MVal y => kv_eqb x y
  | MParam x, MParam y | MHandle x, MHandle y => String.eqb x y
  | MVarP x, MVarP y => dotpath_eqb x y
  | MArray x, MArray y => bvs_eqb x y
  | MObject x, MObject y => bvo_eqb x y
  | MExpr x, MExpr y => uexpr_eqb x y
  | _, _ => false
  end.

Definition assignments_eqb : assignments -> assignments -> bool := list_eqb (pair_eqb String.eqb mutval_eqb).
Definition facet_eqb (a b : facet_assign) : bool :=
  symref_eqb (fa_facet a) (fa_facet b) && assignments_eqb (fa_values a) (fa_values b).
Definition bobject_eqb : bobject -> bobject -> bool := list_eqb (pair_eqb String.eqb bv_eqb).
Definition sedge_eqb (a b : sedge) : bool :=
  symref_eqb (se_field a) (se_field b) && mutval_eqb (se_value a) (se_value b) &&
  opt_eqb bobject_eqb (se_options a) (se_options b).

Definition record_eqb (a b : record_create) : bool :=
  String.eqb (rc_handle a) (rc_handle b) && opt_eqb scalar_eqb (rc_client_key a) (rc_client_key b) &&
  opt_eqb assignments_eqb (rc_set_fields a) (rc_set_fields b) &&
  list_eqb facet_eqb (rc_set_facets a) (rc_set_facets b) &&
  opt_eqb (list_eqb sedge_eqb) (rc_set_structural a) (rc_set_structural b).
Definition ensure_eqb (a b : ensure_prop) : bool :=
  opt_eqb String.eqb (ep_handle a) (ep_handle b) && term_eqb (ep_subject a) (ep_subject b) &&
  predatom_eqb (ep_predicate a) (ep_predicate b) && term_eqb (ep_object a) (ep_object b) &&
  opt_eqb scalar_eqb (ep_expect_version a) (ep_expect_version b).
Definition by_eqb (a b : by_stmt) : bool :=
  eref_eqb (by_target a) (by_target b) && eref_eqb (by_by a) (by_by b) &&
  opt_eqb scalar_eqb (by_expect_state a) (by_expect_state b).

(* equality on the three clause kinds an ASSERT expands to; anything else is unequal *)
Definition assert_clause_eqb (a b : clause) : bool :=
  match a, b with
  | EnsureProposition x, EnsureProposition y => ensure_eqb x y
  | CreateAssertion x, CreateAssertion y => record_eqb x y
  | SupersedeAssertion x, SupersedeAssertion y => by_eqb x y
  | _, _ => false
  end.

(* ------------------------------------------------------------------ ASSERT cases
   case: the parts of the statement (each obtained from the implementation through a
   different statement that shares the sub-grammar), its position, and what the
   implementation produced for the ASSERT text: Some clauses, or None when it refused. *)
Definition acase := (assert_src * nat * option (list clause))%type.

Definition run_desugar (a : assert_src) (seq : nat) : option (list clause) :=
  desugar Gen_Kip.ASSERT_MEMBERS seq a.

Definition check_desugar (c : acase) : bool :=
  let '(a, seq, obs) := c in
  opt_eqb (list_eqb assert_clause_eqb) (run_desugar a seq) obs.
