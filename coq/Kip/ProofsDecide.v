(* C16 — [safe_b] decides [Safe]. *)
From Coq Require Import List String Bool Arith.
From Verif Require Import Kip.Model Kip.Safe.
Import ListNotations.
Open Scope string_scope.
Open Scope list_scope.

Lemma mem_In k l : mem k l = true <-> In k l.
Proof.
  unfold mem. rewrite existsb_exists. split.
  - intros [x [H1 H2]]. apply String.eqb_eq in H2. subst. exact H1.
  - intro H. exists k. split; auto. apply String.eqb_refl.
Qed.

Lemma mem_false k l : mem k l = false <-> ~ In k l.
Proof.
  rewrite <- mem_In. destruct (mem k l); split; intro H; try discriminate; auto.
  exfalso. apply H. reflexivity.
Qed.

Lemma negb_mem k l : negb (mem k l) = true <-> ~ In k l.
Proof. rewrite negb_true_iff. apply mem_false. Qed.

Lemma nodupb_NoDup l : nodupb l = true <-> NoDup l.
Proof.
  induction l as [|x tl IH]; simpl.
  - split; intro; [constructor | reflexivity].
  - rewrite andb_true_iff, negb_mem, IH. split.
    + intros [H1 H2]. constructor; auto.
    + intro H. inversion H; subst. auto.
Qed.

Lemma kind_eqb_eq a b : kind_eqb a b = true <-> a = b.
Proof. destruct a, b; simpl; split; intro H; try discriminate; auto. Qed.

Lemma in_all_kinds k : In k all_kinds.
Proof. destruct k; simpl; auto 6. Qed.

Lemma exact_propb_iff p : exact_propb p = true <-> exact_prop p.
Proof.
  destruct p as [s pr o | i]; simpl; [|split; auto].
  destruct pr as [a | pl]; split; intro H.
  - intros l' E. discriminate.
  - reflexivity.
  - discriminate.
  - exfalso. apply (H pl). reflexivity.
Qed.

Lemma forallb_exact l : forallb exact_propb l = true <-> forall p, In p l -> exact_prop p.
Proof.
  rewrite forallb_forall. split; intros H p Hp; apply exact_propb_iff; auto.
Qed.

Lemma is_beliefb_iff c : is_beliefb c = true <-> is_belief c.
Proof. destruct c; simpl; split; intro H; try discriminate; try contradiction; auto. Qed.

Lemma exact_selb_iff ws : exact_selb ws = true <-> ExactSelection ws.
Proof.
  unfold exact_selb, ExactSelection. rewrite forallb_forall. split; intros H c Hc; specialize (H c Hc).
  - rewrite andb_true_iff, negb_true_iff, forallb_exact in H. destruct H as [H1 H2]. split; auto.
    intro Hb. apply is_beliefb_iff in Hb. congruence.
  - destruct H as [H1 H2]. rewrite andb_true_iff, negb_true_iff, forallb_exact. split; auto.
    destruct (is_beliefb c) eqn:E; auto. exfalso. apply H1, is_beliefb_iff, E.
Qed.

Lemma bindsb_iff c x k : bindsb c x k = true <-> binds c x k.
Proof.
  destruct c; simpl; try (split; intro H; [discriminate | contradiction]);
    try (rewrite andb_true_iff, String.eqb_eq, kind_eqb_eq; tauto).
  destruct v as [v|]; [rewrite andb_true_iff, String.eqb_eq, kind_eqb_eq; tauto |].
  split; intro H; [discriminate | contradiction].
Qed.

Lemma is_structural_actionb_iff a : is_structural_actionb a = true <-> is_structural_action a.
Proof. destruct a; simpl; split; intro H; try discriminate; try contradiction; auto. Qed.

Lemma kind_okb_iff u k :
  kind_okb u k = true <->
  ((forall f, In f (set_fields_keys u) -> ~ In f (spec_payload k)) /\
   (k <> KConcept -> forall a, In a (up_actions u) -> ~ is_structural_action a)).
Proof.
  unfold kind_okb. rewrite andb_true_iff, forallb_forall, orb_true_iff, kind_eqb_eq, forallb_forall.
  split.
  - intros [H1 H2]. split.
    + intros f Hf. apply negb_mem. auto.
    + intros Hk a Ha Hs. destruct H2 as [H2|H2]; [contradiction|].
      specialize (H2 a Ha). apply negb_true_iff in H2. apply is_structural_actionb_iff in Hs. congruence.
  - intros [H1 H2]. split.
    + intros f Hf. apply negb_mem. auto.
    + destruct k; try (left; reflexivity); right; intros a Ha; apply negb_true_iff;
        destruct (is_structural_actionb a) eqn:E; auto; exfalso;
        apply (H2 ltac:(discriminate) a Ha), is_structural_actionb_iff, E.
Qed.

Lemma safe_updateb_iff u : safe_updateb u = true <-> SafeUpdate u.
Proof.
  unfold safe_updateb, SafeUpdate, TargetTyped.
  destruct (up_target u) as [x| |] eqn:ET; destruct (up_where u) as [ws|] eqn:EW;
    try (split; [intros _ k [x' [ws' [c [E1 [E2 _]]]]]; discriminate | reflexivity]).
  rewrite forallb_forall. split.
  - intros H k [x' [ws' [c [E1 [E2 [Hin Hb]]]]]]. injection E1 as <-. injection E2 as <-.
    specialize (H c Hin). rewrite forallb_forall in H. specialize (H k (in_all_kinds k)).
    apply bindsb_iff in Hb. rewrite Hb in H. simpl in H. apply kind_okb_iff in H. exact H.
  - intros H c Hc. rewrite forallb_forall. intros k _.
    destruct (bindsb c x k) eqn:E; simpl; auto.
    apply kind_okb_iff. apply H. exists x, ws, c. repeat split; auto. apply bindsb_iff, E.
Qed.

Lemma stable_valueb_iff o :
  Safe.stable_valueb o = true <-> exists v, o = Some v /\ ((exists x, v = MVLit x) \/ (exists x, v = MVParam x)).
Proof.
  destruct o as [v|]; simpl.
  - destruct v; split; intro H; try discriminate; try reflexivity;
      try (eexists; split; [reflexivity|]; eauto; fail);
      destruct H as [v' [E [[x Hx]|[x Hx]]]]; injection E as <-; discriminate.
  - split; [discriminate | intros [v [E _]]; discriminate].
Qed.

Lemma stable_identityb_iff m : stable_identityb m = true <-> StableIdentity m.
Proof.
  unfold stable_identityb, StableIdentity. rewrite orb_true_iff, !stable_valueb_iff. split.
  - intros [[v [E H]]|[v [E H]]]; [exists "id", v | exists "key", v]; auto.
  - intros [f [v [[Hf|Hf] [Hg H]]]]; subst f; [left|right]; exists v; auto.
Qed.

Lemma safe_upsertb_iff c : safe_upsertb c = true <-> SafeUpsert c.
Proof.
  unfold safe_upsertb, SafeUpsert. destruct (cu_match c) as [m|].
  - rewrite andb_true_iff, stable_identityb_iff, forallb_exact. split.
    + intros [H1 H2]. exists m. auto.
    + intros [m' [E [H1 H2]]]. injection E as <-. auto.
  - split; [discriminate | intros [m [E _]]; discriminate].
Qed.

Lemma safe_ensureb_iff e : safe_ensureb e = true <-> SafeEnsure e.
Proof.
  unfold safe_ensureb, SafeEnsure. rewrite !andb_true_iff, !negb_true_iff, forallb_exact. split.
  - intros [[H1 H2] H3]. repeat split; auto.
    + intros n E. rewrite E in H1. discriminate.
    + intros v E. rewrite E in H2. discriminate.
  - intros [H1 [H2 H3]]. repeat split; auto.
    + destruct (ep_predicate e); auto. exfalso. eapply H1. reflexivity.
    + destruct (ep_subject e); auto. exfalso. eapply H2. reflexivity.
Qed.

Lemma written_iff l :
  forallb (fun k => negb (mem k spec_engine_owned)) l = true <-> (forall k, In k l -> ~ In k spec_engine_owned).
Proof. rewrite forallb_forall. split; intros H k Hk; apply negb_mem; auto. Qed.

Lemma selection_iff c :
  match selection c with Some ws => exact_selb ws | None => true end = true <->
  (forall ws, selection c = Some ws -> ExactSelection ws).
Proof.
  destruct (selection c) as [ws|].
  - rewrite exact_selb_iff. split; [intros H ws' E; injection E as <-; auto | auto].
  - split; [intros _ ws E; discriminate | reflexivity].
Qed.

Lemma safe_clauseb_iff c : safe_clauseb c = true <-> SafeClause c.
Proof.
  unfold safe_clauseb, SafeClause. rewrite !andb_true_iff, written_iff, selection_iff.
  destruct c; try rewrite safe_updateb_iff; try rewrite safe_upsertb_iff; try rewrite safe_ensureb_iff;
    try rewrite String.eqb_eq; tauto.
Qed.

Lemma safe_handlesb_iff cs : safe_handlesb cs = true <-> SafeHandles cs.
Proof.
  unfold safe_handlesb, SafeHandles. rewrite andb_true_iff, nodupb_NoDup, forallb_forall.
  split; intros [H1 H2]; split; auto.
  - intros c Hc h Hh. specialize (H2 c Hc). rewrite forallb_forall in H2. specialize (H2 h Hh).
    apply orb_true_iff in H2. destruct H2 as [H2|H2]; [left; apply mem_In, H2|].
    right. destruct (selection c) as [ws|]; [|discriminate]. exists ws. split; auto. apply mem_In, H2.
  - intros c Hc. rewrite forallb_forall. intros h Hh. apply orb_true_iff.
    destruct (H2 c Hc h Hh) as [H|[ws [E H]]]; [left; apply mem_In, H|].
    right. rewrite E. apply mem_In, H.
Qed.

Theorem safe_b_iff c : safe_b c = true <-> Safe c.
Proof.
  destruct c as [|ex cs|t ws o a|]; simpl; try tauto.
  - rewrite andb_true_iff, safe_handlesb_iff, forallb_forall.
    split; intros [H1 H2]; split; auto; intros c Hc; apply safe_clauseb_iff; auto.
  - apply exact_selb_iff.
Qed.
