(* C16 — the ASSERT shorthand (kml.rs assert_statement), transcribed from the point where
   the grammar has produced its parts: the optional handle, the tuple (already through
   structural_tuple), the member block (an [assignments] value: the nom parser has already
   refused engine-owned and duplicate keys there), the optional SUPERSEDING reference, and
   the position [seq] of the statement in its MUTATE block. *)
From Coq Require Import List String Bool Arith Ascii.
From Coq Require Import Decimal DecimalNat DecimalString.
From Verif Require Import Kip.Model.
Import ListNotations.
Open Scope string_scope.
Open Scope list_scope.

Record assert_src := mkAssert {
  as_handle : option string;
  as_subject : term; as_predicate : predatom; as_object : term;
  as_members : assignments;
  as_superseding : option eref }.

Definition lookup (name : string) (ms : assignments) : option mutval :=
  match find (fun kv => String.eqb (fst kv) name) ms with Some kv => Some (snd kv) | None => None end.

Definition dec (n : nat) : string := NilEmpty.string_of_uint (Nat.to_uint n).

Definition assertion_handle (h : option string) (seq : nat) : string :=
  match h with Some h => h | None => String.append "#assert" (dec seq) end.
Definition proposition_handle (h : string) : string := String.append h "#proposition".

Definition support : kv := KStr "support".

(* the `key` member: a literal or a :parameter *)
Definition client_key_of (o : option mutval) : option (option scalar) :=
  match o with
  | Some (MParam n) => Some (Some (SParam n))
  | Some (MVal (KStr s)) => Some (Some (SLit (KStr s)))
  | Some (MVal (KNum n)) => Some (Some (SLit (KNum n)))
  | Some (MVal (KBool b)) => Some (Some (SLit (KBool b)))
  | Some (MVal KNull) => Some (Some (SLit KNull))
  | Some _ => None
  | None => Some None
  end.

Fixpoint kvs_values (l : kvs) : list mutval :=
  match l with KVNil => [] | KVCons v tl => MVal v :: kvs_values tl end.

(* impl From<BoundValue> for MutationValue *)
Definition mutval_of_bv (v : bv) : mutval :=
  match v with
  | BVal v => MVal v | BParam p => MParam p | BHandle h => MHandle h | BVar d => MVarP d
  | BArray l => MArray l | BObject l => MObject l
  end.
Fixpoint bvs_values (l : bvs) : list mutval :=
  match l with BNil => [] | BCons v tl => mutval_of_bv v :: bvs_values tl end.

(* evidence_refs: one citation per artifact *)
Definition evidence_refs (v : mutval) : list mutval :=
  match v with
  | MArray items => bvs_values items
  | MVal (KArr items) => kvs_values items
  | other => [other]
  end.

Definition evidence_edge (v : mutval) : sedge :=
  mkEdge (SymName "evidence") v (Some [("role", BVal support)]).

Definition opt_field (name : string) (o : option mutval) : assignments :=
  match o with Some v => [(name, v)] | None => [] end.

Definition is_pa_var (p : predatom) : bool := match p with PAVar _ => true | _ => false end.

Definition desugar (members_allowed : list string) (seq : nat) (a : assert_src) : option (list clause) :=
  if is_pa_var (as_predicate a) then None else
  if negb (forallb (fun kv => mem (fst kv) members_allowed) (as_members a)) then None else
  match lookup "by" (as_members a) with None => None | Some by_ =>
  match lookup "mode" (as_members a) with None => None | Some mode =>
  let stance := match lookup "stance" (as_members a) with Some v => v | None => MVal support end in
  match client_key_of (lookup "key" (as_members a)) with None => None | Some client_key =>
  let ah := assertion_handle (as_handle a) seq in
  let ph := proposition_handle ah in
  let set_fields :=
    [("proposition", MHandle ph); ("asserted_by", by_); ("mode", mode); ("stance", stance)] ++
    opt_field "confidence" (lookup "confidence" (as_members a)) ++
    opt_field "asserted_at" (lookup "at" (as_members a)) ++
    opt_field "valid_time" (lookup "valid" (as_members a)) in
  let edges := match lookup "evidence" (as_members a) with
               | Some v => map evidence_edge (evidence_refs v)
               | None => []
               end in
  Some ([EnsureProposition (mkEP (Some ph) (as_subject a) (as_predicate a) (as_object a) None);
         CreateAssertion (mkRC ah client_key (Some set_fields) []
                               (match edges with [] => None | _ => Some edges end))] ++
        match as_superseding a with
        | Some target => [SupersedeAssertion (mkBy target (EHandle ah) None)]
        | None => []
        end)
  end end end.

(* ------------------------------------------------------------------ statements *)
Section Facts.
Variable allowed : list string.

Lemma desugar_refuses_missing_actor seq a :
  lookup "by" (as_members a) = None -> desugar allowed seq a = None.
Proof.
  intro H. unfold desugar. destruct (is_pa_var _); auto.
  destruct (negb _); auto. rewrite H. reflexivity.
Qed.

Lemma desugar_refuses_missing_mode seq a :
  lookup "mode" (as_members a) = None -> desugar allowed seq a = None.
Proof.
  intro H. unfold desugar. destruct (is_pa_var _); auto.
  destruct (negb _); auto. destruct (lookup "by" _); auto. rewrite H. reflexivity.
Qed.

Lemma desugar_refuses_unknown_member seq a k v :
  In (k, v) (as_members a) -> mem k allowed = false -> desugar allowed seq a = None.
Proof.
  intros Hin Hk. unfold desugar.
  assert (E : forallb (fun kv => mem (fst kv) allowed) (as_members a) = false).
  { destruct (forallb _ _) eqn:E; auto. rewrite forallb_forall in E. specialize (E _ Hin). simpl in E. congruence. }
  destruct (is_pa_var _); auto. rewrite E. reflexivity.
Qed.

(* the optional Assertion fields: present exactly when the author wrote the member,
   carrying exactly the value written *)
Definition written_fields (ms : assignments) : assignments :=
  opt_field "confidence" (lookup "confidence" ms) ++
  opt_field "asserted_at" (lookup "at" ms) ++
  opt_field "valid_time" (lookup "valid" ms).

Theorem desugar_exact seq a cs :
  desugar allowed seq a = Some cs ->
  exists by_ mode client_key,
    lookup "by" (as_members a) = Some by_ /\
    lookup "mode" (as_members a) = Some mode /\
    client_key_of (lookup "key" (as_members a)) = Some client_key /\
    (forall k v, In (k, v) (as_members a) -> mem k allowed = true) /\
    (forall n, as_predicate a <> PAVar n) /\
    let ah := assertion_handle (as_handle a) seq in
    let ph := proposition_handle ah in
    let stance := match lookup "stance" (as_members a) with Some v => v | None => MVal (KStr "support") end in
    let cites := match lookup "evidence" (as_members a) with Some v => evidence_refs v | None => [] end in
    cs =
      [EnsureProposition (mkEP (Some ph) (as_subject a) (as_predicate a) (as_object a) None);
       CreateAssertion
         (mkRC ah client_key
            (Some ([("proposition", MHandle ph); ("asserted_by", by_); ("mode", mode); ("stance", stance)]
                   ++ written_fields (as_members a)))
            []
            (match cites with
             | [] => None
             | _ => Some (map (fun v => mkEdge (SymName "evidence") v (Some [("role", BVal (KStr "support"))])) cites)
             end))]
      ++ match as_superseding a with
         | Some target => [SupersedeAssertion (mkBy target (EHandle ah) None)]
         | None => []
         end.
Proof.
  unfold desugar. intro H.
  destruct (is_pa_var (as_predicate a)) eqn:EP; [discriminate|].
  destruct (forallb (fun kv => mem (fst kv) allowed) (as_members a)) eqn:EA; [|discriminate].
  simpl negb in H. cbv iota in H.
  destruct (lookup "by" (as_members a)) as [by_|] eqn:EB; [|discriminate].
  destruct (lookup "mode" (as_members a)) as [mode|] eqn:EM; [|discriminate].
  destruct (client_key_of (lookup "key" (as_members a))) as [ck|] eqn:EK; [|discriminate].
  exists by_, mode, ck. repeat split; auto.
  - intros k v Hin. rewrite forallb_forall in EA. apply (EA (k, v) Hin).
  - intros n E. rewrite E in EP. discriminate.
  - cbv zeta. unfold written_fields.
    destruct (lookup "evidence" (as_members a)) as [ev|]; simpl;
      [destruct (evidence_refs ev) eqn:EE; simpl|];
      injection H as <-; reflexivity.
Qed.

(* the shape alone: ENSURE PROPOSITION, CREATE ASSERTION, then SUPERSEDE iff written *)
Corollary desugar_shape seq a cs :
  desugar allowed seq a = Some cs ->
  exists e r, cs = [EnsureProposition e; CreateAssertion r] ++
                   match as_superseding a with
                   | Some t => [SupersedeAssertion (mkBy t (EHandle (rc_handle r)) None)]
                   | None => []
                   end
              /\ ep_handle e = Some (proposition_handle (rc_handle r))
              /\ rc_set_facets r = [].
Proof.
  intro H. destruct (desugar_exact _ _ _ H) as [b [m [ck [_ [_ [_ [_ [_ E]]]]]]]]. cbv zeta in E.
  eexists. eexists. split; [exact E|]. split; reflexivity.
Qed.

End Facts.

(* ------------------------------------------------------------------ synthetic handles *)
Lemma dec_inj n m : dec n = dec m -> n = m.
Proof.
  unfold dec. intro H.
  assert (E : Nat.to_uint n = Nat.to_uint m).
  { apply (f_equal NilEmpty.uint_of_string) in H. rewrite !NilEmpty.usu in H. injection H. auto. }
  apply (f_equal Nat.of_uint) in E. rewrite !Unsigned.of_to in E. exact E.
Qed.

Lemma append_inj_l (p a b : string) : String.append p a = String.append p b -> a = b.
Proof. induction p; simpl; intro H; auto. injection H. auto. Qed.

(* two handle-less ASSERTs at different positions get different handles *)
Theorem synthetic_handles_distinct n m :
  n <> m -> assertion_handle None n <> assertion_handle None m.
Proof. unfold assertion_handle. intros Hne E. apply append_inj_l, dec_inj in E. auto. Qed.

Fixpoint has_char (c : ascii) (s : string) : bool :=
  match s with EmptyString => false | String c' tl => Ascii.eqb c c' || has_char c tl end.

Lemma has_char_app_l c a b : has_char c a = true -> has_char c (String.append a b) = true.
Proof. induction a; simpl; intro H; [discriminate|]. apply orb_true_iff in H. destruct H as [->|H]; auto. rewrite IHa, orb_true_r; auto. Qed.

Lemma has_char_app_r c a b : has_char c b = true -> has_char c (String.append a b) = true.
Proof. induction a; simpl; intro H; auto. rewrite IHa, orb_true_r; auto. Qed.

(* a synthesized handle carries `#`, which no KIP identifier can contain, so it cannot
   collide with a handle the author wrote *)
Theorem synthetic_handles_marked seq h :
  has_char "#" (assertion_handle None seq) = true /\
  has_char "#" (proposition_handle h) = true.
Proof.
  split.
  - unfold assertion_handle. apply has_char_app_l. reflexivity.
  - unfold proposition_handle. apply has_char_app_r. reflexivity.
Qed.
