(* C15 — pinned statements only.  Each is closed by [exact] of a lemma proved in
   Kip/BudgetProofs.v, Kip/BudgetInst.v, Kip/CallGraphProofs.v, Kip/CallGraphInst.v or
   Kip/LexProofs.v and followed by Print Assumptions.

   What is NOT proved (it is explored by the harness, see props/C15.py): that the nom parser
   itself terminates without panic on every string, and that its chains of pending calls are
   chains of the generated graph in which every bracket-guarded call holds a bracket that is
   still open.  The statements below are about the budget pre-scan (a literal transcription),
   the generated call graph, and a reference tokenizer. *)
From Coq Require Import List NArith Bool Arith.
From Verif Require Import Kip.Budget Kip.BudgetProofs Kip.BudgetInst Kip.CallGraph Kip.CallGraphProofs
     Kip.CallGraphInst Kip.Lex Kip.LexProofs Kip.RunC15 gen.Gen_KipGraph.
Import ListNotations.

(* ---------- 1. the budget pre-scan ---------- *)

(* Acceptance bounds the input: at most MAX_KIP_INPUT_LEN bytes, and at every prefix at most
   MAX_KIP_NESTING_DEPTH brackets are open outside strings and line comments (the lexical
   reading of Kip/Budget.v, written with lookahead, not the scanner's flags). *)
Theorem C15_budget_bounds_nesting :
  forall cs, kip_budget cs = BOk ->
    (input_len cs <= MAX_KIP_INPUT_LEN)%N /\
    forall k, length (kip_open_stack (firstn k cs)) <= MAX_KIP_NESTING_DEPTH.
Proof. exact kip_bounds_nesting. Qed.
Print Assumptions C15_budget_bounds_nesting.

(* Inputs beyond either limit are refused. *)
Theorem C15_budget_refuses_beyond_limits :
  forall cs,
    (MAX_KIP_INPUT_LEN < input_len cs)%N \/
    (exists k, MAX_KIP_NESTING_DEPTH < length (kip_open_stack (firstn k cs))) ->
    kip_budget cs <> BOk.
Proof. exact kip_refuses_beyond. Qed.
Print Assumptions C15_budget_refuses_beyond_limits.

(* A refusal is never spurious. *)
Theorem C15_budget_nesting_refusal_has_deep_prefix :
  forall cs, kip_budget cs = BTooDeep ->
    exists k, MAX_KIP_NESTING_DEPTH <= length (kip_open_stack (firstn k cs)).
Proof. exact kip_too_deep_justified. Qed.
Print Assumptions C15_budget_nesting_refusal_has_deep_prefix.

Theorem C15_budget_length_refusal_is_long :
  forall cs, kip_budget cs = BTooLong -> (MAX_KIP_INPUT_LEN <= input_len cs)%N.
Proof. exact kip_too_long_justified. Qed.
Print Assumptions C15_budget_length_refusal_is_long.

(* The scanner's flags say "inside a string / a comment" exactly where the lexical reading does,
   and its stack is the stack of open brackets, at every point it reaches (the
   desynchronisation the source comment describes cannot happen). *)
Theorem C15_budget_agrees_with_trivia :
  forall cs s, kip_scan cs = Some s ->
    mode_of s = kip_mode_after cs /\ b_stack s = kip_open_stack cs.
Proof. exact kip_agrees_with_trivia. Qed.
Print Assumptions C15_budget_agrees_with_trivia.

(* The two sites of the SOURCE agree on the lexical structure (facts regenerated on every run
   from parser.rs validate_parser_budget and from json.rs skip_ws_and_comments / string /
   character and common.rs trivia1): the same comment opener, the same set of characters that
   end a line comment, the same quote and escape, the same whitespace predicate in both trivia
   skippers.  C15_budget_bounds_nesting / _agrees_with_trivia above run the scanner with ITS
   terminators and the lexical reading with the PARSER's; this is what joins them. *)
Theorem C15_trivia_sites_agree :
  budget_comment_terms = trivia_comment_terms /\
  budget_comment_open = trivia_comment_open /\ trivia_comment_open = [c_slash; c_slash] /\
  trivia_term_consumed = true /\ trivia_eof_ends_comment = true /\
  budget_quote = string_quote /\ string_quote = c_quote /\
  budget_escape = string_escape /\ string_escape = c_bslash /\
  trivia1_ws_pred = trivia_ws_pred /\ trivia1_comment_open = trivia_comment_open /\
  trivia_ws_pred = rust_is_whitespace.
Proof. exact trivia_sites_agree. Qed.
Print Assumptions C15_trivia_sites_agree.

(* ---------- 2. the call graph (finite: kg_nfns functions, the call positions kg_edges, both
   regenerated from the parser source) ---------- *)

Theorem C15_graph_certificate :
  length kg_names = kg_nfns /\ graph_ok kg_nfns kg_carrying kg_edges = true.
Proof. exact (conj kg_names_len kg_cert). Qed.
Print Assumptions C15_graph_certificate.

(* Every cycle of calls passes a call that sits behind a consumed opening bracket or that
   increments the explicit depth counter. *)
Theorem C15_every_cycle_is_guarded :
  forall e0 rest,
    path kg_edges (e0 :: rest) -> e_dst (end_of e0 rest) = e_src e0 ->
    exists e, In e (e0 :: rest) /\ (e_br e = true \/ e_da e = DInc).
Proof.
  intros e0 rest Hp Hc. destruct (kg_cycle_guarded e0 rest Hp Hc) as (e & Hin & Hg).
  exists e. split; [exact Hin|]. unfold guarded, is_inc in Hg.
  destruct (e_br e); [now left|]. destruct (e_da e); try discriminate. now right.
Qed.
Print Assumptions C15_every_cycle_is_guarded.

(* Recursion depth for budget-accepted input: a chain p of pending calls of the graph whose
   depth counters run as the source's tests allow (drun), and whose bracket-guarded calls each
   hold a bracket still open after the consumed prefix (firstn k cs), is no longer than a
   constant computed from the graph. *)
Theorem C15_recursion_depth_bounded :
  forall cs k p d,
    kip_budget cs = BOk ->
    path kg_edges p -> drun MAX_KIP_NESTING_DEPTH d p = true ->
    count e_br p <= length (kip_open_stack (firstn k cs)) ->
    length p <= kip_stack_bound.
Proof. exact kg_chain_bounded. Qed.
Print Assumptions C15_recursion_depth_bounded.

(* ---------- 3. the reference tokenizer ---------- *)

(* (for any set [terms] of characters that end a line comment; the runner uses the generated
   trivia_comment_terms)
   Whitespace and terminated line comments inserted where no string, comment or word is cut do
   not change the tokens. *)
Theorem C15_insert_trivia_preserves_tokens :
  forall terms a t b out acc,
    run terms LCode [] a = (out, LCode, acc) -> trivia terms t ->
    acc = [] \/ starts_word b = false ->
    tokens terms (a ++ t ++ b) = tokens terms (a ++ b).
Proof. exact insert_trivia_preserves_tokens. Qed.
Print Assumptions C15_insert_trivia_preserves_tokens.

(* Flipping the case of any letters of words (never inside strings or comments) changes the
   tokens at most in the case of words. *)
Theorem C15_flip_case_preserves_tokens :
  forall terms mask cs, tokens_ci terms (flip_words terms LCode [] mask cs) = tokens_ci terms cs.
Proof. exact flip_case_preserves_tokens. Qed.
Print Assumptions C15_flip_case_preserves_tokens.

(* The executable comparison applied to the harness's (base, variant) pairs decides exactly that. *)
Theorem C15_lex_equiv_sound :
  forall terms a b, lex_equiv terms a b = true <-> tokens_ci terms a = tokens_ci terms b.
Proof. exact lex_equiv_spec. Qed.
Print Assumptions C15_lex_equiv_sound.

(* ---------- non-vacuity ---------- *)
From Coq Require Import String Ascii.
Definition codes (s : string) : list N := map N_of_ascii (list_ascii_of_string s).
Definition nl : list N := [10%N].

Example C15_budget_nonvacuous :
  kip_budget (repeat 91%N 64 ++ repeat 93%N 64) = BOk /\
  kip_budget (repeat 91%N 65) = BTooDeep /\
  (* a quote inside a comment does not hide the brackets after it *)
  kip_budget (codes "// """ ++ nl ++ repeat 40%N 65) = BTooDeep /\
  (* brackets inside a string or a comment do not count *)
  kip_budget (codes """" ++ repeat 40%N 70 ++ codes """ //" ++ repeat 123%N 70) = BOk /\
  List.length (kip_open_stack (codes "{ a: [ ""]"", ( // )" ++ nl ++ codes "1")) = 3.
Proof. vm_compute. repeat split; reflexivity. Qed.

Example C15_graph_nonvacuous :
  existsb (fun e => Nat.eqb (e_src e) (e_dst e) && guarded e) kg_edges = true /\
  existsb (fun e => negb (guarded e)) kg_edges = true /\
  existsb is_reset kg_edges = true /\
  0 < kip_stack_bound.
Proof. vm_compute. repeat split; try reflexivity. apply Nat.lt_0_succ || auto with arith. Qed.

Example C15_lex_nonvacuous :
  let lex_equiv := lex_equiv trivia_comment_terms in let trivia := trivia trivia_comment_terms in
  lex_equiv (codes "FIND(?x) WHERE { ?x {type: ""a // b""} }")
            (codes "find // c ) "" {" ++ nl ++ codes "( ?x )wHeRe{?x{type :""a // b""}}") = true /\
  lex_equiv (codes "ORDER BY") (codes "ORDERBY") = false /\
  lex_equiv (codes "{a: ""x""}") (codes "{a: ""X""}") = false /\
  trivia (codes "  // [ "" " ++ nl).
Proof.
  cbv zeta. split; [vm_compute; reflexivity|]. split; [vm_compute; reflexivity|]. split; [vm_compute; reflexivity|].
  change (codes "  // [ "" " ++ nl) with ([32%N] ++ [32%N] ++ (c_slash :: c_slash :: codes " [ "" " ++ [c_nl])).
  apply tr_app; [apply tr_ws; reflexivity|]. apply tr_app; [apply tr_ws; reflexivity|].
  apply tr_comment; [|reflexivity]. intros x Hx. vm_compute in Hx.
  repeat (destruct Hx as [<-|Hx]; [reflexivity|]). contradiction.
Qed.
