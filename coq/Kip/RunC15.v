(* C15 — runners for the correspondence check (evaluated by vm_compute on the harness's cases). *)
From Coq Require Import List NArith Bool.
From Verif Require Import Kip.Budget Kip.BudgetInst Kip.CallGraph Kip.Lex gen.Gen_KipGraph.
Import ListNotations.

(* inputs arrive run-length encoded: (code point, repetitions) *)
Definition expand (rle : list (N * N)) : list N :=
  flat_map (fun p => repeat (fst p) (N.to_nat (snd p))) rle.

Definition bres_eqb (a b : bres) : bool :=
  match a, b with BOk, BOk | BTooLong, BTooLong | BTooDeep, BTooDeep => true | _, _ => false end.

(* what the model says about the input *)
Definition run_budget (rle : list (N * N)) : bres := kip_budget (expand rle).

(* case = (input, what the implementation's entry point answered) *)
Definition check_budget (c : list (N * N) * bres) : bool := bres_eqb (run_budget (fst c)) (snd c).

(* case = (base text, variant): same tokens up to the case of words, whitespace and comments;
   comments end where the parser's trivia skipper ends them (generated) *)
Definition check_lex (c : list (N * N) * list (N * N)) : bool :=
  lex_equiv trivia_comment_terms (expand (fst c)) (expand (snd c)).
