(* C15 — the budget model instantiated with the facts generated from the source. *)
From Coq Require Import List NArith Bool Arith String.
From Verif Require Import Kip.Budget Kip.BudgetProofs Kip.CallGraph gen.Gen_KipGraph.
Import ListNotations.
Local Open Scope N_scope.

(* the bracket alphabet the property speaks about: ( [ {  with  ) ] } *)
Definition lit_openers : list N := [40; 91; 123].
Definition lit_pairs : list (N * N) := [(41, 40); (93, 91); (125, 123)].

(* the scanner, with ITS notion of where a line comment ends (parser.rs) *)
Definition kip_budget (cs : list N) : bres :=
  validate_parser_budget budget_openers budget_pairs budget_comment_terms MAX_KIP_INPUT_LEN budget_len_strict
                         MAX_KIP_NESTING_DEPTH budget_depth_strict cs.
Definition kip_scan (cs : list N) : option bstate :=
  bscan budget_openers budget_pairs budget_comment_terms MAX_KIP_NESTING_DEPTH budget_depth_strict b_init cs.

(* the lexical reading, with the PARSER's notion of where a line comment ends
   (json.rs skip_ws_and_comments) *)
Definition kip_open_stack (cs : list N) : list N := open_stack lit_openers lit_pairs trivia_comment_terms cs.
Definition kip_mode_after (cs : list N) : lmode := mode_after lit_openers lit_pairs trivia_comment_terms cs.

(* The two sites of the source agree on the lexical structure: the pre-scan and the parser's
   trivia skipper open a comment with the same two characters and end it at the same
   characters (which the skipper consumes; a comment may also run to the end of the input);
   strings open/close with the same quote and use the same escape character; the two trivia
   skippers (skip_ws_and_comments, trivia1) use the same whitespace predicate and opener.
   Every line is decided by computation on the facts generated from the source. *)
(* the name of Rust's char::is_whitespace, the White_Space table of Kip/Lex.v is_ws *)
Definition rust_is_whitespace : string := "is_whitespace".

Lemma trivia_sites_agree :
  budget_comment_terms = trivia_comment_terms /\
  budget_comment_open = trivia_comment_open /\ trivia_comment_open = [c_slash; c_slash] /\
  trivia_term_consumed = true /\ trivia_eof_ends_comment = true /\
  budget_quote = string_quote /\ string_quote = c_quote /\
  budget_escape = string_escape /\ string_escape = c_bslash /\
  trivia1_ws_pred = trivia_ws_pred /\ trivia1_comment_open = trivia_comment_open /\
  trivia_ws_pred = rust_is_whitespace.
Proof. repeat split; reflexivity. Qed.

(* the source's alphabet is the literal one, it pushes before it tests, and it runs the four
   stages in the order of the model *)
Lemma source_shape :
  budget_openers = lit_openers /\ budget_pairs = lit_pairs /\ budget_push_before_test = true /\
  budget_stage_order = ["comment"; "string"; "slash"; "brackets"]%string.
Proof. repeat split; reflexivity. Qed.

Lemma kip_budget_ok cs :
  kip_budget cs = BOk ->
  (input_len cs <= MAX_KIP_INPUT_LEN) /\ exists s, kip_scan cs = Some s.
Proof. apply validate_ok_iff. Qed.

Lemma kip_bounds_nesting cs :
  kip_budget cs = BOk ->
  (input_len cs <= MAX_KIP_INPUT_LEN) /\
  forall k, (List.length (kip_open_stack (firstn k cs)) <= MAX_KIP_NESTING_DEPTH)%nat.
Proof.
  intros H. destruct (kip_budget_ok cs H) as [Hl [s Hs]]. split; [exact Hl|].
  intros k. unfold kip_open_stack. destruct source_shape as (<- & <- & _).
  destruct trivia_sites_agree as (<- & _).
  eapply accepted_is_within_depth. exact Hs.
Qed.

Lemma kip_refuses_beyond cs :
  (MAX_KIP_INPUT_LEN < input_len cs) \/
  (exists k, (MAX_KIP_NESTING_DEPTH < List.length (kip_open_stack (firstn k cs)))%nat) ->
  kip_budget cs <> BOk.
Proof.
  intros [Hl|[k Hk]] H; destruct (kip_bounds_nesting cs H) as [Hlen Hd].
  - apply N.lt_nge in Hl. contradiction.
  - specialize (Hd k). apply Nat.lt_nge in Hk. contradiction.
Qed.

Lemma kip_too_deep_justified cs :
  kip_budget cs = BTooDeep ->
  exists k, (MAX_KIP_NESTING_DEPTH <= List.length (kip_open_stack (firstn k cs)))%nat.
Proof.
  unfold kip_budget, validate_parser_budget.
  destruct (if budget_len_strict then _ else _); [discriminate|].
  destruct (bscan _ _ _ _ _ _ _) eqn:Hs; [discriminate|]. intros _.
  apply refused_has_deep_prefix in Hs. destruct Hs as [k Hk]. exists k.
  unfold kip_open_stack. destruct source_shape as (<- & <- & _). destruct trivia_sites_agree as (<- & _).
  revert Hk. generalize (List.length (open_stack budget_openers budget_pairs budget_comment_terms (firstn k cs))). intros n.
  unfold over. destruct budget_depth_strict; intros Hk.
  - apply Nat.ltb_lt in Hk. apply Nat.lt_le_incl. exact Hk.
  - now apply Nat.leb_le in Hk.
Qed.

Lemma kip_too_long_justified cs :
  kip_budget cs = BTooLong -> MAX_KIP_INPUT_LEN <= input_len cs.
Proof.
  unfold kip_budget, validate_parser_budget. destruct budget_len_strict.
  - destruct (_ <? _) eqn:H; [|destruct (bscan _ _ _ _ _ _ _); discriminate].
    intros _. apply N.ltb_lt in H. now apply N.lt_le_incl.
  - destruct (_ <=? _) eqn:H; [|destruct (bscan _ _ _ _ _ _ _); discriminate].
    intros _. now apply N.leb_le in H.
Qed.

Lemma kip_agrees_with_trivia cs s :
  kip_scan cs = Some s ->
  mode_of s = kip_mode_after cs /\ b_stack s = kip_open_stack cs.
Proof.
  unfold kip_scan, kip_mode_after, kip_open_stack. destruct source_shape as (<- & <- & _).
  destruct trivia_sites_agree as (<- & _).
  apply scanner_agrees_with_lexical_reading.
Qed.
