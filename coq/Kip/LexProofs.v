(* C15 — the two token-preserving rewrites, for every text. *)
From Coq Require Import List NArith Bool Arith Lia.
From Verif Require Import Kip.Budget Kip.Lex.
Import ListNotations.
Local Open Scope N_scope.

Section LexerProofs.
  Variable terms : list N.
  Notation tstep := (tstep terms).
  Notation run := (run terms).
  Notation tokens := (tokens terms).
  Notation tokens_ci := (tokens_ci terms).
  Notation flip_words := (flip_words terms).
  Notation trivia := (trivia terms).
  Notation lex_equiv := (lex_equiv terms).
  Notation is_cterm := (is_cterm terms).

(* ---- reading a concatenation -------------------------------------------------------------- *)
Lemma run_app : forall a b m acc,
  run m acc (a ++ b) =
  let '(o1, m1, a1) := run m acc a in
  let '(o2, m2, a2) := run m1 a1 b in (o1 ++ o2, m2, a2).
Proof.
  induction a as [|c a IH]; intros b m acc; simpl.
  - destruct (run m acc b) as [[o2 m2] a2]. reflexivity.
  - destruct (tstep m acc c) as [[o m'] acc']. rewrite IH.
    destruct (run m' acc' a) as [[o1 m1] a1]. destruct (run m1 a1 b) as [[o2 m2] a2].
    now rewrite app_assoc.
Qed.

Definition tail_tokens (m : tmode) (acc : list N) (x : list N) : list token :=
  let '(o, m', a') := run m acc x in o ++ finish m' a'.

Lemma tokens_app a x out m acc :
  run LCode [] a = (out, m, acc) -> tokens (a ++ x) = out ++ tail_tokens m acc x.
Proof.
  intros H. unfold Lex.tokens, tail_tokens. rewrite run_app, H.
  destruct (run m acc x) as [[o2 m2] a2]. now rewrite app_assoc.
Qed.

(* ---- trivia reads as nothing ---------------------------------------------------------------- *)
Lemma run_comment_body : forall body t, (forall x, In x body -> is_cterm x = false) -> is_cterm t = true ->
  run LComment [] (body ++ [t]) = ([], LCode, []).
Proof.
  induction body as [|c body IH]; intros t Hn Ht; simpl.
  - rewrite Ht. reflexivity.
  - rewrite (Hn c (or_introl eq_refl)).
    rewrite IH; [reflexivity| |exact Ht]. intros x Hx. apply Hn. now right.
Qed.

Lemma trivia_run t : trivia t -> forall acc, run LCode acc t = (flush acc, LCode, []).
Proof.
  induction 1 as [c Hc|body t Hb Ht|t1 t2 H1 IH1 H2 IH2]; intros acc.
  - simpl. unfold code_char. rewrite Hc. now rewrite app_nil_r.
  - change (c_slash :: c_slash :: body ++ [t]) with ([c_slash; c_slash] ++ (body ++ [t])).
    rewrite run_app. cbn -[flush]. rewrite run_comment_body by assumption. now rewrite !app_nil_r.
  - rewrite run_app, IH1, IH2. simpl. now rewrite app_nil_r.
Qed.

Lemma code_char_nonword acc c : is_wordc c = false ->
  exists X m', code_char acc c = (flush acc ++ X, m', []) /\ code_char [] c = (X, m', []).
Proof.
  intros Hw. unfold code_char. rewrite Hw.
  destruct (is_ws c); [exists [], LCode; now rewrite app_nil_r|].
  destruct (c =? c_slash); [exists [], LSlash; now rewrite app_nil_r|].
  destruct (c =? c_quote); [exists [], LStr; now rewrite app_nil_r|].
  exists [TPunct c], LCode. split; reflexivity.
Qed.

Lemma tail_flush acc b : acc = [] \/ starts_word b = false ->
  tail_tokens LCode acc b = flush acc ++ tail_tokens LCode [] b.
Proof.
  intros [->|Hb]; [reflexivity|].
  destruct b as [|c r].
  - unfold tail_tokens. simpl. now rewrite app_nil_r.
  - simpl in Hb. destruct (code_char_nonword acc c Hb) as (X & m' & H1 & H2).
    unfold tail_tokens. simpl. rewrite H1, H2.
    destruct (run m' [] r) as [[o2 m2] a2]. now rewrite !app_assoc.
Qed.

(* whitespace and comments inserted where no string, comment or word is cut leave the tokens
   unchanged *)
Theorem insert_trivia_preserves_tokens a t b out acc :
  run LCode [] a = (out, LCode, acc) ->       (* [a] ends outside strings and comments *)
  trivia t ->
  acc = [] \/ starts_word b = false ->        (* no word is split *)
  tokens (a ++ t ++ b) = tokens (a ++ b).
Proof.
  intros Ha Ht Hb. rewrite (tokens_app a (t ++ b) _ _ _ Ha), (tokens_app a b _ _ _ Ha). f_equal.
  unfold tail_tokens at 1. rewrite run_app, (trivia_run t Ht acc).
  rewrite (tail_flush acc b Hb). unfold tail_tokens.
  destruct (run LCode [] b) as [[o2 m2] a2]. now rewrite app_assoc.
Qed.

(* ---- case ------------------------------------------------------------------------------------ *)
Definition letter_facts (c : N) : bool :=
  negb (is_letter c) ||
  (negb (is_ws (flipc c)) && negb (flipc c =? c_slash) && negb (flipc c =? c_quote) &&
   is_wordc (flipc c) && (upper (flipc c) =? upper c) &&
   is_wordc c && negb (is_ws c) && negb (c =? c_slash) && negb (c =? c_quote)).

Lemma letter_facts_all c : letter_facts c = true.
Proof.
  destruct (c <=? 122) eqn:Hle.
  - apply N.leb_le in Hle.
    assert (Hin : In c (map N.of_nat (seq 0 123))).
    { rewrite <- (N2Nat.id c). apply in_map. apply in_seq. lia. }
    assert (Hall : forallb letter_facts (map N.of_nat (seq 0 123)) = true) by (vm_compute; reflexivity).
    rewrite forallb_forall in Hall. now apply Hall.
  - apply N.leb_gt in Hle. unfold letter_facts, is_letter, is_upper, is_lower.
    replace (c <=? 90) with false by (symmetry; apply N.leb_gt; lia).
    replace (c <=? 122) with false by (symmetry; apply N.leb_gt; lia).
    now rewrite !andb_false_r.
Qed.

Lemma map_upper_nil (a b : list N) : map upper a = map upper b -> (a = [] <-> b = []).
Proof. destruct a, b; simpl; intros H; split; intros E; try reflexivity; try discriminate. Qed.

Lemma norm_flush a b : map upper a = map upper b -> map norm (flush a) = map norm (flush b).
Proof.
  intros H. destruct a as [|x a], b as [|y b]; try discriminate; [reflexivity|].
  cbn [flush map norm]. rewrite !map_rev. now rewrite H.
Qed.

(* states of the two runs: same mode; accumulators equal up to case, and equal inside strings *)
Definition acc_rel (m : tmode) (a' a : list N) : Prop :=
  map upper a' = map upper a /\ (match m with LStr | LStrEsc => a' = a | _ => True end).

Lemma code_char_rel acc' acc c :
  map upper acc' = map upper acc ->
  let '(o, m, a) := code_char acc c in
  let '(o', m', a') := code_char acc' c in
  map norm o' = map norm o /\ m' = m /\ acc_rel m a' a.
Proof.
  intros H. unfold code_char.
  destruct (is_ws c); [repeat split; auto using norm_flush|].
  destruct (c =? c_slash); [repeat split; auto using norm_flush|].
  destruct (c =? c_quote); [repeat split; auto using norm_flush|].
  destruct (is_wordc c).
  - repeat split; simpl; auto. now rewrite H.
  - repeat split; auto. rewrite !map_app. f_equal. now apply norm_flush.
Qed.

Lemma flip_run : forall cs m acc acc' mask,
  acc_rel m acc' acc ->
  let '(o, m1, a1) := run m acc cs in
  let '(o', m1', a1') := run m acc' (flip_words m acc mask cs) in
  map norm o' = map norm o /\ m1' = m1 /\ acc_rel m1 a1' a1.
Proof.
  induction cs as [|c r IH]; intros m acc acc' mask Hrel.
  - simpl. split; [reflexivity|split; [reflexivity|exact Hrel]].
  - cbn [Lex.flip_words Lex.run].
    set (b := match mask with b :: _ => b | [] => false end).
    set (in_code := match m with LCode | LSlash => true | _ => false end).
    set (c' := if in_code && b && is_letter c then flipc c else c).
    (* one step on each side lands in related states with related output *)
    assert (Hstep : let '(o, m1, a1) := tstep m acc c in
                    let '(o', m1', a1') := tstep m acc' c' in
                    map norm o' = map norm o /\ m1' = m1 /\ acc_rel m1 a1' a1).
    { destruct Hrel as [Hup Hstr].
      destruct (in_code && b && is_letter c) eqn:Hf.
      - (* flipped: a letter in code position *)
        apply andb_prop in Hf as [Hf Hl]. apply andb_prop in Hf as [Hic _].
        pose proof (letter_facts_all c) as LF. unfold letter_facts in LF. rewrite Hl in LF. simpl in LF.
        repeat (apply andb_prop in LF as [LF ?]).
        repeat match goal with H : negb _ = true |- _ => apply negb_true_iff in H end.
        match goal with H : (upper _ =? upper _) = true |- _ => apply N.eqb_eq in H; rename H into Hu end.
        subst c'. destruct m; try discriminate; cbn [Lex.tstep].
        + unfold code_char.
          repeat match goal with H : _ = false |- _ => rewrite H end.
          repeat match goal with H : is_wordc _ = true |- _ => rewrite H end.
          repeat split; auto. simpl. now rewrite Hu, Hup.
        + repeat match goal with H : (_ =? c_slash) = false |- _ => rewrite H end.
          unfold code_char.
          repeat match goal with H : _ = false |- _ => rewrite H end.
          repeat match goal with H : is_wordc _ = true |- _ => rewrite H end.
          repeat split; auto. simpl. now rewrite Hu.
      - (* same character on both sides *)
        subst c'. destruct m; cbn [Lex.tstep].
        + apply code_char_rel. exact Hup.
        + destruct (c =? c_slash); [repeat split; auto|].
          pose proof (code_char_rel [] [] c eq_refl) as Hcc.
          destruct (code_char [] c) as [[o1 m1] a1]. destruct Hcc as (_ & _ & Hcc).
          split; [reflexivity|split; [reflexivity|exact Hcc]].
        + subst acc'. destruct (c =? c_bslash); [repeat split; auto|].
          destruct (c =? c_quote); repeat split; auto.
        + subst acc'. repeat split; auto.
        + destruct (is_cterm c); repeat split; auto. }
    revert Hstep. destruct (tstep m acc c) as [[o m1] a1]. cbn [Lex.run].
    destruct (tstep m acc' c') as [[o' m1'] a1']. intros (Ho & Hm & Ha). subst m1'.
    specialize (IH m1 a1 a1' (tl mask) Ha).
    destruct (run m1 a1 r) as [[o2 m2] a2].
    destruct (run m1 a1' (flip_words m1 a1 (tl mask) r)) as [[o2' m2'] a2'].
    destruct IH as (Ho2 & Hm2 & Ha2). split; [|split; [exact Hm2|exact Ha2]].
    rewrite !map_app. now rewrite Ho, Ho2.
Qed.

Lemma norm_finish m a' a : acc_rel m a' a -> map norm (finish m a') = map norm (finish m a).
Proof.
  intros [Hup Hs]. destruct m; simpl; auto using norm_flush; now subst.
Qed.

(* flipping the case of letters of words (never inside strings or comments) changes the tokens
   only in the case of those words *)
Theorem flip_case_preserves_tokens mask cs :
  tokens_ci (flip_words LCode [] mask cs) = tokens_ci cs.
Proof.
  unfold Lex.tokens_ci, Lex.tokens.
  pose proof (flip_run cs LCode [] [] mask (conj eq_refl I)) as H.
  destruct (run LCode [] cs) as [[o m] a].
  destruct (run LCode [] (flip_words LCode [] mask cs)) as [[o' m'] a'].
  destruct H as (Ho & Hm & Ha). subst m'. rewrite !map_app. f_equal; [exact Ho|].
  now apply norm_finish.
Qed.

(* the executable comparison is equality *)
Lemma codes_eqb_eq : forall x y, codes_eqb x y = true <-> x = y.
Proof.
  induction x as [|p x IH]; destruct y as [|q y]; simpl; split; intros H; try reflexivity; try discriminate.
  - apply andb_prop in H as [H1 H2]. apply N.eqb_eq in H1. apply IH in H2. now subst.
  - inversion H; subst. rewrite N.eqb_refl. simpl. now apply IH.
Qed.

Lemma toks_eqb_eq : forall a b, toks_eqb a b = true <-> a = b.
Proof.
  induction a as [|x a IH]; destruct b as [|y b]; simpl; split; intros H; try reflexivity; try discriminate.
  - apply andb_prop in H as [H1 H2]. apply IH in H2. subst. f_equal.
    destruct x, y; simpl in H1; try discriminate.
    + apply codes_eqb_eq in H1. now subst.
    + apply codes_eqb_eq in H1. now subst.
    + apply N.eqb_eq in H1. now subst.
  - inversion H; subst. apply andb_true_intro. split; [|now apply IH].
    destruct y; simpl; try apply codes_eqb_eq; try apply N.eqb_refl; reflexivity.
Qed.

Theorem lex_equiv_spec a b : lex_equiv a b = true <-> tokens_ci a = tokens_ci b.
Proof. unfold Lex.lex_equiv. apply toks_eqb_eq. Qed.
End LexerProofs.
