(* C16 — soundness of the transcribed validator: whatever tree it accepts is [Safe].
   Holds for every constant table [cfg] that covers the sets the property names
   ([cfg_ok]); Kip/Props.v instantiates it with the tables regenerated from the source. *)
From Coq Require Import List String Bool Arith.
From Verif Require Import Kip.Model Kip.Safe Kip.ProofsDecide.
Import ListNotations.
Open Scope string_scope.
Open Scope list_scope.

(* ---------------------------------------------------------------- constants cover the property's sets *)
Definition inclb (a b : list string) : bool := forallb (fun k => mem k b) a.

Lemma inclb_incl a b : inclb a b = true -> incl a b.
Proof. unfold inclb. rewrite forallb_forall. intros H k Hk. apply mem_In. auto. Qed.

Definition cfg_okb (cfg : consts) : bool :=
  inclb spec_engine_owned (c_protected cfg) &&
  inclb spec_assertion_payload (c_assertion_imm cfg) &&
  inclb spec_evidence_payload (c_evidence_imm cfg) &&
  inclb spec_proposition_payload (c_proposition_imm cfg) &&
  inclb ["Assertion"; "Evidence"; "Proposition"; "Activity"] (c_structural_rejects cfg) &&
  inclb (c_identity_fields cfg) ["id"; "key"] &&
  String.eqb (c_purge_literal cfg) "PURGE".

Record cfg_ok (cfg : consts) : Prop := {
  ok_protected : incl spec_engine_owned (c_protected cfg);
  ok_assertion : incl spec_assertion_payload (c_assertion_imm cfg);
  ok_evidence : incl spec_evidence_payload (c_evidence_imm cfg);
  ok_proposition : incl spec_proposition_payload (c_proposition_imm cfg);
  ok_structural : incl ["Assertion"; "Evidence"; "Proposition"; "Activity"] (c_structural_rejects cfg);
  ok_identity : incl (c_identity_fields cfg) ["id"; "key"];
  ok_purge : c_purge_literal cfg = "PURGE" }.

Lemma cfg_okb_sound cfg : cfg_okb cfg = true -> cfg_ok cfg.
Proof.
  unfold cfg_okb. rewrite !andb_true_iff. intros [[[[[[H1 H2] H3] H4] H5] H6] H7].
  constructor; try (apply inclb_incl; assumption). apply String.eqb_eq, H7.
Qed.

Section Sound.
Variable cfg : consts.
Hypothesis OK : cfg_ok cfg.

(* ---------------------------------------------------------------- engine-owned keys *)
Lemma keys_ok_unprotected seen ks :
  keys_ok cfg seen ks = true -> forall k, In k ks -> is_protected cfg k = false.
Proof.
  revert seen. induction ks as [|k0 tl IH]; intros seen H k Hk; [contradiction|].
  simpl in H. rewrite !andb_true_iff in H. destruct H as [[H1 H2] H3].
  destruct Hk as [<-|Hk].
  - apply negb_true_iff, H1.
  - eapply IH; eauto.
Qed.

Lemma unprotected_not_owned k : is_protected cfg k = false -> ~ In k spec_engine_owned.
Proof.
  intros H Hin. apply (ok_protected _ OK) in Hin. apply mem_In in Hin.
  unfold is_protected in H. congruence.
Qed.

Lemma check_unset_sound l : check_unset cfg l = true -> forall k, In k l -> ~ In k spec_engine_owned.
Proof. intros H k Hk. eapply unprotected_not_owned, keys_ok_unprotected; eauto. Qed.

Lemma check_assignments_sound a :
  check_assignments cfg a = true -> forall k, In k (keys a) -> ~ In k spec_engine_owned.
Proof.
  unfold check_assignments. rewrite andb_true_iff. intros [H _]. apply check_unset_sound, H.
Qed.

Lemma ocheck_sound a :
  opt_ok (check_assignments cfg) a = true -> forall k, In k (okeys a) -> ~ In k spec_engine_owned.
Proof. destruct a; simpl; [apply check_assignments_sound | intros _ k []]. Qed.

Lemma check_facets_sound l :
  check_facets cfg l = true -> forall k, In k (facet_keys l) -> ~ In k spec_engine_owned.
Proof.
  unfold check_facets, facet_keys. rewrite forallb_forall. intros H k Hk.
  apply in_flat_map in Hk. destruct Hk as [f [Hf Hk]]. eapply check_assignments_sound; eauto.
Qed.

Lemma validate_action_written a :
  validate_action cfg a = true -> forall k, In k (action_written a) -> ~ In k spec_engine_owned.
Proof.
  destruct a; simpl; intros H k Hk; try contradiction;
    try (eapply check_assignments_sound; eauto; fail);
    try (eapply check_unset_sound; eauto; fail).
Qed.

(* ---------------------------------------------------------------- exact selections *)
Scheme term_mind := Induction for term Sort Prop
  with matchv_mind := Induction for matchv Sort Prop
  with matchvs_mind := Induction for matchvs Sort Prop
  with matcher_mind := Induction for matcher Sort Prop
  with propm_mind := Induction for propm Sort Prop.
Combined Scheme tm_mutind from term_mind, matchv_mind, matchvs_mind, matcher_mind, propm_mind.

Lemma vx_props :
  (forall t, vx_term t = true -> forall p, In p (props_term t) -> exact_prop p) /\
  (forall v, vx_matchv v = true -> forall p, In p (props_matchv v) -> exact_prop p) /\
  (forall l, vx_matchvs l = true -> forall p, In p (props_matchvs l) -> exact_prop p) /\
  (forall m, vx_matcher m = true -> forall p, In p (props_matcher m) -> exact_prop p) /\
  (forall q, vx_propm q = true -> forall p, In p (props_propm q) -> exact_prop p).
Proof.
  apply tm_mutind; simpl; intros; try contradiction; auto.
  - (* MVCons *) apply andb_true_iff in H1. destruct H1. apply in_app_iff in H2. destruct H2; auto.
  - (* MCons *) apply andb_true_iff in H1. destruct H1. apply in_app_iff in H2. destruct H2; auto.
  - (* PMTuple *)
    match goal with Hc : _ && _ && _ = true |- _ =>
      rewrite !andb_true_iff in Hc; destruct Hc as [[Hp [_ Hs]] Ho] end.
    match goal with Hin : _ = _ \/ In _ _ |- _ =>
      destruct Hin as [<-|Hin]; [|apply in_app_iff in Hin; destruct Hin; auto] end.
    simpl. intros l E. subst. discriminate.
  - (* PMId *)
    match goal with Hin : _ = _ \/ False |- _ => destruct Hin as [<-|[]] end. exact I.
Qed.

Definition vx_term_props := proj1 vx_props.
Definition vx_matcher_props := proj1 (proj2 (proj2 (proj2 vx_props))).
Definition vx_propm_props := proj2 (proj2 (proj2 (proj2 vx_props))).

Scheme wc_mind := Induction for wc Sort Prop
  with wcs_mind := Induction for wcs Sort Prop.
Combined Scheme wc_mutind from wc_mind, wcs_mind.

Definition exact_wc (c : wc) : Prop := ~ is_belief c /\ forall p, In p (wc_props c) -> exact_prop p.

Lemma vx_wc_sound :
  (forall c, vx_wc c = true -> forall c', In c' (sub_wc c) -> exact_wc c') /\
  (forall l, vx_wcs l = true -> forall c', In c' (sub_wcs l) -> exact_wc c').
Proof.
  apply wc_mutind; simpl; intros; try discriminate; try contradiction.
  - destruct H0 as [<-|[]]. split; [intros []|]. simpl. apply vx_matcher_props, H.
  - destruct H0 as [<-|[]]. split; [intros []|]. simpl. apply vx_propm_props, H.
  - destruct H0 as [<-|[]]. split; [intros []|]. simpl. apply vx_matcher_props, H.
  - destruct H0 as [<-|[]]. split; [intros []|]. simpl. apply vx_matcher_props, H.
  - destruct H0 as [<-|[]]. split; [intros []|]. simpl. apply vx_matcher_props, H.
  - destruct H0 as [<-|[]]. split; [intros []|]. simpl. apply andb_true_iff in H. destruct H.
    intros p Hp. apply in_app_iff in Hp. destruct Hp as [Hp|Hp]; (eapply vx_term_props; [|exact Hp]; assumption).
  - destruct H0 as [<-|[]]. split; [intros []|]. simpl. intros p [].
  - destruct H1 as [<-|H1]; [split; [intros []| intros p []] | auto].
  - destruct H1 as [<-|H1]; [split; [intros []| intros p []] | auto].
  - destruct H1 as [<-|H1]; [split; [intros []| intros p []] | auto].
  - apply andb_true_iff in H1. destruct H1. apply in_app_iff in H2. destruct H2; auto.
Qed.

Lemma vx_wcs_exact ws : vx_wcs ws = true -> ExactSelection ws.
Proof. intros H c Hc. exact (proj2 vx_wc_sound ws H c Hc). Qed.

(* ---------------------------------------------------------------- typings of the UPDATE target *)
Lemma kinds_complete x :
  (forall c c' k, In c' (sub_wc c) -> binds c' x k -> In k (kinds_wc x c)) /\
  (forall l c' k, In c' (sub_wcs l) -> binds c' x k -> In k (kinds_wcs x l)).
Proof.
  apply wc_mutind; simpl; intros; try contradiction;
    try (destruct H as [<-|[]]; simpl in H0; destruct H0 as [-> ->]; rewrite String.eqb_refl; left; reflexivity);
    try (destruct H as [<-|[]]; simpl in H0; contradiction).
  - (* WProp *) destruct H as [<-|[]]. simpl in H0. destruct v as [v|]; [|contradiction].
    destruct H0 as [-> ->]. rewrite String.eqb_refl. left. reflexivity.
  - destruct H0 as [<-|H0]; [simpl in H1; contradiction | eauto].
  - destruct H0 as [<-|H0]; [simpl in H1; contradiction | eauto].
  - destruct H0 as [<-|H0]; [simpl in H1; contradiction | eauto].
  - apply in_app_iff. apply in_app_iff in H1. destruct H1; [left|right]; eauto.
Qed.

Lemma guard_immutable_sound f k :
  guard_immutable_field cfg f k = true -> ~ In f (spec_payload k).
Proof.
  destruct k; simpl; intros H Hin; try contradiction; apply negb_true_iff, mem_false in H; apply H.
  - apply (ok_assertion _ OK), Hin.
  - apply (ok_evidence _ OK), Hin.
  - apply (ok_proposition _ OK), Hin.
Qed.

Lemma guard_structural_sound k : guard_structural cfg k = true -> k = KConcept.
Proof.
  unfold guard_structural. intro H. apply negb_true_iff, mem_false in H.
  destruct k; auto; exfalso; apply H, (ok_structural _ OK); simpl; auto.
Qed.

Lemma guard_update_sound u : guard_update cfg u = true -> SafeUpdate u.
Proof.
  unfold guard_update, SafeUpdate, TargetTyped. rewrite andb_true_iff. intros [H _] k [x [ws [c [E1 [E2 [Hin Hb]]]]]].
  rewrite E1, E2 in H. rewrite forallb_forall in H.
  assert (Hk : In k (kinds_wcs x ws)) by (eapply (proj2 (kinds_complete x)); eauto).
  split.
  - intros f Hf. unfold set_fields_keys in Hf. apply in_flat_map in Hf. destruct Hf as [a [Ha Hf]].
    destruct a; try contradiction. specialize (H _ Ha). simpl in H. rewrite forallb_forall in H.
    unfold keys in Hf. apply in_map_iff in Hf. destruct Hf as [[f' v] [Ef Hf]]. simpl in Ef. subst f'.
    specialize (H _ Hf). simpl in H. rewrite forallb_forall in H. apply guard_immutable_sound, H, Hk.
  - intros Hne a Ha Hs. specialize (H _ Ha).
    destruct a; try contradiction; simpl in H; rewrite forallb_forall in H;
      apply Hne, guard_structural_sound, H, Hk.
Qed.

(* ---------------------------------------------------------------- UPSERT identity *)
Lemma stable_value_same o : Model.stable_value o = Safe.stable_valueb o.
Proof. reflexivity. Qed.

Lemma has_stable_identity_sound m : has_stable_identity cfg m = true -> StableIdentity m.
Proof.
  unfold has_stable_identity. rewrite existsb_exists. intros [f [Hf Hv]].
  apply (ok_identity _ OK) in Hf. rewrite stable_value_same in Hv. apply stable_valueb_iff in Hv.
  destruct Hv as [v [E Hv]]. exists f, v. simpl in Hf. intuition.
Qed.

(* ---------------------------------------------------------------- per-clause soundness *)
Lemma in_app3 {A} (x : A) a b c : In x (a ++ b ++ c) <-> In x a \/ In x b \/ In x c.
Proof. rewrite !in_app_iff. tauto. Qed.

Lemma validate_record_written c :
  validate_record cfg c = true ->
  forall k, In k (okeys (rc_set_fields c) ++ facet_keys (rc_set_facets c)) -> ~ In k spec_engine_owned.
Proof.
  unfold validate_record. rewrite !andb_true_iff. intros [[H1 H2] _] k Hk.
  apply in_app_iff in Hk. destruct Hk; [eapply ocheck_sound | eapply check_facets_sound]; eauto.
Qed.

Opaque spec_engine_owned.
Lemma validate_clause_sound c : validate_clause cfg c = true -> SafeClause c.
Proof.
  unfold validate_clause, SafeClause. rewrite andb_true_iff. intros [HW H].
  assert (HSel : forall ws, selection c = Some ws -> ExactSelection ws).
  { intros ws E. apply vx_wcs_exact. replace (selection c) with (clause_where c) in E by (destruct c; reflexivity).
    rewrite E in HW. exact HW. }
  destruct c; simpl; (split; [|split; [exact HSel|]]); try exact I; try (intros k []; fail).
  - (* CreateConcept *)
    rewrite !andb_true_iff in H. destruct H as [[[H1 H2] H3] _]. intros k Hk.
    apply in_app3 in Hk. destruct Hk as [Hk|[Hk|Hk]];
      [eapply ocheck_sound | eapply ocheck_sound | eapply check_facets_sound]; [|exact Hk| |exact Hk| |exact Hk]; assumption.
  - (* UpsertConcept: written *)
    rewrite !andb_true_iff in H. destruct H as [[[[[[[[H1 H2] H3] H4] H5] _] _] _] _]. intros k Hk.
    rewrite !in_app_iff in Hk. destruct Hk as [Hk|[Hk|[Hk|[Hk|Hk]]]].
    + eapply ocheck_sound; [|exact Hk]; assumption.
    + eapply ocheck_sound; [|exact Hk]; assumption.
    + eapply check_facets_sound; [|exact Hk]; assumption.
    + destruct (cu_unset_attributes c) as [l|]; [|contradiction]. simpl in *. eapply check_unset_sound; eauto.
    + apply in_flat_map in Hk. destruct Hk as [f [Hf Hk]]. rewrite forallb_forall in H5.
      eapply check_unset_sound; eauto.
  - (* UpsertConcept: identity *)
    rewrite !andb_true_iff in H. destruct H as [[[_ H7] H8] _]. unfold SafeUpsert.
    destruct (cu_match c) as [m|]; [|discriminate]. exists m. split; [reflexivity|]. split.
    + apply has_stable_identity_sound, H7.
    + simpl in H8. apply vx_matcher_props, H8.
  - (* EnsureProposition *)
    rewrite !andb_true_iff in H. destruct H as [[H1 H2] H3]. unfold vx_subject in H2.
    apply andb_true_iff in H2. destruct H2 as [H2 H2']. unfold SafeEnsure. repeat split.
    + intros n E. rewrite E in H1. discriminate.
    + intros v E. rewrite E in H2. discriminate.
    + intros p Hp. apply in_app_iff in Hp. destruct Hp as [Hp|Hp]; (eapply vx_term_props; [|exact Hp]; assumption).
  - (* CreateEvidence *) apply validate_record_written, H.
  - (* CreateAssertion *) apply validate_record_written, H.
  - (* CreateActivity *) apply validate_record_written, H.
  - (* Update: written *)
    rewrite !andb_true_iff in H. destruct H as [[H1 _] _]. rewrite forallb_forall in H1.
    intros k Hk. apply in_flat_map in Hk. destruct Hk as [a [Ha Hk]]. eapply validate_action_written; eauto.
  - (* Update: payload *)
    rewrite !andb_true_iff in H. destruct H as [_ H3]. apply guard_update_sound, H3.
  - (* TransitionActivity *)
    rewrite !andb_true_iff in H. destruct H as [H1 _]. apply ocheck_sound, H1.
  - (* SetRetention *) apply check_assignments_sound, H.
  - (* Purge *) apply String.eqb_eq in H. rewrite H. apply (ok_purge _ OK).
Qed.

Transparent spec_engine_owned.

(* ---------------------------------------------------------------- handles *)
Lemma claimed_claims cs : claimed cs = flat_map claims cs.
Proof.
  induction cs as [|c tl IH]; simpl; auto. rewrite IH.
  destruct c; simpl; auto. destruct (ep_handle c); reflexivity.
Qed.

Lemma flat_map_map {A B C} (f : B -> list C) (g : A -> B) l :
  flat_map f (map g l) = flat_map (fun x => f (g x)) l.
Proof. induction l; simpl; congruence. Qed.

Lemma in_flat_flat {A B C} (f : B -> list C) (g : A -> list B) l x :
  In x (flat_map f (flat_map g l)) <-> In x (flat_map (fun a => flat_map f (g a)) l).
Proof.
  induction l as [|a tl IH]; simpl; [tauto|]. rewrite flat_map_app, !in_app_iff, IH. tauto.
Qed.

Lemma h_assign a : handles_assign a = flat_map handles_mutval (values_assign a).
Proof. unfold handles_assign, values_assign. rewrite flat_map_map. reflexivity. Qed.

Lemma h_oassign a : handles_oassign a = flat_map handles_mutval (values_oassign a).
Proof. destruct a; simpl; [apply h_assign | reflexivity]. Qed.

Lemma h_facets l h : In h (flat_map handles_mutval (values_facets l)) <-> In h (handles_facets l).
Proof.
  unfold values_facets, handles_facets. rewrite in_flat_flat.
  rewrite !in_flat_map. split; intros [f [Hf Hh]]; exists f; split; auto;
    [rewrite h_assign | rewrite <- h_assign]; exact Hh.
Qed.

Lemma h_edges_list l h :
  In h (flat_map handles_edge l) <->
  In h (flat_map handles_mutval (values_edges l)) \/ In h (flat_map handles_bobject (options_edges l)).
Proof.
  induction l as [|e tl IH]; simpl; [tauto|].
  unfold options_edges in *. simpl. rewrite flat_map_app, !in_app_iff, IH. unfold handles_edge at 1.
  rewrite in_app_iff. destruct (se_options e); simpl; rewrite ?app_nil_r; tauto.
Qed.

Lemma h_edges o h :
  In h (handles_edges o) <->
  In h (flat_map handles_mutval (values_edges (olist o))) \/ In h (flat_map handles_bobject (options_edges (olist o))).
Proof. destruct o; simpl; [apply h_edges_list | tauto]. Qed.

Lemma h_removals l : handles_removals l = flat_map handles_mutval (values_removals l).
Proof. unfold handles_removals, values_removals. rewrite flat_map_map. reflexivity. Qed.

Lemma h_action a h :
  In h (flat_map handles_mutval (action_values a)) \/ In h (flat_map handles_bobject (action_options a)) ->
  In h (handles_action a).
Proof.
  destruct a; simpl; rewrite <- ?h_assign, <- ?h_removals; try tauto.
  intro H. apply (h_edges_list l h). exact H.
Qed.

Lemma h_actions l h :
  In h (flat_map handles_mutval (flat_map action_values l)) \/
  In h (flat_map handles_bobject (flat_map action_options l)) ->
  In h (flat_map handles_action l).
Proof.
  rewrite !in_flat_flat, !in_flat_map.
  intros [[a [Ha H]]|[a [Ha H]]]; exists a; split; auto; apply h_action; auto.
Qed.

Lemma referenced_covered c h : In h (referenced c) -> In h (clause_handles c).
Proof.
  unfold referenced. rewrite !in_app_iff.
  destruct c; simpl; rewrite ?flat_map_app, ?in_app_iff, ?app_nil_r;
    rewrite <- ?h_oassign, <- ?h_assign, <- ?h_removals, ?h_facets, ?h_edges; simpl;
    rewrite ?in_app_iff; try tauto.
  - (* UpsertConcept *)
    destruct (cu_unset_structural c); simpl; rewrite <- ?h_removals; tauto.
  - (* Update *)
    intros [H|[H|[H|[]]]]; [left; tauto | right; apply h_actions; tauto | right; apply h_actions; tauto].
Qed.

Lemma validate_plan_handles cs :
  nodupb (claimed cs) = true -> forallb (refs_ok (claimed cs)) cs = true -> SafeHandles cs.
Proof.
  intros H1 H2. rewrite claimed_claims in *. split; [apply nodupb_NoDup, H1|].
  rewrite forallb_forall in H2. intros c Hc h Hh. specialize (H2 c Hc). unfold refs_ok in H2.
  rewrite forallb_forall in H2. specialize (H2 h (referenced_covered c h Hh)).
  apply mem_In, in_app_iff in H2. destruct H2 as [H2|H2]; [left; exact H2|].
  right. replace (selection c) with (clause_where c) by (destruct c; reflexivity).
  destruct (clause_where c) as [ws|]; [|contradiction]. exists ws. auto.
Qed.

(* ---------------------------------------------------------------- the command *)
Theorem validate_sound c : validate_command cfg c = VOk -> Safe c.
Proof.
  destruct c as [|ex cs|t ws o a|]; simpl; auto.
  - unfold validate_plan, vand, vbool.
    destruct (negb match cs with [] => true | _ => false end); [|discriminate].
    destruct (forallb (validate_clause cfg) cs) eqn:E1; [|discriminate].
    destruct (nodupb (claimed cs)) eqn:E2; [|discriminate].
    destruct (forallb (refs_ok (claimed cs)) cs) eqn:E3; [|discriminate].
    intros _. split.
    + rewrite forallb_forall in E1. intros c Hc. apply validate_clause_sound, E1, Hc.
    + apply validate_plan_handles; assumption.
  - unfold vand, vbool. destruct (negb match ws with WNil => true | _ => false end); [|discriminate].
    destruct (vx_wcs ws) eqn:E; [|discriminate]. intros _. apply vx_wcs_exact, E.
Qed.

Corollary validate_safe_b c : validate_command cfg c = VOk -> safe_b c = true.
Proof. intro H. apply safe_b_iff, validate_sound, H. Qed.

End Sound.

(* Every action of an UPDATE's action list is guarded, wherever it stands in the list and
   however often its kind is repeated. *)
Lemma every_action_guarded cfg (OK : cfg_ok cfg) ex cs u a k :
  validate_command cfg (CKml ex cs) = VOk -> In (Update u) cs -> In a (up_actions u) -> TargetTyped u k ->
  (forall f, In f (action_written a) -> ~ In f spec_engine_owned) /\
  (forall asg f, a = USetFields asg -> In f (keys asg) -> ~ In f (spec_payload k)) /\
  (k <> KConcept -> ~ is_structural_action a).
Proof.
  intros HV Hin Ha Ht. apply (validate_sound cfg OK) in HV. destruct HV as [H1 _].
  destruct (H1 _ Hin) as [Hw [_ HU]]. simpl in HU. destruct (HU k Ht) as [P S].
  split; [|split].
  - intros f Hf. apply Hw. simpl. apply in_flat_map. exists a. auto.
  - intros asg f -> Hf. apply P. unfold set_fields_keys. apply in_flat_map. exists (USetFields asg). auto.
  - intros Hne. apply (S Hne a Ha).
Qed.
