(* C16 — the property, written as it reads (not as the validator computes it).

   [Safe c] quantifies over *occurrences*: the occurrence lists below flatten a tree
   (every where-clause at any nesting depth, every proposition expression at any
   depth of a matcher or term, every key of every assignment / unset block of a
   clause, every value position of a clause) and [Safe] is a universally quantified
   statement over their members.  [safe_b] is the decision procedure the check runs
   on every tree the implementation accepted; [safe_b_iff] proves it decides [Safe]. *)
From Coq Require Import List String Bool Arith.
From Verif Require Import Kip.Model.
Import ListNotations.
Open Scope string_scope.
Open Scope list_scope.

(* ---------------------------------------------------------------- the sets the property names *)
(* engine-owned: system, governance, space identity and sequence *)
Definition spec_engine_owned : list string := ["_system"; "governance"; "space_id"; "space_seq"].

(* immutable payload (SPECIFICATION.md 13.7, 15.5, 12.5; the names the engine stores them under) *)
Definition spec_assertion_payload : list string :=
  ["proposition_id"; "proposition"; "asserted_by"; "stance"; "mode"; "confidence";
   "asserted_at"; "valid_time"; "evidence"; "evidence_refs"].
Definition spec_evidence_payload : list string :=
  ["evidence_class"; "payload"; "content_digest"; "media_type"; "observed_at"].
Definition spec_proposition_payload : list string := ["subject"; "predicate"; "object"].

Definition spec_payload (k : bkind) : list string :=
  match k with
  | KAssertion => spec_assertion_payload
  | KEvidence => spec_evidence_payload
  | KProposition => spec_proposition_payload
  | KConcept | KActivity => []
  end.

(* ---------------------------------------------------------------- occurrence lists *)
(* every proposition expression inside a term / match value / matcher, at any depth *)
Fixpoint props_term (t : term) : list propm :=
  match t with
  | TMatch m => props_matcher m
  | TProp p => props_propm p
  | _ => []
  end
with props_matchv (v : matchv) : list propm :=
  match v with
  | MVArray l => props_matchvs l
  | MVMatch m => props_matcher m
  | MVProp p => props_propm p
  | _ => []
  end
with props_matchvs (l : matchvs) : list propm :=
  match l with MVNil => [] | MVCons v tl => props_matchv v ++ props_matchvs tl end
with props_matcher (m : matcher) : list propm :=
  match m with MNil => [] | MCons _ v tl => props_matchv v ++ props_matcher tl end
with props_propm (p : propm) : list propm :=
  p :: match p with
       | PMTuple s _ o => props_term s ++ props_term o
       | PMId _ => []
       end.

(* every where-clause of a block, at any nesting depth (NOT / OPTIONAL / UNION) *)
Fixpoint sub_wc (c : wc) : list wc :=
  c :: match c with
       | WNot l | WOptional l | WUnion l => sub_wcs l
       | _ => []
       end
with sub_wcs (l : wcs) : list wc :=
  match l with WNil => [] | WCons c tl => sub_wc c ++ sub_wcs tl end.

(* the proposition expressions a single where-clause carries in its own matcher / terms *)
Definition wc_props (c : wc) : list propm :=
  match c with
  | WConcept _ m | WAssertion _ m | WEvidence _ m | WActivity _ m => props_matcher m
  | WProp _ p => props_propm p
  | WStructural _ s _ o => props_term s ++ props_term o
  | _ => []
  end.

Definition keys (a : assignments) : list string := map fst a.
Definition okeys (a : option assignments) : list string := match a with Some a => keys a | None => [] end.
Definition facet_keys (l : list facet_assign) : list string := flat_map (fun f => keys (fa_values f)) l.
Definition olist {A} (o : option (list A)) : list A := match o with Some l => l | None => [] end.

(* every key written or removed by an UPDATE action *)
Definition action_written (a : update_action) : list string :=
  match a with
  | USetFields x | USetAttributes x => keys x
  | USetFacet f => keys (fa_values f)
  | UUnsetAttributes l => l
  | UUnsetFacet f => fu_fields f
  | USetStructural _ | UUnsetStructural _ => []
  end.

(* every key of every FIELDS / ATTRIBUTES / FACET / RETENTION block and UNSET list of a clause *)
Definition clause_written (c : clause) : list string :=
  match c with
  | CreateConcept c => okeys (cc_set_fields c) ++ okeys (cc_set_attributes c) ++ facet_keys (cc_set_facets c)
  | UpsertConcept c =>
      okeys (cu_set_fields c) ++ okeys (cu_set_attributes c) ++ facet_keys (cu_set_facets c) ++
      olist (cu_unset_attributes c) ++ flat_map fu_fields (cu_unset_facets c)
  | CreateEvidence c | CreateAssertion c | CreateActivity c =>
      okeys (rc_set_fields c) ++ facet_keys (rc_set_facets c)
  | Update u => flat_map action_written (up_actions u)
  | TransitionActivity t => okeys (tr_set_fields t)
  | SetRetention r => keys (rn_values r)
  | _ => []
  end.

(* the selection block of a clause *)
Definition selection (c : clause) : option wcs :=
  match c with
  | Update u => up_where u
  | RetractAssertion r => rt_where r
  | SetRetention r => rn_where r
  | Archive r | Tombstone r => rm_where r
  | Purge p => pg_where p
  | MergeConcept m => mg_where m
  | _ => None
  end.

(* the local handle a clause claims *)
Definition claims (c : clause) : list string :=
  match c with
  | CreateConcept c => [cc_handle c]
  | UpsertConcept c => [cu_handle c]
  | CreateEvidence c | CreateAssertion c | CreateActivity c => [rc_handle c]
  | EnsureProposition c => match ep_handle c with Some h => [h] | None => [] end
  | _ => []
  end.

(* every element reference, mutation value and option block a clause carries *)
Definition values_assign (a : assignments) : list mutval := map snd a.
Definition values_oassign (a : option assignments) : list mutval := match a with Some a => map snd a | None => [] end.
Definition values_facets (l : list facet_assign) : list mutval := flat_map (fun f => values_assign (fa_values f)) l.
Definition values_edges (l : list sedge) : list mutval := map se_value l.
Definition values_removals (l : list sremoval) : list mutval := map sr_value l.
Definition options_edges (l : list sedge) : list bobject := flat_map (fun e => match se_options e with Some o => [o] | None => [] end) l.

Definition action_values (a : update_action) : list mutval :=
  match a with
  | USetFields x | USetAttributes x => values_assign x
  | USetFacet f => values_assign (fa_values f)
  | USetStructural l => values_edges l
  | UUnsetStructural l => values_removals l
  | UUnsetAttributes _ | UUnsetFacet _ => []
  end.
Definition action_options (a : update_action) : list bobject :=
  match a with USetStructural l => options_edges l | _ => [] end.

Definition clause_erefs (c : clause) : list eref :=
  match c with
  | Update u => [up_target u]
  | RetractAssertion r => [rt_target r]
  | SupersedeAssertion b | CorrectEvidence b => [by_target b; by_by b]
  | TransitionActivity t => [tr_target t]
  | SetRetention r => [rn_target r]
  | Archive r | Tombstone r => [rm_target r]
  | Purge p => [pg_target p]
  | MergeConcept m => [mg_source m; mg_into m]
  | _ => []
  end.

Definition clause_values (c : clause) : list mutval :=
  match c with
  | CreateConcept c =>
      values_oassign (cc_set_fields c) ++ values_oassign (cc_set_attributes c) ++
      values_facets (cc_set_facets c) ++ values_edges (olist (cc_set_structural c))
  | UpsertConcept c =>
      values_oassign (cu_set_fields c) ++ values_oassign (cu_set_attributes c) ++
      values_facets (cu_set_facets c) ++ values_edges (olist (cu_set_structural c)) ++
      values_removals (olist (cu_unset_structural c))
  | CreateEvidence c | CreateAssertion c | CreateActivity c =>
      values_oassign (rc_set_fields c) ++ values_facets (rc_set_facets c) ++
      values_edges (olist (rc_set_structural c))
  | Update u => flat_map action_values (up_actions u)
  | TransitionActivity t => values_oassign (tr_set_fields t) ++ values_edges (olist (tr_set_structural t))
  | SetRetention r => values_assign (rn_values r)
  | _ => []
  end.

Definition clause_options (c : clause) : list bobject :=
  match c with
  | CreateConcept c => options_edges (olist (cc_set_structural c))
  | UpsertConcept c => options_edges (olist (cu_set_structural c))
  | CreateEvidence c | CreateAssertion c | CreateActivity c => options_edges (olist (rc_set_structural c))
  | Update u => flat_map action_options (up_actions u)
  | TransitionActivity t => options_edges (olist (tr_set_structural t))
  | _ => []
  end.

(* the tuple endpoints of a resolve-or-create statement *)
Definition clause_endpoints (c : clause) : list term :=
  match c with EnsureProposition e => [ep_subject e; ep_object e] | _ => [] end.

(* every local handle a clause refers to *)
Definition referenced (c : clause) : list string :=
  flat_map handles_eref (clause_erefs c) ++ flat_map handles_mutval (clause_values c) ++
  flat_map handles_bobject (clause_options c) ++ flat_map vars_term (clause_endpoints c).

(* ---------------------------------------------------------------- the property *)
Definition exact_prop (p : propm) : Prop :=
  match p with PMTuple _ pr _ => forall l, pr <> PTPath l | PMId _ => True end.

Definition is_belief (c : wc) : Prop :=
  match c with WBelief _ _ | WBeliefSlot _ _ _ => True | _ => False end.

(* no BELIEF / BELIEF SLOT pattern and no raw predicate path anywhere in a selection *)
Definition ExactSelection (ws : wcs) : Prop :=
  forall c, In c (sub_wcs ws) -> ~ is_belief c /\ forall p, In p (wc_props c) -> exact_prop p.

(* where-clause [c] types variable [x] as kind [k] *)
Definition binds (c : wc) (x : string) (k : bkind) : Prop :=
  match c with
  | WAssertion v _ => v = x /\ k = KAssertion
  | WEvidence v _ => v = x /\ k = KEvidence
  | WActivity v _ => v = x /\ k = KActivity
  | WConcept v _ => v = x /\ k = KConcept
  | WProp (Some v) _ => v = x /\ k = KProposition
  | _ => False
  end.

(* the UPDATE's own WHERE types its target handle as [k], at any nesting depth *)
Definition TargetTyped (u : update_stmt) (k : bkind) : Prop :=
  exists x ws c, up_target u = EHandle x /\ up_where u = Some ws /\ In c (sub_wcs ws) /\ binds c x k.

Definition set_fields_keys (u : update_stmt) : list string :=
  flat_map (fun a => match a with USetFields x => keys x | _ => [] end) (up_actions u).

Definition is_structural_action (a : update_action) : Prop :=
  match a with USetStructural _ | UUnsetStructural _ => True | _ => False end.

(* payload of an Assertion / Evidence / Proposition is never rewritten; record topology
   (incl. Activity) is never edited by UPDATE *)
Definition SafeUpdate (u : update_stmt) : Prop :=
  forall k, TargetTyped u k ->
    (forall f, In f (set_fields_keys u) -> ~ In f (spec_payload k)) /\
    (k <> KConcept -> forall a, In a (up_actions u) -> ~ is_structural_action a).

(* UPSERT identifies its Concept by id or key, given as a literal or a parameter *)
Definition StableIdentity (m : matcher) : Prop :=
  exists f v, (f = "id" \/ f = "key") /\ matcher_get f m = Some v /\
              ((exists x, v = MVLit x) \/ (exists x, v = MVParam x)).

Definition SafeUpsert (c : concept_upsert) : Prop :=
  exists m, cu_match c = Some m /\ StableIdentity m /\ forall p, In p (props_matcher m) -> exact_prop p.

(* no structure from a variable predicate or a literal subject; (id: ...) is not representable *)
Definition SafeEnsure (e : ensure_prop) : Prop :=
  (forall n, ep_predicate e <> PAVar n) /\ (forall v, ep_subject e <> TLit v) /\
  forall p, In p (props_term (ep_subject e) ++ props_term (ep_object e)) -> exact_prop p.

Definition SafeClause (c : clause) : Prop :=
  (forall k, In k (clause_written c) -> ~ In k spec_engine_owned) /\
  (forall ws, selection c = Some ws -> ExactSelection ws) /\
  match c with
  | Update u => SafeUpdate u
  | UpsertConcept c => SafeUpsert c
  | EnsureProposition e => SafeEnsure e
  | Purge p => pg_confirm p = "PURGE"
  | _ => True
  end.

(* handles are claimed once, and every referenced handle is claimed by the plan or bound by
   that clause's own WHERE *)
Definition SafeHandles (cs : list clause) : Prop :=
  NoDup (flat_map claims cs) /\
  forall c, In c cs -> forall h, In h (referenced c) ->
    In h (flat_map claims cs) \/ exists ws, selection c = Some ws /\ In h (vars_wcs ws).

Definition Safe (c : command) : Prop :=
  match c with
  | CKml _ cs => (forall c, In c cs -> SafeClause c) /\ SafeHandles cs
  | CExport _ ws _ _ => ExactSelection ws
  | CKql | CMetaOther => True
  end.

(* ---------------------------------------------------------------- decision procedure *)
Definition exact_propb (p : propm) : bool := match p with PMTuple _ (PTPath _) _ => false | _ => true end.
Definition is_beliefb (c : wc) : bool := match c with WBelief _ _ | WBeliefSlot _ _ _ => true | _ => false end.
Definition exact_selb (ws : wcs) : bool :=
  forallb (fun c => negb (is_beliefb c) && forallb exact_propb (wc_props c)) (sub_wcs ws).

Definition kind_eqb (a b : bkind) : bool :=
  match a, b with
  | KAssertion, KAssertion | KEvidence, KEvidence | KProposition, KProposition
  | KConcept, KConcept | KActivity, KActivity => true
  | _, _ => false
  end.

Definition all_kinds : list bkind := [KAssertion; KEvidence; KProposition; KConcept; KActivity].

Definition bindsb (c : wc) (x : string) (k : bkind) : bool :=
  match c with
  | WAssertion v _ => String.eqb v x && kind_eqb k KAssertion
  | WEvidence v _ => String.eqb v x && kind_eqb k KEvidence
  | WActivity v _ => String.eqb v x && kind_eqb k KActivity
  | WConcept v _ => String.eqb v x && kind_eqb k KConcept
  | WProp (Some v) _ => String.eqb v x && kind_eqb k KProposition
  | _ => false
  end.

Definition is_structural_actionb (a : update_action) : bool :=
  match a with USetStructural _ | UUnsetStructural _ => true | _ => false end.

Definition kind_okb (u : update_stmt) (k : bkind) : bool :=
  forallb (fun f => negb (mem f (spec_payload k))) (set_fields_keys u) &&
  (kind_eqb k KConcept || forallb (fun a => negb (is_structural_actionb a)) (up_actions u)).

Definition safe_updateb (u : update_stmt) : bool :=
  match up_target u, up_where u with
  | EHandle x, Some ws =>
      forallb (fun c => forallb (fun k => negb (bindsb c x k) || kind_okb u k) all_kinds) (sub_wcs ws)
  | _, _ => true
  end.

Definition stable_valueb (o : option matchv) : bool :=
  match o with Some (MVLit _) | Some (MVParam _) => true | _ => false end.

Definition stable_identityb (m : matcher) : bool :=
  stable_valueb (matcher_get "id" m) || stable_valueb (matcher_get "key" m).

Definition safe_upsertb (c : concept_upsert) : bool :=
  match cu_match c with
  | Some m => stable_identityb m && forallb exact_propb (props_matcher m)
  | None => false
  end.

Definition safe_ensureb (e : ensure_prop) : bool :=
  negb (match ep_predicate e with PAVar _ => true | _ => false end) &&
  negb (match ep_subject e with TLit _ => true | _ => false end) &&
  forallb exact_propb (props_term (ep_subject e) ++ props_term (ep_object e)).

Definition safe_clauseb (c : clause) : bool :=
  forallb (fun k => negb (mem k spec_engine_owned)) (clause_written c) &&
  match selection c with Some ws => exact_selb ws | None => true end &&
  match c with
  | Update u => safe_updateb u
  | UpsertConcept c => safe_upsertb c
  | EnsureProposition e => safe_ensureb e
  | Purge p => String.eqb (pg_confirm p) "PURGE"
  | _ => true
  end.

Definition safe_handlesb (cs : list clause) : bool :=
  nodupb (flat_map claims cs) &&
  forallb (fun c =>
    forallb (fun h => mem h (flat_map claims cs) ||
                      match selection c with Some ws => mem h (vars_wcs ws) | None => false end)
            (referenced c)) cs.

Definition safe_b (c : command) : bool :=
  match c with
  | CKml _ cs => forallb safe_clauseb cs && safe_handlesb cs
  | CExport _ ws _ _ => exact_selb ws
  | CKql | CMetaOther => true
  end.
