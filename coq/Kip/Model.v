(* C16 — executable model of anda_kip's tree validator.

   Transcribes, in the branch order of the source:
     rs/anda_kip/src/parser.rs      validate_command
     rs/anda_kip/src/parser/kml.rs  validate_plan, validate_clause, guard_update,
                                    bound_kinds_of, guard_immutable_field,
                                    guard_structural_mutation, validate_exact_*,
                                    validate_update_expr, clause_where,
                                    collect_clause_handles, upsert_has_stable_identity_selector
     rs/anda_kip/src/parser/common.rs  is_protected_field, collect_where_variables,
                                    collect_*_handles, collect_*_paths
   over a Coq copy of the KML / EXPORT part of rs/anda_kip/src/ast.rs.

   What is abstracted (and only this):
     - serde_json::Number and KipValue::Object are opaque strings (their JSON text):
       no validator looks inside a literal;
     - FilterExpression is an opaque string: FILTER binds nothing and is never inspected;
     - a KQL query and every META command other than EXPORT CAPSULE carry no payload
       (validate_command accepts them unconditionally); AsOf is an opaque string;
     - BTreeMap<String,_> (ObjectMatcher, BoundObject) is its key-ordered entry list;
       BTreeSet<String> is a list used only through membership;
     - KipError is reduced to its code (InvalidSyntax / DuplicateLocalHandle / ReferenceError).
   None of the opaque payloads is looked into by the tree validator or by [Safe]
   (gen/Gen_Kip.v [opaque_payloads_inspected] = [] and [filter_binds_nothing] = true are
   regenerated from the source and pinned by C16_dispatch_as_modelled; the day the validator
   inspects one of them that lemma breaks and the AST must be widened).
   Lists nested inside the recursive types use their own cons types so that the mutual
   fixpoints below are plainly structural.  No proofs in this file. *)
From Coq Require Import List String Bool Arith.
Import ListNotations.
Open Scope string_scope.
Open Scope list_scope.

(* ------------------------------------------------------------------ values *)
(* KipValue: numbers and objects keep their JSON text; arrays keep their items
   (the ASSERT desugaring splits an `evidence:` array into one citation per item) *)
Inductive kv :=
| KNull | KBool (b : bool) | KNum (n : string) | KStr (s : string) | KArr (l : kvs) | KObj (json : string)
with kvs := KVNil | KVCons (v : kv) (tl : kvs).

Inductive scalar := SLit (v : kv) | SParam (n : string).
Inductive symref := SymName (s : string) | SymParam (s : string).
Inductive eref := EHandle (s : string) | EParam (s : string) | EId (s : string).
Inductive pathstep := PField (s : string) | PKey (s : string).
Record dotpath := mkDot { dp_var : string; dp_path : list pathstep }.

Inductive predatom := PAVar (s : string) | PALit (s : string) | PAParam (s : string).
(* PredPathAtom: predicate + optional hop range (opaque text) *)
Inductive predterm := PTAtom (a : predatom) | PTPath (l : list (predatom * option string)).

Inductive term :=
| TVar (s : string) | TParam (s : string) | TLit (v : kv)
| TMatch (m : matcher) | TProp (p : propm)
with matchv :=
| MVVar (s : string) | MVParam (s : string) | MVLit (v : kv)
| MVArray (l : matchvs) | MVMatch (m : matcher) | MVProp (p : propm)
with matchvs := MVNil | MVCons (v : matchv) (tl : matchvs)
with matcher := MNil | MCons (k : string) (v : matchv) (tl : matcher)
with propm := PMTuple (s : term) (p : predterm) (o : term) | PMId (i : scalar).

Inductive bv :=
| BVal (v : kv) | BParam (s : string) | BHandle (s : string) | BVar (d : dotpath)
| BArray (l : bvs) | BObject (l : bvo)
with bvs := BNil | BCons (v : bv) (tl : bvs)
with bvo := BONil | BOCons (k : string) (v : bv) (tl : bvo).

Inductive ufunc := FAdd | FMul | FClamp | FCoalesce.
Inductive uexpr :=
| UVar (d : dotpath) | UNum (n : string) | UParam (s : string) | UFun (f : ufunc) (args : uexprs)
with uexprs := UNil | UCons (e : uexpr) (tl : uexprs).

Inductive mutval :=
| MVal (v : kv) | MParam (s : string) | MHandle (s : string) | MVarP (d : dotpath)
| MArray (l : bvs) | MObject (l : bvo) | MExpr (e : uexpr).

Definition assignments := list (string * mutval).
Definition bobject := list (string * bv).

Record facet_assign := mkFA { fa_facet : symref; fa_values : assignments }.
Record facet_unset := mkFU { fu_facet : symref; fu_fields : list string }.
Record sedge := mkEdge { se_field : symref; se_value : mutval; se_options : option bobject }.
Record sremoval := mkRemoval { sr_field : symref; sr_value : mutval }.

(* ------------------------------------------------------------------ WHERE *)
Inductive btarget := BTProp (s : string) | BTId (i : scalar) | BTTuple (s : term) (p : predterm) (o : term).

Inductive wc :=
| WConcept (v : string) (m : matcher)
| WProp (v : option string) (p : propm)
| WAssertion (v : string) (m : matcher)
| WEvidence (v : string) (m : matcher)
| WActivity (v : string) (m : matcher)
| WStructural (v : option string) (s : term) (f : symref) (o : term)
| WBelief (v : string) (t : btarget)
| WBeliefSlot (v : string) (s : term) (p : predatom)
| WFilter (e : string)
| WNot (l : wcs) | WOptional (l : wcs) | WUnion (l : wcs)
with wcs := WNil | WCons (c : wc) (tl : wcs).

(* ------------------------------------------------------------------ KML *)
Record concept_create := mkCC {
  cc_handle : string; cc_type : option symref; cc_client_key : option scalar; cc_name : option scalar;
  cc_set_fields : option assignments; cc_set_attributes : option assignments;
  cc_set_facets : list facet_assign; cc_set_structural : option (list sedge) }.

Record concept_upsert := mkCU {
  cu_handle : string; cu_match : option matcher; cu_expect_version : option scalar;
  cu_set_fields : option assignments; cu_set_attributes : option assignments;
  cu_set_facets : list facet_assign; cu_unset_attributes : option (list string);
  cu_unset_facets : list facet_unset; cu_set_structural : option (list sedge);
  cu_unset_structural : option (list sremoval) }.

Record record_create := mkRC {
  rc_handle : string; rc_client_key : option scalar; rc_set_fields : option assignments;
  rc_set_facets : list facet_assign; rc_set_structural : option (list sedge) }.

Record ensure_prop := mkEP {
  ep_handle : option string; ep_subject : term; ep_predicate : predatom; ep_object : term;
  ep_expect_version : option scalar }.

Inductive update_action :=
| USetFields (a : assignments) | USetAttributes (a : assignments) | USetFacet (f : facet_assign)
| UUnsetAttributes (l : list string) | UUnsetFacet (f : facet_unset)
| USetStructural (l : list sedge) | UUnsetStructural (l : list sremoval).

Record update_stmt := mkUp {
  up_target : eref; up_expect_version : option scalar; up_actions : list update_action;
  up_where : option wcs; up_limit : option scalar }.

Record retract_stmt := mkRetract {
  rt_target : eref; rt_where : option wcs; rt_limit : option scalar; rt_expect_state : option scalar }.
(* SupersedeAssertion and CorrectEvidence share this shape *)
Record by_stmt := mkBy { by_target : eref; by_by : eref; by_expect_state : option scalar }.
Record transition_stmt := mkTrans {
  tr_target : eref; tr_to : scalar; tr_set_fields : option assignments;
  tr_set_structural : option (list sedge); tr_expect_state : option scalar }.
Record retention_stmt := mkRet {
  rn_target : eref; rn_values : assignments; rn_where : option wcs; rn_limit : option scalar;
  rn_expect_version : option scalar }.
Record removal_stmt := mkRem {
  rm_target : eref; rm_where : option wcs; rm_limit : option scalar; rm_expect_state : option scalar }.
Record purge_stmt := mkPurge {
  pg_target : eref; pg_where : option wcs; pg_limit : option scalar; pg_reference_policy : option scalar;
  pg_confirm : string }.
Record merge_stmt := mkMerge {
  mg_source : eref; mg_into : eref; mg_where : option wcs; mg_expect_version : option scalar }.

Inductive clause :=
| CreateConcept (c : concept_create)
| UpsertConcept (c : concept_upsert)
| EnsureProposition (c : ensure_prop)
| CreateEvidence (c : record_create)
| CreateAssertion (c : record_create)
| CreateActivity (c : record_create)
| Update (c : update_stmt)
| RetractAssertion (c : retract_stmt)
| SupersedeAssertion (c : by_stmt)
| CorrectEvidence (c : by_stmt)
| TransitionActivity (c : transition_stmt)
| SetRetention (c : retention_stmt)
| Archive (c : removal_stmt)
| Tombstone (c : removal_stmt)
| Purge (c : purge_stmt)
| MergeConcept (c : merge_stmt).

Inductive command :=
| CKql
| CKml (explicit : bool) (clauses : list clause)
| CExport (target : eref) (wheres : wcs) (options : option bobject) (as_of : option string)
| CMetaOther.

(* ------------------------------------------------------------------ results *)
Inductive ecode := InvalidSyntax | DuplicateLocalHandle | ReferenceError.
Inductive verdict := VOk | VErr (c : ecode).

Definition vand (a b : verdict) : verdict := match a with VOk => b | e => e end.
Definition vbool (b : bool) (c : ecode) : verdict := if b then VOk else VErr c.
Definition is_ok (v : verdict) : bool := match v with VOk => true | _ => false end.

(* ------------------------------------------------------------------ constants
   (instantiated from gen/Gen_Kip.v in Kip/Run.v) *)
Record consts := mkConsts {
  c_protected : list string;         (* common.rs PROTECTED_FIELDS *)
  c_assertion_imm : list string;     (* kml.rs ASSERTION_IMMUTABLE *)
  c_evidence_imm : list string;      (* kml.rs EVIDENCE_IMMUTABLE *)
  c_proposition_imm : list string;   (* kml.rs PROPOSITION_IMMUTABLE *)
  c_arity : ufunc -> nat;            (* ast.rs UpdateFunction::arity *)
  c_identity_fields : list string;   (* kml.rs upsert_has_stable_identity_selector: ["id","key"] *)
  c_purge_literal : string;          (* kml.rs "PURGE" *)
  c_structural_rejects : list string (* kinds guard_structural_mutation refuses *)
}.

Definition mem (k : string) (l : list string) : bool := existsb (String.eqb k) l.

Section Validator.
Variable cfg : consts.

(* common.rs is_protected_field *)
Definition is_protected (k : string) : bool := mem k (c_protected cfg).

(* ---- kml.rs validate_update_expr / validate_mutation_value / validate_structural_edges *)
Fixpoint len_uexprs (l : uexprs) : nat := match l with UNil => 0 | UCons _ tl => S (len_uexprs tl) end.

Fixpoint validate_uexpr (e : uexpr) : bool :=
  match e with
  | UFun f args => Nat.eqb (len_uexprs args) (c_arity cfg f) && validate_uexprs args
  | _ => true
  end
with validate_uexprs (l : uexprs) : bool :=
  match l with UNil => true | UCons e tl => validate_uexpr e && validate_uexprs tl end.

Definition validate_mutval (v : mutval) : bool :=
  match v with MExpr e => validate_uexpr e | _ => true end.

Definition validate_edges (l : list sedge) : bool := forallb (fun e => validate_mutval (se_value e)) l.

(* ---- validate_clause closures check_assignments / check_unset / check_facets *)
Fixpoint keys_ok (seen : list string) (ks : list string) : bool :=
  match ks with
  | [] => true
  | k :: tl => negb (is_protected k) && negb (mem k seen) && keys_ok (k :: seen) tl
  end.

Definition check_assignments (a : assignments) : bool :=
  keys_ok [] (map fst a) && forallb (fun kv => validate_mutval (snd kv)) a.
Definition check_unset (l : list string) : bool := keys_ok [] l.
Definition check_facets (l : list facet_assign) : bool := forallb (fun f => check_assignments (fa_values f)) l.

Definition opt_ok {A} (f : A -> bool) (o : option A) : bool := match o with None => true | Some a => f a end.

(* ---- validate_exact_* *)
Definition is_lit (t : term) : bool := match t with TLit _ => true | _ => false end.
Definition is_path (p : predterm) : bool := match p with PTPath _ => true | _ => false end.

Fixpoint vx_term (t : term) : bool :=
  match t with
  | TMatch m => vx_matcher m
  | TProp p => vx_propm p
  | _ => true
  end
with vx_matchv (v : matchv) : bool :=
  match v with
  | MVArray l => vx_matchvs l
  | MVMatch m => vx_matcher m
  | MVProp p => vx_propm p
  | _ => true
  end
with vx_matchvs (l : matchvs) : bool :=
  match l with MVNil => true | MVCons v tl => vx_matchv v && vx_matchvs tl end
with vx_matcher (m : matcher) : bool :=
  match m with MNil => true | MCons _ v tl => vx_matchv v && vx_matcher tl end
with vx_propm (p : propm) : bool :=
  match p with
  | PMId _ => true
  | PMTuple s pr o =>
      negb (is_path pr) && (negb (is_lit s) && vx_term s) && vx_term o
  end.

(* validate_proposition_subject *)
Definition vx_subject (s : term) : bool := negb (is_lit s) && vx_term s.

Fixpoint vx_wc (c : wc) : bool :=
  match c with
  | WBelief _ _ | WBeliefSlot _ _ _ => false
  | WConcept _ m | WAssertion _ m | WEvidence _ m | WActivity _ m => vx_matcher m
  | WProp _ p => vx_propm p
  | WStructural _ s _ o => vx_term s && vx_term o
  | WNot l | WOptional l | WUnion l => vx_wcs l
  | WFilter _ => true
  end
with vx_wcs (l : wcs) : bool :=
  match l with WNil => true | WCons c tl => vx_wc c && vx_wcs tl end.

(* ---- upsert_has_stable_identity_selector *)
Fixpoint matcher_get (k : string) (m : matcher) : option matchv :=
  match m with
  | MNil => None
  | MCons k' v tl => if String.eqb k' k then Some v else matcher_get k tl
  end.

Definition stable_value (o : option matchv) : bool :=
  match o with Some (MVLit _) | Some (MVParam _) => true | _ => false end.

Definition has_stable_identity (m : matcher) : bool :=
  existsb (fun f => stable_value (matcher_get f m)) (c_identity_fields cfg).

(* ---- bound_kinds_of / guards *)
Inductive bkind := KAssertion | KEvidence | KProposition | KConcept | KActivity.

Fixpoint kinds_wc (x : string) (c : wc) : list bkind :=
  match c with
  | WAssertion v _ => if String.eqb v x then [KAssertion] else []
  | WEvidence v _ => if String.eqb v x then [KEvidence] else []
  | WActivity v _ => if String.eqb v x then [KActivity] else []
  | WConcept v _ => if String.eqb v x then [KConcept] else []
  | WProp (Some v) _ => if String.eqb v x then [KProposition] else []
  | WNot l | WOptional l | WUnion l => kinds_wcs x l
  | _ => []
  end
with kinds_wcs (x : string) (l : wcs) : list bkind :=
  match l with WNil => [] | WCons c tl => kinds_wc x c ++ kinds_wcs x tl end.

Definition kind_name (k : bkind) : string :=
  match k with
  | KAssertion => "Assertion" | KEvidence => "Evidence" | KProposition => "Proposition"
  | KConcept => "Concept" | KActivity => "Activity"
  end.

Definition guard_immutable_field (field : string) (k : bkind) : bool :=
  match k with
  | KAssertion => negb (mem field (c_assertion_imm cfg))
  | KEvidence => negb (mem field (c_evidence_imm cfg))
  | KProposition => negb (mem field (c_proposition_imm cfg))
  | _ => true
  end.

Definition guard_structural (k : bkind) : bool := negb (mem (kind_name k) (c_structural_rejects cfg)).

(* ---- collect_*_paths (only the variable of each path matters) *)
Fixpoint paths_uexpr (e : uexpr) : list string :=
  match e with
  | UVar d => [dp_var d]
  | UFun _ args => paths_uexprs args
  | _ => []
  end
with paths_uexprs (l : uexprs) : list string :=
  match l with UNil => [] | UCons e tl => paths_uexpr e ++ paths_uexprs tl end.

Fixpoint paths_bv (v : bv) : list string :=
  match v with
  | BVar d => [dp_var d]
  | BArray l => paths_bvs l
  | BObject l => paths_bvo l
  | _ => []
  end
with paths_bvs (l : bvs) : list string :=
  match l with BNil => [] | BCons v tl => paths_bv v ++ paths_bvs tl end
with paths_bvo (l : bvo) : list string :=
  match l with BONil => [] | BOCons _ v tl => paths_bv v ++ paths_bvo tl end.

Definition paths_mutval (v : mutval) : list string :=
  match v with
  | MVarP d => [dp_var d]
  | MExpr e => paths_uexpr e
  | MArray l => paths_bvs l
  | MObject l => paths_bvo l
  | _ => []
  end.

Definition paths_assign (a : assignments) : list string := flat_map (fun kv => paths_mutval (snd kv)) a.

Definition paths_action (a : update_action) : list string :=
  match a with
  | USetFields a | USetAttributes a => paths_assign a
  | USetFacet f => paths_assign (fa_values f)
  | USetStructural l => flat_map (fun e => paths_mutval (se_value e)) l
  | UUnsetStructural l => flat_map (fun r => paths_mutval (sr_value r)) l
  | UUnsetAttributes _ | UUnsetFacet _ => []
  end.

(* ---- guard_update *)
Definition guard_action (kinds : list bkind) (a : update_action) : bool :=
  match a with
  | USetFields asg =>
      forallb (fun kv => forallb (guard_immutable_field (fst kv)) kinds) asg
  | USetStructural _ | UUnsetStructural _ => forallb guard_structural kinds
  | _ => true
  end.

Definition guard_update (u : update_stmt) : bool :=
  let target_var := match up_target u with EHandle n => Some n | _ => None end in
  let kinds := match target_var, up_where u with
               | Some x, Some ws => kinds_wcs x ws
               | _, _ => []
               end in
  forallb (guard_action kinds) (up_actions u) &&
  match target_var with
  | Some x => negb (existsb (fun p => negb (String.eqb p x)) (flat_map paths_action (up_actions u)))
  | None => true
  end.

(* ---- clause_where *)
Definition clause_where (c : clause) : option wcs :=
  match c with
  | Update u => up_where u
  | RetractAssertion r => rt_where r
  | SetRetention r => rn_where r
  | Archive r | Tombstone r => rm_where r
  | Purge p => pg_where p
  | MergeConcept m => mg_where m
  | _ => None
  end.

(* ---- validate_clause: every error is InvalidSyntax, so a bool suffices *)
Definition validate_action (a : update_action) : bool :=
  match a with
  | USetFields x | USetAttributes x => check_assignments x
  | USetFacet f => check_assignments (fa_values f)
  | UUnsetAttributes f => check_unset f
  | UUnsetFacet f => check_unset (fu_fields f)
  | UUnsetStructural [] => false
  | USetStructural edges => validate_edges edges
  | UUnsetStructural removals => forallb (fun r => validate_mutval (sr_value r)) removals
  end.

Definition validate_record (c : record_create) : bool :=
  opt_ok check_assignments (rc_set_fields c) && check_facets (rc_set_facets c) &&
  opt_ok validate_edges (rc_set_structural c).

Definition validate_clause (c : clause) : bool :=
  opt_ok vx_wcs (clause_where c) &&
  match c with
  | CreateConcept c =>
      opt_ok check_assignments (cc_set_fields c) && opt_ok check_assignments (cc_set_attributes c) &&
      check_facets (cc_set_facets c) && opt_ok validate_edges (cc_set_structural c)
  | UpsertConcept c =>
      opt_ok check_assignments (cu_set_fields c) && opt_ok check_assignments (cu_set_attributes c) &&
      check_facets (cu_set_facets c) && opt_ok check_unset (cu_unset_attributes c) &&
      forallb (fun f => check_unset (fu_fields f)) (cu_unset_facets c) &&
      opt_ok validate_edges (cu_set_structural c) &&
      match cu_match c with Some m => has_stable_identity m | None => false end &&
      opt_ok vx_matcher (cu_match c) &&
      negb (match cu_unset_structural c with Some [] => true | _ => false end)
  | CreateEvidence c | CreateAssertion c | CreateActivity c => validate_record c
  | EnsureProposition c =>
      negb (match ep_predicate c with PAVar _ => true | _ => false end) &&
      vx_subject (ep_subject c) && vx_term (ep_object c)
  | Update c =>
      forallb validate_action (up_actions c) &&
      negb (match up_actions c with [] => true | _ => false end) &&
      guard_update c
  | TransitionActivity c =>
      opt_ok check_assignments (tr_set_fields c) && opt_ok validate_edges (tr_set_structural c)
  | SetRetention c => check_assignments (rn_values c)
  | Purge c => String.eqb (pg_confirm c) (c_purge_literal cfg)
  | _ => true
  end.

(* ---- ast.rs MutationClause::handle *)
Definition clause_handle (c : clause) : option string :=
  match c with
  | CreateConcept c => Some (cc_handle c)
  | UpsertConcept c => Some (cu_handle c)
  | CreateEvidence c | CreateAssertion c | CreateActivity c => Some (rc_handle c)
  | EnsureProposition c => ep_handle c
  | _ => None
  end.

(* ---- common.rs collect_where_variables and friends *)
Definition pa_vars (a : predatom) : list string := match a with PAVar n => [n] | _ => [] end.

Fixpoint vars_term (t : term) : list string :=
  match t with
  | TVar n => [n]
  | TMatch m => vars_matcher m
  | TProp p => vars_propm p
  | TParam _ | TLit _ => []
  end
with vars_matchv (v : matchv) : list string :=
  match v with
  | MVVar n => [n]
  | MVArray l => vars_matchvs l
  | MVMatch m => vars_matcher m
  | MVProp p => vars_propm p
  | MVParam _ | MVLit _ => []
  end
with vars_matchvs (l : matchvs) : list string :=
  match l with MVNil => [] | MVCons v tl => vars_matchv v ++ vars_matchvs tl end
with vars_matcher (m : matcher) : list string :=
  match m with MNil => [] | MCons _ v tl => vars_matchv v ++ vars_matcher tl end
with vars_propm (p : propm) : list string :=
  match p with
  | PMId _ => []
  | PMTuple s pr o =>
      vars_term s ++ vars_term o ++
      match pr with
      | PTAtom a => pa_vars a
      | PTPath l => flat_map (fun x => pa_vars (fst x)) l
      end
  end.

Definition vars_triple (s : term) (pr : predterm) (o : term) : list string := vars_propm (PMTuple s pr o).
Definition opt_var (o : option string) : list string := match o with Some v => [v] | None => [] end.

Fixpoint vars_wc (c : wc) : list string :=
  match c with
  | WConcept v m | WAssertion v m | WEvidence v m | WActivity v m => v :: vars_matcher m
  | WProp v p => opt_var v ++ vars_propm p
  | WStructural v s _ o => opt_var v ++ vars_term s ++ vars_term o
  | WBelief v t =>
      v :: match t with
           | BTProp n => [n]
           | BTId _ => []
           | BTTuple s pr o => vars_triple s pr o
           end
  | WBeliefSlot v s p => v :: vars_term s ++ pa_vars p
  | WFilter _ => []
  | WNot l | WOptional l | WUnion l => vars_wcs l
  end
with vars_wcs (l : wcs) : list string :=
  match l with WNil => [] | WCons c tl => vars_wc c ++ vars_wcs tl end.

(* ---- collect_*_handles *)
Fixpoint handles_bv (v : bv) : list string :=
  match v with
  | BHandle n => [n]
  | BArray l => handles_bvs l
  | BObject l => handles_bvo l
  | BVal _ | BParam _ | BVar _ => []
  end
with handles_bvs (l : bvs) : list string :=
  match l with BNil => [] | BCons v tl => handles_bv v ++ handles_bvs tl end
with handles_bvo (l : bvo) : list string :=
  match l with BONil => [] | BOCons _ v tl => handles_bv v ++ handles_bvo tl end.

Definition handles_mutval (v : mutval) : list string :=
  match v with
  | MHandle n => [n]
  | MArray l => handles_bvs l
  | MObject l => handles_bvo l
  | MVal _ | MParam _ | MVarP _ | MExpr _ => []
  end.

Definition handles_assign (a : assignments) : list string := flat_map (fun kv => handles_mutval (snd kv)) a.
Definition handles_oassign (a : option assignments) : list string :=
  match a with Some a => handles_assign a | None => [] end.
Definition handles_facets (l : list facet_assign) : list string := flat_map (fun f => handles_assign (fa_values f)) l.
Definition handles_bobject (o : bobject) : list string := flat_map (fun kv => handles_bv (snd kv)) o.
Definition handles_edge (e : sedge) : list string :=
  handles_mutval (se_value e) ++ match se_options e with Some o => handles_bobject o | None => [] end.
Definition handles_edges (l : option (list sedge)) : list string :=
  match l with Some l => flat_map handles_edge l | None => [] end.
Definition handles_removals (l : list sremoval) : list string := flat_map (fun r => handles_mutval (sr_value r)) l.
Definition handles_eref (r : eref) : list string := match r with EHandle n => [n] | _ => [] end.

Definition handles_action (a : update_action) : list string :=
  match a with
  | USetFields a | USetAttributes a => handles_assign a
  | USetFacet f => handles_assign (fa_values f)
  | USetStructural edges => handles_edges (Some edges)
  | UUnsetStructural removals => handles_removals removals
  | UUnsetAttributes _ | UUnsetFacet _ => []
  end.

(* kml.rs collect_clause_handles *)
Definition clause_handles (c : clause) : list string :=
  match c with
  | CreateConcept c =>
      handles_oassign (cc_set_fields c) ++ handles_oassign (cc_set_attributes c) ++
      handles_facets (cc_set_facets c) ++ handles_edges (cc_set_structural c)
  | UpsertConcept c =>
      handles_oassign (cu_set_fields c) ++ handles_oassign (cu_set_attributes c) ++
      handles_facets (cu_set_facets c) ++ handles_edges (cu_set_structural c) ++
      match cu_unset_structural c with Some l => handles_removals l | None => [] end
  | CreateEvidence c | CreateAssertion c | CreateActivity c =>
      handles_oassign (rc_set_fields c) ++ handles_facets (rc_set_facets c) ++
      handles_edges (rc_set_structural c)
  | EnsureProposition c => vars_term (ep_subject c) ++ vars_term (ep_object c)
  | Update c => handles_eref (up_target c) ++ flat_map handles_action (up_actions c)
  | RetractAssertion c => handles_eref (rt_target c)
  | SupersedeAssertion c | CorrectEvidence c => handles_eref (by_target c) ++ handles_eref (by_by c)
  | TransitionActivity c =>
      handles_eref (tr_target c) ++ handles_oassign (tr_set_fields c) ++ handles_edges (tr_set_structural c)
  | SetRetention c => handles_eref (rn_target c) ++ handles_assign (rn_values c)
  | Archive c | Tombstone c => handles_eref (rm_target c)
  | Purge c => handles_eref (pg_target c)
  | MergeConcept c => handles_eref (mg_source c) ++ handles_eref (mg_into c)
  end.

(* ---- kml.rs validate_plan *)
Fixpoint claimed (cs : list clause) : list string :=
  match cs with
  | [] => []
  | c :: tl => match clause_handle c with Some h => h :: claimed tl | None => claimed tl end
  end.

Fixpoint nodupb (l : list string) : bool :=
  match l with [] => true | x :: tl => negb (mem x tl) && nodupb tl end.

Definition refs_ok (plan : list string) (c : clause) : bool :=
  let allowed := plan ++ match clause_where c with Some ws => vars_wcs ws | None => [] end in
  forallb (fun n => mem n allowed) (clause_handles c).

Definition validate_plan (cs : list clause) : verdict :=
  vand (vbool (negb (match cs with [] => true | _ => false end)) InvalidSyntax)
  (vand (vbool (forallb validate_clause cs) InvalidSyntax)
  (vand (vbool (nodupb (claimed cs)) DuplicateLocalHandle)
        (vbool (forallb (refs_ok (claimed cs)) cs) ReferenceError))).

(* ---- parser.rs validate_command *)
Definition validate_command (c : command) : verdict :=
  match c with
  | CKml _ cs => validate_plan cs
  | CExport _ ws _ _ =>
      vand (vbool (negb (match ws with WNil => true | _ => false end)) InvalidSyntax)
           (vbool (vx_wcs ws) InvalidSyntax)
  | CKql | CMetaOther => VOk
  end.

End Validator.
