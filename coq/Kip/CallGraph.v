(* C15 — the KIP parser's call graph: types, the two rank certificates and the executable check.
   No proofs here (CallGraphProofs.v).  The graph itself is generated: gen/Gen_KipGraph.v. *)
From Coq Require Import List Arith Bool.
Import ListNotations.

(* what a call position passes for the callee's explicit `depth` parameter *)
Inductive darg := DNA | DKeep | DInc | DReset.

(* one call position f -> g of the parser source *)
Record edge := mkE {
  e_src : nat;
  e_dst : nat;
  e_br  : bool;   (* the call sits behind an opening bracket consumed by f *)
  e_da  : darg;
  e_chk : bool    (* DInc only: `depth >= MAX -> fail` is tested before the call or first thing in g *)
}.

Definition is_inc (e : edge) : bool := match e_da e with DInc => true | _ => false end.
Definition is_reset (e : edge) : bool := match e_da e with DReset => true | _ => false end.
Definition guarded (e : edge) : bool := e_br e || is_inc e.

Definition count (f : edge -> bool) (p : list edge) : nat := length (filter f p).

(* ---- rank certificates ------------------------------------------------------------- *)
(* A weight says how much the rank must drop along an edge (None: no constraint). *)
Definition w_unguarded (e : edge) : option nat := if guarded e then None else Some 1.
Definition w_reset (e : edge) : option nat := if is_reset e then Some 1 else Some 0.

Definition rk (tbl : list nat) (f : nat) : nat := nth f tbl 0.

Definition rank_ok (w : edge -> option nat) (es : list edge) (tbl : list nat) : bool :=
  forallb (fun e => match w e with
                    | None => true
                    | Some k => rk tbl (e_dst e) + k <=? rk tbl (e_src e)
                    end) es.

(* candidate ranks: iterate  r(f) := max over constrained edges f -> g of (r(g) + weight) *)
Definition relax (w : edge -> option nat) (es : list edge) (tbl : list nat) : list nat :=
  map (fun f => fold_left (fun acc e =>
                  if e_src e =? f
                  then match w e with Some k => Nat.max acc (rk tbl (e_dst e) + k) | None => acc end
                  else acc) es 0)
      (seq 0 (length tbl)).

Fixpoint list_eqb (a b : list nat) : bool :=
  match a, b with
  | [], [] => true
  | x :: a', y :: b' => (x =? y) && list_eqb a' b'
  | _, _ => false
  end.

(* stop at the first fixed point (the result is only a candidate: [rank_ok] judges it) *)
Fixpoint iter_relax (n : nat) (w : edge -> option nat) (es : list edge) (tbl : list nat) : list nat :=
  match n with
  | 0 => tbl
  | S k => let t' := relax w es tbl in if list_eqb t' tbl then tbl else iter_relax k w es t'
  end.

Definition ranks (w : edge -> option nat) (nfns : nat) (es : list edge) : list nat :=
  iter_relax (S nfns) w es (repeat 0 nfns).

Definition max_rank (tbl : list nat) : nat := fold_right Nat.max 0 tbl.

(* every node of every edge is a function of the table, every DInc edge is checked, and the
   depth arguments are used only between functions that carry a depth *)
Definition edges_wf (nfns : nat) (carrying : list nat) (es : list edge) : bool :=
  forallb (fun e =>
    (e_src e <? nfns) && (e_dst e <? nfns) &&
    (if is_inc e then e_chk e else true) &&
    match e_da e with
    | DNA => negb (existsb (Nat.eqb (e_dst e)) carrying)
    | DReset => existsb (Nat.eqb (e_dst e)) carrying
    | DKeep | DInc => existsb (Nat.eqb (e_src e)) carrying && existsb (Nat.eqb (e_dst e)) carrying
    end) es.

(* the whole certificate *)
Definition graph_ok (nfns : nat) (carrying : list nat) (es : list edge) : bool :=
  edges_wf nfns carrying es &&
  rank_ok w_unguarded es (ranks w_unguarded nfns es) &&
  rank_ok w_reset es (ranks w_reset nfns es).

(* ---- chains of pending calls -------------------------------------------------------- *)
Inductive path (es : list edge) : list edge -> Prop :=
| path_nil : path es []
| path_one e : In e es -> path es [e]
| path_cons e e' p : In e es -> e_dst e = e_src e' -> path es (e' :: p) -> path es (e :: e' :: p).

(* the explicit depth counter along a chain: [d] is the caller's `depth` (None: it has none).
   A checked `depth + 1` call whose value would exceed [M] is either not made or its callee
   fails on entry, so nothing follows it. *)
Fixpoint drun (M : nat) (d : option nat) (p : list edge) : bool :=
  match p with
  | [] => true
  | e :: rest =>
    match e_da e with
    | DNA => drun M None rest
    | DReset => drun M (Some 0) rest
    | DKeep => match d with Some k => drun M (Some k) rest | None => false end
    | DInc => match d with
              | Some k => if M <? S k then match rest with [] => true | _ => false end
                          else drun M (Some (S k)) rest
              | None => false
              end
    end
  end.

(* the bound on the number of pending calls that the certificate yields *)
Definition stack_bound (maxd nfns : nat) (es : list edge) : nat :=
  let m1 := max_rank (ranks w_unguarded nfns es) in
  let m3 := max_rank (ranks w_reset nfns es) in
  (maxd + S maxd * S m3) * S m1 + m1.
