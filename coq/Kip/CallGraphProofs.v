(* C15 — what the rank certificates of Kip/CallGraph.v imply, for ANY finite edge list. *)
From Coq Require Import List Arith Bool Lia.
From Verif Require Import Kip.CallGraph.
Import ListNotations.

Lemma rank_ok_edge w es tbl e k :
  rank_ok w es tbl = true -> In e es -> w e = Some k ->
  rk tbl (e_dst e) + k <= rk tbl (e_src e).
Proof.
  unfold rank_ok. intros H Hin Hw. rewrite forallb_forall in H.
  specialize (H e Hin). rewrite Hw in H. now apply Nat.leb_le in H.
Qed.

Lemma rk_le_max tbl f : rk tbl f <= max_rank tbl.
Proof.
  unfold rk, max_rank. revert f. induction tbl as [|x t IH]; intros f; simpl.
  - destruct f; lia.
  - destruct f as [|f]; [lia|]. specialize (IH f). lia.
Qed.

Lemma path_tail es e p : path es (e :: p) -> path es p.
Proof. intros H. inversion H; subst; auto; constructor. Qed.

Lemma path_in es p : path es p -> forall e, In e p -> In e es.
Proof.
  induction 1; simpl; intros x Hx.
  - contradiction.
  - destruct Hx as [<-|[]]. assumption.
  - destruct Hx as [<-|Hx]; [assumption|]. apply IHpath. exact Hx.
Qed.

Definition wsum (w : edge -> option nat) (p : list edge) : nat :=
  fold_right (fun e s => match w e with Some k => k + s | None => s end) 0 p.

Lemma wsum_cons w e p :
  wsum w (e :: p) = match w e with Some k => k | None => 0 end + wsum w p.
Proof. unfold wsum. simpl. destruct (w e); reflexivity. Qed.

(* the last edge of the chain e :: p *)
Fixpoint end_of (e : edge) (p : list edge) : edge :=
  match p with [] => e | x :: r => end_of x r end.

(* along a chain all of whose edges are constrained, the rank drops by the sum of the weights *)
Lemma path_rank_drop w es tbl :
  rank_ok w es tbl = true ->
  forall p, path es p -> (forall e, In e p -> w e <> None) ->
  forall e0 rest, p = e0 :: rest ->
  rk tbl (e_dst (end_of e0 rest)) + wsum w p <= rk tbl (e_src e0).
Proof.
  intros Hok p Hp. induction Hp as [|e Hin|e e' p Hin Hd Hp IH]; intros Hall e0 rest Heq.
  - discriminate.
  - inversion Heq; subst. simpl end_of. rewrite wsum_cons.
    destruct (w e0) as [k|] eqn:Hw; [|exfalso; apply (Hall e0); simpl; auto].
    pose proof (rank_ok_edge w es tbl e0 k Hok Hin Hw). unfold wsum. simpl. lia.
  - inversion Heq; subst e0 rest.
    assert (Hall' : forall x, In x (e' :: p) -> w x <> None) by (intros x Hx; apply Hall; right; exact Hx).
    specialize (IH Hall' e' p eq_refl).
    destruct (w e) as [k|] eqn:Hw; [|exfalso; apply (Hall e); simpl; auto].
    pose proof (rank_ok_edge w es tbl e k Hok Hin Hw) as He.
    simpl end_of. rewrite wsum_cons, Hw. rewrite <- Hd in IH. lia.
Qed.

Lemma count_cons f (e : edge) p : count f (e :: p) = (if f e then 1 else 0) + count f p.
Proof. unfold count. simpl. destruct (f e); reflexivity. Qed.

(* ---- 1. every cycle passes a guarded edge ------------------------------------------- *)
Lemma wsum_unguarded p : (forall e, In e p -> guarded e = false) -> wsum w_unguarded p = length p.
Proof.
  induction p as [|e p IH]; intros H; [reflexivity|]. rewrite wsum_cons.
  unfold w_unguarded at 1. rewrite (H e (or_introl eq_refl)). rewrite IH; [reflexivity|].
  intros x Hx. apply H. right. exact Hx.
Qed.

Theorem cycle_has_guarded_edge es tbl :
  rank_ok w_unguarded es tbl = true ->
  forall e0 rest, path es (e0 :: rest) -> e_dst (end_of e0 rest) = e_src e0 ->
  exists e, In e (e0 :: rest) /\ guarded e = true.
Proof.
  intros Hok e0 rest Hp Hcyc.
  destruct (existsb guarded (e0 :: rest)) eqn:Hex.
  - apply existsb_exists in Hex. exact Hex.
  - exfalso.
    assert (Hall : forall e, In e (e0 :: rest) -> guarded e = false).
    { intros e He. destruct (guarded e) eqn:Hg; [|reflexivity].
      assert (existsb guarded (e0 :: rest) = true) by (apply existsb_exists; eauto). congruence. }
    pose proof (path_rank_drop w_unguarded es tbl Hok _ Hp) as H.
    assert (Hnn : forall e, In e (e0 :: rest) -> w_unguarded e <> None).
    { intros e He. unfold w_unguarded. rewrite (Hall e He). discriminate. }
    specialize (H Hnn e0 rest eq_refl). rewrite (wsum_unguarded _ Hall) in H.
    rewrite Hcyc in H. simpl in H. lia.
Qed.

(* ---- 2. length of a chain in terms of its guarded edges ----------------------------- *)
Lemma path_length_guarded es tbl :
  rank_ok w_unguarded es tbl = true ->
  forall p, path es p -> forall e0 rest, p = e0 :: rest ->
  length p <= count guarded p * S (max_rank tbl) + rk tbl (e_src e0).
Proof.
  intros Hok p Hp. set (M := max_rank tbl).
  induction Hp as [|e Hin|e e' p Hin Hd Hp IH]; intros e0 rest Heq.
  - discriminate.
  - inversion Heq; subst. rewrite count_cons. unfold count. simpl.
    destruct (guarded e0) eqn:Hg.
    + lia.
    + assert (Hw : w_unguarded e0 = Some 1) by (unfold w_unguarded; now rewrite Hg).
      pose proof (rank_ok_edge _ _ _ _ _ Hok Hin Hw). lia.
  - inversion Heq; subst e0 rest. specialize (IH e' p eq_refl).
    rewrite count_cons. simpl length in *.
    destruct (guarded e) eqn:Hg.
    + pose proof (rk_le_max tbl (e_src e')). fold M in H. lia.
    + assert (Hw : w_unguarded e = Some 1) by (unfold w_unguarded; now rewrite Hg).
      pose proof (rank_ok_edge _ _ _ _ _ Hok Hin Hw) as He. rewrite Hd in He. lia.
Qed.

Corollary path_length_bound es tbl p :
  rank_ok w_unguarded es tbl = true -> path es p ->
  length p <= count guarded p * S (max_rank tbl) + max_rank tbl.
Proof.
  intros Hok Hp. destruct p as [|e0 rest]; [simpl; lia|].
  pose proof (path_length_guarded es tbl Hok _ Hp e0 rest eq_refl).
  pose proof (rk_le_max tbl (e_src e0)). lia.
Qed.

(* ---- 3. `depth` is re-armed only finitely often ------------------------------------- *)
Lemma wsum_reset p : wsum w_reset p = count is_reset p.
Proof.
  induction p as [|e p IH]; [reflexivity|]. rewrite count_cons, wsum_cons.
  unfold w_reset at 1. destruct (is_reset e); lia.
Qed.

Lemma resets_bounded es tbl p :
  rank_ok w_reset es tbl = true -> path es p -> count is_reset p <= max_rank tbl.
Proof.
  intros Hok Hp. destruct p as [|e0 rest]; [unfold count; simpl; lia|].
  assert (Hnn : forall e, In e (e0 :: rest) -> w_reset e <> None).
  { intros e _. unfold w_reset. destruct (is_reset e); discriminate. }
  pose proof (path_rank_drop w_reset es tbl Hok _ Hp Hnn e0 rest eq_refl) as H.
  rewrite wsum_reset in H. pose proof (rk_le_max tbl (e_src e0)). lia.
Qed.

(* ---- 4. the explicit counter bounds the `depth + 1` calls --------------------------- *)
Definition remd (M : nat) (d : option nat) : nat :=
  match d with Some k => S (M - k) | None => 0 end.

Lemma drun_incs M : forall p d, drun M d p = true ->
  count is_inc p <= remd M d + S M * count is_reset p.
Proof.
  induction p as [|e p IH]; intros d H.
  - unfold count. simpl. lia.
  - rewrite !count_cons. unfold is_inc at 1, is_reset at 1. simpl in H.
    destruct (e_da e) eqn:Hda.
    + specialize (IH None H). simpl in IH. lia.
    + destruct d as [k|]; [|discriminate]. specialize (IH (Some k) H). lia.
    + destruct d as [k|]; [|discriminate].
      destruct (M <? S k) eqn:Hlt.
      * destruct p; [|discriminate]. unfold count. simpl. lia.
      * apply Nat.ltb_ge in Hlt. specialize (IH (Some (S k)) H). simpl in *. lia.
    + specialize (IH (Some 0) H). simpl in IH. lia.
Qed.

Lemma remd_le M d : remd M d <= S M.
Proof. destruct d; simpl; lia. Qed.

Lemma count_guarded_le p : count guarded p <= count e_br p + count is_inc p.
Proof.
  induction p as [|e p IH]; [unfold count; simpl; lia|].
  rewrite !count_cons. unfold guarded at 1. destruct (e_br e), (is_inc e); simpl; lia.
Qed.

(* ---- 5. the bound --------------------------------------------------------------------- *)
Theorem pending_calls_bounded nfns carrying es maxd :
  graph_ok nfns carrying es = true ->
  forall p d, path es p -> drun maxd d p = true ->
  count e_br p <= maxd ->
  length p <= stack_bound maxd nfns es.
Proof.
  unfold graph_ok, stack_bound. intros Hok p d Hp Hd Hbr.
  apply andb_prop in Hok as [Hok H3]. apply andb_prop in Hok as [_ H1].
  set (t1 := ranks w_unguarded nfns es) in *. set (t3 := ranks w_reset nfns es) in *.
  pose proof (path_length_bound es t1 p H1 Hp) as HL.
  pose proof (resets_bounded es t3 p H3 Hp) as HR.
  pose proof (drun_incs maxd p d Hd) as HI.
  pose proof (remd_le maxd d) as Hrem.
  pose proof (count_guarded_le p) as HG.
  assert (HI' : count is_inc p <= S maxd * S (max_rank t3)) by nia.
  assert (HG' : count guarded p <= maxd + S maxd * S (max_rank t3)) by lia.
  nia.
Qed.
