(* C15 — the certificate of the generated call graph, decided by computation. *)
From Coq Require Import List Arith Bool NArith Lia.
From Verif Require Import Kip.Budget Kip.BudgetInst Kip.CallGraph Kip.CallGraphProofs gen.Gen_KipGraph.
Import ListNotations.

Lemma kg_cert : graph_ok kg_nfns kg_carrying kg_edges = true.
Proof. vm_compute. reflexivity. Qed.

Lemma kg_names_len : length kg_names = kg_nfns.
Proof. reflexivity. Qed.

Definition kip_stack_bound : nat := stack_bound MAX_KIP_NESTING_DEPTH kg_nfns kg_edges.

Lemma kg_cycle_guarded e0 rest :
  path kg_edges (e0 :: rest) -> e_dst (end_of e0 rest) = e_src e0 ->
  exists e, In e (e0 :: rest) /\ guarded e = true.
Proof.
  apply (cycle_has_guarded_edge kg_edges (ranks w_unguarded kg_nfns kg_edges)).
  pose proof kg_cert as H. unfold graph_ok in H.
  apply andb_prop in H as [H _]. apply andb_prop in H as [_ H]. exact H.
Qed.

Lemma kg_chain_bounded (cs : list N) k p d :
  kip_budget cs = BOk ->
  path kg_edges p -> drun MAX_KIP_NESTING_DEPTH d p = true ->
  (count e_br p <= length (kip_open_stack (firstn k cs)))%nat ->
  (length p <= kip_stack_bound)%nat.
Proof.
  intros Hb Hp Hd Hbr. destruct (kip_bounds_nesting cs Hb) as [_ Hdepth].
  apply (pending_calls_bounded kg_nfns kg_carrying kg_edges MAX_KIP_NESTING_DEPTH kg_cert p d Hp Hd).
  specialize (Hdepth k). lia.
Qed.
