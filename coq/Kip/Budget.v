(* C15 — `validate_parser_budget` (rs/anda_kip/src/parser.rs) transcribed as a fold over the
   characters of the input, and the lexical reading of "outside strings and comments" it is
   compared with.  No proofs here (BudgetProofs.v).  The limits, the bracket alphabet and the
   strictness of the two comparisons are parameters: gen/Gen_KipGraph.v supplies them from the
   source on every run. *)
From Coq Require Import List NArith Bool Arith.
Import ListNotations.
Local Open Scope N_scope.

Definition c_nl : N := 10.      (* '\n' *)
Definition c_quote : N := 34.   (* the double quote *)
Definition c_slash : N := 47.   (* '/'  *)
Definition c_bslash : N := 92.  (* '\\' *)

(* str::len() counts UTF-8 bytes; the loop runs over chars() *)
Definition utf8_len (c : N) : N :=
  if c <? 128 then 1 else if c <? 2048 then 2 else if c <? 65536 then 3 else 4.
Definition input_len (cs : list N) : N := fold_right (fun c n => utf8_len c + n) 0 cs.

Inductive bres := BOk | BTooLong | BTooDeep.

Record bstate := mkB {
  b_stack : list N;          (* head = top *)
  b_in_string : bool;
  b_escaped : bool;
  b_in_comment : bool;
  b_prev_slash : bool
}.
Definition b_init : bstate := mkB [] false false false false.

Section Scan.
  Variable openers : list N.
  Variable pairs : list (N * N).       (* closer, its opener *)
  Variable terms : list N.             (* the characters at which the scanner leaves a line comment *)
  Variable max_depth : nat.
  Variable depth_strict : bool.        (* `stack.len() > MAX` (true) or `>=` *)

  Definition is_opener (c : N) : bool := existsb (N.eqb c) openers.
  Definition is_term (c : N) : bool := existsb (N.eqb c) terms.
  Definition opener_of (c : N) : option N :=
    match find (fun p => fst p =? c) pairs with Some p => Some (snd p) | None => None end.
  Definition over (n : nat) : bool :=
    if depth_strict then Nat.ltb max_depth n else Nat.leb max_depth n.

  (* the `match ch { '(' | '[' | '{' => push.., ')' => pop if top is '(' .., _ => {} }` part;
     None = the nesting error *)
  Definition bracket_step (st : list N) (ch : N) : option (list N) :=
    if is_opener ch then
      let st' := ch :: st in if over (length st') then None else Some st'
    else match opener_of ch with
         | Some o => match st with
                     | top :: rest => if top =? o then Some rest else Some st
                     | [] => Some st
                     end
         | None => Some st
         end.

  (* one iteration of `for ch in input.chars()`, in the order of the source *)
  Definition bstep (s : bstate) (ch : N) : option bstate :=
    if b_in_comment s then
      Some (if is_term ch then mkB (b_stack s) (b_in_string s) (b_escaped s) false (b_prev_slash s) else s)
    else if b_in_string s then
      (* prev_slash = false; *)
      if b_escaped s then Some (mkB (b_stack s) true false false false)
      else if ch =? c_bslash then Some (mkB (b_stack s) true true false false)
      else if ch =? c_quote then Some (mkB (b_stack s) false false false false)
      else Some (mkB (b_stack s) true false false false)
    else if ch =? c_slash then
      if b_prev_slash s then Some (mkB (b_stack s) false (b_escaped s) true false)
      else Some (mkB (b_stack s) false (b_escaped s) false true)
    else
      (* prev_slash = false; *)
      if ch =? c_quote then Some (mkB (b_stack s) true (b_escaped s) false false)
      else match bracket_step (b_stack s) ch with
           | Some st' => Some (mkB st' false (b_escaped s) false false)
           | None => None
           end.

  Fixpoint bscan (s : bstate) (cs : list N) : option bstate :=
    match cs with
    | [] => Some s
    | c :: r => match bstep s c with Some s' => bscan s' r | None => None end
    end.
End Scan.

Definition validate_parser_budget (openers : list N) (pairs : list (N * N)) (terms : list N)
           (max_len : N) (len_strict : bool) (max_depth : nat) (depth_strict : bool)
           (cs : list N) : bres :=
  if (if len_strict then max_len <? input_len cs else max_len <=? input_len cs) then BTooLong
  else match bscan openers pairs terms max_depth depth_strict b_init cs with
       | Some _ => BOk
       | None => BTooDeep
       end.

(* ---- the lexical reading: where strings and comments are, written with lookahead ------
   (as `skip_ws_and_comments` finds comments: `starts_with` two slashes up to and including the
   next '\n'; as `string()` finds strings: a double quote, then characters where a backslash takes the
   next one with it, up to the next double quote) *)
Inductive lmode := MCode | MStr | MStrEsc | MComment.

Section Spec.
  Variable openers : list N.
  Variable pairs : list (N * N).
  Variable terms : list N.             (* the characters at which the PARSER's trivia skipper ends a line comment *)

  (* brackets without any limit *)
  Definition bracket_free (st : list N) (ch : N) : list N :=
    if is_opener openers ch then ch :: st
    else match opener_of pairs ch with
         | Some o => match st with
                     | top :: rest => if top =? o then rest else st
                     | [] => st
                     end
         | None => st
         end.

  (* the mode and the stack of open brackets at the end of [cs], started in mode [m] with [st] *)
  Fixpoint lex_end (m : lmode) (st : list N) (cs : list N) : lmode * list N :=
    match cs with
    | [] => (m, st)
    | c :: rest =>
      match m with
      | MComment => lex_end (if is_term terms c then MCode else MComment) st rest
      | MStrEsc => lex_end MStr st rest
      | MStr => lex_end (if c =? c_bslash then MStrEsc else if c =? c_quote then MCode else MStr) st rest
      | MCode =>
        if c =? c_slash then
          match rest with
          | c2 :: rest' => if c2 =? c_slash then lex_end MComment st rest' else lex_end MCode st rest
          | [] => (MCode, st)
          end
        else if c =? c_quote then lex_end MStr st rest
        else lex_end MCode (bracket_free st c) rest
      end
    end.

  (* the brackets that are open, outside strings and comments, after the text [cs] *)
  Definition open_stack (cs : list N) : list N := snd (lex_end MCode [] cs).
  Definition mode_after (cs : list N) : lmode := fst (lex_end MCode [] cs).
End Spec.
