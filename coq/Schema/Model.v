(* C13 — executable model of anda_db_schema's value discipline.
   Transcribes rs/anda_db_schema/src/field.rs (validate_inner, validate_complexity,
   normalize_at, prune_undeclared_at, is_compatible_upgrade_of, as_wildcard_map,
   validate_map_fields, FieldEntry::validate), document.rs (set_field, try_from_doc,
   drop_retired_fields, normalize_fields), schema.rs (validate, upgrade_with,
   allocated_idx_end) and the combined effect of value_serde.rs + cbor2 on a stored
   value ([readback]).  No proofs here.

   Conventions: integers are Z (range side conditions live in [wf_value]); binary64 /
   binary32 / bf16 values are carried as their bit patterns (Z).  NaN-ness and finiteness
   are computed from the bits; widening f32->f64, narrowing f64->f32 (`as f32`) and
   is_f32_read_back are the three operations of [fops], supplied per case by the harness
   in the correspondence run and constrained by IEEE hypotheses in the theorems.
   Maps are association lists in BTreeMap order (the harness emits them sorted; the model
   never reorders). *)
From Coq Require Import List ZArith Bool String Arith.
Import ListNotations.
Open Scope list_scope.

(* ------------------------------------------------------------------ keys *)
Inductive fkey := KText (s : string) | KI64 (z : Z) | KBytes (b : list Z).

Fixpoint zlist_eqb (a b : list Z) : bool :=
  match a, b with
  | [], [] => true
  | x :: a', y :: b' => Z.eqb x y && zlist_eqb a' b'
  | _, _ => false
  end.

Definition fkey_eqb (a b : fkey) : bool :=
  match a, b with
  | KText s, KText s' => String.eqb s s'
  | KI64 z, KI64 z' => Z.eqb z z'
  | KBytes x, KBytes y => zlist_eqb x y
  | _, _ => false
  end.

(* FieldKey::field_type(): 0 = Text, 1 = I64, 2 = Bytes *)
Definition key_kind (k : fkey) : nat :=
  match k with KText _ => 0 | KI64 _ => 1 | KBytes _ => 2 end.

Definition i64_min : Z := (- 9223372036854775808)%Z.
Definition i64_max : Z := 9223372036854775807%Z.
Definition u64_max : Z := 18446744073709551615%Z.
Definition u16_max : Z := 65535%Z.

(* TEXT_WILDCARD_KEY / BYTES_WILDCARD_KEY / I64_WILDCARD_KEY *)
Definition is_wild (k : fkey) : bool :=
  fkey_eqb k (KText "*") || fkey_eqb k (KBytes [42%Z]) || fkey_eqb k (KI64 i64_min).

(* ------------------------------------------------------------------ types and values *)
Inductive ftype :=
| TBool | TI64 | TU64 | TF64 | TF32 | TBytes | TText | TJson | TVector
| TArray (ts : list ftype)
| TMap (m : list (fkey * ftype))
| TOption (t : ftype).

(* serde_json::Value; numbers: PosInt(u64) / NegInt(i64 < 0) / Float(finite f64 bits) *)
Inductive json :=
| JNull | JBool (b : bool) | JU (n : Z) | JI (n : Z) | JF (bits : Z) | JStr (s : string)
| JArr (l : list json)
| JObj (m : list (string * json)).

Inductive fvalue :=
| VBool (b : bool) | VI64 (z : Z) | VU64 (z : Z) | VF64 (bits : Z) | VF32 (bits : Z)
| VBytes (b : list Z) | VText (s : string) | VJson (j : json) | VVector (l : list Z)
| VArray (l : list fvalue)
| VMap (m : list (fkey * fvalue))
| VNull.

Definition is_null (v : fvalue) : bool := match v with VNull => true | _ => false end.
Definition is_option (t : ftype) : bool := match t with TOption _ => true | _ => false end.

(* ------------------------------------------------------------------ floats from bits *)
Definition nan64 (b : Z) : bool := (9218868437227405312 <? b mod 9223372036854775808)%Z.   (* 0x7ff0.. , 2^63 *)
Definition finite64 (b : Z) : bool := (b mod 9223372036854775808 <? 9218868437227405312)%Z.
Definition nan32 (b : Z) : bool := (2139095040 <? b mod 2147483648)%Z.                       (* 0x7f800000, 2^31 *)

Record fops := { widen : Z -> Z; narrow : Z -> Z; is_rb : Z -> bool }.

(* FieldValueBudget + MAX_CONVERSION_DEPTH (values come from gen/Gen_Schema.v) *)
Record limits := {
  max_depth : nat; max_nodes : nat; max_array_len : nat; max_map_entries : nat;
  max_conv : nat }.

(* check_conversion_depth(depth).is_err() *)
Definition too_deep (L : limits) (d : nat) : bool := max_conv L <? d.

(* ------------------------------------------------------------------ small helpers *)
Definition mapM {A B} (f : A -> option B) : list A -> option (list B) :=
  fix go (l : list A) : option (list B) :=
    match l with
    | [] => Some []
    | x :: r => match f x with
                | None => None
                | Some y => match go r with None => None | Some ys => Some (y :: ys) end
                end
    end.

Fixpoint lookup {V} (k : fkey) (m : list (fkey * V)) : option V :=
  match m with
  | [] => None
  | (k', v) :: r => if fkey_eqb k k' then Some v else lookup k r
  end.

Definition mem_key {V} (k : fkey) (m : list (fkey * V)) : bool :=
  match lookup k m with Some _ => true | None => false end.

Definition list_sum (l : list nat) : nat := fold_right plus 0 l.


(* combinators over the type lists; the recursive functions below pass themselves as [f], which
   keeps their recursion structural on the type *)
Definition zip_apply {A} (f : ftype -> A -> A) : list ftype -> list A -> list A :=
  fix go (ts : list ftype) (l : list A) : list A :=
    match ts, l with
    | ft :: ts', x :: l' => f ft x :: go ts' l'
    | _, l => l
    end.

(* every declared position has a value that passes; surplus values are ignored (the length is
   checked separately, as in the code) *)
Definition zip_all {A} (f : ftype -> A -> bool) : list ftype -> list A -> bool :=
  fix go (ts : list ftype) (l : list A) : bool :=
    match ts, l with
    | [], _ => true
    | ft :: ts', x :: l' => f ft x && go ts' l'
    | _ :: _, [] => false
    end.

(* same lengths and pointwise *)
Definition zip_exact {A} (f : ftype -> A -> bool) : list ftype -> list A -> bool :=
  fix go (ts : list ftype) (l : list A) : bool :=
    match ts, l with
    | [], [] => true
    | ft :: ts', x :: l' => f ft x && go ts' l'
    | _, _ => false
    end.

(* types.get(k) then apply *)
Definition with_type {A} (f : ftype -> A) (dflt : A) (k : fkey) : list (fkey * ftype) -> A :=
  fix find (m : list (fkey * ftype)) : A :=
    match m with
    | [] => dflt
    | (k', ft) :: r => if fkey_eqb k k' then f ft else find r
    end.

Definition all_types (f : fkey -> ftype -> bool) : list (fkey * ftype) -> bool :=
  fix go (m : list (fkey * ftype)) : bool :=
    match m with
    | [] => true
    | (k, ft) :: r => f k ft && go r
    end.

(* every element is U64(bits <= u16::MAX) *)
Definition is_bf16_bits (v : fvalue) : bool :=
  match v with VU64 u => (u <=? u16_max)%Z | _ => false end.

Definition bits_of (l : list fvalue) : option (list Z) :=
  mapM (fun v => match v with VU64 u => if (u <=? u16_max)%Z then Some u else None | _ => None end) l.

(* ------------------------------------------------------------------ validate_complexity *)
(* The code walks an explicit stack; its verdict is: total node count within max_nodes,
   every node's depth within max_depth, every array / map / JSON array / JSON object
   within its length bound.  Vector, Bytes and Text are leaves. *)
Fixpoint jnodes (j : json) : nat :=
  S (match j with
     | JArr l => list_sum (map jnodes l)
     | JObj m => list_sum (map (fun kv => jnodes (snd kv)) m)
     | _ => 0
     end).

Fixpoint vnodes (v : fvalue) : nat :=
  S (match v with
     | VArray l => list_sum (map vnodes l)
     | VMap m => list_sum (map (fun kv => vnodes (snd kv)) m)
     | VJson j => jnodes j
     | _ => 0
     end).

Fixpoint jshape_ok (L : limits) (d : nat) (j : json) : bool :=
  (d <=? max_depth L) &&
  match j with
  | JArr l => (List.length l <=? max_array_len L) && forallb (jshape_ok L (S d)) l
  | JObj m => (List.length m <=? max_map_entries L) && forallb (fun kv => jshape_ok L (S d) (snd kv)) m
  | _ => true
  end.

Fixpoint vshape_ok (L : limits) (d : nat) (v : fvalue) : bool :=
  (d <=? max_depth L) &&
  match v with
  | VArray l => (List.length l <=? max_array_len L) && forallb (vshape_ok L (S d)) l
  | VMap m => (List.length m <=? max_map_entries L) && forallb (fun kv => vshape_ok L (S d) (snd kv)) m
  | VJson j => jshape_ok L (S d) j
  | _ => true
  end.

Definition complexity_ok (L : limits) (v : fvalue) : bool :=
  (vnodes v <=? max_nodes L) && vshape_ok L 0 v.

(* ------------------------------------------------------------------ stored form *)
(* What schema-less CBOR deserialisation (value_serde.rs Visitor over cbor2) returns for a
   serialised value.  None = serialisation refuses the value (NaN). *)
Fixpoint shape (j : json) : fvalue :=
  match j with
  | JNull => VNull
  | JBool b => VBool b
  | JU n => VU64 n
  | JI n => VI64 n
  | JF x => VF64 x
  | JStr s => VText s
  | JArr l => VArray (map shape l)
  | JObj m => VMap (map (fun kv => (KText (fst kv), shape (snd kv))) m)
  end.

Section WithFloat.
Variable F : fops.
Variable L : limits.

Fixpoint readback (v : fvalue) : option fvalue :=
  match v with
  | VI64 z => Some (if (0 <=? z)%Z then VU64 z else VI64 z)
  | VF64 x => if nan64 x then None else Some (VF64 x)
  | VF32 x => if nan32 x then None else Some (VF64 (widen F x))
  | VJson j => Some (shape j)
  | VVector l => Some (VArray (map VU64 l))
  | VArray l => option_map VArray (mapM readback l)
  | VMap m => option_map VMap
                (mapM (fun kv => option_map (fun r => (fst kv, r)) (readback (snd kv))) m)
  | _ => Some v
  end.

(* ------------------------------------------------------------------ FieldValue -> Cbor -> Json *)
(* try_into_cbor (strict, from depth 0) followed by json_from; used by normalize on Json fields *)
Definition jfloat (x : Z) : json := if finite64 x then JF x else JNull.

Fixpoint jdepth_ok (d : nat) (j : json) : bool :=
  (d <=? max_conv L) &&
  match j with
  | JArr l => forallb (jdepth_ok (S d)) l
  | JObj m => forallb (fun kv => jdepth_ok (S d) (snd kv)) m
  | _ => true
  end.

Fixpoint to_json_at (d : nat) (v : fvalue) : option json :=
  if too_deep L d then None else
  match v with
  | VBool b => Some (JBool b)
  | VI64 z => Some (if (0 <=? z)%Z then JU z else JI z)
  | VU64 z => Some (JU z)
  | VF64 x => Some (jfloat x)
  | VF32 x => Some (jfloat (widen F x))
  | VBytes _ => None
  | VText s => Some (JStr s)
  | VJson j => if jdepth_ok d j then Some j else None
  | VVector l => Some (JArr (map JU l))
  | VArray l => option_map JArr (mapM (to_json_at (S d)) l)
  | VMap m => option_map JObj
                (mapM (fun kv => match fst kv with
                                 | KText s => option_map (fun j => (s, j)) (to_json_at (S d) (snd kv))
                                 | _ => None
                                 end) m)
  | VNull => Some JNull
  end.

(* ------------------------------------------------------------------ validate_inner *)
Fixpoint validate_inner (t : ftype) (v : fvalue) {struct t} : bool :=
  match t with
  | TBool => match v with VBool _ => true | _ => false end
  | TI64 => match v with VI64 _ => true | VU64 u => (u <=? i64_max)%Z | _ => false end
  | TU64 => match v with VU64 _ => true | _ => false end
  | TF64 => match v with VF64 x => negb (nan64 x) | _ => false end
  | TF32 => match v with VF32 x => negb (nan32 x) | VF64 x => is_rb F x | _ => false end
  | TBytes => match v with VBytes _ => true | _ => false end
  | TText => match v with VText _ => true | _ => false end
  | TJson => true
  | TVector => match v with VVector _ => true | VArray l => forallb is_bf16_bits l | _ => false end
  | TArray ts =>
      match v with
      | VArray l =>
          match ts with
          | [] => true
          | [ft] => forallb (validate_inner ft) l
          | _ => (List.length l =? List.length ts) && zip_all validate_inner ts l
          end
      | _ => false
      end
  | TMap m =>
      match v with
      | VMap kvs =>
          let keyed :=
            forallb (fun kv => mem_key (fst kv) m) kvs &&
            all_types (fun k ft => validate_inner ft (match lookup k kvs with None => VNull | Some x => x end)) m in
          match m with
          | [] => true
          | [(wk, ft)] =>
              if is_wild wk
              then forallb (fun kv => (key_kind (fst kv) =? key_kind wk) && validate_inner ft (snd kv)) kvs
              else keyed
          | _ => keyed
          end
      | _ => false
      end
  | TOption ft => match v with VNull => true | _ => validate_inner ft v end
  end.

(* FieldType::validate *)
Definition validate (t : ftype) (v : fvalue) : bool := complexity_ok L v && validate_inner t v.

(* FieldEntry::validate *)
Definition entry_validate (t : ftype) (v : fvalue) : bool :=
  match v with VNull => is_option t | _ => validate t v end.

(* ------------------------------------------------------------------ normalize_at *)
Fixpoint normalize_at (t : ftype) (d : nat) (v : fvalue) {struct t} : fvalue :=
  if too_deep L d then v else
  match t with
  | TI64 => match v with VU64 u => if (u <=? i64_max)%Z then VI64 u else v | _ => v end
  | TF32 => match v with VF64 x => if is_rb F x then VF32 (narrow F x) else v | _ => v end
  | TVector => match v with
               | VArray l => match bits_of l with Some bs => VVector bs | None => v end
               | _ => v
               end
  | TArray ts =>
      match v with
      | VArray l =>
          match ts with
          | [] => v
          | [ft] => VArray (map (normalize_at ft (S d)) l)
          | _ => VArray (zip_apply (fun ft => normalize_at ft (S d)) ts l)
          end
      | _ => v
      end
  | TJson => match v with
             | VJson _ => v
             | _ => match to_json_at 0 v with Some j => VJson j | None => v end
             end
  | TMap m =>
      match v with
      | VMap kvs =>
          let keyed :=
            VMap (map (fun kv => (fst kv, with_type (fun ft => normalize_at ft (S d) (snd kv)) (snd kv) (fst kv) m)) kvs) in
          match m with
          | [(wk, ft)] =>
              if is_wild wk
              then VMap (map (fun kv => (fst kv, normalize_at ft (S d) (snd kv))) kvs)
              else keyed
          | _ => keyed
          end
      | _ => v
      end
  | TOption ft => match v with VNull => v | _ => normalize_at ft d v end
  | _ => v
  end.

Definition normalize (t : ftype) (v : fvalue) : fvalue := normalize_at t 0 v.

(* ------------------------------------------------------------------ prune_undeclared_at *)
Fixpoint prune_at (t : ftype) (d : nat) (v : fvalue) {struct t} : fvalue :=
  if too_deep L d then v else
  match t with
  | TArray ts =>
      match v with
      | VArray l =>
          match ts with
          | [] => v
          | [ft] => VArray (map (prune_at ft (S d)) l)
          | _ => VArray (zip_apply (fun ft => prune_at ft (S d)) ts l)
          end
      | _ => v
      end
  | TMap m =>
      match v with
      | VMap kvs =>
          let keyed :=
            VMap (map (fun kv => (fst kv, with_type (fun ft => prune_at ft (S d) (snd kv)) (snd kv) (fst kv) m))
                      (filter (fun kv => mem_key (fst kv) m) kvs)) in
          match m with
          | [] => v
          | [(wk, ft)] =>
              if is_wild wk
              then VMap (map (fun kv => (fst kv, prune_at ft (S d) (snd kv))) kvs)
              else keyed
          | _ => keyed
          end
      | _ => v
      end
  | TOption ft => match v with VNull => v | _ => prune_at ft d v end
  | _ => v
  end.

Definition prune (t : ftype) (v : fvalue) : fvalue := prune_at t 0 v.

(* what Document::try_from_doc does to one stored field value before validating it *)
Definition read_norm (t : ftype) (r : fvalue) : fvalue := normalize t (prune t r).

(* Document::set_field on one field: normalize, FieldEntry::validate, store *)
Definition set_field (t : ftype) (v : fvalue) : option fvalue :=
  let v1 := normalize t v in if entry_validate t v1 then Some v1 else None.

(* write one field, encode, decode schema-less, materialise again *)
Definition write_read (t : ftype) (v : fvalue) : option (option fvalue) :=
  match set_field t v with
  | None => None
  | Some s => Some (match readback s with
                    | None => None
                    | Some r => let r' := read_norm t r in
                                if entry_validate t r' then Some r' else None
                    end)
  end.

End WithFloat.

(* ------------------------------------------------------------------ canonical form *)
(* [plain v]: v is a fixed point of the schema-less read-back (what FieldValue::try_from
   produces): no non-negative I64, no F32, no Vector, no Json, no NaN. *)
Fixpoint plain (v : fvalue) : bool :=
  match v with
  | VI64 z => (z <? 0)%Z
  | VF64 x => negb (nan64 x)
  | VF32 _ | VJson _ | VVector _ => false
  | VArray l => forallb plain l
  | VMap m => forallb (fun kv => plain (snd kv)) m
  | _ => true
  end.

(* [canon t v]: v is in t's declared variant at every typed position (and plain at the
   untyped ones).  A non-null payload under Option must not be stored as CBOR null
   (Json(null) is the one value that is). *)
Definition stores_as_null (v : fvalue) : bool :=
  match v with VNull => true | VJson JNull => true | _ => false end.

Fixpoint canon (t : ftype) (v : fvalue) {struct t} : bool :=
  match t with
  | TBool => match v with VBool _ => true | _ => false end
  | TI64 => match v with VI64 _ => true | _ => false end
  | TU64 => match v with VU64 _ => true | _ => false end
  | TF64 => match v with VF64 x => negb (nan64 x) | _ => false end
  | TF32 => match v with VF32 x => negb (nan32 x) | _ => false end
  | TBytes => match v with VBytes _ => true | _ => false end
  | TText => match v with VText _ => true | _ => false end
  | TJson => match v with VJson _ => true | _ => false end
  | TVector => match v with VVector _ => true | _ => false end
  | TArray ts =>
      match v with
      | VArray l =>
          match ts with
          | [] => forallb plain l
          | [ft] => forallb (canon ft) l
          | _ => zip_exact canon ts l
          end
      | _ => false
      end
  | TMap m =>
      match v with
      | VMap kvs =>
          let keyed :=
            forallb (fun kv => with_type (fun ft => canon ft (snd kv)) false (fst kv) m) kvs in
          match m with
          | [] => forallb (fun kv => plain (snd kv)) kvs
          | [(wk, ft)] =>
              if is_wild wk then forallb (fun kv => canon ft (snd kv)) kvs else keyed
          | _ => keyed
          end
      | _ => false
      end
  | TOption ft => match v with VNull => true | _ => negb (stores_as_null v) && canon ft v end
  end.

(* ------------------------------------------------------------------ range side conditions *)
Definition in_u64 (z : Z) : bool := (0 <=? z)%Z && (z <=? u64_max)%Z.
Definition in_i64 (z : Z) : bool := (i64_min <=? z)%Z && (z <=? i64_max)%Z.
Definition in_u32 (z : Z) : bool := (0 <=? z)%Z && (z <? 4294967296)%Z.
Definition in_u16 (z : Z) : bool := (0 <=? z)%Z && (z <=? u16_max)%Z.

Fixpoint wf_json (j : json) : bool :=
  match j with
  | JU n => in_u64 n
  | JI n => in_i64 n && (n <? 0)%Z
  | JF x => in_u64 x && finite64 x
  | JArr l => forallb wf_json l
  | JObj m => forallb (fun kv => wf_json (snd kv)) m
  | _ => true
  end.

Fixpoint wf_value (v : fvalue) : bool :=
  match v with
  | VI64 z => in_i64 z
  | VU64 z => in_u64 z
  | VF64 x => in_u64 x
  | VF32 x => in_u32 x
  | VJson j => wf_json j
  | VVector l => forallb in_u16 l
  | VArray l => forallb wf_value l
  | VMap m => forallb (fun kv => wf_value (snd kv)) m
  | _ => true
  end.

(* ------------------------------------------------------------------ type equality / upgrades *)
Fixpoint ftype_eqb (a b : ftype) {struct a} : bool :=
  match a, b with
  | TBool, TBool | TI64, TI64 | TU64, TU64 | TF64, TF64 | TF32, TF32
  | TBytes, TBytes | TText, TText | TJson, TJson | TVector, TVector => true
  | TArray xs, TArray ys =>
      (fix go (xs ys : list ftype) : bool :=
         match xs, ys with
         | [], [] => true
         | x :: xs', y :: ys' => ftype_eqb x y && go xs' ys'
         | _, _ => false
         end) xs ys
  | TMap xm, TMap ym =>
      (fix go (xm ym : list (fkey * ftype)) : bool :=
         match xm, ym with
         | [], [] => true
         | (k, x) :: xm', (k', y) :: ym' => fkey_eqb k k' && ftype_eqb x y && go xm' ym'
         | _, _ => false
         end) xm ym
  | TOption x, TOption y => ftype_eqb x y
  | _, _ => false
  end.

Definition wildcard_of (m : list (fkey * ftype)) : option (fkey * ftype) :=
  match m with
  | [(k, t)] => if is_wild k then Some (k, t) else None
  | _ => None
  end.

(* FieldType::is_compatible_upgrade_of (self = new) *)
Fixpoint compat (new old : ftype) {struct new} : bool :=
  match new with
  | TArray ns =>
      match old with
      | TArray os =>
          (List.length ns =? List.length os) && zip_all compat ns os
      | _ => false
      end
  | TMap nm =>
      match old with
      | TMap om =>
          let keyed :=
            all_types (fun k nt => match lookup k om with Some ot => compat nt ot | None => is_option nt end) nm in
          match nm with
          | [(nk, nt)] =>
              if is_wild nk
              then match wildcard_of om with
                   | Some (ok, ot) => fkey_eqb nk ok && compat nt ot
                   | None => false
                   end
              else match wildcard_of om with Some _ => false | None => keyed end
          | _ => match wildcard_of om with Some _ => false | None => keyed end
          end
      | _ => false
      end
  | TOption n =>
      match old with
      | TOption o => compat n o
      | _ => false
      end
  | _ => ftype_eqb new old
  end.

(* ------------------------------------------------------------------ schemas and documents *)
Record fentry := { e_name : string; e_type : ftype; e_unique : bool; e_idx : nat }.
Record schema := { s_fields : list fentry; s_version : Z; s_next : nat }.
Definition fields := list (nat * fvalue).

Definition contains_idx (s : schema) (i : nat) : bool :=
  existsb (fun e => e_idx e =? i) (s_fields s).

Definition allocated_end (s : schema) : nat :=
  Nat.max (s_next s) (fold_right (fun e a => Nat.max (S (e_idx e)) a) 0 (s_fields s)).

Fixpoint get_idx {V} (i : nat) (m : list (nat * V)) : option V :=
  match m with
  | [] => None
  | (j, v) :: r => if j =? i then Some v else get_idx i r
  end.

Definition find_name (n : string) (l : list fentry) : option fentry :=
  find (fun e => String.eqb (e_name e) n) l.
Definition find_idx (i : nat) (l : list fentry) : option fentry :=
  find (fun e => e_idx e =? i) l.

Section Docs.
Variable F : fops.
Variable L : limits.

(* Schema::validate *)
Definition schema_validate (s : schema) (fs : fields) : bool :=
  forallb (fun kv => contains_idx s (fst kv)) fs &&
  forallb (fun e => match get_idx (e_idx e) fs with
                    | Some v => entry_validate F L (e_type e) v
                    | None => is_option (e_type e)
                    end) (s_fields s).

(* Document::try_from_doc: drop_retired_fields, normalize_fields, Schema::validate *)
Definition try_from_doc (s : schema) (fs : fields) : option fields :=
  if existsb (fun kv => allocated_end s <=? fst kv) fs then None else
  let kept := filter (fun kv => contains_idx s (fst kv)) fs in
  let normed := map (fun kv => match find_idx (fst kv) (s_fields s) with
                               | Some e => (fst kv, read_norm F L (e_type e) (snd kv))
                               | None => kv
                               end) kept in
  if schema_validate s normed then Some normed else None.

Definition readback_fields (fs : fields) : option fields :=
  mapM (fun kv => option_map (fun r => (fst kv, r)) (readback F (snd kv))) fs.

End Docs.

(* Schema::upgrade_with (self = new, built by SchemaBuilder) *)
(* first pass: validate only; returns the watermark after allocation *)
Fixpoint upgrade_check (oldf : list fentry) (l : list fentry) (next : nat) : option nat :=
  match l with
  | [] => Some next
  | e :: r =>
      match find_name (e_name e) oldf with
      | Some o =>
          if compat (e_type e) (e_type o) && Bool.eqb (e_unique e) (e_unique o)
          then upgrade_check oldf r next else None
      | None =>
          if negb (is_option (e_type e)) then None
          else if (65535 <? Z.of_nat next)%Z then None
          else upgrade_check oldf r (S next)
      end
  end.

(* second pass: inherit the persisted idx or take the next free one *)
Fixpoint upgrade_assign (oldf : list fentry) (l : list fentry) (next : nat) : list fentry * nat :=
  match l with
  | [] => ([], next)
  | e :: r =>
      match find_name (e_name e) oldf with
      | Some o =>
          let '(r', n') := upgrade_assign oldf r next in
          ({| e_name := e_name e; e_type := e_type e; e_unique := e_unique e; e_idx := e_idx o |} :: r', n')
      | None =>
          let '(r', n') := upgrade_assign oldf r (S next) in
          ({| e_name := e_name e; e_type := e_type e; e_unique := e_unique e; e_idx := next |} :: r', n')
      end
  end.

Definition upgrade_with (new old : schema) : option schema :=
  if negb (s_version old <? s_version new)%Z then None else
  match upgrade_check (s_fields old) (s_fields new) (allocated_end old) with
  | None => None
  | Some _ =>
      let a := upgrade_assign (s_fields old) (s_fields new) (allocated_end old) in
      Some {| s_fields := fst a; s_version := s_version new; s_next := snd a |}
  end.
