(* C13 — proofs about the value discipline: induction principles for the nested inductives,
   the write/encode/decode/read round trip, rejection of single violations, idempotence. *)
From Coq Require Import List ZArith Bool String Arith Lia ZifyBool.
From Verif Require Import Schema.Model.
Import ListNotations.
Open Scope list_scope.

(* ------------------------------------------------------------------ induction principles *)
Section FtypeInd.
  Variable P : ftype -> Prop.
  Hypothesis HBool : P TBool.
  Hypothesis HI64 : P TI64.
  Hypothesis HU64 : P TU64.
  Hypothesis HF64 : P TF64.
  Hypothesis HF32 : P TF32.
  Hypothesis HBytes : P TBytes.
  Hypothesis HText : P TText.
  Hypothesis HJson : P TJson.
  Hypothesis HVector : P TVector.
  Hypothesis HArr : forall ts, Forall P ts -> P (TArray ts).
  Hypothesis HMap : forall m, Forall (fun kt => P (snd kt)) m -> P (TMap m).
  Hypothesis HOpt : forall t, P t -> P (TOption t).

  Fixpoint ftype_ind' (t : ftype) : P t :=
    match t with
    | TBool => HBool | TI64 => HI64 | TU64 => HU64 | TF64 => HF64 | TF32 => HF32
    | TBytes => HBytes | TText => HText | TJson => HJson | TVector => HVector
    | TArray ts =>
        HArr ts ((fix go (l : list ftype) : Forall P l :=
                    match l with
                    | [] => Forall_nil _
                    | x :: r => Forall_cons _ (ftype_ind' x) (go r)
                    end) ts)
    | TMap m =>
        HMap m ((fix go (l : list (fkey * ftype)) : Forall (fun kt => P (snd kt)) l :=
                   match l with
                   | [] => Forall_nil _
                   | kt :: r =>
                       Forall_cons _ (match kt as k return P (snd k) with (_, x) => ftype_ind' x end) (go r)
                   end) m)
    | TOption t => HOpt t (ftype_ind' t)
    end.
End FtypeInd.

Section JsonInd.
  Variable P : json -> Prop.
  Hypothesis HNull : P JNull.
  Hypothesis HBool : forall b, P (JBool b).
  Hypothesis HU : forall n, P (JU n).
  Hypothesis HI : forall n, P (JI n).
  Hypothesis HF : forall x, P (JF x).
  Hypothesis HStr : forall s, P (JStr s).
  Hypothesis HArr : forall l, Forall P l -> P (JArr l).
  Hypothesis HObj : forall m, Forall (fun kv => P (snd kv)) m -> P (JObj m).

  Fixpoint json_ind' (j : json) : P j :=
    match j with
    | JNull => HNull | JBool b => HBool b | JU n => HU n | JI n => HI n | JF x => HF x | JStr s => HStr s
    | JArr l =>
        HArr l ((fix go (l : list json) : Forall P l :=
                   match l with
                   | [] => Forall_nil _
                   | x :: r => Forall_cons _ (json_ind' x) (go r)
                   end) l)
    | JObj m =>
        HObj m ((fix go (l : list (string * json)) : Forall (fun kv => P (snd kv)) l :=
                   match l with
                   | [] => Forall_nil _
                   | kv :: r =>
                       Forall_cons _ (match kv as k return P (snd k) with (_, x) => json_ind' x end) (go r)
                   end) m)
    end.
End JsonInd.

Section FvalueInd.
  Variable P : fvalue -> Prop.
  Hypothesis HBool : forall b, P (VBool b).
  Hypothesis HI64 : forall z, P (VI64 z).
  Hypothesis HU64 : forall z, P (VU64 z).
  Hypothesis HF64 : forall x, P (VF64 x).
  Hypothesis HF32 : forall x, P (VF32 x).
  Hypothesis HBytes : forall b, P (VBytes b).
  Hypothesis HText : forall s, P (VText s).
  Hypothesis HJson : forall j, P (VJson j).
  Hypothesis HVector : forall l, P (VVector l).
  Hypothesis HArr : forall l, Forall P l -> P (VArray l).
  Hypothesis HMap : forall m, Forall (fun kv => P (snd kv)) m -> P (VMap m).
  Hypothesis HNull : P VNull.

  Fixpoint fvalue_ind' (v : fvalue) : P v :=
    match v with
    | VBool b => HBool b | VI64 z => HI64 z | VU64 z => HU64 z | VF64 x => HF64 x | VF32 x => HF32 x
    | VBytes b => HBytes b | VText s => HText s | VJson j => HJson j | VVector l => HVector l
    | VArray l =>
        HArr l ((fix go (l : list fvalue) : Forall P l :=
                   match l with
                   | [] => Forall_nil _
                   | x :: r => Forall_cons _ (fvalue_ind' x) (go r)
                   end) l)
    | VMap m =>
        HMap m ((fix go (l : list (fkey * fvalue)) : Forall (fun kv => P (snd kv)) l :=
                   match l with
                   | [] => Forall_nil _
                   | kv :: r =>
                       Forall_cons _ (match kv as k return P (snd k) with (_, x) => fvalue_ind' x end) (go r)
                   end) m)
    | VNull => HNull
    end.
End FvalueInd.

(* ------------------------------------------------------------------ generic list lemmas *)
Lemma mapM_inv {A B} (f : A -> option B) (g : B -> A) (l : list A) :
  Forall (fun x => exists r, f x = Some r /\ g r = x) l ->
  exists rs, mapM f l = Some rs /\ map g rs = l.
Proof.
  induction 1 as [|x l [r [Hr Hg]] _ [rs [Hrs Hm]]].
  - exists []. split; reflexivity.
  - exists (r :: rs). cbn. rewrite Hr. fold (mapM f l). rewrite Hrs. split; [reflexivity|].
    cbn. rewrite Hg, Hm. reflexivity.
Qed.

Lemma mapM_id {A} (f : A -> option A) (l : list A) :
  Forall (fun x => f x = Some x) l -> mapM f l = Some l.
Proof.
  induction 1 as [|x l Hx _ IH]; [reflexivity|].
  cbn. rewrite Hx. fold (mapM f l). rewrite IH. reflexivity.
Qed.

Lemma mapM_some_length {A B} (f : A -> option B) (l : list A) rs :
  mapM f l = Some rs -> List.length rs = List.length l.
Proof.
  revert rs. induction l as [|x l IH]; cbn; intros rs H.
  - inversion H. reflexivity.
  - destruct (f x); [|discriminate]. fold (mapM f l) in H. destruct (mapM f l); [|discriminate].
    inversion H. cbn. f_equal. apply IH. reflexivity.
Qed.

Lemma forallb_Forall {A} (f : A -> bool) l : forallb f l = true <-> Forall (fun x => f x = true) l.
Proof.
  rewrite forallb_forall, Forall_forall. reflexivity.
Qed.

Lemma Forall_and_inv {A} (P Q : A -> Prop) l : Forall P l -> Forall Q l -> Forall (fun x => P x /\ Q x) l.
Proof. intros HP HQ. induction HP; inversion HQ; subst; constructor; auto. Qed.

(* ------------------------------------------------------------------ keys *)
Lemma zlist_eqb_eq a b : zlist_eqb a b = true <-> a = b.
Proof.
  revert b. induction a as [|x a IH]; destruct b as [|y b]; cbn; split; intros H; try discriminate; try reflexivity.
  - apply andb_true_iff in H. destruct H as [H1 H2]. apply Z.eqb_eq in H1. apply IH in H2. subst. reflexivity.
  - inversion H; subst. apply andb_true_iff. split; [apply Z.eqb_refl | apply IH; reflexivity].
Qed.

Lemma fkey_eqb_eq a b : fkey_eqb a b = true <-> a = b.
Proof.
  destruct a, b; cbn; split; intros H; try discriminate; try (inversion H; subst).
  - apply String.eqb_eq in H. subst. reflexivity.
  - apply String.eqb_refl.
  - apply Z.eqb_eq in H. subst. reflexivity.
  - apply Z.eqb_refl.
  - apply zlist_eqb_eq in H. subst. reflexivity.
  - apply zlist_eqb_eq. reflexivity.
Qed.

Lemma fkey_eqb_refl k : fkey_eqb k k = true.
Proof. apply fkey_eqb_eq. reflexivity. Qed.

Lemma mapM_inv2 {A B} (f : A -> option B) (g : B -> A) (Q : B -> Prop) (l : list A) :
  Forall (fun x => exists r, f x = Some r /\ g r = x /\ Q r) l ->
  exists rs, mapM f l = Some rs /\ map g rs = l /\ Forall Q rs.
Proof.
  induction 1 as [|x l [r [Hr [Hg Hq]]] _ [rs [Hrs [Hm HQ]]]].
  - exists []. repeat split; constructor.
  - exists (r :: rs). cbn. rewrite Hr. fold (mapM f l). rewrite Hrs. split; [reflexivity|]. split.
    + cbn. rewrite Hg, Hm. reflexivity.
    + constructor; assumption.
Qed.

Lemma mapM_map_id {A B} (f : B -> option A) (g : A -> B) (l : list A) :
  Forall (fun x => f (g x) = Some x) l -> mapM f (map g l) = Some l.
Proof.
  induction 1 as [|x l Hx _ IH]; [reflexivity|].
  cbn. rewrite Hx. fold (mapM f (map g l)). rewrite IH. reflexivity.
Qed.

Lemma map_pair_id {A B} (l : list (A * B)) : map (fun kv => (fst kv, snd kv)) l = l.
Proof. induction l as [|[a b] l IH]; cbn; [reflexivity|]. rewrite IH. reflexivity. Qed.

Lemma filter_all {A} (f : A -> bool) l : Forall (fun x => f x = true) l -> filter f l = l.
Proof. induction 1 as [|x l Hx _ IH]; cbn; [reflexivity|]. rewrite Hx, IH. reflexivity. Qed.

Lemma with_type_found (f : ftype -> bool) k m :
  with_type f false k m = true ->
  exists ft, In ft (map snd m) /\ f ft = true /\ mem_key k m = true /\
             (forall (B : Type) (g : ftype -> B) dflt, with_type g dflt k m = g ft).
Proof.
  induction m as [|[k' ft] m IH]; cbn; [discriminate|].
  unfold mem_key. cbn. destruct (fkey_eqb k k') eqn:E.
  - intros Hf. exists ft. repeat split; auto.
  - intros H. destruct (IH H) as [ft' [Hin [Hf [Hm Hg]]]]. exists ft'. repeat split; auto.
Qed.

Arguments too_deep : simpl never.
Arguments is_wild : simpl never.

(* ------------------------------------------------------------------ the round trip *)
Section Core.
Variable F : fops.
Variable L : limits.
(* IEEE-754 facts about `f32 as f64` / `f64 as f32` / is_f32_read_back (premises; the harness checks
   them against Rust's casts on many bit patterns) *)
Hypothesis H_nw : forall x, in_u32 x = true -> nan32 x = false -> narrow F (widen F x) = x.
Hypothesis H_rb : forall x, in_u32 x = true -> nan32 x = false -> is_rb F (widen F x) = true.
(* the validation budget is below the conversion depth bound (a generated fact of the code) *)
Hypothesis H_L : max_depth L <= max_conv L.

Lemma conv_ok d v : vshape_ok L d v = true -> too_deep L d = false.
Proof.
  intros H. assert (d <= max_depth L).
  { destruct v; cbn in H; apply andb_true_iff in H; destruct H as [H _]; apply Nat.leb_le in H; exact H. }
  apply Nat.ltb_ge. lia.
Qed.

Lemma shape_not_json j : match shape j with VJson _ => False | _ => True end.
Proof. destruct j; exact I. Qed.

Lemma jshape_depth e j : jshape_ok L e j = true -> e <= max_depth L.
Proof.
  intros H. destruct j; cbn in H; apply andb_true_iff in H; destruct H as [H _]; apply Nat.leb_le in H; exact H.
Qed.

Lemma to_json_shape j :
  wf_json j = true -> forall e, jshape_ok L e j = true -> forall e', e' <= e ->
  to_json_at F L e' (shape j) = Some j.
Proof.
  induction j using json_ind'; intros Hw e Hs e' Hle;
    (assert (Hc : too_deep L e' = false)
      by (apply Nat.ltb_ge; pose proof (jshape_depth _ _ Hs); lia));
    cbn [shape to_json_at]; rewrite Hc.
  - reflexivity.
  - reflexivity.
  - reflexivity.
  - cbn in Hw. apply andb_true_iff in Hw. destruct Hw as [_ Hn]. apply Z.ltb_lt in Hn.
    destruct (0 <=? n)%Z eqn:E; [apply Z.leb_le in E; lia | reflexivity].
  - cbn in Hw. apply andb_true_iff in Hw. destruct Hw as [_ Hf]. unfold jfloat. rewrite Hf. reflexivity.
  - reflexivity.
  - cbn in Hw, Hs. apply andb_true_iff in Hs. destruct Hs as [_ Hs]. apply andb_true_iff in Hs. destruct Hs as [_ Hs].
    rewrite forallb_Forall in Hw, Hs.
    rewrite (mapM_map_id (to_json_at F L (S e')) shape l); [reflexivity|].
    pose proof (Forall_and_inv _ _ _ (Forall_and_inv _ _ _ H Hw) Hs) as HA.
    eapply Forall_impl; [|exact HA]. cbn. intros x [[IH Hwx] Hsx]. apply (IH Hwx (S e) Hsx). lia.
  - cbn in Hw, Hs. apply andb_true_iff in Hs. destruct Hs as [_ Hs]. apply andb_true_iff in Hs. destruct Hs as [_ Hs].
    rewrite forallb_Forall in Hw, Hs.
    rewrite mapM_map_id; [reflexivity|].
    pose proof (Forall_and_inv _ _ _ (Forall_and_inv _ _ _ H Hw) Hs) as HA.
    eapply Forall_impl; [|exact HA]. cbn. intros [k x] [[IH Hwx] Hsx]. cbn in *.
    rewrite (IH Hwx (S e) Hsx); [reflexivity | lia].
Qed.

Lemma plain_readback v : plain v = true -> readback F v = Some v.
Proof.
  induction v using fvalue_ind'; cbn; intros Hp; try reflexivity; try discriminate.
  - apply Z.ltb_lt in Hp. destruct (0 <=? z)%Z eqn:E; [apply Z.leb_le in E; lia | reflexivity].
  - apply negb_true_iff in Hp. rewrite Hp. reflexivity.
  - rewrite forallb_Forall in Hp. rewrite mapM_id; [reflexivity|].
    pose proof (Forall_and_inv _ _ _ H Hp) as HA. eapply Forall_impl; [|exact HA]. cbn. intros x [IH Hx]. auto.
  - rewrite forallb_Forall in Hp. rewrite mapM_id; [reflexivity|].
    pose proof (Forall_and_inv _ _ _ H Hp) as HA. eapply Forall_impl; [|exact HA]. cbn. intros [k x] [IH Hx]. cbn in *.
    rewrite (IH Hx). reflexivity.
Qed.

Lemma readback_null v : readback F v = Some VNull -> stores_as_null v = true.
Proof.
  destruct v; cbn; intros H; try discriminate; try reflexivity.
  - destruct (0 <=? z)%Z; discriminate.
  - destruct (nan64 bits); discriminate.
  - destruct (nan32 bits); discriminate.
  - destruct j; cbn in H; try discriminate; reflexivity.
  - destruct (mapM (readback F) l); discriminate.
  - destruct (mapM _ m); discriminate.
Qed.

Lemma prune_null t : forall d r, prune_at L t d r = VNull -> r = VNull.
Proof.
  induction t as [| | | | | | | | |ts|m|t IHt]; intros d r; cbn; destruct (too_deep L d); auto.
  - destruct r; auto. destruct ts as [|t1 [|t2 ts]]; auto; discriminate.
  - destruct r; auto. destruct m as [|[wk ft] [|p m]]; auto; try discriminate.
    destruct (is_wild wk); discriminate.
  - destruct r; auto; apply IHt.
Qed.

Lemma bits_of_u64 l : forallb in_u16 l = true -> bits_of (map VU64 l) = Some l.
Proof.
  intros H. unfold bits_of. apply mapM_map_id. rewrite forallb_Forall in H.
  eapply Forall_impl; [|exact H]. cbn. intros x Hx. unfold in_u16 in Hx. apply andb_true_iff in Hx.
  destruct Hx as [_ Hx]. rewrite Hx. reflexivity.
Qed.

Definition RT (t : ftype) : Prop :=
  forall v d, canon t v = true -> wf_value v = true -> vshape_ok L d v = true ->
  exists r, readback F v = Some r /\ normalize_at F L t d (prune_at L t d r) = v.

Lemma rt_zip ts : Forall RT ts -> forall l d,
  zip_exact canon ts l = true -> forallb wf_value l = true -> forallb (vshape_ok L d) l = true ->
  exists rs, mapM (readback F) l = Some rs /\
             zip_apply (fun ft => normalize_at F L ft d) ts (zip_apply (fun ft => prune_at L ft d) ts rs) = l.
Proof.
  induction 1 as [|t ts Ht _ IH]; intros l d Hc Hw Hs; destruct l as [|x l]; cbn in Hc; try discriminate.
  - exists []. split; reflexivity.
  - apply andb_true_iff in Hc. destruct Hc as [Hc1 Hc2].
    cbn in Hw, Hs. apply andb_true_iff in Hw. destruct Hw as [Hw1 Hw2]. apply andb_true_iff in Hs. destruct Hs as [Hs1 Hs2].
    destruct (Ht x d Hc1 Hw1 Hs1) as [r [Hr Hn]]. destruct (IH l d Hc2 Hw2 Hs2) as [rs [Hrs Hm]].
    exists (r :: rs). cbn. rewrite Hr. fold (mapM (readback F) l). rewrite Hrs. split; [reflexivity|].
    rewrite Hn. f_equal. exact Hm.
Qed.

Theorem rt_inner t : RT t.
Proof.
  induction t using ftype_ind'; intros v d Hc Hw Hs; pose proof (conv_ok _ _ Hs) as Hd.
  1-11: destruct v; cbn in Hc; try discriminate.
  - (* Bool *) exists (VBool b). split; [reflexivity|]. cbn. rewrite Hd. reflexivity.
  - (* I64 *) cbn. destruct (0 <=? z)%Z eqn:E.
    + exists (VU64 z). split; [reflexivity|]. cbn. rewrite Hd. cbn in Hw. unfold in_i64 in Hw.
      apply andb_true_iff in Hw. destruct Hw as [_ Hw]. rewrite Hw. reflexivity.
    + exists (VI64 z). split; [reflexivity|]. cbn. rewrite Hd. reflexivity.
  - (* U64 *) exists (VU64 z). split; [reflexivity|]. cbn. rewrite Hd. reflexivity.
  - (* F64 *) apply negb_true_iff in Hc. cbn. rewrite Hc. exists (VF64 bits). split; [reflexivity|]. cbn. rewrite Hd. reflexivity.
  - (* F32 *) apply negb_true_iff in Hc. cbn. rewrite Hc. exists (VF64 (widen F bits)). split; [reflexivity|].
    cbn. rewrite Hd. cbn in Hw. rewrite (H_rb _ Hw Hc), (H_nw _ Hw Hc). reflexivity.
  - (* Bytes *) exists (VBytes b). split; [reflexivity|]. cbn. rewrite Hd. reflexivity.
  - (* Text *) exists (VText s). split; [reflexivity|]. cbn. rewrite Hd. reflexivity.
  - (* Json *) exists (shape j). split; [reflexivity|]. cbn. rewrite Hd.
    cbn in Hs. apply andb_true_iff in Hs. destruct Hs as [_ Hs]. cbn in Hw.
    pose proof (to_json_shape j Hw (S d) Hs 0 (Nat.le_0_l _)) as Hj.
    pose proof (shape_not_json j) as Hn. destruct (shape j); try contradiction; rewrite Hj; reflexivity.
  - (* Vector *) exists (VArray (map VU64 l)). split; [reflexivity|]. cbn. rewrite Hd.
    cbn in Hw. rewrite (bits_of_u64 _ Hw). reflexivity.
  - (* Array *)
    cbn in Hw, Hs. apply andb_true_iff in Hs. destruct Hs as [_ Hs]. apply andb_true_iff in Hs. destruct Hs as [_ Hs].
    destruct ts as [|t1 [|t2 ts]].
    + (* untyped *) exists (VArray l). split.
      * apply (plain_readback (VArray l)). exact Hc.
      * cbn. rewrite Hd. reflexivity.
    + (* homogeneous *) inversion H as [|? ? H1 _]; subst.
      rewrite forallb_Forall in Hc, Hw, Hs.
      destruct (mapM_inv (readback F) (fun r => normalize_at F L t1 (S d) (prune_at L t1 (S d) r)) l) as [rs [Hrs Hm]].
      { pose proof (Forall_and_inv _ _ _ (Forall_and_inv _ _ _ Hc Hw) Hs) as HA.
        eapply Forall_impl; [|exact HA]. cbn. intros x [[Hcx Hwx] Hsx]. exact (H1 x (S d) Hcx Hwx Hsx). }
      exists (VArray rs). split; [cbn; rewrite Hrs; reflexivity|].
      cbn. rewrite !Hd. cbn. rewrite map_map. rewrite Hm. reflexivity.
    + (* tuple *)
      destruct (rt_zip _ H l (S d) Hc Hw Hs) as [rs [Hrs Hm]].
      exists (VArray rs). split; [cbn; rewrite Hrs; reflexivity|].
      cbn. rewrite !Hd. cbn. f_equal. exact Hm.
  - (* Map *)
    cbn in Hw, Hs. apply andb_true_iff in Hs. destruct Hs as [_ Hs]. apply andb_true_iff in Hs. destruct Hs as [_ Hs].
    assert (Hplain : m = [] -> exists r, readback F (VMap m0) = Some r /\ normalize_at F L (TMap m) d (prune_at L (TMap m) d r) = VMap m0).
    { intros ->. exists (VMap m0). split.
      - apply (plain_readback (VMap m0)). exact Hc.
      - cbn. rewrite Hd. rewrite map_pair_id. reflexivity. }
    assert (Hwild : forall wk ft, m = [(wk, ft)] -> is_wild wk = true ->
              exists r, readback F (VMap m0) = Some r /\ normalize_at F L (TMap m) d (prune_at L (TMap m) d r) = VMap m0).
    { intros wk ft -> Hwk. cbn in Hc. rewrite Hwk in Hc. inversion H as [|? ? H1 _]; subst. cbn in H1.
      rewrite forallb_Forall in Hc, Hw, Hs.
      destruct (mapM_inv (fun kv => option_map (fun r => (fst kv, r)) (readback F (snd kv)))
                  (fun kv => (fst kv, normalize_at F L ft (S d) (prune_at L ft (S d) (snd kv)))) m0) as [rs [Hrs Hm]].
      { pose proof (Forall_and_inv _ _ _ (Forall_and_inv _ _ _ Hc Hw) Hs) as HA.
        eapply Forall_impl; [|exact HA]. cbn. intros [k x] [[Hcx Hwx] Hsx]. cbn in *.
        destruct (H1 x (S d) Hcx Hwx Hsx) as [r [Hr Hn]]. exists (k, r). rewrite Hr. cbn. rewrite Hn. split; reflexivity. }
      exists (VMap rs). split; [cbn; rewrite Hrs; reflexivity|].
      cbn. rewrite !Hd, !Hwk. cbn. rewrite map_map. cbn. rewrite Hm. reflexivity. }
    assert (Hkeyed : forallb (fun kv => with_type (fun ft => canon ft (snd kv)) false (fst kv) m) m0 = true ->
              exists rs, mapM (fun kv => option_map (fun r => (fst kv, r)) (readback F (snd kv))) m0 = Some rs /\
                map (fun kv => (fst kv, with_type (fun ft => normalize_at F L ft (S d) (snd kv)) (snd kv) (fst kv) m))
                    (map (fun kv => (fst kv, with_type (fun ft => prune_at L ft (S d) (snd kv)) (snd kv) (fst kv) m))
                         (filter (fun kv => mem_key (fst kv) m) rs)) = m0).
    { intros Hk. rewrite forallb_Forall in Hk, Hw, Hs.
      destruct (mapM_inv2 (fun kv => option_map (fun r => (fst kv, r)) (readback F (snd kv)))
                  (fun kv => (fst kv, with_type (fun ft => normalize_at F L ft (S d)
                                 (with_type (fun ft' => prune_at L ft' (S d) (snd kv)) (snd kv) (fst kv) m))
                                 (with_type (fun ft' => prune_at L ft' (S d) (snd kv)) (snd kv) (fst kv) m) (fst kv) m))
                  (fun kv => mem_key (fst kv) m = true) m0) as [rs [Hrs [Hm HQ]]].
      { pose proof (Forall_and_inv _ _ _ (Forall_and_inv _ _ _ Hk Hw) Hs) as HA.
        eapply Forall_impl; [|exact HA]. cbn. intros [k x] [[Hcx Hwx] Hsx]. cbn in *.
        destruct (with_type_found _ _ _ Hcx) as [ft [Hin [Hcf [Hmem Hg]]]].
        rewrite Forall_forall in H.
        assert (HRT : RT ft).
        { apply in_map_iff in Hin. destruct Hin as [[k' ft'] [E Hin]]. cbn in E. subst ft'. exact (H _ Hin). }
        destruct (HRT x (S d) Hcf Hwx Hsx) as [r [Hr Hn]]. exists (k, r). rewrite Hr. cbn.
        rewrite !Hg. rewrite Hn. repeat split; auto. }
      exists rs. split; [exact Hrs|]. rewrite (filter_all _ _ HQ). rewrite map_map. cbn. exact Hm. }
    destruct m as [|[wk ft] [|p m]].
    + apply Hplain. reflexivity.
    + destruct (is_wild wk) eqn:Hwk.
      * apply (Hwild wk ft eq_refl Hwk).
      * cbn in Hc. rewrite ?Hwk in Hc. destruct (Hkeyed Hc) as [rs [Hrs Hm]].
        exists (VMap rs). split; [cbn; rewrite Hrs; reflexivity|].
        cbn. rewrite !Hd, !Hwk. cbn. f_equal. exact Hm.
    + destruct (Hkeyed Hc) as [rs [Hrs Hm]].
      exists (VMap rs). split; [cbn; rewrite Hrs; reflexivity|].
      cbn. rewrite !Hd. cbn. f_equal. exact Hm.
  - (* Option *)
    destruct (is_null v) eqn:En.
    + destruct v; try discriminate. exists VNull. split; [reflexivity|]. cbn. rewrite Hd. reflexivity.
    + assert (Hc' : negb (stores_as_null v) = true /\ canon t v = true).
      { destruct v; try discriminate En; cbn [canon] in Hc; apply andb_true_iff in Hc; exact Hc. }
      destruct Hc' as [Hn Hct]. destruct (IHt v d Hct Hw Hs) as [r [Hr Hnorm]]. exists r. split; [exact Hr|].
      assert (Hrn : r <> VNull).
      { intros ->. apply readback_null in Hr. rewrite Hr in Hn. discriminate. }
      assert (Hp : prune_at L (TOption t) d r = prune_at L t d r).
      { cbn. rewrite Hd. destruct r; try reflexivity. contradiction. }
      rewrite Hp. remember (prune_at L t d r) as p eqn:Ep.
      assert (Hpn : p <> VNull).
      { intros E. subst p. symmetry in E. apply eq_sym in E. apply prune_null in E. contradiction. }
      cbn. rewrite Hd. destruct p; try exact Hnorm. contradiction.
Qed.

(* ------------------------------------------------------------------ idempotence of normalize *)
Lemma normalize_null t : forall d v, normalize_at F L t d v = VNull -> v = VNull.
Proof.
  induction t as [| | | | | | | | |ts|m|t IHt]; intros d v; cbn; destruct (too_deep L d); auto; destruct v; auto; try discriminate;
    try (apply IHt);
    try (match goal with |- context [to_json_at F L 0 ?x] => destruct (to_json_at F L 0 x); discriminate end);
    try (match goal with |- (if ?c then _ else _) = _ -> _ => destruct c; discriminate end);
    try (match goal with |- context [bits_of ?x] => destruct (bits_of x); discriminate end).
  - destruct ts as [|t1 [|t2 ts]]; discriminate.
  - destruct m as [|[wk ft] [|p m]]; try discriminate. destruct (is_wild wk); discriminate.
Qed.

Definition IDEM (t : ftype) : Prop :=
  forall d v, normalize_at F L t d (normalize_at F L t d v) = normalize_at F L t d v.

Lemma zip_apply_idem (f : ftype -> fvalue -> fvalue) ts :
  Forall (fun t => forall v, f t (f t v) = f t v) ts ->
  forall l, zip_apply f ts (zip_apply f ts l) = zip_apply f ts l.
Proof.
  induction 1 as [|t ts Ht _ IH]; intros l; destruct l as [|x l]; cbn; try reflexivity.
  rewrite Ht, IH. reflexivity.
Qed.

Theorem normalize_idem t : IDEM t.
Proof.
  induction t using ftype_ind'; intros d v; cbn; destruct (too_deep L d) eqn:Hd; try reflexivity.
  - (* I64 *) destruct v; try reflexivity. destruct (z <=? i64_max)%Z eqn:E; [reflexivity | rewrite E; reflexivity].
  - (* F32 *) destruct v; try reflexivity. destruct (is_rb F bits) eqn:E; [reflexivity | rewrite E; reflexivity].
  - (* Json *) destruct v; try reflexivity;
      match goal with |- context [to_json_at F L 0 ?x] => destruct (to_json_at F L 0 x) eqn:E; [reflexivity | rewrite E; reflexivity] end.
  - (* Vector *) destruct v; try reflexivity. destruct (bits_of l) eqn:E; [reflexivity | rewrite E; reflexivity].
  - (* Array *) destruct v; try reflexivity. destruct ts as [|t1 [|t2 ts]]; try reflexivity.
    + inversion H as [|? ? H1 _]; subst. f_equal. rewrite map_map. apply map_ext. intros x. apply H1.
    + f_equal. apply (zip_apply_idem (fun ft => normalize_at F L ft (S d))).
      eapply Forall_impl; [|exact H]. cbn. intros t Ht x. apply Ht.
  - (* Map *) destruct v; try reflexivity.
    assert (Hkeyed : map (fun kv => (fst kv, with_type (fun ft => normalize_at F L ft (S d) (snd kv)) (snd kv) (fst kv) m))
                       (map (fun kv => (fst kv, with_type (fun ft => normalize_at F L ft (S d) (snd kv)) (snd kv) (fst kv) m)) m0)
                     = map (fun kv => (fst kv, with_type (fun ft => normalize_at F L ft (S d) (snd kv)) (snd kv) (fst kv) m)) m0).
    { rewrite map_map. apply map_ext. intros [k x]. cbn. f_equal.
      clear -H. induction m as [|[k' ft] m IH]; cbn; [reflexivity|].
      inversion H as [|? ? H1 H2]; subst. destruct (fkey_eqb k k'); [apply H1 | apply IH; exact H2]. }
    destruct m as [|[wk ft] [|p m]].
    + f_equal. exact Hkeyed.
    + destruct (is_wild wk) eqn:Hwk.
      * rewrite ?Hwk. inversion H as [|? ? H1 _]; subst. f_equal. rewrite map_map. apply map_ext. intros [k x]. cbn. f_equal. apply H1.
      * rewrite ?Hwk. f_equal. exact Hkeyed.
    + f_equal. exact Hkeyed.
  - (* Option *) destruct (is_null v) eqn:En.
    + destruct v; try discriminate. reflexivity.
    + assert (Hv : normalize_at F L (TOption t) d v = normalize_at F L t d v).
      { cbn. rewrite Hd. destruct v; try reflexivity. discriminate. }
      cbn in Hv. rewrite Hd in Hv. rewrite Hv.
      destruct (normalize_at F L t d v) eqn:E; try (rewrite <- E; rewrite IHt; rewrite E; reflexivity).
      apply normalize_null in E. subst v. discriminate.
Qed.

(* ------------------------------------------------------------------ field level *)
Lemma entry_validate_shape t v : entry_validate F L t v = true -> vshape_ok L 0 v = true.
Proof.
  destruct v; cbn; intros H; try (apply andb_true_iff in H; destruct H as [H _]; unfold complexity_ok in H;
    apply andb_true_iff in H; destruct H as [_ H]; exact H).
  reflexivity.
Qed.

Lemma normalize_canon t v d :
  canon t v = true -> wf_value v = true -> vshape_ok L d v = true -> normalize_at F L t d v = v.
Proof.
  intros Hc Hw Hs. destruct (rt_inner t v d Hc Hw Hs) as [r [_ Hn]].
  rewrite <- Hn at 1. rewrite normalize_idem. exact Hn.
Qed.

Theorem write_read_canon t v :
  canon t v = true -> wf_value v = true -> entry_validate F L t v = true ->
  write_read F L t v = Some (Some v).
Proof.
  intros Hc Hw Hv. pose proof (entry_validate_shape _ _ Hv) as Hs.
  unfold write_read, set_field, normalize. rewrite (normalize_canon t v 0 Hc Hw Hs). rewrite Hv.
  destruct (rt_inner t v 0 Hc Hw Hs) as [r [Hr Hn]]. rewrite Hr. unfold read_norm, normalize, prune. rewrite Hn, Hv. reflexivity.
Qed.

End Core.

Theorem set_field_valid F L t v s : set_field F L t v = Some s -> entry_validate F L t s = true.
Proof.
  unfold set_field. destruct (entry_validate F L t (normalize F L t v)) eqn:E; intros H; inversion H; subst. exact E.
Qed.

(* ------------------------------------------------------------------ rejection of single violations *)
(* which value constructors a type admits at all *)
Fixpoint variant_ok (t : ftype) (v : fvalue) : bool :=
  match t with
  | TBool => match v with VBool _ => true | _ => false end
  | TI64 => match v with VI64 _ | VU64 _ => true | _ => false end
  | TU64 => match v with VU64 _ => true | _ => false end
  | TF64 => match v with VF64 _ => true | _ => false end
  | TF32 => match v with VF32 _ | VF64 _ => true | _ => false end
  | TBytes => match v with VBytes _ => true | _ => false end
  | TText => match v with VText _ => true | _ => false end
  | TJson => true
  | TVector => match v with VVector _ | VArray _ => true | _ => false end
  | TArray _ => match v with VArray _ => true | _ => false end
  | TMap _ => match v with VMap _ => true | _ => false end
  | TOption t => match v with VNull => true | _ => variant_ok t v end
  end.

Definition keyed (m : list (fkey * ftype)) : Prop := m <> [] /\ wildcard_of m = None.

Inductive VI (F : fops) : ftype -> fvalue -> Prop :=
| VI_variant t v : variant_ok t v = false -> VI F t v
| VI_i64_range u : (i64_max < u)%Z -> VI F TI64 (VU64 u)
| VI_nan64 x : nan64 x = true -> VI F TF64 (VF64 x)
| VI_nan32 x : nan32 x = true -> VI F TF32 (VF32 x)
| VI_f32_precision x : is_rb F x = false -> VI F TF32 (VF64 x)
| VI_vector_elem l : forallb is_bf16_bits l = false -> VI F TVector (VArray l)
| VI_tuple_arity t1 t2 ts l : List.length l <> List.length (t1 :: t2 :: ts) -> VI F (TArray (t1 :: t2 :: ts)) (VArray l)
| VI_undeclared_key m kvs k : keyed m -> In k (map fst kvs) -> mem_key k m = false -> VI F (TMap m) (VMap kvs)
| VI_missing_key m kvs k ft : keyed m -> In (k, ft) m -> lookup k kvs = None -> VI F ft VNull -> VI F (TMap m) (VMap kvs)
| VI_wildcard_key_kind wk ft kvs k :
    is_wild wk = true -> In k (map fst kvs) -> key_kind k <> key_kind wk -> VI F (TMap [(wk, ft)]) (VMap kvs)
(* a violation below makes the composite fail *)
| VI_option t v : v <> VNull -> VI F t v -> VI F (TOption t) v
| VI_elem ft l x : In x l -> VI F ft x -> VI F (TArray [ft]) (VArray l)
| VI_tuple_elem t1 t2 ts l i ft x :
    nth_error (t1 :: t2 :: ts) i = Some ft -> nth_error l i = Some x -> VI F ft x -> VI F (TArray (t1 :: t2 :: ts)) (VArray l)
| VI_wildcard_value wk ft kvs k x : is_wild wk = true -> In (k, x) kvs -> VI F ft x -> VI F (TMap [(wk, ft)]) (VMap kvs)
| VI_keyed_value m kvs k ft x : keyed m -> In (k, ft) m -> lookup k kvs = Some x -> VI F ft x -> VI F (TMap m) (VMap kvs).

Lemma forallb_false_in {A} (f : A -> bool) l x : In x l -> f x = false -> forallb f l = false.
Proof.
  intros Hin Hf. destruct (forallb f l) eqn:E; [|reflexivity].
  rewrite forallb_forall in E. rewrite (E x Hin) in Hf. discriminate.
Qed.

Lemma all_types_false_in (f : fkey -> ftype -> bool) m k ft : In (k, ft) m -> f k ft = false -> all_types f m = false.
Proof.
  induction m as [|[k' ft'] m IH]; cbn; [contradiction|]. intros [E|Hin] Hf.
  - inversion E; subst. rewrite Hf. reflexivity.
  - rewrite (IH Hin Hf). apply andb_false_r.
Qed.

Lemma zip_all_false_nth {A} (f : ftype -> A -> bool) ts l i ft x :
  nth_error ts i = Some ft -> nth_error l i = Some x -> f ft x = false -> zip_all f ts l = false.
Proof.
  revert l i. induction ts as [|t ts IH]; intros l i Ht Hl Hf; destruct i; cbn in Ht; try discriminate.
  - inversion Ht; subst. destruct l; cbn in Hl; [discriminate|]. inversion Hl; subst. cbn. rewrite Hf. reflexivity.
  - destruct l; cbn in Hl; [discriminate|]. cbn. rewrite (IH _ _ Ht Hl Hf). apply andb_false_r.
Qed.

Lemma keyed_cases (m : list (fkey * ftype)) : keyed m ->
  (exists wk ft, m = [(wk, ft)] /\ is_wild wk = false) \/ (exists p q r, m = p :: q :: r).
Proof.
  intros [Hne Hw]. destruct m as [|[wk ft] [|q r]]; [contradiction| |right; eauto].
  left. exists wk, ft. split; [reflexivity|]. cbn in Hw. destruct (is_wild wk); [discriminate | reflexivity].
Qed.

Lemma variant_fail F t : forall v, variant_ok t v = false -> validate_inner F t v = false.
Proof.
  induction t as [| | | | | | | | |ts|m|t IHt]; intros v H; destruct v; cbn in *; try discriminate; try reflexivity.
  all: apply IHt; exact H.
Qed.

Theorem vi_rejected F t v : VI F t v -> validate_inner F t v = false.
Proof.
  induction 1.
  - apply variant_fail; assumption.
  - cbn. apply Z.leb_gt. assumption.
  - cbn. rewrite H. reflexivity.
  - cbn. rewrite H. reflexivity.
  - cbn. assumption.
  - cbn. assumption.
  - cbn. apply andb_false_iff. left. apply Nat.eqb_neq. assumption.
  - (* undeclared key *)
    assert (Hf : forallb (fun kv => mem_key (fst kv) m) kvs = false).
    { apply in_map_iff in H0. destruct H0 as [[k' x] [E Hin]]. cbn in E. subst k'.
      apply (forallb_false_in _ _ (k, x) Hin). exact H1. }
    destruct (keyed_cases _ H) as [[wk [ft [-> Hwk]]] | [p [q [r ->]]]]; cbn.
    + rewrite Hwk. cbn in Hf. rewrite Hf. reflexivity.
    + destruct p. cbn in Hf. rewrite Hf. reflexivity.
  - (* missing key *)
    assert (Hf : all_types (fun k ft => validate_inner F ft (match lookup k kvs with None => VNull | Some x => x end)) m = false).
    { apply (all_types_false_in _ _ k ft H0). rewrite H1. exact IHVI. }
    destruct (keyed_cases _ H) as [[wk [ft' [-> Hwk]]] | [p [q [r ->]]]]; cbn.
    + rewrite Hwk. cbn in Hf. rewrite Hf. apply andb_false_r.
    + destruct p. cbn in Hf. rewrite Hf. apply andb_false_r.
  - (* wildcard key kind *)
    cbn. rewrite H. apply in_map_iff in H0. destruct H0 as [[k' x] [E Hin]]. cbn in E. subst k'.
    apply (forallb_false_in _ _ (k, x) Hin). cbn. apply andb_false_iff. left. apply Nat.eqb_neq. assumption.
  - (* option *) cbn. destruct v; try exact IHVI. contradiction.
  - (* element *) cbn. apply (forallb_false_in _ _ x H). exact IHVI.
  - (* tuple element *) cbn. apply andb_false_iff. right.
    apply (zip_all_false_nth (validate_inner F) (t1 :: t2 :: ts) l i ft x H H0 IHVI).
  - (* wildcard value *) cbn. rewrite H. apply (forallb_false_in _ _ (k, x) H0). cbn. rewrite IHVI. apply andb_false_r.
  - (* keyed value *)
    assert (Hf : all_types (fun k ft => validate_inner F ft (match lookup k kvs with None => VNull | Some x => x end)) m = false).
    { apply (all_types_false_in _ _ k ft H0). rewrite H1. exact IHVI. }
    destruct (keyed_cases _ H) as [[wk [ft' [-> Hwk]]] | [p [q [r ->]]]]; cbn.
    + rewrite Hwk. cbn in Hf. rewrite Hf. apply andb_false_r.
    + destruct p. cbn in Hf. rewrite Hf. apply andb_false_r.
Qed.

(* the complexity budget: any one bound exceeded anywhere in the tree *)
Inductive JOver (L : limits) : nat -> json -> Prop :=
| JO_depth d j : max_depth L < d -> JOver L d j
| JO_array_len d l : max_array_len L < List.length l -> JOver L d (JArr l)
| JO_object_len d m : max_map_entries L < List.length m -> JOver L d (JObj m)
| JO_in_array d l x : In x l -> JOver L (S d) x -> JOver L d (JArr l)
| JO_in_object d m k x : In (k, x) m -> JOver L (S d) x -> JOver L d (JObj m).

Inductive Over (L : limits) : nat -> fvalue -> Prop :=
| O_depth d v : max_depth L < d -> Over L d v
| O_array_len d l : max_array_len L < List.length l -> Over L d (VArray l)
| O_map_len d m : max_map_entries L < List.length m -> Over L d (VMap m)
| O_json d j : JOver L (S d) j -> Over L d (VJson j)
| O_in_array d l x : In x l -> Over L (S d) x -> Over L d (VArray l)
| O_in_map d m k x : In (k, x) m -> Over L (S d) x -> Over L d (VMap m).

Lemma jover_rejected L d j : JOver L d j -> jshape_ok L d j = false.
Proof.
  induction 1.
  - destruct j; cbn; apply andb_false_iff; left; apply Nat.leb_gt; assumption.
  - cbn. apply andb_false_iff. right. apply andb_false_iff. left. apply Nat.leb_gt. assumption.
  - cbn. apply andb_false_iff. right. apply andb_false_iff. left. apply Nat.leb_gt. assumption.
  - cbn. apply andb_false_iff. right. apply andb_false_iff. right. apply (forallb_false_in _ _ x H). assumption.
  - cbn. apply andb_false_iff. right. apply andb_false_iff. right. apply (forallb_false_in _ _ (k, x) H). assumption.
Qed.

Lemma over_rejected L d v : Over L d v -> vshape_ok L d v = false.
Proof.
  induction 1.
  - destruct v; cbn; apply andb_false_iff; left; apply Nat.leb_gt; assumption.
  - cbn. apply andb_false_iff. right. apply andb_false_iff. left. apply Nat.leb_gt. assumption.
  - cbn. apply andb_false_iff. right. apply andb_false_iff. left. apply Nat.leb_gt. assumption.
  - cbn. apply andb_false_iff. right. apply jover_rejected. assumption.
  - cbn. apply andb_false_iff. right. apply andb_false_iff. right. apply (forallb_false_in _ _ x H). assumption.
  - cbn. apply andb_false_iff. right. apply andb_false_iff. right. apply (forallb_false_in _ _ (k, x) H). assumption.
Qed.

Inductive Violates (F : fops) (L : limits) : ftype -> fvalue -> Prop :=
| V_too_many_nodes t v : max_nodes L < vnodes v -> Violates F L t v
| V_over_budget t v : Over L 0 v -> Violates F L t v
| V_type t v : VI F t v -> Violates F L t v.

Theorem violates_rejected F L t v : Violates F L t v -> validate F L t v = false.
Proof.
  intros [t' v' H | t' v' H | t' v' H]; unfold validate, complexity_ok.
  - apply andb_false_iff. left. apply andb_false_iff. left. apply Nat.leb_gt. assumption.
  - apply andb_false_iff. left. apply andb_false_iff. right. apply over_rejected. assumption.
  - apply andb_false_iff. right. apply vi_rejected. assumption.
Qed.
