(* C13 — normalisation never turns an acceptable value into an unacceptable one
   (structural validation; the complexity budget is re-checked by the callers after normalising). *)
From Coq Require Import List ZArith Bool String Arith Lia.
From Verif Require Import Schema.Model Schema.Proofs.
Import ListNotations.
Open Scope list_scope.

Arguments too_deep : simpl never.
Arguments is_wild : simpl never.

(* map types declare each key once (they are BTreeMaps), at every depth *)
Fixpoint nodup_tkeys (m : list (fkey * ftype)) : bool :=
  match m with
  | [] => true
  | (k, _) :: r => negb (mem_key k r) && nodup_tkeys r
  end.

Fixpoint wf_type (t : ftype) : bool :=
  match t with
  | TArray ts => forallb wf_type ts
  | TMap m => nodup_tkeys m && forallb (fun kt => wf_type (snd kt)) m
  | TOption t => wf_type t
  | _ => true
  end.

Lemma all_types_forall (f : fkey -> ftype -> bool) m :
  all_types f m = true <-> (forall k ft, In (k, ft) m -> f k ft = true).
Proof.
  induction m as [|[k ft] m IH]; cbn; split; intros H.
  - intros ? ? [].
  - reflexivity.
  - apply andb_true_iff in H. destruct H as [H1 H2]. intros k' ft' [E|Hin]; [inversion E; subst; exact H1 | apply IH; assumption].
  - apply andb_true_iff. split; [apply H; left; reflexivity | apply IH; intros; apply H; right; assumption].
Qed.

Lemma lookup_in_none {V} k (m : list (fkey * V)) v : In (k, v) m -> lookup k m <> None.
Proof.
  induction m as [|[k' v'] m IH]; cbn; [contradiction|]. intros [E|Hin].
  - inversion E; subst. rewrite fkey_eqb_refl. discriminate.
  - destruct (fkey_eqb k k'); [discriminate | apply IH; exact Hin].
Qed.

Lemma with_type_nodup {A} (g : ftype -> A) dflt k ft m :
  nodup_tkeys m = true -> In (k, ft) m -> with_type g dflt k m = g ft.
Proof.
  induction m as [|[k' ft'] m IH]; cbn; [contradiction|]. intros Hn [E|Hin].
  - inversion E; subst. rewrite fkey_eqb_refl. reflexivity.
  - apply andb_true_iff in Hn. destruct Hn as [Hn1 Hn2]. destruct (fkey_eqb k k') eqn:Ek.
    + apply fkey_eqb_eq in Ek. subst k'. apply negb_true_iff in Hn1. unfold mem_key in Hn1.
      pose proof (lookup_in_none _ _ _ Hin). destruct (lookup k m); [discriminate | contradiction].
    + apply IH; assumption.
Qed.

Lemma lookup_map {V} (g : fkey -> V -> V) k (m : list (fkey * V)) :
  lookup k (map (fun kv => (fst kv, g (fst kv) (snd kv))) m) = option_map (g k) (lookup k m).
Proof.
  induction m as [|[k' v] m IH]; cbn; [reflexivity|]. destruct (fkey_eqb k k') eqn:E.
  - apply fkey_eqb_eq in E. subst. reflexivity.
  - exact IH.
Qed.

Lemma zip_apply_length {A} (f : ftype -> A -> A) ts : forall l, List.length (zip_apply f ts l) = List.length l.
Proof.
  induction ts as [|t ts IH]; intros l; destruct l; cbn; try reflexivity. rewrite IH. reflexivity.
Qed.

Section Norm.
Variable F : fops.
Variable L : limits.
(* narrowing a value is_f32_read_back accepts never yields NaN (IEEE; checked by the harness) *)
Hypothesis H_rbn : forall x, is_rb F x = true -> nan32 (narrow F x) = false.

Definition VAN (t : ftype) : Prop :=
  wf_type t = true -> forall d v, validate_inner F t v = true -> validate_inner F t (normalize_at F L t d v) = true.

Lemma van_zip ts : Forall VAN ts -> forallb wf_type ts = true -> forall d l,
  zip_all (validate_inner F) ts l = true ->
  zip_all (validate_inner F) ts (zip_apply (fun ft => normalize_at F L ft d) ts l) = true.
Proof.
  induction 1 as [|t ts Ht _ IH]; intros Hw d l Hv; [reflexivity|].
  cbn in Hw. apply andb_true_iff in Hw. destruct Hw as [Hw1 Hw2].
  destruct l as [|x l]; cbn in *; [discriminate|].
  apply andb_true_iff in Hv. destruct Hv as [Hv1 Hv2]. rewrite (Ht Hw1 d x Hv1). apply IH; assumption.
Qed.

Theorem validate_after_normalize t : VAN t.
Proof.
  induction t using ftype_ind'; intros Hwt d v Hv; cbn [normalize_at]; destruct (too_deep L d); try exact Hv.
  - (* I64 *) destruct v; try exact Hv. cbn in Hv. rewrite Hv. reflexivity.
  - (* F32 *) destruct v; try exact Hv. cbn in Hv. rewrite Hv. cbn. rewrite (H_rbn _ Hv). reflexivity.
  - (* Vector *) destruct v; try exact Hv. destruct (bits_of l); [reflexivity | exact Hv].
  - (* Array *) destruct v; try exact Hv. destruct ts as [|t1 [|t2 ts]]; try exact Hv.
    + inversion H as [|? ? H1 _]; subst. cbn in Hwt. apply andb_true_iff in Hwt. destruct Hwt as [Hw1 _].
      cbn in *. rewrite forallb_forall in *. intros x Hin. apply in_map_iff in Hin. destruct Hin as [y [E Hy]]. subst x.
      apply (H1 Hw1). apply Hv. exact Hy.
    + cbn [validate_inner] in *. apply andb_true_iff in Hv. destruct Hv as [Hl Hz]. apply andb_true_iff. split.
      * rewrite zip_apply_length. exact Hl.
      * apply (van_zip _ H Hwt (S d) l Hz).
  - (* Map *) destruct v; try exact Hv. cbn in Hwt. apply andb_true_iff in Hwt. destruct Hwt as [Hnd Hwm].
    rewrite forallb_forall in Hwm. rewrite Forall_forall in H.
    assert (Hkeyed :
      forallb (fun kv => mem_key (fst kv) m) m0 &&
      all_types (fun k ft => validate_inner F ft (match lookup k m0 with None => VNull | Some x => x end)) m = true ->
      let m1 := map (fun kv => (fst kv, with_type (fun ft => normalize_at F L ft (S d) (snd kv)) (snd kv) (fst kv) m)) m0 in
      forallb (fun kv => mem_key (fst kv) m) m1 &&
      all_types (fun k ft => validate_inner F ft (match lookup k m1 with None => VNull | Some x => x end)) m = true).
    { intros Hk. apply andb_true_iff in Hk. destruct Hk as [Hk1 Hk2]. cbn. apply andb_true_iff. split.
      - rewrite forallb_forall in *. intros kv Hin. apply in_map_iff in Hin. destruct Hin as [y [E Hy]]. subst kv. cbn. apply Hk1. exact Hy.
      - rewrite all_types_forall in *. intros k ft Hin.
        rewrite (lookup_map (fun k x => with_type (fun ft => normalize_at F L ft (S d) x) x k m) k m0).
        specialize (Hk2 k ft Hin). destruct (lookup k m0) as [x|]; cbn; [|exact Hk2].
        rewrite (with_type_nodup _ _ k ft m Hnd Hin).
        apply (H (k, ft) Hin); [apply (Hwm (k, ft) Hin) | exact Hk2]. }
    destruct m as [|[wk ft] [|p m]].
    + reflexivity.
    + cbn [validate_inner] in *. destruct (is_wild wk) eqn:Hwk.
      * rewrite forallb_forall in *. intros kv Hin. apply in_map_iff in Hin. destruct Hin as [y [E Hy]]. subst kv. cbn.
        specialize (Hv y Hy). apply andb_true_iff in Hv. destruct Hv as [Hk Hvy]. rewrite Hk. cbn.
        apply (H (wk, ft) (or_introl eq_refl)); [apply (Hwm (wk, ft) (or_introl eq_refl)) | exact Hvy].
      * apply Hkeyed. exact Hv.
    + cbn [validate_inner] in *. apply Hkeyed. exact Hv.
  - (* Option *) cbn in Hwt. destruct v; cbn [validate_inner] in *; try reflexivity;
      match goal with |- context [normalize_at F L t d ?x] =>
        destruct (normalize_at F L t d x) eqn:E; try reflexivity; rewrite <- E; apply (IHt Hwt); exact Hv end.
Qed.

End Norm.
