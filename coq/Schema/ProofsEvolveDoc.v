(* C13 — whole documents under an upgraded schema whose surviving fields evolved (nested key gain/loss):
   pruning never breaks the complexity budget, and Document::try_from_doc under the new schema returns
   the old document restricted to what the new schema declares. *)
From Coq Require Import List ZArith Bool String Arith Lia.
From Verif Require Import Schema.Model Schema.Extract Schema.Proofs Schema.ProofsNorm Schema.ProofsUpgrade Schema.ProofsEvolve.
Import ListNotations.
Open Scope list_scope.

Arguments too_deep : simpl never.
Arguments is_wild : simpl never.

Lemma list_sum_map_le {A} (f g : A -> nat) l : (forall x, In x l -> f x <= g x) -> list_sum (map f l) <= list_sum (map g l).
Proof.
  induction l as [|x l IH]; cbn; intros H; [lia|].
  pose proof (H x (or_introl eq_refl)). assert (list_sum (map f l) <= list_sum (map g l)) by (apply IH; intros; apply H; right; assumption).
  unfold list_sum in *. lia.
Qed.

Lemma list_sum_filter_le {A} (g : A -> nat) (p : A -> bool) l : list_sum (map g (filter p l)) <= list_sum (map g l).
Proof.
  induction l as [|x l IH]; cbn; [lia|]. destruct (p x); cbn; unfold list_sum in *; lia.
Qed.

Lemma filter_length_le {A} (p : A -> bool) l : List.length (filter p l) <= List.length l.
Proof. induction l as [|x l IH]; cbn; [lia|]. destruct (p x); cbn; lia. Qed.

Section PruneBudget.
Variable L : limits.

Definition PB (t : ftype) : Prop :=
  forall d v, vnodes (prune_at L t d v) <= vnodes v /\
              (forall e, vshape_ok L e v = true -> vshape_ok L e (prune_at L t d v) = true).

Lemma pb_zip ts : Forall PB ts -> forall d l,
  list_sum (map vnodes (zip_apply (fun ft => prune_at L ft d) ts l)) <= list_sum (map vnodes l) /\
  (forall e, forallb (vshape_ok L e) l = true -> forallb (vshape_ok L e) (zip_apply (fun ft => prune_at L ft d) ts l) = true).
Proof.
  induction 1 as [|t ts Ht _ IH]; intros d l; [cbn [zip_apply]; split; [apply Nat.le_refl | auto]|].
  destruct l as [|x l]; [cbn [zip_apply]; split; [apply Nat.le_refl | auto]|]. cbn [zip_apply map forallb].
  destruct (Ht d x) as [Hn Hs]. destruct (IH d l) as [Hn2 Hs2]. split.
  - unfold list_sum in *. cbn [fold_right]. lia.
  - intros e H. apply andb_true_iff in H. destruct H as [H1 H2]. rewrite (Hs e H1), (Hs2 e H2). reflexivity.
Qed.

Theorem prune_budget t : PB t.
Proof.
  induction t using ftype_ind'; intros d v; cbn [prune_at]; destruct (too_deep L d); try (split; [lia | auto]).
  - (* Array *) destruct v; try (split; [lia | auto]). destruct ts as [|t1 [|t2 ts]]; try (split; [lia | auto]).
    + inversion H as [|? ? H1 _]; subst. split.
      * cbn. rewrite map_map. apply le_n_S. apply list_sum_map_le. intros x _. apply (H1 (S d) x).
      * intros e Hs. cbn in *. apply andb_true_iff in Hs. destruct Hs as [He Hs]. apply andb_true_iff in Hs. destruct Hs as [Hl Hs].
        rewrite He, map_length, Hl. cbn. rewrite forallb_forall in *. intros y Hy. apply in_map_iff in Hy. destruct Hy as [x [E Hx]]. subst y.
        apply (H1 (S d) x). apply Hs. exact Hx.
    + destruct (pb_zip _ H (S d) l) as [Hn Hs]. split.
      * cbn [vnodes]. apply le_n_S. exact Hn.
      * intros e Hv. cbn [vshape_ok] in *. apply andb_true_iff in Hv. destruct Hv as [He Hv]. apply andb_true_iff in Hv. destruct Hv as [Hl Hv].
        rewrite He, zip_apply_length, Hl. cbn. apply Hs. exact Hv.
  - (* Map *) destruct v as [| | | | | | | | | |kvs|]; try (split; [lia | auto]).
    rewrite Forall_forall in H.
    assert (Hkeyed : let r := map (fun kv => (fst kv, with_type (fun ft => prune_at L ft (S d) (snd kv)) (snd kv) (fst kv) m))
                               (filter (fun kv => mem_key (fst kv) m) kvs) in
              vnodes (VMap r) <= vnodes (VMap kvs) /\ (forall e, vshape_ok L e (VMap kvs) = true -> vshape_ok L e (VMap r) = true)).
    { assert (Hone : forall k x, vnodes (with_type (fun ft => prune_at L ft (S d) x) x k m) <= vnodes x /\
                 (forall e, vshape_ok L e x = true -> vshape_ok L e (with_type (fun ft => prune_at L ft (S d) x) x k m) = true)).
      { intros k x. rewrite with_type_lookup. destruct (lookup k m) as [ft|] eqn:E; [|split; [lia | auto]].
        apply (H (k, ft) (lookup_in _ _ _ E)). }
      cbn zeta. split.
      - cbn [vnodes]. apply le_n_S. rewrite map_map. cbn.
        etransitivity; [|apply (list_sum_filter_le (fun kv => vnodes (snd kv)) (fun kv => mem_key (fst kv) m))].
        apply list_sum_map_le. intros [k x] _. cbn. apply (Hone k x).
      - intros e Hs. cbn [vshape_ok] in *. apply andb_true_iff in Hs. destruct Hs as [He Hs]. apply andb_true_iff in Hs. destruct Hs as [Hl Hs].
        rewrite He. cbn. apply andb_true_iff. split.
        + apply Nat.leb_le. apply Nat.leb_le in Hl. rewrite map_length. pose proof (filter_length_le (fun kv => mem_key (fst kv) m) kvs). lia.
        + rewrite forallb_forall in *. intros y Hy. apply in_map_iff in Hy. destruct Hy as [[k x] [E Hx]]. subst y. cbn.
          apply filter_In in Hx. destruct Hx as [Hx _]. apply (Hone k x). apply (Hs (k, x) Hx). }
    destruct m as [|[wk ft] [|q r]]; try (split; [lia | auto]).
    + destruct (is_wild wk); [|exact Hkeyed].
      pose proof (H (wk, ft) (or_introl eq_refl)) as H1. cbn in H1. split.
      * cbn. rewrite map_map. cbn. apply le_n_S. apply list_sum_map_le. intros [k x] _. cbn. apply (H1 (S d) x).
      * intros e Hs. cbn in *. apply andb_true_iff in Hs. destruct Hs as [He Hs]. apply andb_true_iff in Hs. destruct Hs as [Hl Hs].
        rewrite He, map_length, Hl. cbn. rewrite forallb_forall in *. intros y Hy. apply in_map_iff in Hy. destruct Hy as [[k x] [E Hx]]. subst y. cbn.
        apply (H1 (S d) x). apply (Hs (k, x) Hx).
    + exact Hkeyed.
  - (* Option *) destruct v; try (split; [lia | auto]); apply IHt.
Qed.

Lemma prune_complexity t d v : complexity_ok L v = true -> complexity_ok L (prune_at L t d v) = true.
Proof.
  unfold complexity_ok. intros H. apply andb_true_iff in H. destruct H as [Hn Hs]. destruct (prune_budget t d v) as [Hle Hsh].
  apply andb_true_iff. split; [|apply Hsh; exact Hs]. apply Nat.leb_le. apply Nat.leb_le in Hn. lia.
Qed.

End PruneBudget.

(* ------------------------------------------------------------------ documents *)
Definition fields_vkeys (fs : fields) : bool := forallb (fun kv => vkeys_ok (snd kv)) fs.

(* surviving indexes carry a permitted evolution of their old type *)
Definition evolves (s' old : schema) : Prop :=
  forall e e2, In e (s_fields old) -> In e2 (s_fields s') -> e_idx e2 = e_idx e ->
    compat_ne (e_type e2) (e_type e) = true /\ wf_type (e_type e2) = true.

(* the old document restricted to what the new schema declares *)
Definition restrict_doc (L : limits) (s' : schema) (fs : fields) : fields :=
  map (fun kv => match find_idx (fst kv) (s_fields s') with
                 | Some e => (fst kv, prune L (e_type e) (snd kv))
                 | None => kv
                 end) (filter (fun kv => contains_idx s' (fst kv)) fs).

Lemma compat_ne_option n o : compat_ne n o = true -> is_option o = true -> is_option n = true.
Proof.
  intros Hc Ho. destruct o; try discriminate. destruct n; cbn in Hc; try discriminate; try reflexivity.
Qed.

Lemma get_idx_map_filter {V} (g : nat -> V -> V) (p : nat -> bool) i (fs : list (nat * V)) :
  get_idx i (map (fun kv => (fst kv, g (fst kv) (snd kv))) (filter (fun kv => p (fst kv)) fs))
  = if p i then option_map (g i) (get_idx i fs) else None.
Proof.
  induction fs as [|[j v] fs IH]; cbn; [destruct (p i); reflexivity|].
  destruct (p j) eqn:Ej; cbn; destruct (j =? i) eqn:E.
  - apply Nat.eqb_eq in E. subst j. rewrite Ej. reflexivity.
  - exact IH.
  - apply Nat.eqb_eq in E. subst j. rewrite Ej in *. exact IH.
  - exact IH.
Qed.

Section EvolveDoc.
Variable F : fops.
Variable L : limits.
Hypothesis H_nw : forall x, in_u32 x = true -> nan32 x = false -> narrow F (widen F x) = x.
Hypothesis H_rb : forall x, in_u32 x = true -> nan32 x = false -> is_rb F (widen F x) = true.
Hypothesis H_L : max_depth L <= max_conv L.

Theorem upgrade_preserves_full new old s' fs :
  upgrade_with new old = Some s' -> schema_wf old = true -> schema_wf s' = true -> evolves s' old ->
  fields_wf fs = true -> fields_vkeys fs = true -> fields_canon old fs = true -> schema_validate F L old fs = true ->
  exists raw, readback_fields F fs = Some raw /\ try_from_doc F L s' raw = Some (restrict_doc L s' fs).
Proof.
  intros Hu Hswf Hswf' Hev Hwf Hvk Hcan Hval.
  destruct (upgrade_indexes _ _ _ Hu) as [Hle Hidx].
  pose proof Hwf as Hwf0. unfold fields_wf in Hwf0. apply andb_true_iff in Hwf0. destruct Hwf0 as [Hnd Hw].
  pose proof Hval as Hval0. unfold schema_validate in Hval0. apply andb_true_iff in Hval0. destruct Hval0 as [Hkeys Hent].
  unfold fields_canon in Hcan. unfold fields_vkeys in Hvk.
  rewrite forallb_forall in Hkeys, Hent, Hcan, Hw, Hvk.
  (* per stored field: readable, and under the new entry (if any) it materialises to the pruned value, valid *)
  assert (Hper : forall kv, In kv fs ->
            exists r, readback F (snd kv) = Some r /\ (allocated_end s' <=? fst kv) = false /\
              (forall e2, find_idx (fst kv) (s_fields s') = Some e2 ->
                 read_norm F L (e_type e2) r = prune L (e_type e2) (snd kv) /\
                 entry_validate F L (e_type e2) (prune L (e_type e2) (snd kv)) = true)).
  { intros [i v] Hin. cbn. pose proof (Hcan _ Hin) as Hc. cbn in Hc.
    destruct (find_idx i (s_fields old)) as [e|] eqn:Ef; [|discriminate].
    destruct (find_idx_some _ _ _ Ef) as [He Hi]. subst i.
    pose proof (Hent _ He) as Hv. rewrite (get_idx_in_nodup _ _ _ Hnd Hin) in Hv.
    pose proof (entry_validate_shape F L _ _ Hv) as Hs.
    destruct (rt_inner F L H_nw H_rb H_L (e_type e) v 0 Hc (Hw _ Hin) Hs) as [r [Hr _]].
    exists r. split; [exact Hr|]. split; [apply Nat.leb_gt; pose proof (idx_lt_end _ _ He); lia|].
    intros e2 E2. destruct (find_idx_some _ _ _ E2) as [He2 Hi2]. destruct (Hev e e2 He He2 Hi2) as [Hcmp Hwt].
    destruct (is_null v) eqn:En.
    - destruct v; try discriminate. cbn in Hv. cbn in Hr. inversion Hr; subst r.
      pose proof (compat_ne_option _ _ Hcmp Hv) as Ho. destruct (e_type e2) as [| | | | | | | | |?|?|t2]; try discriminate.
      unfold read_norm, normalize, prune. cbn. destruct (too_deep L 0); cbn; split; reflexivity.
    - assert (Hvi : validate_inner F (e_type e) v = true /\ complexity_ok L v = true).
      { destruct v; try discriminate En; cbn in Hv; unfold validate in Hv; apply andb_true_iff in Hv; destruct Hv; split; assumption. }
      destruct Hvi as [Hvi Hcx].
      destruct (evolve_inner F L H_nw H_rb H_L (e_type e2) (e_type e) v 0 Hwt Hcmp Hc (Hw _ Hin) (Hvk _ Hin) Hvi Hs)
        as [r2 [Hr2 [Heq [Hvn _]]]].
      cbn in Hr2. rewrite Hr in Hr2. inversion Hr2; subst r2.
      unfold read_norm, normalize, prune. split; [exact Heq|].
      assert (Hpn : prune_at L (e_type e2) 0 v <> VNull) by (intros E; apply prune_null in E; subst v; discriminate).
      unfold entry_validate, validate. rewrite Hvn, (prune_complexity L _ 0 _ Hcx).
      destruct (prune_at L (e_type e2) 0 v); try reflexivity. contradiction. }
  (* the stored form and its materialisation *)
  assert (Hraw : exists raw, readback_fields F fs = Some raw /\
            existsb (fun kv => allocated_end s' <=? fst kv) raw = false /\
            map (fun kv => match find_idx (fst kv) (s_fields s') with
                           | Some e => (fst kv, read_norm F L (e_type e) (snd kv))
                           | None => kv
                           end) (filter (fun kv => contains_idx s' (fst kv)) raw) = restrict_doc L s' fs).
  { unfold restrict_doc. clear Hcan Hent Hw Hkeys Hnd Hvk Hval Hwf. induction fs as [|[i v] fs IH].
    - exists []. repeat split; reflexivity.
    - destruct (Hper (i, v) (or_introl eq_refl)) as [r [Hr [Hlt Hn]]]. cbn in Hr, Hlt, Hn.
      destruct IH as [raw [Hraw [Hex Hmap]]]; [intros kv Hin; apply Hper; right; exact Hin|].
      exists ((i, r) :: raw). unfold readback_fields in *. cbn. rewrite Hr. cbn.
      fold (mapM (fun kv => option_map (fun r0 => (fst kv, r0)) (readback F (snd kv))) fs). rewrite Hraw.
      split; [reflexivity|]. split; [rewrite Hlt; exact Hex|].
      destruct (contains_idx s' i) eqn:Ec; [|exact Hmap].
      cbn. rewrite Hmap. f_equal.
      destruct (find_idx i (s_fields s')) as [e2|] eqn:E2.
      + destruct (Hn e2 eq_refl) as [Heq _]. rewrite Heq. reflexivity.
      + exfalso. unfold contains_idx in Ec. apply existsb_exists in Ec. destruct Ec as [e [He Hei]].
        unfold find_idx in E2. pose proof (find_none _ _ E2 e He) as Hx. cbn in Hx. congruence. }
  destruct Hraw as [raw [Hraw [Hex Hmap]]]. exists raw. split; [exact Hraw|].
  unfold try_from_doc. rewrite Hex, Hmap.
  assert (Hv : schema_validate F L s' (restrict_doc L s' fs) = true); [|rewrite Hv; reflexivity].
  unfold schema_validate. apply andb_true_iff. split.
  - apply forallb_forall. intros kv Hin. unfold restrict_doc in Hin. apply in_map_iff in Hin. destruct Hin as [y [E Hy]].
    apply filter_In in Hy. destruct Hy as [_ Hc]. subst kv. destruct (find_idx (fst y) (s_fields s')); exact Hc.
  - apply forallb_forall. intros e' He'.
    assert (Hfind : forall i, (match find_idx i (s_fields s') with Some e => prune L (e_type e) | None => fun v => v end) =
                              (fun v => match find_idx i (s_fields s') with Some e => prune L (e_type e) v | None => v end)).
    { intros i. destruct (find_idx i (s_fields s')); reflexivity. }
    assert (Hrd : restrict_doc L s' fs =
                  map (fun kv => (fst kv, (fun i v => match find_idx i (s_fields s') with Some e => prune L (e_type e) v | None => v end) (fst kv) (snd kv)))
                      (filter (fun kv => contains_idx s' (fst kv)) fs)).
    { unfold restrict_doc. apply map_ext. intros [i v]. cbn. destruct (find_idx i (s_fields s')); reflexivity. }
    rewrite Hrd. rewrite (get_idx_map_filter (fun i v => match find_idx i (s_fields s') with Some e => prune L (e_type e) v | None => v end)
                            (contains_idx s') (e_idx e') fs).
    assert (Hc : contains_idx s' (e_idx e') = true).
    { unfold contains_idx. apply existsb_exists. exists e'. split; [exact He' | apply Nat.eqb_refl]. }
    rewrite Hc. rewrite (find_idx_in_nodup _ _ Hswf' He').
    destruct (get_idx (e_idx e') fs) as [v|] eqn:Eg; cbn.
    + pose proof (get_idx_in _ _ _ Eg) as Hin. destruct (Hper _ Hin) as [r [_ [_ Hn]]]. cbn in Hn.
      destruct (Hn e' (find_idx_in_nodup _ _ Hswf' He')) as [_ Hvalid]. exact Hvalid.
    + destruct (Hidx _ He') as [[o [Ho [_ Hi]]]|[Hnone _]].
      * pose proof (Hent _ Ho) as Hev0. rewrite Hi, Eg in Hev0. destruct (Hev o e' Ho He' (eq_sym Hi)) as [Hcmp _].
        exact (compat_ne_option _ _ Hcmp Hev0).
      * destruct (upgrade_with_inv _ _ _ Hu) as [k [Hck Ha]].
        exact (check_new_optional _ _ _ _ _ _ Hck Ha e' He' Hnone).
Qed.

End EvolveDoc.
