(* C13 — documents and schema upgrades: whole-document round trip, index allocation along
   upgrade chains. *)
From Coq Require Import List ZArith Bool String Arith Lia ZifyBool.
From Verif Require Import Schema.Model Schema.Proofs.
Import ListNotations.
Open Scope list_scope.

Fixpoint nodupb (l : list nat) : bool :=
  match l with
  | [] => true
  | x :: r => negb (existsb (Nat.eqb x) r) && nodupb r
  end.

(* a document's field map: unique indexes (it is a BTreeMap), well-formed values *)
Definition fields_wf (fs : fields) : bool :=
  nodupb (map fst fs) && forallb (fun kv => wf_value (snd kv)) fs.

(* every value is in the declared variant of the field its index belongs to *)
Definition fields_canon (s : schema) (fs : fields) : bool :=
  forallb (fun kv => match find_idx (fst kv) (s_fields s) with
                     | Some e => canon (e_type e) (snd kv)
                     | None => false
                     end) fs.

Lemma get_idx_in_nodup {V} i (v : V) fs : nodupb (map fst fs) = true -> In (i, v) fs -> get_idx i fs = Some v.
Proof.
  induction fs as [|[j w] fs IH]; cbn; [contradiction|]. intros Hn [E|Hin].
  - inversion E; subst. rewrite Nat.eqb_refl. reflexivity.
  - apply andb_true_iff in Hn. destruct Hn as [Hn1 Hn2]. destruct (j =? i) eqn:E.
    + apply Nat.eqb_eq in E. subst j. apply negb_true_iff in Hn1.
      assert (existsb (Nat.eqb i) (map fst fs) = true).
      { apply existsb_exists. exists i. split; [|apply Nat.eqb_refl]. apply in_map_iff. exists (i, v). split; auto. }
      congruence.
    + apply IH; assumption.
Qed.

Lemma find_idx_some i l e : find_idx i l = Some e -> In e l /\ e_idx e = i.
Proof.
  unfold find_idx. intros H. apply find_some in H. destruct H as [H1 H2]. apply Nat.eqb_eq in H2. auto.
Qed.

(* unique field indexes (Schema deserialisation and SchemaBuilder guarantee it) *)
Definition schema_wf (s : schema) : bool := nodupb (map e_idx (s_fields s)).

Lemma find_idx_in_nodup l e : nodupb (map e_idx l) = true -> In e l -> find_idx (e_idx e) l = Some e.
Proof.
  unfold find_idx. induction l as [|x l IH]; cbn; [contradiction|]. intros Hn [E|Hin].
  - subst. rewrite Nat.eqb_refl. reflexivity.
  - apply andb_true_iff in Hn. destruct Hn as [Hn1 Hn2]. destruct (e_idx x =? e_idx e) eqn:E.
    + apply Nat.eqb_eq in E. apply negb_true_iff in Hn1.
      assert (existsb (Nat.eqb (e_idx x)) (map e_idx l) = true).
      { apply existsb_exists. exists (e_idx e). split; [apply in_map; exact Hin | apply Nat.eqb_eq; exact E]. }
      congruence.
    + apply IH; assumption.
Qed.

Lemma fold_max_ge l e : In e l -> S (e_idx e) <= fold_right (fun e a => Nat.max (S (e_idx e)) a) 0 l.
Proof.
  induction l as [|x l IH]; [contradiction|]. intros [E|Hin]; cbn [fold_right].
  - subst. apply Nat.le_max_l.
  - etransitivity; [apply IH; exact Hin | apply Nat.le_max_r].
Qed.

Lemma contains_lt_end s i : contains_idx s i = true -> i < allocated_end s.
Proof.
  unfold contains_idx, allocated_end. intros H. apply existsb_exists in H. destruct H as [e [Hin He]].
  apply Nat.eqb_eq in He. subst i. pose proof (fold_max_ge _ _ Hin). lia.
Qed.

Lemma idx_lt_end s e : In e (s_fields s) -> e_idx e < allocated_end s.
Proof.
  intros Hin. apply contains_lt_end. unfold contains_idx. apply existsb_exists. exists e. split; [assumption | apply Nat.eqb_refl].
Qed.

Theorem try_from_doc_valid F L s raw fs : try_from_doc F L s raw = Some fs -> schema_validate F L s fs = true.
Proof.
  unfold try_from_doc. destruct (existsb _ raw); [discriminate|].
  match goal with |- (if ?c then _ else _) = _ -> _ => destruct c eqn:E end; intros H; inversion H; subst. exact E.
Qed.

Section Docs.
Variable F : fops.
Variable L : limits.
Hypothesis H_nw : forall x, in_u32 x = true -> nan32 x = false -> narrow F (widen F x) = x.
Hypothesis H_rb : forall x, in_u32 x = true -> nan32 x = false -> is_rb F (widen F x) = true.
Hypothesis H_L : max_depth L <= max_conv L.

(* reading the stored form of [fs] under a schema [s2] whose declared indexes carry the same types as
   the schema [s] the document was valid under *)
Lemma read_under s s2 fs :
  fields_wf fs = true -> fields_canon s fs = true -> schema_validate F L s fs = true ->
  allocated_end s <= allocated_end s2 ->
  (forall e e2, In e (s_fields s) -> find_idx (e_idx e) (s_fields s2) = Some e2 -> e_type e2 = e_type e) ->
  exists raw, readback_fields F fs = Some raw /\
    (existsb (fun kv => allocated_end s2 <=? fst kv) raw = false) /\
    map (fun kv => match find_idx (fst kv) (s_fields s2) with
                   | Some e => (fst kv, read_norm F L (e_type e) (snd kv))
                   | None => kv
                   end) (filter (fun kv => contains_idx s2 (fst kv)) raw)
    = filter (fun kv => contains_idx s2 (fst kv)) fs.
Proof.
  intros Hwf Hcan Hval Hend Hty. unfold fields_wf in Hwf. apply andb_true_iff in Hwf. destruct Hwf as [Hnd Hw].
  unfold schema_validate in Hval. apply andb_true_iff in Hval. destruct Hval as [Hkeys Hent].
  unfold fields_canon in Hcan. rewrite forallb_forall in Hkeys, Hent, Hcan, Hw.
  assert (Hper : forall kv, In kv fs ->
            exists r, readback F (snd kv) = Some r /\ (allocated_end s2 <=? fst kv) = false /\
              (forall e2, find_idx (fst kv) (s_fields s2) = Some e2 -> read_norm F L (e_type e2) r = snd kv)).
  { intros [i v] Hin. cbn. specialize (Hcan _ Hin). cbn in Hcan.
    destruct (find_idx i (s_fields s)) as [e|] eqn:Ef; [|discriminate].
    destruct (find_idx_some _ _ _ Ef) as [He Hi]. subst i.
    pose proof (Hent _ He) as Hv. rewrite (get_idx_in_nodup _ _ _ Hnd Hin) in Hv.
    pose proof (entry_validate_shape F L _ _ Hv) as Hs.
    destruct (rt_inner F L H_nw H_rb H_L (e_type e) v 0 Hcan (Hw _ Hin) Hs) as [r [Hr Hn]].
    exists r. split; [exact Hr|]. split.
    - apply Nat.leb_gt. pose proof (idx_lt_end _ _ He). lia.
    - intros e2 E2. rewrite (Hty _ _ He E2). exact Hn. }
  clear Hcan Hent Hw Hkeys Hnd. induction fs as [|[i v] fs IH].
  - exists []. repeat split; reflexivity.
  - destruct (Hper (i, v) (or_introl eq_refl)) as [r [Hr [Hlt Hn]]]. cbn in Hr, Hlt, Hn.
    destruct IH as [raw [Hraw [Hex Hmap]]]; [intros kv Hin; apply Hper; right; exact Hin|].
    exists ((i, r) :: raw). unfold readback_fields in *. cbn. rewrite Hr. cbn.
    fold (mapM (fun kv => option_map (fun r0 => (fst kv, r0)) (readback F (snd kv))) fs). rewrite Hraw.
    split; [reflexivity|]. split; [rewrite Hlt; exact Hex|].
    destruct (contains_idx s2 i) eqn:Ec; [|exact Hmap].
    cbn. rewrite Hmap. f_equal.
    destruct (find_idx i (s_fields s2)) as [e2|] eqn:E2.
    + rewrite (Hn e2 eq_refl). reflexivity.
    + exfalso. unfold contains_idx in Ec. apply existsb_exists in Ec. destruct Ec as [e [He Hei]].
      unfold find_idx in E2. pose proof (find_none _ _ E2 e He) as Hx. cbn in Hx. congruence.
Qed.

Theorem doc_roundtrip s fs :
  schema_wf s = true -> fields_wf fs = true -> fields_canon s fs = true -> schema_validate F L s fs = true ->
  exists raw, readback_fields F fs = Some raw /\ try_from_doc F L s raw = Some fs.
Proof.
  intros Hswf Hwf Hcan Hval.
  destruct (read_under s s fs Hwf Hcan Hval (le_n _)) as [raw [Hraw [Hex Hmap]]].
  { intros e e2 He E2. rewrite (find_idx_in_nodup _ _ Hswf He) in E2. inversion E2. reflexivity. }
  exists raw. split; [exact Hraw|]. unfold try_from_doc. rewrite Hex, Hmap.
  assert (Hall : filter (fun kv => contains_idx s (fst kv)) fs = fs).
  { apply filter_all. unfold schema_validate in Hval. apply andb_true_iff in Hval. destruct Hval as [Hk _].
    apply forallb_Forall. exact Hk. }
  rewrite Hall, Hval. reflexivity.
Qed.

End Docs.

(* ------------------------------------------------------------------ upgrade_with: index allocation *)
Lemma find_name_some n l e : find_name n l = Some e -> In e l /\ e_name e = n.
Proof.
  unfold find_name. intros H. apply find_some in H. destruct H as [H1 H2]. apply String.eqb_eq in H2. auto.
Qed.

Lemma assign_props oldf l : forall next l' n', upgrade_assign oldf l next = (l', n') ->
  next <= n' /\
  forall e', In e' l' ->
    (exists o, find_name (e_name e') oldf = Some o /\ e_idx e' = e_idx o) \/
    (find_name (e_name e') oldf = None /\ next <= e_idx e' /\ e_idx e' < n').
Proof.
  induction l as [|e l IH]; intros next l' n' H; cbn in H.
  - inversion H; subst. split; [lia | intros ? []].
  - destruct (find_name (e_name e) oldf) as [o|] eqn:Ef.
    + destruct (upgrade_assign oldf l next) as [r' m'] eqn:Ea. inversion H; subst.
      destruct (IH _ _ _ Ea) as [Hle Hall]. split; [exact Hle|]. intros e' [E|Hin].
      * subst e'. cbn. left. exists o. split; [exact Ef | reflexivity].
      * apply Hall; exact Hin.
    + destruct (upgrade_assign oldf l (S next)) as [r' m'] eqn:Ea. inversion H; subst.
      destruct (IH _ _ _ Ea) as [Hle Hall]. split; [lia|]. intros e' [E|Hin].
      * subst e'. cbn. right. split; [exact Ef | lia].
      * destruct (Hall _ Hin) as [Hl|[Hn [H1 H2]]]; [left; exact Hl | right; split; [exact Hn | lia]].
Qed.

Lemma check_new_optional oldf l : forall next k l' n',
  upgrade_check oldf l next = Some k -> upgrade_assign oldf l next = (l', n') ->
  forall e', In e' l' -> find_name (e_name e') oldf = None -> is_option (e_type e') = true.
Proof.
  induction l as [|e l IH]; intros next k l' n' Hc Ha; cbn in Hc, Ha.
  - inversion Ha; subst. intros ? [].
  - destruct (find_name (e_name e) oldf) as [o|] eqn:Ef.
    + destruct (compat (e_type e) (e_type o) && Bool.eqb (e_unique e) (e_unique o)); [|discriminate].
      destruct (upgrade_assign oldf l next) as [r' m'] eqn:Ea. inversion Ha; subst.
      intros e' [E|Hin] Hn; [subst e'; cbn in Hn; congruence | exact (IH _ _ _ _ Hc Ea e' Hin Hn)].
    + destruct (is_option (e_type e)) eqn:Eo; cbn in Hc; [|discriminate].
      destruct (65535 <? Z.of_nat next)%Z; [discriminate|].
      destruct (upgrade_assign oldf l (S next)) as [r' m'] eqn:Ea. inversion Ha; subst.
      intros e' [E|Hin] Hn; [subst e'; cbn; exact Eo | exact (IH _ _ _ _ Hc Ea e' Hin Hn)].
Qed.

Lemma upgrade_with_inv new old s' : upgrade_with new old = Some s' ->
  exists k, upgrade_check (s_fields old) (s_fields new) (allocated_end old) = Some k /\
            upgrade_assign (s_fields old) (s_fields new) (allocated_end old) = (s_fields s', s_next s').
Proof.
  unfold upgrade_with. destruct (negb (s_version old <? s_version new)%Z); [discriminate|].
  destruct (upgrade_check _ _ _) as [k|] eqn:Ec; [|discriminate]. intros H. inversion H; subst. cbn.
  exists k. split; [reflexivity|]. destruct (upgrade_assign _ _ _); reflexivity.
Qed.

Theorem upgrade_indexes new old s' : upgrade_with new old = Some s' ->
  allocated_end old <= allocated_end s' /\
  (forall e', In e' (s_fields s') ->
     (exists e, In e (s_fields old) /\ e_name e = e_name e' /\ e_idx e = e_idx e') \/
     (find_name (e_name e') (s_fields old) = None /\ allocated_end old <= e_idx e')).
Proof.
  intros H. destruct (upgrade_with_inv _ _ _ H) as [k [_ Ha]].
  destruct (assign_props _ _ _ _ _ Ha) as [Hle Hall]. split.
  - unfold allocated_end at 2. lia.
  - intros e' Hin. destruct (Hall _ Hin) as [[o [Hf Hi]]|[Hn [H1 _]]].
    + left. destruct (find_name_some _ _ _ Hf) as [Ho Hnm]. exists o. auto.
    + right. auto.
Qed.

Lemma upgrade_keeps_retired new old s' i : upgrade_with new old = Some s' ->
  i < allocated_end old -> contains_idx old i = false -> contains_idx s' i = false.
Proof.
  intros H Hlt Hno. destruct (contains_idx s' i) eqn:Ec; [|reflexivity]. exfalso.
  unfold contains_idx in Ec. apply existsb_exists in Ec. destruct Ec as [e' [Hin He]]. apply Nat.eqb_eq in He.
  destruct (upgrade_indexes _ _ _ H) as [_ Hall]. destruct (Hall _ Hin) as [[e [Ho [_ Hi]]]|[_ Hge]].
  - assert (contains_idx old i = true); [|congruence].
    unfold contains_idx. apply existsb_exists. exists e. split; [exact Ho | apply Nat.eqb_eq; congruence].
  - lia.
Qed.

(* a chain of upgrades: each new schema is upgraded with the previous result *)
Inductive upgrade_chain : schema -> list schema -> schema -> Prop :=
| UC_nil s : upgrade_chain s [] s
| UC_cons s new s' rest sn :
    upgrade_with new s = Some s' -> upgrade_chain s' rest sn -> upgrade_chain s (new :: rest) sn.

Theorem retired_never_reused chain s0 sn i : upgrade_chain s0 chain sn ->
  i < allocated_end s0 -> contains_idx s0 i = false -> contains_idx sn i = false.
Proof.
  induction 1 as [s|s new s' rest sn Hu _ IH]; intros Hlt Hno; [exact Hno|].
  apply IH.
  - destruct (upgrade_indexes _ _ _ Hu) as [Hle _]. lia.
  - exact (upgrade_keeps_retired _ _ _ _ Hu Hlt Hno).
Qed.

(* ------------------------------------------------------------------ old documents under the upgraded schema *)
(* surviving indexes keep their type (the part of is_compatible_upgrade_of that is type equality) *)
Definition same_types (s' old : schema) : Prop :=
  forall e e2, In e (s_fields old) -> In e2 (s_fields s') -> e_idx e2 = e_idx e -> e_type e2 = e_type e.

Lemma get_idx_filter {V} (p : nat -> bool) i (fs : list (nat * V)) :
  get_idx i (filter (fun kv => p (fst kv)) fs) = if p i then get_idx i fs else None.
Proof.
  induction fs as [|[j v] fs IH]; cbn; [destruct (p i); reflexivity|].
  destruct (p j) eqn:Ej; cbn; destruct (j =? i) eqn:E.
  - apply Nat.eqb_eq in E. subst j. rewrite Ej. reflexivity.
  - exact IH.
  - apply Nat.eqb_eq in E. subst j. rewrite Ej in *. rewrite IH. reflexivity.
  - exact IH.
Qed.

Lemma get_idx_in {V} i (v : V) fs : get_idx i fs = Some v -> In (i, v) fs.
Proof.
  induction fs as [|[j w] fs IH]; cbn; [discriminate|]. destruct (j =? i) eqn:E.
  - apply Nat.eqb_eq in E. intros H. inversion H; subst. left. reflexivity.
  - intros H. right. apply IH. exact H.
Qed.

Section Upgrade.
Variable F : fops.
Variable L : limits.
Hypothesis H_nw : forall x, in_u32 x = true -> nan32 x = false -> narrow F (widen F x) = x.
Hypothesis H_rb : forall x, in_u32 x = true -> nan32 x = false -> is_rb F (widen F x) = true.
Hypothesis H_L : max_depth L <= max_conv L.

Theorem upgrade_preserves new old s' fs :
  upgrade_with new old = Some s' -> schema_wf old = true -> same_types s' old ->
  fields_wf fs = true -> fields_canon old fs = true -> schema_validate F L old fs = true ->
  exists raw, readback_fields F fs = Some raw /\
    try_from_doc F L s' raw = Some (filter (fun kv => contains_idx s' (fst kv)) fs).
Proof.
  intros Hu Hswf Hst Hwf Hcan Hval.
  destruct (upgrade_indexes _ _ _ Hu) as [Hle Hidx].
  destruct (read_under F L H_nw H_rb H_L old s' fs Hwf Hcan Hval Hle) as [raw [Hraw [Hex Hmap]]].
  { intros e e2 He E2. destruct (find_idx_some _ _ _ E2) as [He2 Hi]. exact (Hst _ _ He He2 Hi). }
  exists raw. split; [exact Hraw|]. unfold try_from_doc. rewrite Hex, Hmap.
  assert (Hv : schema_validate F L s' (filter (fun kv => contains_idx s' (fst kv)) fs) = true); [|rewrite Hv; reflexivity].
  pose proof Hwf as Hwf'. unfold fields_wf in Hwf'. apply andb_true_iff in Hwf'. destruct Hwf' as [Hnd _].
  pose proof Hval as Hval'. unfold schema_validate in Hval'. apply andb_true_iff in Hval'. destruct Hval' as [Hkeys Hent].
  rewrite forallb_forall in Hkeys, Hent.
  unfold schema_validate. apply andb_true_iff. split.
  - apply forallb_forall. intros kv Hin. apply filter_In in Hin. destruct Hin as [_ Hc]. exact Hc.
  - apply forallb_forall. intros e' He'.
    rewrite (get_idx_filter (contains_idx s') (e_idx e') fs).
    assert (Hc : contains_idx s' (e_idx e') = true).
    { unfold contains_idx. apply existsb_exists. exists e'. split; [exact He' | apply Nat.eqb_refl]. }
    rewrite Hc. destruct (get_idx (e_idx e') fs) as [v|] eqn:Eg.
    + pose proof (get_idx_in _ _ _ Eg) as Hin. pose proof (Hkeys _ Hin) as Hk. cbn in Hk.
      unfold contains_idx in Hk. apply existsb_exists in Hk. destruct Hk as [e [He Hei]]. apply Nat.eqb_eq in Hei.
      pose proof (Hent _ He) as Hev. rewrite Hei, Eg in Hev.
      rewrite (Hst e e' He He' (eq_sym Hei)). exact Hev.
    + destruct (Hidx _ He') as [[o [Ho [_ Hi]]]|[Hn _]].
      * pose proof (Hent _ Ho) as Hev. rewrite Hi, Eg in Hev. rewrite (Hst o e' Ho He' (eq_sym Hi)). exact Hev.
      * destruct (upgrade_with_inv _ _ _ Hu) as [k [Hck Ha]].
        exact (check_new_optional _ _ _ _ _ _ Hck Ha e' He' Hn).
Qed.

End Upgrade.
