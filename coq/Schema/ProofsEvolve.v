(* C13 — old documents under an evolved type: nested map types may lose keys and gain optional keys
   at any depth (FieldType::is_compatible_upgrade_of).  A value that was valid and canonical under
   the old type is encodable; decoding it schema-less and materialising it under the NEW type
   (prune_undeclared, normalize) gives exactly the old value restricted to what the new type declares
   (surviving members unchanged, removed ones dropped), and that value is valid and canonical under
   the new type. *)
From Coq Require Import List ZArith Bool String Arith Lia.
From Verif Require Import Schema.Model Schema.Extract Schema.Proofs Schema.ProofsNorm.
Import ListNotations.
Open Scope list_scope.

Arguments too_deep : simpl never.
Arguments is_wild : simpl never.

Definition nilb {A} (l : list A) : bool := match l with [] => true | _ => false end.

(* is_compatible_upgrade_of, plus: a struct does not turn into the untyped map Map({}) or back
   (Map({}) declares nothing, so it neither prunes nor normalises its entries) *)
Fixpoint compat_ne (new old : ftype) {struct new} : bool :=
  match new with
  | TArray ns =>
      match old with
      | TArray os => (List.length ns =? List.length os) && zip_all compat_ne ns os
      | _ => false
      end
  | TMap nm =>
      match old with
      | TMap om =>
          let keyed :=
            Bool.eqb (nilb nm) (nilb om) &&
            all_types (fun k nt => match lookup k om with Some ot => compat_ne nt ot | None => is_option nt end) nm in
          match nm with
          | [(nk, nt)] =>
              if is_wild nk
              then match wildcard_of om with
                   | Some (ok, ot) => fkey_eqb nk ok && compat_ne nt ot
                   | None => false
                   end
              else match wildcard_of om with Some _ => false | None => keyed end
          | _ => match wildcard_of om with Some _ => false | None => keyed end
          end
      | _ => false
      end
  | TOption n =>
      match old with
      | TOption o => compat_ne n o
      | _ => false
      end
  | _ => ftype_eqb new old
  end.

(* value maps carry each key once (they are BTreeMaps), at every depth *)
Fixpoint vkeys_ok (v : fvalue) : bool :=
  match v with
  | VArray l => forallb vkeys_ok l
  | VMap m => nodup_keys m && forallb (fun kv => vkeys_ok (snd kv)) m
  | _ => true
  end.

Definition leaf (t : ftype) : Prop :=
  match t with TArray _ | TMap _ | TOption _ => False | _ => True end.

(* ------------------------------------------------------------------ small lemmas *)
Lemma compat_leaf new old : leaf new -> compat_ne new old = true -> old = new.
Proof. destruct new; cbn; try contradiction; intros _ H; destruct old; cbn in H; try discriminate; reflexivity. Qed.

Lemma with_type_lookup {A} (g : ftype -> A) dflt k m :
  with_type g dflt k m = match lookup k m with Some ft => g ft | None => dflt end.
Proof. induction m as [|[k' ft] m IH]; cbn; [reflexivity|]. destruct (fkey_eqb k k'); [reflexivity | exact IH]. Qed.

Lemma lookup_in {V} k (m : list (fkey * V)) v : lookup k m = Some v -> In (k, v) m.
Proof.
  induction m as [|[k' w] m IH]; cbn; [discriminate|]. destruct (fkey_eqb k k') eqn:E.
  - apply fkey_eqb_eq in E. subst. intros H. inversion H. left. reflexivity.
  - intros H. right. apply IH. exact H.
Qed.

Lemma lookup_nodup {V} k (x : V) m : nodup_keys m = true -> In (k, x) m -> lookup k m = Some x.
Proof.
  induction m as [|[k' w] m IH]; cbn; [contradiction|]. intros Hn [E|Hin].
  - inversion E; subst. rewrite fkey_eqb_refl. reflexivity.
  - apply andb_true_iff in Hn. destruct Hn as [Hn1 Hn2]. destruct (fkey_eqb k k') eqn:Ek.
    + apply fkey_eqb_eq in Ek. subst k'. apply negb_true_iff in Hn1. unfold mem_key in Hn1.
      pose proof (lookup_in_none _ _ _ Hin). destruct (lookup k m); [discriminate | contradiction].
    + apply IH; assumption.
Qed.

Lemma nodup_tkeys_lookup k nt (m : list (fkey * ftype)) : nodup_tkeys m = true -> In (k, nt) m -> lookup k m = Some nt.
Proof.
  induction m as [|[k' w] m IH]; cbn; [contradiction|]. intros Hn [E|Hin].
  - inversion E; subst. rewrite fkey_eqb_refl. reflexivity.
  - apply andb_true_iff in Hn. destruct Hn as [Hn1 Hn2]. destruct (fkey_eqb k k') eqn:Ek.
    + apply fkey_eqb_eq in Ek. subst k'. apply negb_true_iff in Hn1. unfold mem_key in Hn1.
      pose proof (lookup_in_none _ _ _ Hin). destruct (lookup k m); [discriminate | contradiction].
    + apply IH; assumption.
Qed.

Lemma mapM_rel {A B C} (f : A -> option B) (g : B -> C) (h : A -> C) l :
  Forall (fun x => exists r, f x = Some r /\ g r = h x) l ->
  exists rs, mapM f l = Some rs /\ map g rs = map h l.
Proof.
  induction 1 as [|x l [r [Hr Hg]] _ [rs [Hrs Hm]]].
  - exists []. split; reflexivity.
  - exists (r :: rs). cbn. rewrite Hr. fold (mapM f l). rewrite Hrs. split; [reflexivity|]. cbn. rewrite Hg, Hm. reflexivity.
Qed.

Lemma mapM_rel_filter {A B C} (f : A -> option B) (p : A -> bool) (q : B -> bool) (g : B -> C) (h : A -> C) l :
  Forall (fun x => exists r, f x = Some r /\ q r = p x /\ (p x = true -> g r = h x)) l ->
  exists rs, mapM f l = Some rs /\ map g (filter q rs) = map h (filter p l).
Proof.
  induction 1 as [|x l [r [Hr [Hq Hg]]] _ [rs [Hrs Hm]]].
  - exists []. split; reflexivity.
  - exists (r :: rs). cbn. rewrite Hr. fold (mapM f l). rewrite Hrs. split; [reflexivity|].
    rewrite Hq. destruct (p x) eqn:Ep; [cbn; rewrite (Hg eq_refl), Hm; reflexivity | exact Hm].
Qed.

Lemma lookup_map_filter {V} (g : fkey -> V -> V) (p : fkey -> bool) k (m : list (fkey * V)) :
  lookup k (map (fun kv => (fst kv, g (fst kv) (snd kv))) (filter (fun kv => p (fst kv)) m))
  = if p k then option_map (g k) (lookup k m) else None.
Proof.
  induction m as [|[k' v] m IH]; cbn; [destruct (p k); reflexivity|].
  destruct (p k') eqn:Ep; cbn; destruct (fkey_eqb k k') eqn:E.
  - apply fkey_eqb_eq in E. subst. rewrite Ep. reflexivity.
  - exact IH.
  - apply fkey_eqb_eq in E. subst. rewrite Ep in *. exact IH.
  - exact IH.
Qed.

(* ------------------------------------------------------------------ keyed maps, unfolded once *)
Definition keyedT (m : list (fkey * ftype)) : Prop := m <> [] /\ wildcard_of m = None.

Lemma keyedT_cases (m : list (fkey * ftype)) : keyedT m ->
  (exists wk ft, m = [(wk, ft)] /\ is_wild wk = false) \/ (exists p q r, m = p :: q :: r).
Proof.
  intros [Hne Hw]. destruct m as [|[wk ft] [|q r]].
  - exfalso. apply Hne. reflexivity.
  - left. exists wk, ft. split; [reflexivity|]. cbn in Hw. destruct (is_wild wk); [discriminate | reflexivity].
  - right. eauto.
Qed.

Section Evolve.
Variable F : fops.
Variable L : limits.
Hypothesis H_nw : forall x, in_u32 x = true -> nan32 x = false -> narrow F (widen F x) = x.
Hypothesis H_rb : forall x, in_u32 x = true -> nan32 x = false -> is_rb F (widen F x) = true.
Hypothesis H_L : max_depth L <= max_conv L.

Lemma canon_keyed m kvs : keyedT m ->
  canon (TMap m) (VMap kvs) = forallb (fun kv => with_type (fun ft => canon ft (snd kv)) false (fst kv) m) kvs.
Proof. intros H. destruct (keyedT_cases _ H) as [[wk [ft [-> Hw]]]|[p [q [r ->]]]]; cbn; [rewrite Hw|destruct p]; reflexivity. Qed.

Lemma validate_keyed m kvs : keyedT m ->
  validate_inner F (TMap m) (VMap kvs) =
  forallb (fun kv => mem_key (fst kv) m) kvs &&
  all_types (fun k ft => validate_inner F ft (match lookup k kvs with None => VNull | Some x => x end)) m.
Proof. intros H. destruct (keyedT_cases _ H) as [[wk [ft [-> Hw]]]|[p [q [r ->]]]]; cbn; [rewrite Hw|destruct p]; reflexivity. Qed.

Lemma prune_keyed m kvs d : keyedT m -> too_deep L d = false ->
  prune_at L (TMap m) d (VMap kvs) =
  VMap (map (fun kv => (fst kv, with_type (fun ft => prune_at L ft (S d) (snd kv)) (snd kv) (fst kv) m))
            (filter (fun kv => mem_key (fst kv) m) kvs)).
Proof. intros H Hd. destruct (keyedT_cases _ H) as [[wk [ft [-> Hw]]]|[p [q [r ->]]]]; cbn; rewrite Hd; [rewrite Hw|destruct p]; reflexivity. Qed.

Lemma normalize_keyed m kvs d : keyedT m -> too_deep L d = false ->
  normalize_at F L (TMap m) d (VMap kvs) =
  VMap (map (fun kv => (fst kv, with_type (fun ft => normalize_at F L ft (S d) (snd kv)) (snd kv) (fst kv) m)) kvs).
Proof. intros H Hd. destruct (keyedT_cases _ H) as [[wk [ft [-> Hw]]]|[p [q [r ->]]]]; cbn; rewrite Hd; [rewrite Hw|destruct p]; reflexivity. Qed.

Lemma prune_leaf t d x : leaf t -> prune_at L t d x = x.
Proof. destruct t; cbn; try contradiction; intros _; destruct (too_deep L d); reflexivity. Qed.

Lemma prune_stores_null t : forall d v, stores_as_null (prune_at L t d v) = stores_as_null v.
Proof.
  induction t as [| | | | | | | | |ts|m|t IHt]; intros d v; cbn; destruct (too_deep L d); auto.
  - destruct v; auto. destruct ts as [|t1 [|t2 ts]]; reflexivity.
  - destruct v; auto. destruct m as [|[wk ft] [|p m]]; try reflexivity. destruct (is_wild wk); reflexivity.
  - destruct v; auto.
Qed.

Lemma compat_null nt ot : compat_ne nt ot = true -> validate_inner F ot VNull = true -> validate_inner F nt VNull = true.
Proof.
  intros Hc Hv. destruct nt;
    try (match type of Hc with compat_ne ?n _ = true => pose proof (compat_leaf n ot I Hc) as E end; subst ot; exact Hv).
  - destruct ot; cbn in Hv; discriminate.
  - destruct ot; cbn in Hv; discriminate.
  - reflexivity.
Qed.

Definition EV (new : ftype) : Prop := forall old v d,
  wf_type new = true -> compat_ne new old = true ->
  canon old v = true -> wf_value v = true -> vkeys_ok v = true ->
  validate_inner F old v = true -> vshape_ok L d v = true ->
  exists r, readback F v = Some r /\
    normalize_at F L new d (prune_at L new d r) = prune_at L new d v /\
    validate_inner F new (prune_at L new d v) = true /\
    canon new (prune_at L new d v) = true.

Lemma ev_leaf new : leaf new -> EV new.
Proof.
  intros Hl old v d _ Hc Hcan Hw _ Hv Hs. rewrite (compat_leaf _ _ Hl Hc) in *.
  destruct (rt_inner F L H_nw H_rb H_L new v d Hcan Hw Hs) as [r [Hr Hn]].
  exists r. rewrite !(prune_leaf new d _ Hl) in *. auto.
Qed.


Lemma compat_keyed nm om : keyedT nm ->
  compat_ne (TMap nm) (TMap om) =
  match wildcard_of om with
  | Some _ => false
  | None => Bool.eqb (nilb nm) (nilb om) &&
            all_types (fun k nt => match lookup k om with Some ot => compat_ne nt ot | None => is_option nt end) nm
  end.
Proof. intros H. destruct (keyedT_cases _ H) as [[wk [ft [-> Hw]]]|[p [q [r ->]]]]; cbn; [rewrite Hw|destruct p]; reflexivity. Qed.

Lemma prune_option t d x : x <> VNull -> too_deep L d = false -> prune_at L (TOption t) d x = prune_at L t d x.
Proof. intros Hx Hd. cbn. rewrite Hd. destruct x; try reflexivity. contradiction. Qed.

Lemma normalize_option t d x : x <> VNull -> too_deep L d = false -> normalize_at F L (TOption t) d x = normalize_at F L t d x.
Proof. intros Hx Hd. cbn. rewrite Hd. destruct x; try reflexivity. contradiction. Qed.

Lemma validate_option t x : x <> VNull -> validate_inner F (TOption t) x = validate_inner F t x.
Proof. intros Hx. destruct x; try reflexivity. contradiction. Qed.

Lemma canon_option t x : x <> VNull -> canon (TOption t) x = negb (stores_as_null x) && canon t x.
Proof. intros Hx. destruct x; try reflexivity. contradiction. Qed.

Lemma ev_keyed nm om kvs d :
  keyedT nm -> keyedT om -> Forall (fun kt => EV (snd kt)) nm ->
  nodup_tkeys nm = true -> forallb (fun kt => wf_type (snd kt)) nm = true ->
  all_types (fun k nt => match lookup k om with Some ot => compat_ne nt ot | None => is_option nt end) nm = true ->
  canon (TMap om) (VMap kvs) = true -> wf_value (VMap kvs) = true -> vkeys_ok (VMap kvs) = true ->
  validate_inner F (TMap om) (VMap kvs) = true -> vshape_ok L d (VMap kvs) = true ->
  exists r, readback F (VMap kvs) = Some r /\
    normalize_at F L (TMap nm) d (prune_at L (TMap nm) d r) = prune_at L (TMap nm) d (VMap kvs) /\
    validate_inner F (TMap nm) (prune_at L (TMap nm) d (VMap kvs)) = true /\
    canon (TMap nm) (prune_at L (TMap nm) d (VMap kvs)) = true.
Proof.
  intros Hkn Hko HEV Hnd Hwt Hall Hcan Hw Hk Hv Hs.
  pose proof (conv_ok L H_L _ _ Hs) as Hd.
  rewrite (canon_keyed _ _ Hko) in Hcan. rewrite (validate_keyed _ _ Hko) in Hv.
  apply andb_true_iff in Hv. destruct Hv as [Hv1 Hv2].
  cbn in Hw, Hk, Hs. apply andb_true_iff in Hk. destruct Hk as [Hknd Hk].
  apply andb_true_iff in Hs. destruct Hs as [_ Hs]. apply andb_true_iff in Hs. destruct Hs as [_ Hs].
  rewrite forallb_forall in Hcan, Hw, Hk, Hs, Hwt. rewrite Forall_forall in HEV.
  rewrite all_types_forall in Hall, Hv2.
  assert (Hper : forall k x, In (k, x) kvs ->
            exists r, readback F x = Some r /\
              (forall nt, lookup k nm = Some nt ->
                 normalize_at F L nt (S d) (prune_at L nt (S d) r) = prune_at L nt (S d) x /\
                 validate_inner F nt (prune_at L nt (S d) x) = true /\
                 canon nt (prune_at L nt (S d) x) = true)).
  { intros k x Hin. pose proof (Hcan _ Hin) as Hc. cbn in Hc. rewrite with_type_lookup in Hc.
    destruct (lookup k om) as [ot|] eqn:Eo; [|discriminate].
    assert (Hvx : validate_inner F ot x = true).
    { pose proof (Hv2 k ot (lookup_in _ _ _ Eo)) as Hx. rewrite (lookup_nodup _ _ _ Hknd Hin) in Hx. exact Hx. }
    pose proof (Hw _ Hin) as Hwx. pose proof (Hk _ Hin) as Hkx. pose proof (Hs _ Hin) as Hsx. cbn in Hwx, Hkx, Hsx.
    destruct (rt_inner F L H_nw H_rb H_L ot x (S d) Hc Hwx Hsx) as [r [Hr _]].
    exists r. split; [exact Hr|]. intros nt Hnt.
    pose proof (lookup_in _ _ _ Hnt) as Hin_nt.
    pose proof (Hall k nt Hin_nt) as Hcmp. rewrite Eo in Hcmp.
    destruct (HEV (k, nt) Hin_nt ot x (S d) (Hwt (k, nt) Hin_nt) Hcmp Hc Hwx Hkx Hvx Hsx) as [r2 [Hr2 Hrest]].
    rewrite Hr in Hr2. inversion Hr2; subst r2. exact Hrest. }
  set (gP := fun kv : fkey * fvalue => (fst kv, with_type (fun ft => prune_at L ft (S d) (snd kv)) (snd kv) (fst kv) nm)).
  set (gN := fun kv : fkey * fvalue => (fst kv, with_type (fun ft => normalize_at F L ft (S d) (snd kv)) (snd kv) (fst kv) nm)).
  set (p := fun kv : fkey * fvalue => mem_key (fst kv) nm).
  destruct (mapM_rel_filter (fun kv => option_map (fun r => (fst kv, r)) (readback F (snd kv))) p p (fun kv => gN (gP kv)) gP kvs)
    as [rs [Hrs Hmap]].
  { apply Forall_forall. intros [k x] Hin. destruct (Hper k x Hin) as [r [Hr Hnt]]. exists (k, r). cbn. rewrite Hr. cbn.
    split; [reflexivity|]. split; [reflexivity|]. unfold p. cbn. intros Hm. unfold mem_key in Hm.
    destruct (lookup k nm) as [nt|] eqn:En; [|discriminate]. destruct (Hnt nt eq_refl) as [Heq _].
    unfold gN, gP. cbn. rewrite !with_type_lookup, En. rewrite Heq. reflexivity. }
  exists (VMap rs). split; [cbn; rewrite Hrs; reflexivity|].
  rewrite !(prune_keyed _ _ _ Hkn Hd). fold gP. fold p.
  rewrite (normalize_keyed _ _ _ Hkn Hd). fold gN. rewrite map_map. rewrite Hmap.
  split; [reflexivity|]. split.
  - (* valid under the new type *)
    rewrite (validate_keyed _ _ Hkn). apply andb_true_iff. split.
    + apply forallb_forall. intros kv Hin. apply in_map_iff in Hin. destruct Hin as [y [E Hy]]. subst kv.
      apply filter_In in Hy. destruct Hy as [_ Hy]. exact Hy.
    + apply all_types_forall. intros k nt Hin.
      pose proof (nodup_tkeys_lookup _ _ _ Hnd Hin) as En.
      unfold gP, p.
      rewrite (lookup_map_filter (fun k0 x0 => with_type (fun ft => prune_at L ft (S d) x0) x0 k0 nm) (fun k0 => mem_key k0 nm) k kvs).
      assert (Hm : mem_key k nm = true) by (unfold mem_key; rewrite En; reflexivity). rewrite Hm.
      destruct (lookup k kvs) as [x|] eqn:El; cbn.
      * rewrite with_type_lookup, En. destruct (Hper k x (lookup_in _ _ _ El)) as [r [_ Hnt]].
        destruct (Hnt nt En) as [_ [Hvn _]]. exact Hvn.
      * pose proof (Hall k nt Hin) as Hcmp. destruct (lookup k om) as [ot|] eqn:Eo.
        -- apply (compat_null nt ot Hcmp). pose proof (Hv2 k ot (lookup_in _ _ _ Eo)) as Hx. rewrite El in Hx. exact Hx.
        -- destruct nt; try discriminate. reflexivity.
  - (* canonical under the new type *)
    rewrite (canon_keyed _ _ Hkn). apply forallb_forall. intros kv Hin. apply in_map_iff in Hin. destruct Hin as [[k x] [E Hy]]. subst kv.
    apply filter_In in Hy. destruct Hy as [Hy Hm]. unfold p in Hm. cbn in Hm. unfold mem_key in Hm.
    destruct (lookup k nm) as [nt|] eqn:En; [|discriminate].
    unfold gP. cbn. rewrite !with_type_lookup, En. destruct (Hper k x Hy) as [r [_ Hnt]].
    destruct (Hnt nt En) as [_ [_ Hcn]]. exact Hcn.
Qed.


Lemma ev_zip ns : Forall EV ns -> forall os l d,
  forallb wf_type ns = true -> zip_all compat_ne ns os = true -> List.length ns = List.length os ->
  zip_exact canon os l = true -> forallb wf_value l = true -> forallb vkeys_ok l = true ->
  zip_all (validate_inner F) os l = true -> forallb (vshape_ok L d) l = true ->
  exists rs, mapM (readback F) l = Some rs /\
    zip_apply (fun ft => normalize_at F L ft d) ns (zip_apply (fun ft => prune_at L ft d) ns rs)
      = zip_apply (fun ft => prune_at L ft d) ns l /\
    zip_all (validate_inner F) ns (zip_apply (fun ft => prune_at L ft d) ns l) = true /\
    zip_exact canon ns (zip_apply (fun ft => prune_at L ft d) ns l) = true.
Proof.
  induction 1 as [|n ns Hn _ IH]; intros os l d Hwt Hc Hlen Hcan Hw Hk Hv Hs.
  - destruct os; [|discriminate]. destruct l; [|discriminate]. exists []. repeat split; reflexivity.
  - destruct os as [|o os]; [discriminate|]. destruct l as [|x l]; [discriminate|]. cbn in *.
    apply andb_true_iff in Hwt. destruct Hwt as [Hwt1 Hwt2]. apply andb_true_iff in Hc. destruct Hc as [Hc1 Hc2].
    apply andb_true_iff in Hcan. destruct Hcan as [Hcan1 Hcan2]. apply andb_true_iff in Hw. destruct Hw as [Hw1 Hw2].
    apply andb_true_iff in Hk. destruct Hk as [Hk1 Hk2]. apply andb_true_iff in Hv. destruct Hv as [Hv1 Hv2].
    apply andb_true_iff in Hs. destruct Hs as [Hs1 Hs2]. injection Hlen as Hlen.
    destruct (Hn o x d Hwt1 Hc1 Hcan1 Hw1 Hk1 Hv1 Hs1) as [r [Hr [He [Hvn Hcn]]]].
    destruct (IH os l d Hwt2 Hc2 Hlen Hcan2 Hw2 Hk2 Hv2 Hs2) as [rs [Hrs [Hes [Hvs Hcs]]]].
    exists (r :: rs). rewrite Hr. fold (mapM (readback F) l). rewrite Hrs. split; [reflexivity|].
    rewrite He, Hes, Hvn, Hvs, Hcn, Hcs. repeat split; reflexivity.
Qed.

Lemma zip_exact_length {A} (f : ftype -> A -> bool) ts l : zip_exact f ts l = true -> List.length l = List.length ts.
Proof.
  revert l. induction ts as [|t ts IH]; intros l H; destruct l; cbn in *; try discriminate; try reflexivity.
  apply andb_true_iff in H. destruct H as [_ H]. f_equal. apply IH. exact H.
Qed.

Theorem evolve_inner new : EV new.
Proof.
  induction new using ftype_ind'; try (apply ev_leaf; exact I).
  - (* Array *)
    intros old v d Hwt Hc Hcan Hw Hk Hv Hs. pose proof (conv_ok L H_L _ _ Hs) as Hd.
    destruct old as [| | | | | | | | |os|?|?]; cbn in Hc; try discriminate.
    apply andb_true_iff in Hc. destruct Hc as [Hlen Hz]. apply Nat.eqb_eq in Hlen.
    destruct v; try (cbn in Hcan; discriminate).
    cbn in Hw, Hk, Hs. apply andb_true_iff in Hs. destruct Hs as [_ Hs]. apply andb_true_iff in Hs. destruct Hs as [_ Hs].
    cbn in Hwt.
    destruct ts as [|n1 [|n2 ns]]; destruct os as [|o1 [|o2 os]]; cbn in Hlen; try discriminate.
    + (* untyped *) exists (VArray l). cbn in Hcan. split; [apply (plain_readback F L H_L (VArray l)); exact Hcan|].
      cbn. rewrite !Hd. split; [reflexivity|]. split; [reflexivity | exact Hcan].
    + (* homogeneous: every element *)
      inversion H as [|? ? H1 _]; subst. cbn in Hz, Hcan, Hv. apply andb_true_iff in Hz. destruct Hz as [Hz _].
      apply andb_true_iff in Hwt. destruct Hwt as [Hwt _].
      rewrite forallb_forall in Hcan, Hw, Hk, Hv, Hs.
      assert (Hper : forall x, In x l -> exists r, readback F x = Some r /\
                normalize_at F L n1 (S d) (prune_at L n1 (S d) r) = prune_at L n1 (S d) x /\
                validate_inner F n1 (prune_at L n1 (S d) x) = true /\ canon n1 (prune_at L n1 (S d) x) = true).
      { intros x Hin. exact (H1 o1 x (S d) Hwt Hz (Hcan x Hin) (Hw x Hin) (Hk x Hin) (Hv x Hin) (Hs x Hin)). }
      destruct (mapM_rel (readback F) (fun r => normalize_at F L n1 (S d) (prune_at L n1 (S d) r)) (prune_at L n1 (S d)) l) as [rs [Hrs Hm]].
      { apply Forall_forall. intros x Hin. destruct (Hper x Hin) as [r [Hr [He _]]]. exists r. auto. }
      exists (VArray rs). split; [cbn; rewrite Hrs; reflexivity|].
      cbn. rewrite !Hd. cbn. rewrite map_map, Hm. split; [reflexivity|]. split.
      * apply forallb_forall. intros y Hy. apply in_map_iff in Hy. destruct Hy as [x [E Hin]]. subst y.
        destruct (Hper x Hin) as [_ [_ [_ [Hvn _]]]]. exact Hvn.
      * apply forallb_forall. intros y Hy. apply in_map_iff in Hy. destruct Hy as [x [E Hin]]. subst y.
        destruct (Hper x Hin) as [_ [_ [_ [_ Hcn]]]]. exact Hcn.
    + (* tuple: pairwise *)
      cbn [canon] in Hcan. cbn [validate_inner] in Hv. apply andb_true_iff in Hv. destruct Hv as [Hvl Hv].
      destruct (ev_zip _ H (o1 :: o2 :: os) l (S d) Hwt Hz Hlen Hcan Hw Hk Hv Hs) as [rs [Hrs [He [Hvn Hcn]]]].
      exists (VArray rs). split; [cbn; rewrite Hrs; reflexivity|].
      cbn [prune_at normalize_at]. rewrite !Hd. cbn [prune_at normalize_at]. rewrite ?Hd.
      split; [f_equal; exact He|]. split.
      * cbn [validate_inner]. apply andb_true_iff. split; [|exact Hvn].
        rewrite zip_apply_length. apply Nat.eqb_eq. rewrite (zip_exact_length _ _ _ Hcan). symmetry. exact Hlen.
      * cbn [canon]. exact Hcn.
  - (* Map *)
    intros old v d Hwt Hc Hcan Hw Hk Hv Hs. pose proof (conv_ok L H_L _ _ Hs) as Hd.
    destruct old as [| | | | | | | | |?|om|?]; try (cbn in Hc; discriminate).
    destruct v as [| | | | | | | | | |kvs|]; try (cbn in Hcan; discriminate).
    cbn [wf_type] in Hwt. apply andb_true_iff in Hwt. destruct Hwt as [Hnd Hwm].
    assert (Huntyped : m = [] -> om = [] ->
      exists r, readback F (VMap kvs) = Some r /\
        normalize_at F L (TMap m) d (prune_at L (TMap m) d r) = prune_at L (TMap m) d (VMap kvs) /\
        validate_inner F (TMap m) (prune_at L (TMap m) d (VMap kvs)) = true /\
        canon (TMap m) (prune_at L (TMap m) d (VMap kvs)) = true).
    { intros -> ->. exists (VMap kvs). cbn in Hcan. split; [apply (plain_readback F L H_L (VMap kvs)); exact Hcan|].
      cbn. rewrite !Hd. rewrite map_pair_id. split; [reflexivity|]. split; [reflexivity | exact Hcan]. }
    assert (Hkeyed : keyedT m ->
      exists r, readback F (VMap kvs) = Some r /\
        normalize_at F L (TMap m) d (prune_at L (TMap m) d r) = prune_at L (TMap m) d (VMap kvs) /\
        validate_inner F (TMap m) (prune_at L (TMap m) d (VMap kvs)) = true /\
        canon (TMap m) (prune_at L (TMap m) d (VMap kvs)) = true).
    { intros Hkn. rewrite (compat_keyed _ om Hkn) in Hc. destruct (wildcard_of om) eqn:Ew; [discriminate|].
      apply andb_true_iff in Hc. destruct Hc as [Hnil Hall].
      assert (Hko : keyedT om).
      { split; [|exact Ew]. intros ->. destruct Hkn as [Hne _]. destruct m; [apply Hne; reflexivity | discriminate]. }
      exact (ev_keyed m om kvs d Hkn Hko H Hnd Hwm Hall Hcan Hw Hk Hv Hs). }
    destruct m as [|[nk nt] [|q r]].
    + (* the new type is the untyped map: so was the old one *)
      apply Huntyped; [reflexivity|]. cbn in Hc. destruct om as [|p om]; [reflexivity|].
      destruct (wildcard_of (p :: om)); cbn in Hc; discriminate.
    + destruct (is_wild nk) eqn:Hwk.
      * (* wildcard: every value *)
        cbn in Hc. rewrite Hwk in Hc.
        destruct om as [|[ok ot] [|? ?]]; cbn in Hc; try discriminate.
        destruct (is_wild ok) eqn:Hok; try discriminate.
        apply andb_true_iff in Hc. destruct Hc as [Hke Hcmp]. apply fkey_eqb_eq in Hke. subst ok.
        inversion H as [|? ? H1 _]; subst. cbn in H1. cbn in Hwm. apply andb_true_iff in Hwm. destruct Hwm as [Hwn _].
        cbn in Hcan, Hv, Hw, Hk, Hs. rewrite Hok in Hcan, Hv.
        apply andb_true_iff in Hk. destruct Hk as [_ Hk].
        apply andb_true_iff in Hs. destruct Hs as [_ Hs]. apply andb_true_iff in Hs. destruct Hs as [_ Hs].
        rewrite forallb_forall in Hcan, Hw, Hk, Hv, Hs.
        assert (Hper : forall kv, In kv kvs -> exists r, readback F (snd kv) = Some r /\
                  normalize_at F L nt (S d) (prune_at L nt (S d) r) = prune_at L nt (S d) (snd kv) /\
                  validate_inner F nt (prune_at L nt (S d) (snd kv)) = true /\ canon nt (prune_at L nt (S d) (snd kv)) = true).
        { intros kv Hin. pose proof (Hv kv Hin) as Hvk. apply andb_true_iff in Hvk. destruct Hvk as [_ Hvk].
          exact (H1 ot (snd kv) (S d) Hwn Hcmp (Hcan kv Hin) (Hw kv Hin) (Hk kv Hin) Hvk (Hs kv Hin)). }
        destruct (mapM_rel (fun kv => option_map (fun r => (fst kv, r)) (readback F (snd kv)))
                    (fun kv => (fst kv, normalize_at F L nt (S d) (prune_at L nt (S d) (snd kv))))
                    (fun kv => (fst kv, prune_at L nt (S d) (snd kv))) kvs) as [rs [Hrs Hm]].
        { apply Forall_forall. intros [k x] Hin. destruct (Hper (k, x) Hin) as [r [Hr [He _]]]. cbn in *.
          exists (k, r). rewrite Hr. cbn. rewrite He. split; reflexivity. }
        exists (VMap rs). split; [cbn; rewrite Hrs; reflexivity|].
        cbn. rewrite !Hd, ?Hwk. cbn. rewrite ?Hwk. rewrite map_map. cbn. rewrite Hm. split; [reflexivity|]. split.
        -- apply forallb_forall. intros y Hy. apply in_map_iff in Hy. destruct Hy as [kv [E Hin]]. subst y. cbn.
           pose proof (Hv kv Hin) as Hvk. apply andb_true_iff in Hvk. destruct Hvk as [Hkind _]. rewrite Hkind. cbn.
           destruct (Hper kv Hin) as [_ [_ [_ [Hvn _]]]]. exact Hvn.
        -- apply forallb_forall. intros y Hy. apply in_map_iff in Hy. destruct Hy as [kv [E Hin]]. subst y. cbn.
           destruct (Hper kv Hin) as [_ [_ [_ [_ Hcn]]]]. exact Hcn.
      * apply Hkeyed. split; [discriminate|]. cbn. rewrite Hwk. reflexivity.
    + apply Hkeyed. split; [discriminate | reflexivity].
  - (* Option *)
    intros old v d Hwt Hc Hcan Hw Hk Hv Hs. pose proof (conv_ok L H_L _ _ Hs) as Hd.
    destruct old as [| | | | | | | | |?|?|o]; try (cbn in Hc; discriminate). cbn in Hc, Hwt.
    destruct (is_null v) eqn:En.
    + destruct v; try discriminate. exists VNull. cbn. rewrite !Hd. repeat split; reflexivity.
    + assert (Hvn : v <> VNull) by (intros ->; discriminate).
      rewrite (canon_option _ _ Hvn) in Hcan. apply andb_true_iff in Hcan. destruct Hcan as [Hsn Hct].
      rewrite (validate_option _ _ Hvn) in Hv.
      destruct (IHnew o v d Hwt Hc Hct Hw Hk Hv Hs) as [r [Hr [He [Hvp Hcp]]]].
      exists r. split; [exact Hr|].
      assert (Hrn : r <> VNull).
      { intros ->. apply readback_null in Hr. rewrite Hr in Hsn. discriminate. }
      assert (Hpr : prune_at L new d r <> VNull) by (intros E; apply prune_null in E; contradiction).
      assert (Hpv : prune_at L new d v <> VNull) by (intros E; apply prune_null in E; contradiction).
      rewrite (prune_option _ _ _ Hrn Hd), (prune_option _ _ _ Hvn Hd), (normalize_option _ _ _ Hpr Hd).
      rewrite (validate_option _ _ Hpv), (canon_option _ _ Hpv), prune_stores_null, Hsn.
      repeat split; assumption.
Qed.

End Evolve.

(* compat_ne is is_compatible_upgrade_of with one more requirement: what it accepts the code accepts *)
Lemma zip_all_impl (f g : ftype -> ftype -> bool) ns : Forall (fun n => forall o, f n o = true -> g n o = true) ns ->
  forall os, zip_all f ns os = true -> zip_all g ns os = true.
Proof.
  induction 1 as [|n ns Hn _ IH]; intros os H; [reflexivity|]. destruct os as [|o os]; cbn in *; [discriminate|].
  apply andb_true_iff in H. destruct H as [H1 H2]. rewrite (Hn o H1), (IH os H2). reflexivity.
Qed.

Theorem compat_ne_compat new : forall old, compat_ne new old = true -> compat new old = true.
Proof.
  induction new using ftype_ind'; intros old Hc; try exact Hc.
  - destruct old; cbn in *; try discriminate. apply andb_true_iff in Hc. destruct Hc as [Hl Hz]. rewrite Hl. cbn.
    apply (zip_all_impl compat_ne compat ts H _ Hz).
  - destruct old as [| | | | | | | | |?|om|?]; cbn [compat_ne compat] in *; try discriminate.
    assert (Hk : Bool.eqb (nilb m) (nilb om) &&
                 all_types (fun k nt => match lookup k om with Some ot => compat_ne nt ot | None => is_option nt end) m = true ->
                 all_types (fun k nt => match lookup k om with Some ot => compat nt ot | None => is_option nt end) m = true).
    { intros Hx. apply andb_true_iff in Hx. destruct Hx as [_ Hx]. rewrite all_types_forall in *. intros k nt Hin.
      specialize (Hx k nt Hin). destruct (lookup k om); [|exact Hx].
      rewrite Forall_forall in H. apply (H (k, nt) Hin). exact Hx. }
    destruct m as [|[nk nt] [|q r]].
    + destruct (wildcard_of om); [discriminate | apply Hk; exact Hc].
    + destruct (is_wild nk).
      * destruct (wildcard_of om) as [[ok ot]|]; [|discriminate]. apply andb_true_iff in Hc. destruct Hc as [Hc1 Hc2].
        rewrite Hc1. cbn. inversion H as [|? ? H1 _]; subst. apply H1. exact Hc2.
      * destruct (wildcard_of om); [discriminate | apply Hk; exact Hc].
    + destruct (wildcard_of om); [discriminate | apply Hk; exact Hc].
  - destruct old; cbn in *; try discriminate. apply IHnew. exact Hc.
Qed.
