(* C13 — case runners for the correspondence check.  The float operations are looked up in the
   per-case table the harness computed with Rust's casts; the budget comes from gen/Gen_Schema.v. *)
From Coq Require Import List ZArith Bool String Arith.
From Verif Require Import Schema.Model Schema.Extract gen.Gen_Schema.
Import ListNotations.
Open Scope list_scope.

Definition ftab := (list (Z * Z) * list (Z * (bool * Z)))%type.

Fixpoint zassoc {V} (d : V) (k : Z) (l : list (Z * V)) : V :=
  match l with
  | [] => d
  | (k', v) :: r => if Z.eqb k k' then v else zassoc d k r
  end.

Definition fops_of (t : ftab) : fops :=
  {| widen := fun x => zassoc 0%Z x (fst t);
     narrow := fun y => snd (zassoc (false, 0%Z) y (snd t));
     is_rb := fun y => fst (zassoc (false, 0%Z) y (snd t)) |}.

Definition L0 : limits := gen_limits.

(* ------------------------------------------------------------------ structural equality *)
Fixpoint json_eqb (a b : json) {struct a} : bool :=
  match a, b with
  | JNull, JNull => true
  | JBool x, JBool y => Bool.eqb x y
  | JU x, JU y | JI x, JI y | JF x, JF y => Z.eqb x y
  | JStr x, JStr y => String.eqb x y
  | JArr x, JArr y =>
      (fix go (x y : list json) : bool :=
         match x, y with
         | [], [] => true
         | p :: x', q :: y' => json_eqb p q && go x' y'
         | _, _ => false
         end) x y
  | JObj x, JObj y =>
      (fix go (x y : list (string * json)) : bool :=
         match x, y with
         | [], [] => true
         | (k, p) :: x', (k', q) :: y' => String.eqb k k' && json_eqb p q && go x' y'
         | _, _ => false
         end) x y
  | _, _ => false
  end.

Fixpoint fvalue_eqb (a b : fvalue) {struct a} : bool :=
  match a, b with
  | VBool x, VBool y => Bool.eqb x y
  | VI64 x, VI64 y | VU64 x, VU64 y | VF64 x, VF64 y | VF32 x, VF32 y => Z.eqb x y
  | VBytes x, VBytes y | VVector x, VVector y => zlist_eqb x y
  | VText x, VText y => String.eqb x y
  | VJson x, VJson y => json_eqb x y
  | VArray x, VArray y =>
      (fix go (x y : list fvalue) : bool :=
         match x, y with
         | [], [] => true
         | p :: x', q :: y' => fvalue_eqb p q && go x' y'
         | _, _ => false
         end) x y
  | VMap x, VMap y =>
      (fix go (x y : list (fkey * fvalue)) : bool :=
         match x, y with
         | [], [] => true
         | (k, p) :: x', (k', q) :: y' => fkey_eqb k k' && fvalue_eqb p q && go x' y'
         | _, _ => false
         end) x y
  | VNull, VNull => true
  | _, _ => false
  end.

Definition opt_eqb {A} (e : A -> A -> bool) (a b : option A) : bool :=
  match a, b with
  | Some x, Some y => e x y
  | None, None => true
  | _, _ => false
  end.

(* ------------------------------------------------------------------ stream "wr": one field, written and read *)
Definition wcase := (ftype * fvalue * ftab)%type.
(* validate, normalize, prune, stored by set_field, schema-less decode, value after try_from_doc *)
Definition wobs := (bool * fvalue * fvalue * option fvalue * option fvalue * option fvalue)%type.

Definition run_wr (c : wcase) : wobs :=
  let '(t, v, tab) := c in
  let F := fops_of tab in
  let stored := set_field F L0 t v in
  let raw := match stored with Some s => readback F s | None => None end in
  let rd := match raw with
            | Some r => let r' := read_norm F L0 t r in if entry_validate F L0 t r' then Some r' else None
            | None => None
            end in
  (validate F L0 t v, normalize F L0 t v, prune L0 t v, stored, raw, rd).

Definition wobs_eqb (a b : wobs) : bool :=
  let '(v1, n1, p1, s1, r1, d1) := a in
  let '(v2, n2, p2, s2, r2, d2) := b in
  Bool.eqb v1 v2 && fvalue_eqb n1 n2 && fvalue_eqb p1 p2 &&
  opt_eqb fvalue_eqb s1 s2 && opt_eqb fvalue_eqb r1 r2 && opt_eqb fvalue_eqb d1 d2.

Definition check_wr (co : wcase * wobs) : bool := wobs_eqb (run_wr (fst co)) (snd co).

(* stream "wb": the very large budget cases, verdicts only (valid, accepted by set_field, readable) *)
Definition check_wb (co : wcase * (bool * bool * bool)) : bool :=
  let '(t, v, tab) := fst co in
  let '(va, ac, rd) := snd co in
  let F := fops_of tab in
  Bool.eqb (validate F L0 t v) va &&
  Bool.eqb (match set_field F L0 t v with Some _ => true | None => false end) ac &&
  Bool.eqb (match write_read F L0 t v with Some (Some _) => true | _ => false end) rd.

(* ------------------------------------------------------------------ stream "ex": what FieldType::extract built *)
(* must be canonical, valid, and a fixed point of write/read (the hypotheses and conclusion of
   C13_roundtrip, evaluated on the value the typed path really produced) *)
Definition check_ex (co : wcase * bool) : bool :=
  let '(t, e, tab) := fst co in
  let F := fops_of tab in
  canon t e && wf_value e && validate F L0 t e &&
  match e with
  | VNull => true
  | _ => opt_eqb (opt_eqb fvalue_eqb) (write_read F L0 t e) (Some (Some e))
  end.

(* ------------------------------------------------------------------ stream "tw": the typed write path *)
(* the value arrives as CBOR (From<FieldValue> for Cbor) inside a name-keyed map; observed: the field
   value Document::try_from stored, or None when it refused the document *)
Definition run_tw (c : wcase) : option fvalue :=
  let '(t, v, tab) := c in
  let F := fops_of tab in typed_write F L0 t (to_cbor F v).

Definition check_tw (co : wcase * option fvalue) : bool :=
  opt_eqb fvalue_eqb (run_tw (fst co)) (snd co).

(* ------------------------------------------------------------------ stream "fl": float predicates from bits *)
Definition check_fl (co : (Z * Z) * (bool * bool * bool)) : bool :=
  let '(y, x) := fst co in
  let '(n, f, n32) := snd co in
  Bool.eqb (nan64 y) n && Bool.eqb (finite64 y) f && Bool.eqb (nan32 x) n32.

(* ------------------------------------------------------------------ streams "up" / "doc": schemas *)
Definition sterm := (list (string * ftype * bool * Z) * Z * Z)%type.

Definition mk_schema (s : sterm) : schema :=
  let '(fs, ver, next) := s in
  {| s_fields := map (fun e => let '(n, t, u, i) := e in
                               {| e_name := n; e_type := t; e_unique := u; e_idx := Z.to_nat i |}) fs;
     s_version := ver; s_next := Z.to_nat next |}.

Fixpoint ftype_list_eqb (a b : list fentry) : bool :=
  match a, b with
  | [], [] => true
  | x :: a', y :: b' =>
      String.eqb (e_name x) (e_name y) && ftype_eqb (e_type x) (e_type y) &&
      Bool.eqb (e_unique x) (e_unique y) && (e_idx x =? e_idx y) && ftype_list_eqb a' b'
  | _, _ => false
  end.

Definition schema_eqb (a b : schema) : bool :=
  ftype_list_eqb (s_fields a) (s_fields b) && Z.eqb (s_version a) (s_version b) &&
  (allocated_end a =? allocated_end b).

Definition check_up (co : (sterm * sterm) * option sterm) : bool :=
  let '(new, old) := fst co in
  opt_eqb schema_eqb (upgrade_with (mk_schema new) (mk_schema old)) (option_map mk_schema (snd co)).

Definition dterm := list (Z * fvalue).
Definition mk_fields (d : dterm) : fields := map (fun kv => (Z.to_nat (fst kv), snd kv)) d.

Fixpoint fields_eqb (a b : fields) : bool :=
  match a, b with
  | [], [] => true
  | (i, x) :: a', (j, y) :: b' => (i =? j) && fvalue_eqb x y && fields_eqb a' b'
  | _, _ => false
  end.

Definition check_doc (co : (sterm * dterm * ftab) * option dterm) : bool :=
  let '(s, d, tab) := fst co in
  opt_eqb fields_eqb (try_from_doc (fops_of tab) L0 (mk_schema s) (mk_fields d)) (option_map mk_fields (snd co)).
