(* C13 — pinned statements only.  Each is closed by [exact] of a lemma proved in
   Schema/Proofs*.v and followed by Print Assumptions.  [F] carries the three float
   operations (f32->f64 widening, f64->f32 `as` narrowing, is_f32_read_back); the IEEE facts
   about them are premises.  [L] is the complexity budget + MAX_CONVERSION_DEPTH; the
   generated constants satisfy the premise on it (C13_gen_budget_below_conversion_depth). *)
From Coq Require Import List ZArith Bool String Arith.
From Verif Require Import Schema.Model Schema.Proofs Schema.ProofsNorm Schema.ProofsUpgrade Schema.ProofsEvolve Schema.ProofsEvolveDoc gen.Gen_Schema Schema.Run.
Import ListNotations.
Open Scope list_scope.

Definition IEEE (F : fops) : Prop :=
  (forall x, in_u32 x = true -> nan32 x = false -> narrow F (widen F x) = x) /\
  (forall x, in_u32 x = true -> nan32 x = false -> is_rb F (widen F x) = true).

(* (1) round trip, one value, every type shape at every depth: a value in the declared variant
   that passes the budget is encodable, and decoding it schema-less then materialising it
   (prune_undeclared, normalize) gives back exactly the value written. *)
Theorem C13_roundtrip_value :
  forall (F : fops) (L : limits), IEEE F -> max_depth L <= max_conv L ->
  forall t v d, canon t v = true -> wf_value v = true -> vshape_ok L d v = true ->
    exists r, readback F v = Some r /\ normalize_at F L t d (prune_at L t d r) = v.
Proof. intros F L [H1 H2] HL. exact (rt_inner F L H1 H2 HL). Qed.
Print Assumptions C13_roundtrip_value.

(* the same through Document::set_field / encode / decode / Document::try_from_doc's per-field work:
   accepted at write, read back valid and equal, and writing is the identity on canonical values *)
Theorem C13_roundtrip_field :
  forall (F : fops) (L : limits), IEEE F -> max_depth L <= max_conv L ->
  forall t v, canon t v = true -> wf_value v = true -> entry_validate F L t v = true ->
    write_read F L t v = Some (Some v).
Proof. intros F L [H1 H2] HL. exact (write_read_canon F L H1 H2 HL). Qed.
Print Assumptions C13_roundtrip_field.

(* whole documents: every field written in its declared variant under a well-formed schema *)
Theorem C13_roundtrip_document :
  forall (F : fops) (L : limits), IEEE F -> max_depth L <= max_conv L ->
  forall s fs, schema_wf s = true -> fields_wf fs = true -> fields_canon s fs = true ->
    schema_validate F L s fs = true ->
    exists raw, readback_fields F fs = Some raw /\ try_from_doc F L s raw = Some fs.
Proof. intros F L [H1 H2] HL. exact (doc_roundtrip F L H1 H2 HL). Qed.
Print Assumptions C13_roundtrip_document.

(* (2) nothing invalid gets in: each single violation makes validation fail *)
Theorem C13_rejects :
  forall (F : fops) (L : limits) t v, Violates F L t v -> validate F L t v = false.
Proof. exact violates_rejected. Qed.
Print Assumptions C13_rejects.

Theorem C13_rejects_null_field :
  forall (F : fops) (L : limits) t, is_option t = false -> entry_validate F L t VNull = false.
Proof. intros F L t H. cbn. exact H. Qed.
Print Assumptions C13_rejects_null_field.

(* whatever set_field stores has passed validation, whatever try_from_doc returns validates *)
Theorem C13_stored_is_valid :
  forall (F : fops) (L : limits) t v s, set_field F L t v = Some s -> entry_validate F L t s = true.
Proof. exact set_field_valid. Qed.
Print Assumptions C13_stored_is_valid.

Theorem C13_read_is_valid :
  forall (F : fops) (L : limits) s raw fs, try_from_doc F L s raw = Some fs -> schema_validate F L s fs = true.
Proof. exact try_from_doc_valid. Qed.
Print Assumptions C13_read_is_valid.

(* (3) normalisation is idempotent, on every value whatsoever *)
Theorem C13_normalize_idempotent :
  forall (F : fops) (L : limits) t d v,
    normalize_at F L t d (normalize_at F L t d v) = normalize_at F L t d v.
Proof. exact normalize_idem. Qed.
Print Assumptions C13_normalize_idempotent.

(* normalising never makes an acceptable value unacceptable (structural validation; map types
   declare each key once) *)
Theorem C13_validate_after_normalize :
  forall (F : fops) (L : limits), (forall x, is_rb F x = true -> nan32 (narrow F x) = false) ->
  forall t, wf_type t = true -> forall d v,
    validate_inner F t v = true -> validate_inner F t (normalize_at F L t d v) = true.
Proof. intros F L H t. exact (validate_after_normalize F L H t). Qed.
Print Assumptions C13_validate_after_normalize.

(* (4) schema upgrades *)
Theorem C13_upgrade_indexes :
  forall new old s', upgrade_with new old = Some s' ->
    allocated_end old <= allocated_end s' /\
    (forall e', In e' (s_fields s') ->
       (exists e, In e (s_fields old) /\ e_name e = e_name e' /\ e_idx e = e_idx e') \/
       (find_name (e_name e') (s_fields old) = None /\ allocated_end old <= e_idx e')).
Proof. exact upgrade_indexes. Qed.
Print Assumptions C13_upgrade_indexes.

(* a retired index (below the watermark, not declared) stays retired along every upgrade chain:
   a re-added name can never get it back *)
Theorem C13_retired_index_never_reused :
  forall chain s0 sn i, upgrade_chain s0 chain sn ->
    i < allocated_end s0 -> contains_idx s0 i = false -> contains_idx sn i = false.
Proof. exact retired_never_reused. Qed.
Print Assumptions C13_retired_index_never_reused.

(* a document valid under the old schema reads under the upgraded one; every surviving field whose
   type is unchanged is returned unchanged, removed fields are dropped, added ones are absent *)
Theorem C13_upgrade_preserves_same_types :
  forall (F : fops) (L : limits), IEEE F -> max_depth L <= max_conv L ->
  forall new old s' fs, upgrade_with new old = Some s' -> schema_wf old = true -> same_types s' old ->
    fields_wf fs = true -> fields_canon old fs = true -> schema_validate F L old fs = true ->
    exists raw, readback_fields F fs = Some raw /\
      try_from_doc F L s' raw = Some (filter (fun kv => contains_idx s' (fst kv)) fs).
Proof. intros F L [H1 H2] HL. exact (upgrade_preserves F L H1 H2 HL). Qed.
Print Assumptions C13_upgrade_preserves_same_types.
(* the special case of equal surviving types; the general statement is C13_upgrade_preserves below *)

(* (4b) nested structs may lose keys and gain optional keys at ANY depth — inside homogeneous arrays
   (every element), tuples, wildcard and keyed maps, options.  A value valid and canonical under the old
   type is encodable; decoding it schema-less and materialising it under the new type gives exactly the
   old value restricted to what the new type declares ([prune_at new]: surviving members unchanged,
   removed ones dropped), and that value is valid and canonical under the new type (so the statement
   chains over further upgrades).  [compat_ne] is is_compatible_upgrade_of minus "a struct becomes the
   untyped Map({}) or back" (C13_compat_ne_is_permitted); map types / values carry each key once. *)
Theorem C13_upgrade_preserves_nested :
  forall (F : fops) (L : limits), IEEE F -> max_depth L <= max_conv L ->
  forall new old v d, wf_type new = true -> compat_ne new old = true ->
    canon old v = true -> wf_value v = true -> vkeys_ok v = true ->
    validate_inner F old v = true -> vshape_ok L d v = true ->
    exists r, readback F v = Some r /\
      normalize_at F L new d (prune_at L new d r) = prune_at L new d v /\
      validate_inner F new (prune_at L new d v) = true /\
      canon new (prune_at L new d v) = true.
Proof. intros F L [H1 H2] HL new. exact (evolve_inner F L H1 H2 HL new). Qed.
Print Assumptions C13_upgrade_preserves_nested.

Theorem C13_compat_ne_is_permitted : forall new old, compat_ne new old = true -> compat new old = true.
Proof. exact compat_ne_compat. Qed.
Print Assumptions C13_compat_ne_is_permitted.

(* whole documents: after a permitted upgrade (fields added / removed / re-added at the top level, keys of
   nested structs removed or added at any depth of the surviving fields), a document valid under the old
   schema is readable under the new one and Document::try_from_doc returns it restricted to what the new
   schema declares: removed fields and removed nested keys dropped, everything else bit-identical *)
Theorem C13_upgrade_preserves :
  forall (F : fops) (L : limits), IEEE F -> max_depth L <= max_conv L ->
  forall new old s' fs, upgrade_with new old = Some s' -> schema_wf old = true -> schema_wf s' = true ->
    evolves s' old ->
    fields_wf fs = true -> fields_vkeys fs = true -> fields_canon old fs = true -> schema_validate F L old fs = true ->
    exists raw, readback_fields F fs = Some raw /\ try_from_doc F L s' raw = Some (restrict_doc L s' fs).
Proof. intros F L [H1 H2] HL. exact (upgrade_preserves_full F L H1 H2 HL). Qed.
Print Assumptions C13_upgrade_preserves.

(* pruning never breaks the complexity budget (so a pruned old value passes validate_complexity) *)
Theorem C13_prune_within_budget :
  forall (L : limits) t d v, complexity_ok L v = true -> complexity_ok L (prune_at L t d v) = true.
Proof. exact prune_complexity. Qed.
Print Assumptions C13_prune_within_budget.

(* what "restricted to what the new type declares" means: a homogeneous array prunes EVERY element, a
   keyed map keeps exactly the declared keys (each pruned by its own type), an option looks through *)
Theorem C13_prune_shape :
  forall (L : limits) d, too_deep L d = false ->
  (forall t l, prune_at L (TArray [t]) d (VArray l) = VArray (map (prune_at L t (S d)) l)) /\
  (forall t1 t2 ts l, prune_at L (TArray (t1 :: t2 :: ts)) d (VArray l)
                      = VArray (zip_apply (fun ft => prune_at L ft (S d)) (t1 :: t2 :: ts) l)) /\
  (forall m kvs, keyedT m ->
     prune_at L (TMap m) d (VMap kvs) =
     VMap (map (fun kv => (fst kv, with_type (fun ft => prune_at L ft (S d) (snd kv)) (snd kv) (fst kv) m))
               (filter (fun kv => mem_key (fst kv) m) kvs))) /\
  (forall t x, x <> VNull -> prune_at L (TOption t) d x = prune_at L t d x).
Proof.
  intros L d Hd. repeat split; intros.
  - cbn. rewrite Hd. reflexivity.
  - cbn. rewrite Hd. reflexivity.
  - apply prune_keyed; assumption.
  - apply prune_option; assumption.
Qed.
Print Assumptions C13_prune_shape.

Example C13_upgrade_nested_nonvacuous :
  let item_v1 := TMap [(KText "note", TOption TText); (KText "sku", TText)]%string in
  let item_v2 := TMap [(KText "sku", TText)]%string in
  let v := VArray [VMap [(KText "note", VText "fragile"); (KText "sku", VText "a-1")];
                   VMap [(KText "note", VNull); (KText "sku", VText "a-2")]]%string in
  let F := fops_of ([], []) in
  wf_type (TArray [item_v2]) = true /\ compat_ne (TArray [item_v2]) (TArray [item_v1]) = true /\
  canon (TArray [item_v1]) v = true /\ vkeys_ok v = true /\ validate F gen_limits (TArray [item_v1]) v = true /\
  read_norm F gen_limits (TArray [item_v2]) v
    = VArray [VMap [(KText "sku", VText "a-1")]; VMap [(KText "sku", VText "a-2")]]%string.
Proof. vm_compute. repeat split; reflexivity. Qed.

(* generated facts: the code as it is now *)
Theorem C13_gen_budget_below_conversion_depth : max_depth gen_limits <= max_conv gen_limits.
Proof. vm_compute. repeat constructor. Qed.
Print Assumptions C13_gen_budget_below_conversion_depth.

Theorem C13_gen_validate_arms :
  validate_arms = ["Bool/Bool/"; "I64/I64/"; "I64/U64/guarded"; "U64/U64/"; "F64/F64/guarded"; "F64/F64/";
                   "F32/F32/guarded"; "F32/F32/"; "F32/F64/guarded"; "Bytes/Bytes/"; "Text/Text/"; "Json/_/";
                   "Vector/Vector/"; "Vector/Array/"; "Array/Array/"; "Map/Map/"; "Option/val/"]%string.
Proof. reflexivity. Qed.
Print Assumptions C13_gen_validate_arms.

Theorem C13_gen_normalize_arms :
  normalize_arms = ["I64/"; "F32/"; "Vector/"; "Array/"; "Json/"; "Map/"; "Option/guarded"]%string /\
  normalize_guards = ["<= i64::MAX"; "is_f32_read_back("; "<= u16::MAX"]%string /\
  prune_arms = ["Array/"; "Map/guarded"; "Option/guarded"]%string.
Proof. repeat split; reflexivity. Qed.
Print Assumptions C13_gen_normalize_arms.

(* inner structure of the composite arms of prune_undeclared_at / normalize_at: arrays dispatch on the number of
   element types (none: untouched; one: EVERY element with that type; several: pairwise), maps on
   wildcard / keyed (prune retains exactly the declared keys) — the shape Schema.Model transcribes *)
Theorem C13_gen_composite_arms :
  prune_array_shape = ["match types.len()"; "arm 0"; "arm 1"; "arm _"; "every element with types[0]"; "zip types values";
                       "recursive calls 2"]%string /\
  normalize_array_shape = prune_array_shape /\
  prune_map_shape = ["as_wildcard_map"; "wildcard: every value"; "retain declared keys"; "keyed: types.get(k)";
                     "recursive calls 2"]%string /\
  normalize_map_shape = ["as_wildcard_map"; "wildcard: every value"; "keyed: types.get(k)"; "recursive calls 2"]%string.
Proof. repeat split; reflexivity. Qed.
Print Assumptions C13_gen_composite_arms.

Theorem C13_gen_step_orders :
  validate_steps = ["validate_complexity"; "validate_inner"]%string /\
  try_from_doc_steps = ["drop_retired_fields"; "normalize_fields"; "schema.validate"]%string /\
  set_doc_steps = ["drop_retired_fields"; "normalize_fields"; "schema.validate"]%string /\
  normalize_fields_steps = ["prune_undeclared"; ".normalize("]%string /\
  set_field_steps = [".normalize("; "field.validate("; "self.fields.insert("]%string /\
  drop_retired_test = ">= allocated_end"%string /\
  conv_depth_test = "depth > MAX_CONVERSION_DEPTH"%string.
Proof. repeat split; reflexivity. Qed.
Print Assumptions C13_gen_step_orders.

Theorem C13_gen_complexity_checks :
  complexity_checks = ["nodes > budget.max_nodes"; "depth > budget.max_depth"; "values.len() > budget.max_array_len";
                       "values.len() > budget.max_map_entries"]%string /\ complexity_depth_steps = 5.
Proof. split; reflexivity. Qed.
Print Assumptions C13_gen_complexity_checks.

Theorem C13_gen_upgrade_facts :
  upgrade_facts = ["alloc_from_watermark=yes"; "new_must_be_optional=yes"; "inherit_idx=yes"; "assign_next=yes"; "carry_watermark=yes";
                   "version_must_grow=yes"; "compat_checked=yes"; "watermark_is_max_of_next_idx_and_last=yes"]%string.
Proof. reflexivity. Qed.
Print Assumptions C13_gen_upgrade_facts.

(* ------------------------------------------------------------------ what is false of the code as it is *)
(* Outside the declared variant the write path accepts values the read path rejects: a Vector at a
   position without a declared element type is one leaf for the budget when written, and an array
   one level deeper when read back (known finding, class untyped-vector-unreadable). *)
Theorem C13_accepted_always_readable_refuted :
  exists (t : ftype) (v : fvalue),
    let F := fops_of ([], []) in
    entry_validate F gen_limits t v = true /\ wf_value v = true /\
    write_read F gen_limits t v = Some None.
Proof.
  exists (TArray []), (Nat.iter 64 (fun x => VArray [x]) (VVector [16256%Z])).
  vm_compute. repeat split; reflexivity.
Qed.
Print Assumptions C13_accepted_always_readable_refuted.

(* Option(Json): the payload Json(null) is stored as CBOR null and reads back as Null, which is
   why [canon] excludes it *)
Theorem C13_option_json_null_refuted :
  exists (t : ftype) (v : fvalue),
    let F := fops_of ([], []) in
    write_read F gen_limits t v = Some (Some VNull) /\ v <> VNull.
Proof. exists (TOption TJson), (VJson JNull). vm_compute. split; [reflexivity | discriminate]. Qed.
Print Assumptions C13_option_json_null_refuted.

(* Nested keys have no retirement watermark: a key removed from a nested struct and re-added later with
   another type meets the stale entry of a document that was never rewritten.  Both steps are permitted
   upgrades, the document reads under v2, and is rejected under v3 (known finding nested-key-readd-stale). *)
Theorem C13_nested_key_readd_refuted :
  exists (t1 t2 t3 : ftype) (v : fvalue),
    let F := fops_of ([], []) in
    compat_ne t2 t1 = true /\ compat_ne t3 t2 = true /\
    canon t1 v = true /\ entry_validate F gen_limits t1 v = true /\
    (exists r, readback F v = Some r /\
       entry_validate F gen_limits t2 (read_norm F gen_limits t2 r) = true /\
       entry_validate F gen_limits t3 (read_norm F gen_limits t3 r) = false).
Proof.
  exists (TArray [TMap [(KText "note", TOption TText); (KText "sku", TText)]])%string,
         (TArray [TMap [(KText "sku", TText)]])%string,
         (TArray [TMap [(KText "note", TOption TI64); (KText "sku", TText)]])%string,
         (VArray [VMap [(KText "note", VText "fragile"); (KText "sku", VText "a-1")]])%string.
  cbv zeta. split; [vm_compute; reflexivity|]. split; [vm_compute; reflexivity|]. split; [vm_compute; reflexivity|].
  split; [vm_compute; reflexivity|].
  exists (VArray [VMap [(KText "note", VText "fragile"); (KText "sku", VText "a-1")]])%string.
  vm_compute. repeat split; reflexivity.
Qed.
Print Assumptions C13_nested_key_readd_refuted.

(* ------------------------------------------------------------------ non-vacuity *)
Example C13_roundtrip_nonvacuous :
  let t := TMap [(KText "score", TF32); (KText "tags", TArray [TOption TI64]); (KText "v", TVector)]%string in
  let v := VMap [(KText "score", VF32 1076719780%Z); (KText "tags", VArray [VI64 5%Z; VNull; VI64 (-5)%Z]);
                 (KText "v", VVector [16256%Z; 0%Z])]%string in
  let F := fops_of ([(1076719780, 4613303441197561744)], [(4613303441197561744, (true, 1076719780))])%Z in
  canon t v = true /\ wf_value v = true /\ entry_validate F gen_limits t v = true /\
  readback F v = Some (VMap [(KText "score", VF64 4613303441197561744%Z); (KText "tags", VArray [VU64 5%Z; VNull; VI64 (-5)%Z]);
                             (KText "v", VArray [VU64 16256%Z; VU64 0%Z])]%string) /\
  write_read F gen_limits t v = Some (Some v).
Proof. vm_compute. repeat split; reflexivity. Qed.

Example C13_rejects_nonvacuous :
  Violates (fops_of ([], [])) gen_limits (TArray [TI64; TText]) (VArray [VI64 1%Z]) /\
  Violates (fops_of ([], [])) gen_limits (TMap [(KText "a", TBool)]%string) (VMap [(KText "a", VBool true); (KText "b", VNull)]%string).
Proof.
  split; apply V_type.
  - apply VI_tuple_arity. cbn. discriminate.
  - apply VI_undeclared_key with (k := KText "b"); [split; [discriminate | reflexivity] | cbn; auto | reflexivity].
Qed.

Example C13_upgrade_nonvacuous :
  let e n t i := {| e_name := n; e_type := t; e_unique := false; e_idx := i |} in
  let v1 := {| s_fields := [e "_id" TU64 0; e "a" TText 1; e "b" (TOption TI64) 2]; s_version := 1; s_next := 3 |}%string in
  let v2 := {| s_fields := [e "_id" TU64 0; e "a" TText 1]; s_version := 2; s_next := 0 |}%string in
  let v3 := {| s_fields := [e "_id" TU64 0; e "a" TText 1; e "b" (TOption TI64) 2]; s_version := 3; s_next := 0 |}%string in
  exists s2 s3, upgrade_with v2 v1 = Some s2 /\ upgrade_with v3 s2 = Some s3 /\
    contains_idx s2 2 = false /\ contains_idx s3 2 = false /\ map e_idx (s_fields s3) = [0; 1; 3].
Proof. vm_compute. eexists; eexists. repeat split; reflexivity. Qed.
