(* C13 — the typed write path: FieldType::extract (Cbor -> FieldValue, type driven),
   FieldValue::try_from (shape driven), json_from, and what Document::try_from does with one field.
   Transcribes field.rs extract_at / array_from_at / map_from_at / try_from_at / *_from.  No proofs. *)
From Coq Require Import List ZArith Bool String Arith.
From Verif Require Import Schema.Model.
Import ListNotations.
Open Scope list_scope.

(* cbor2::Value as produced by serde serialisation of a document (tags and exotic simple values: COther) *)
Inductive cbor :=
| CBool (b : bool) | CInt (z : Z) | CFloat (bits : Z) | CBytes (b : list Z) | CText (s : string)
| CArray (l : list cbor)
| CMap (m : list (cbor * cbor))
| CNull | COther.

Definition inf32 (b : Z) : bool := (b mod 2147483648 =? 2139095040)%Z.

(* TryFrom<Value> for FieldKey *)
Definition key_of (c : cbor) : option fkey :=
  match c with
  | CText s => Some (KText s)
  | CInt z => if in_i64 z then Some (KI64 z) else None
  | CBytes b => Some (KBytes b)
  | _ => None
  end.

Fixpoint nodup_keys {V} (m : list (fkey * V)) : bool :=
  match m with
  | [] => true
  | (k, _) :: r => negb (mem_key k r) && nodup_keys r
  end.

Section Extract.
Variable F : fops.
Variable L : limits.

(* Value::deserialized::<serde_json::Value>() *)
Fixpoint cbor_to_json (c : cbor) : option json :=
  match c with
  | CNull => Some JNull
  | CBool b => Some (JBool b)
  | CInt z => if (0 <=? z)%Z then (if in_u64 z then Some (JU z) else None)
              else (if in_i64 z then Some (JI z) else None)
  | CFloat x => Some (jfloat x)
  | CText s => Some (JStr s)
  | CBytes _ => None
  | CArray l => option_map JArr (mapM cbor_to_json l)
  | CMap m => option_map JObj
                (mapM (fun kv => match fst kv with
                                 | CText s => option_map (fun j => (s, j)) (cbor_to_json (snd kv))
                                 | _ => None
                                 end) m)
  | COther => None
  end.

(* FieldValue::try_from_at *)
Fixpoint try_from_at (d : nat) (c : cbor) : option fvalue :=
  if too_deep L d then None else
  match c with
  | CBool b => Some (VBool b)
  | CInt z => if (0 <=? z)%Z then (if in_u64 z then Some (VU64 z) else None)
              else (if in_i64 z then Some (VI64 z) else None)
  | CFloat x => if nan64 x then None else Some (VF64 x)
  | CBytes b => Some (VBytes b)
  | CText s => Some (VText s)
  | CArray l => option_map VArray (mapM (try_from_at (S d)) l)
  | CMap m =>
      match mapM (fun kv => match key_of (fst kv) with
                            | Some k => option_map (fun v => (k, v)) (try_from_at (S d) (snd kv))
                            | None => None
                            end) m with
      | Some kvs => if nodup_keys kvs then Some (VMap kvs) else None
      | None => None
      end
  | CNull => Some VNull
  | COther => None
  end.

Definition byte_of (c : cbor) : option Z :=
  match c with CInt z => if (0 <=? z)%Z && (z <=? 255)%Z then Some z else None | _ => None end.
Definition bf16_of (c : cbor) : option Z :=
  match c with CInt z => if in_u16 z then Some z else None | _ => None end.

Definition zip_mapM {A B} (f : ftype -> A -> option B) : list ftype -> list A -> option (list B) :=
  fix go (ts : list ftype) (l : list A) : option (list B) :=
    match ts, l with
    | [], [] => Some []
    | ft :: ts', x :: l' =>
        match f ft x with
        | Some y => match go ts' l' with Some ys => Some (y :: ys) | None => None end
        | None => None
        end
    | _, _ => None
    end.

(* FieldType::extract_at *)
Fixpoint extract_at (t : ftype) (d : nat) (c : cbor) {struct t} : option fvalue :=
  if too_deep L d then None else
  match t with
  | TBool => match c with CBool b => Some (VBool b) | _ => None end
  | TI64 => match c with CInt z => if in_i64 z then Some (VI64 z) else None | _ => None end
  | TU64 => match c with CInt z => if in_u64 z then Some (VU64 z) else None | _ => None end
  | TF64 => match c with CFloat x => if nan64 x then None else Some (VF64 x) | _ => None end
  | TF32 => match c with
            | CFloat x => if nan64 x then None
                          else let v := narrow F x in
                               if inf32 v && finite64 x then None else Some (VF32 v)
            | _ => None
            end
  | TBytes => match c with
              | CBytes b => Some (VBytes b)
              | CArray l => option_map VBytes (mapM byte_of l)
              | _ => None
              end
  | TText => match c with CText s => Some (VText s) | _ => None end
  | TJson => option_map VJson (cbor_to_json c)
  | TVector => match c with CArray l => option_map VVector (mapM bf16_of l) | _ => None end
  | TArray ts =>
      match c with
      | CArray l =>
          match ts with
          | [] => option_map VArray (mapM (try_from_at (S d)) l)
          | [ft] => option_map VArray (mapM (extract_at ft (S d)) l)
          | _ => option_map VArray (zip_mapM (fun ft => extract_at ft (S d)) ts l)
          end
      | _ => None
      end
  | TMap m =>
      match c with
      | CMap kvs =>
          let conv (f : fkey -> cbor -> option fvalue) :=
            mapM (fun kv => match key_of (fst kv) with
                            | Some k => option_map (fun v => (k, v)) (f k (snd kv))
                            | None => None
                            end) kvs in
          let keyed :=
            match conv (fun k x => with_type (fun ft => extract_at ft (S d) x) None k m) with
            | Some vals =>
                if nodup_keys vals &&
                   all_types (fun k ft => mem_key k vals || (vshape_ok L 0 VNull && validate_inner F ft VNull)) m
                then Some (VMap vals) else None
            | None => None
            end in
          match m with
          | [] => match conv (fun _ x => try_from_at (S d) x) with
                  | Some vals => if nodup_keys vals then Some (VMap vals) else None
                  | None => None
                  end
          | [(wk, ft)] =>
              if is_wild wk
              then match conv (fun k x => if key_kind k =? key_kind wk then extract_at ft (S d) x else None) with
                   | Some vals => if nodup_keys vals then Some (VMap vals) else None
                   | None => None
                   end
              else keyed
          | _ => keyed
          end
      | _ => None
      end
  | TOption ft => match c with CNull => Some VNull | _ => extract_at ft d c end
  end.

(* one field through Document::try_from: FieldEntry::extract(v, false) then validate_complexity *)
Definition typed_write (t : ftype) (c : cbor) : option fvalue :=
  match extract_at t 0 c with
  | Some v => if complexity_ok L v then Some v else None
  | None => None
  end.

End Extract.

(* From<FieldValue> for Cbor (field_value_to_cbor, json_to_cbor_at), without the depth cut-off:
   used by the harness-side cases, which stay far below MAX_CONVERSION_DEPTH *)
Fixpoint json_to_cbor (j : json) : cbor :=
  match j with
  | JNull => CNull
  | JBool b => CBool b
  | JU n | JI n => CInt n
  | JF x => CFloat x
  | JStr s => CText s
  | JArr l => CArray (map json_to_cbor l)
  | JObj m => CMap (map (fun kv => (CText (fst kv), json_to_cbor (snd kv))) m)
  end.

Definition key_to_cbor (k : fkey) : cbor :=
  match k with KText s => CText s | KI64 z => CInt z | KBytes b => CBytes b end.

Fixpoint to_cbor (F : fops) (v : fvalue) : cbor :=
  match v with
  | VBool b => CBool b
  | VI64 z | VU64 z => CInt z
  | VF64 x => CFloat x
  | VF32 x => CFloat (widen F x)
  | VBytes b => CBytes b
  | VText s => CText s
  | VJson j => json_to_cbor j
  | VVector l => CArray (map CInt l)
  | VArray l => CArray (map (to_cbor F) l)
  | VMap m => CMap (map (fun kv => (key_to_cbor (fst kv), to_cbor F (snd kv))) m)
  | VNull => CNull
  end.
