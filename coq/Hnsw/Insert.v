(* C12 — insert, and histories of inserts and removes.

   What the search theorem needs from insert: NOTHING.  [C12_search_sound] holds for any
   graph whatsoever, so neither the chosen layer, nor the outcome of search_layer /
   select_neighbors during construction, nor the pruning of over-full neighbour lists can
   affect soundness; they only affect recall.  insert is therefore modelled with those
   three ingredients as arbitrary parameters, and what is proved is that it keeps
   [nodes] and [ids] in step, so that [remove_unreachable] and [load_bounded] compose
   over whole histories. *)
From Coq Require Import List ZArith Bool Arith Lia.
From Verif Require Import Hnsw.Model Hnsw.Proofs.
Import ListNotations.
Open Scope list_scope.

Inductive ins_result := InsOk | InsDimension | InsNotFinite | InsAlreadyExists.

Section Insert.
  (* arbitrary outcome of layer_gen.generate, of the construction searches (the new node's
     edge lists and the set of neighbours that get a reverse edge), and of the in-place
     rewrite (push + optional prune) of each such neighbour *)
  Variable layer_of : index -> Z -> nat.
  Variable edges_of : index -> Z -> list (list Z).
  Variable touched : index -> Z -> list Z.
  Variable rewrite : Z -> Z -> node -> node.     (* new id, neighbour id, its node *)

  (* Phase 3: `for (neighbor_id, updates) in neighbor_updates_required` *)
  Definition ins_step (id : Z) (acc : cgraph * list Z) (nid : Z) : cgraph * list Z :=
    let '(g, dirty) := acc in
    match clookup g nid with
    | Some n => (cinsert g nid (rewrite id nid n), nid :: dirty)
    | None => (g, dirty)
    end.

  (* self-heal of a stale entry point at the start of insert *)
  Definition entry_healed (ix : index) : Z * nat :=
    match ix_nodes ix with
    | [] => ix_entry ix
    | _ => match clookup (ix_nodes ix) (fst (ix_entry ix)) with
           | None => repair_entry (ix_nodes ix)
           | Some _ => ix_entry ix
           end
    end.

  (* `if nodes.is_empty()`: the first node becomes the entry point *)
  Definition insert_first (ix0 : index) (id : Z) : index :=
    let layer := layer_of ix0 id in
    mkIndex [(id, mkNode layer (repeat [] (S layer)))] (id :: zremove id (ix_ids ix0)) (id, layer)
            (zremove id (ix_removed ix0)) (id :: ix_dirty ix0).

  (* phases 1-4 on a non-empty graph *)
  Definition insert_rest (ix0 : index) (id : Z) : index :=
    let layer := layer_of ix0 id in
    let entry0 := ix_entry ix0 in
    let nodes1 := cinsert (ix_nodes ix0) id (mkNode layer (edges_of ix0 id)) in
    let entry1 :=
      if Nat.ltb (snd entry0) layer then (id, layer) else
      match clookup nodes1 (fst entry0) with
      | None => (id, layer)
      | Some _ => entry0
      end in
    let nd := fold_left (ins_step id) (touched ix0 id) (nodes1, [id]) in
    mkIndex (fst nd) (id :: zremove id (ix_ids ix0)) entry1 (zremove id (ix_removed ix0))
            (snd nd ++ ix_dirty ix0).

  Definition insert (ix : index) (id : Z) (dim_ok finite_ok : bool) : index * ins_result :=
    if negb dim_ok then (ix, InsDimension) else
    if negb finite_ok then (ix, InsNotFinite) else
    match clookup (ix_nodes ix) id with
    | Some _ => (ix, InsAlreadyExists)
    | None =>
      let ix0 := mkIndex (ix_nodes ix) (ix_ids ix) (entry_healed ix) (ix_removed ix) (ix_dirty ix) in
      match ix_nodes ix with
      | [] => (insert_first ix0 id, InsOk)
      | _ => (insert_rest ix0 id, InsOk)
      end
    end.

  Lemma ins_step_dom id g dirty nid g' dirty' j :
    ins_step id (g, dirty) nid = (g', dirty') -> (clookup g' j = None <-> clookup g j = None).
  Proof.
    unfold ins_step. destruct (clookup g nid) as [n|] eqn:El.
    - intros E; inversion E; subst. destruct (Z.eq_dec j nid) as [->|Hne].
      + rewrite clookup_cinsert_same, El. split; discriminate.
      + rewrite clookup_cinsert_other by exact Hne. tauto.
    - intros E; inversion E; subst. tauto.
  Qed.

  Lemma ins_fold_dom id nids : forall g dirty g' dirty' j,
    fold_left (ins_step id) nids (g, dirty) = (g', dirty') ->
    (clookup g' j = None <-> clookup g j = None).
  Proof.
    induction nids as [|nid t IH]; cbn [fold_left]; intros g dirty g' dirty' j E.
    - inversion E; subst. tauto.
    - destruct (ins_step id (g, dirty) nid) as [g1 d1] eqn:Es.
      rewrite (IH _ _ _ _ j E). eapply ins_step_dom; eauto.
  Qed.

  Definition after_insert (ix : index) (id : Z) (ix' : index) : Prop :=
    (forall j, clookup (ix_nodes ix') j <> None <-> j = id \/ clookup (ix_nodes ix) j <> None)
    /\ (forall j, In j (ix_ids ix') <-> j = id \/ In j (ix_ids ix))
    /\ clookup (ix_nodes ix') (fst (ix_entry ix')) <> None
    /\ ~ In id (ix_removed ix').

  Lemma ids_after j id l : In j (id :: zremove id l) <-> j = id \/ In j l.
  Proof.
    simpl. rewrite zremove_In. split.
    - intros [H|[H _]]; auto.
    - intros [H|H]; [auto|]. destruct (Z.eq_dec j id); [auto | right; auto].
  Qed.

  Lemma insert_first_spec ix0 id : ix_nodes ix0 = [] -> after_insert ix0 id (insert_first ix0 id).
  Proof.
    intros He. unfold after_insert, insert_first. cbn [ix_nodes ix_ids ix_entry ix_removed fst].
    rewrite He. split; [|split; [|split]].
    - intros j. simpl. destruct (Z.eqb id j) eqn:Ej.
      + apply Z.eqb_eq in Ej. subst. split; [auto | congruence].
      + apply Z.eqb_neq in Ej.
        split; [intros H; exfalso; apply H; reflexivity
               | intros [H|H]; [congruence | exfalso; apply H; reflexivity]].
    - intros j. apply ids_after.
    - simpl. rewrite Z.eqb_refl. congruence.
    - apply zremove_not_In.
  Qed.

  Lemma insert_rest_spec ix0 id : after_insert ix0 id (insert_rest ix0 id).
  Proof.
    unfold after_insert, insert_rest. cbn [ix_nodes ix_ids ix_entry ix_removed].
    set (nodes1 := cinsert (ix_nodes ix0) id (mkNode (layer_of ix0 id) (edges_of ix0 id))).
    destruct (fold_left (ins_step id) (touched ix0 id) (nodes1, [id])) as [nodes2 dirty] eqn:Ef.
    cbn [fst snd].
    assert (Hdom : forall j, clookup nodes2 j = None <-> clookup nodes1 j = None)
      by (intros j; eapply ins_fold_dom; exact Ef).
    split; [|split; [|split]].
    - intros j. destruct (Z.eq_dec j id) as [->|Hne].
      + split; [auto|]. intros _ H. apply Hdom in H. unfold nodes1 in H.
        rewrite clookup_cinsert_same in H. discriminate.
      + split.
        * intros H. right. intros H'. apply H. apply Hdom. unfold nodes1.
          rewrite clookup_cinsert_other by exact Hne. exact H'.
        * intros [H|H]; [contradiction|]. intros H'. apply Hdom in H'. unfold nodes1 in H'.
          rewrite clookup_cinsert_other in H' by exact Hne. contradiction.
    - intros j. apply ids_after.
    - destruct (Nat.ltb (snd (ix_entry ix0)) (layer_of ix0 id)).
      + simpl. intros H. apply Hdom in H. unfold nodes1 in H. rewrite clookup_cinsert_same in H. discriminate.
      + destruct (clookup nodes1 (fst (ix_entry ix0))) eqn:Ee.
        * intros H. apply Hdom in H. congruence.
        * simpl. intros H. apply Hdom in H. unfold nodes1 in H. rewrite clookup_cinsert_same in H. discriminate.
    - apply zremove_not_In.
  Qed.

  Lemma insert_spec ix id d f ix' r :
    insert ix id d f = (ix', r) ->
    (r <> InsOk /\ ix' = ix) \/ (r = InsOk /\ clookup (ix_nodes ix) id = None /\ after_insert ix id ix').
  Proof.
    unfold insert. destruct d; simpl; [|intros E; inversion E; subst; left; split; [discriminate|reflexivity]].
    destruct f; simpl; [|intros E; inversion E; subst; left; split; [discriminate|reflexivity]].
    destruct (clookup (ix_nodes ix) id) eqn:El;
      [intros E; inversion E; subst; left; split; [discriminate|reflexivity]|].
    set (ix0 := mkIndex (ix_nodes ix) (ix_ids ix) (entry_healed ix) (ix_removed ix) (ix_dirty ix)).
    assert (H0 : after_insert ix id (insert_rest ix0 id)) by (exact (insert_rest_spec ix0 id)).
    assert (H1 : ix_nodes ix = [] -> after_insert ix id (insert_first ix0 id))
      by (intros He; exact (insert_first_spec ix0 id He)).
    clearbody ix0.
    destruct (ix_nodes ix) eqn:En; intros E; inversion E; subst; clear E;
      right; (split; [reflexivity|]); (split; [reflexivity|]).
    - apply H1. reflexivity.
    - exact H0.
  Qed.

  (* ---------------------------------------------------------------- histories *)

  Variable relink : Z -> nat -> list Z -> list Z.

  Inductive op := OpInsert (id : Z) (dim_ok finite_ok : bool) | OpRemove (id : Z).

  Definition apply_op (ix : index) (o : op) : index :=
    match o with
    | OpInsert id d f => fst (insert ix id d f)
    | OpRemove id => fst (remove relink ix id)
    end.
  Definition run_ops (ix : index) (ops : list op) : index := fold_left apply_op ops ix.

  (* nodes and ids in step, entry point live unless empty *)
  Definition wf (ix : index) : Prop :=
    (forall j, clookup (ix_nodes ix) j <> None <-> In j (ix_ids ix))
    /\ (ix_nodes ix = [] \/ clookup (ix_nodes ix) (fst (ix_entry ix)) <> None).

  Lemma not_none_iff (a b : option node) : (a = None <-> b = None) -> (a <> None <-> b <> None).
  Proof. tauto. Qed.

  Lemma apply_op_wf ix o : wf ix -> wf (apply_op ix o).
  Proof.
    intros [Hstep Hentry]. destruct o as [id d f|id]; simpl.
    - destruct (insert ix id d f) as [ix' r] eqn:E. simpl.
      destruct (insert_spec _ _ _ _ _ _ E) as [[_ ->]|[_ [_ [A [B [C _]]]]]]; [split; assumption|].
      split.
      + intros j. rewrite A, B, Hstep. tauto.
      + right. exact C.
    - destruct (remove relink ix id) as [ix' b] eqn:E. simpl.
      destruct (remove_spec _ _ _ _ _ E) as [[_ [-> _]]|[Hb [A [B [C [D F]]]]]]; [split; assumption|].
      split.
      + intros j. destruct (Z.eq_dec j id) as [->|Hne].
        * split; [intros H; contradiction | intros H; contradiction].
        * rewrite (not_none_iff _ _ (C j Hne)), (D j Hne). apply Hstep.
      + destruct F as [F|[F|F]]; [left; exact F | | right; exact F].
        destruct Hentry as [He|He]; [|contradiction].
        (* nodes were empty: remove cannot have returned true *)
        exfalso. unfold remove in E. rewrite He in E. simpl in E. inversion E. congruence.
  Qed.

  Theorem history_wf ops : forall ix, wf ix -> wf (run_ops ix ops).
  Proof.
    induction ops as [|o t IH]; simpl; intros ix H; [exact H|]. apply IH. apply apply_op_wf. exact H.
  Qed.

  Lemma wf_empty e r : wf (mkIndex [] [] e r []).
  Proof. split; simpl; [intros j; split; [congruence|tauto] | left; reflexivity]. Qed.

  Lemma wf_loaded ix : bounded ix -> wf ix.
  Proof. intros H. exact H. Qed.
End Insert.

(* search after any history over a well-formed start (the empty index, or anything
   load_all accepted for any crash prefix) only returns ids that are in [ids] *)
Section HistorySearch.
  Variable layer_of : index -> Z -> nat.
  Variable edges_of : index -> Z -> list (list Z).
  Variable touched : index -> Z -> list Z.
  Variable rewrite : Z -> Z -> node -> node.
  Variable relink : Z -> nat -> list Z -> list Z.
  Variable K : Type.
  Variable leK gtK ltK : K -> K -> bool.
  Variable kmax : K.
  Variable Q : Type.
  Variable dist : Q -> Z -> K.
  Variable q_ok : Q -> bool.
  Variables ef_search max_ef_search retries : nat.
  Hypothesis leK_total : forall a b, leK a b = false -> leK b a = true.

  Notation run := (run_ops layer_of edges_of touched rewrite relink).
  Notation csearch := (csearch K leK gtK ltK kmax Q dist q_ok ef_search max_ef_search retries).

  Theorem history_search_live ix0 ops q k rs :
    wf ix0 -> csearch (run ix0 ops) q k = Ok rs ->
    sound K leK Q dist (clookup (ix_nodes (run ix0 ops))) q k rs
    /\ forall id, In id (map fst rs) -> In id (ix_ids (run ix0 ops)).
  Proof.
    intros Hwf Es. pose proof (history_wf layer_of edges_of touched rewrite relink ops ix0 Hwf) as [Hstep _].
    pose proof (csearch_sound K leK gtK ltK kmax Q dist q_ok ef_search max_ef_search retries leK_total _ _ _ _ Es) as Hs.
    split; [exact Hs|]. intros id Hin. apply in_map_iff in Hin. destruct Hin as [[i d] [Ei Hi]]. simpl in Ei. subst i.
    destruct Hs as [_ [_ [Hs _]]]. apply Hstep. apply (Hs _ _ Hi).
  Qed.

  (* a history that ends by removing [id] never returns [id] *)
  Theorem history_removed_absent ix0 ops id q k rs :
    wf ix0 -> csearch (run ix0 (ops ++ [OpRemove id])) q k = Ok rs -> ~ In id (map fst rs).
  Proof.
    intros Hwf Es Hin. unfold run_ops in Es. rewrite fold_left_app in Es. simpl in Es.
    fold (run ix0 ops) in Es.
    destruct (remove relink (run ix0 ops) id) as [ix' b] eqn:Er. simpl in Es.
    pose proof (csearch_sound K leK gtK ltK kmax Q dist q_ok ef_search max_ef_search retries leK_total _ _ _ _ Es) as [_ [_ [Hs _]]].
    apply in_map_iff in Hin. destruct Hin as [[i d] [Ei Hi]]. simpl in Ei. subst i.
    destruct (Hs _ _ Hi) as [Hl _].
    destruct (remove_spec _ _ _ _ _ Er) as [[_ [-> Hn]]|[_ [A _]]]; contradiction.
  Qed.
End HistorySearch.
