(* C12 — pinned statements only.  Each is closed by [exact] of a lemma proved in
   Hnsw/Proofs.v and followed by Print Assumptions. *)
From Coq Require Import List ZArith Bool Arith Sorted.
From Verif Require Import Hnsw.Model Hnsw.Proofs Hnsw.Fuel Hnsw.Run gen.Gen_Hnsw.
Import ListNotations.
Open Scope list_scope.

(* Soundness of search_f32 for ANY graph: [lookup] is an arbitrary partial map (edges may
   dangle, the entry point may be stale, layers may be inconsistent), [dist] an arbitrary
   distance oracle, [gtK]/[ltK] arbitrary (the raw f32 comparisons, partial on NaN); the
   only premise is that the heap order (OrderedFloat) is total.  Whenever the model
   returns [Ok rs]: at most k results, distinct ids, every id is a key of the graph, every
   reported distance is the oracle's value for that id, distances non-decreasing. *)
Theorem C12_search_sound :
  forall (K : Type) (leK gtK ltK : K -> K -> bool) (kmax : K) (Q : Type) (dist : Q -> Z -> K)
         (q_ok : Q -> bool) (lookup : Z -> option node) (is_empty : bool) (entry : Z * nat)
         (ef_search max_ef retries fuel : nat),
    (forall a b, leK a b = false -> leK b a = true) ->
    forall (q : Q) (k : nat) (rs : list (Z * K)),
      search K leK gtK ltK kmax Q dist q_ok lookup is_empty entry ef_search max_ef retries fuel q k = Ok rs ->
      List.length rs <= k
      /\ NoDup (map fst rs)
      /\ (forall id d, In (id, d) rs -> lookup id <> None /\ d = dist q id)
      /\ Sorted (fun a b => leK a b = true) (map snd rs).
Proof. exact search_sound. Qed.
Print Assumptions C12_search_sound.

(* one layer search from any entry point: same soundness, and the beam never exceeds max(ef,1) *)
Theorem C12_search_layer_sound :
  forall (K : Type) (leK gtK ltK : K -> K -> bool) (Q : Type) (dist : Q -> Z -> K)
         (lookup : Z -> option node) (fuel : nat),
    (forall a b, leK a b = false -> leK b a = true) ->
    forall q ep epl layer ef rs,
      search_layer K leK gtK ltK Q dist lookup fuel q ep epl layer ef = Ok rs ->
      (forall e, In e rs -> lookup (e_id K e) <> None /\ e_dist K e = dist q (e_id K e))
      /\ NoDup (map (e_id K) rs)
      /\ Sorted (fun a b => le_res K leK a b = true) rs
      /\ List.length rs <= Nat.max ef 1.
Proof.
  intros K leK gtK ltK Q dist lookup fuel Ht q ep epl layer ef rs E.
  assert (P : layer_post K leK Q dist lookup q rs) by (eapply search_layer_post; eauto).
  destruct P as [A [B C]].
  repeat split; try assumption; try (apply A; assumption).
  eapply search_layer_len; eauto.
Qed.
Print Assumptions C12_search_layer_sound.

(* load_nodes over ANY ids bitmap and ANY mixture of node blobs (missing, undecodable,
   invalid, valid; of any generation): whatever it accepts has nodes = ids and an entry
   point that is a node (or the index is empty). *)
Theorem C12_load_bounded :
  forall cfg entry0 removed0 ids fetch ix,
    load_nodes cfg entry0 removed0 ids fetch = Some ix ->
    (forall j, clookup (ix_nodes ix) j <> None <-> In j (ix_ids ix))
    /\ (ix_nodes ix = [] \/ clookup (ix_nodes ix) (fst (ix_entry ix)) <> None).
Proof. exact load_nodes_bounded. Qed.
Print Assumptions C12_load_bounded.

(* every crash prefix (first k writes) of ANY sequence of node/ids/metadata/delete writes
   over ANY previous disk state *)
Theorem C12_crash_prefix_load_bounded :
  forall cfg (d : disk) (ws : list write) (k : nat) ix,
    load_all cfg (crash d ws k) = Some ix ->
    (forall j, clookup (ix_nodes ix) j <> None <-> In j (ix_ids ix))
    /\ (ix_nodes ix = [] \/ clookup (ix_nodes ix) (fst (ix_entry ix)) <> None).
Proof. exact crash_prefix_load_bounded. Qed.
Print Assumptions C12_crash_prefix_load_bounded.

(* in particular for the write sequence of the code's flush, in the order the translator
   extracted from flush_with / Hnsw::flush *)
Theorem C12_flush_crash_prefix_search_sound :
  forall (K : Type) (leK gtK ltK : K -> K -> bool) (kmax : K) (Q : Type) (dist : Q -> Z -> K)
         (q_ok : Q -> bool) (ef_search max_ef retries : nat),
    (forall a b, leK a b = false -> leK b a = true) ->
    forall cfg d nodes ids entry removed purge kc ix q k rs,
      load_all cfg (crash d (flush_writes (flush_with_order ++ wrapper_flush_order) nodes ids entry removed purge) kc)
        = Some ix ->
      csearch K leK gtK ltK kmax Q dist q_ok ef_search max_ef retries ix q k = Ok rs ->
      List.length rs <= k /\ NoDup (map fst rs)
      /\ (forall id, In id (map fst rs) -> In id (ix_ids ix) /\ clookup (ix_nodes ix) id <> None)
      /\ (forall id dd, In (id, dd) rs -> dd = dist q id)
      /\ Sorted (fun a b => leK a b = true) (map snd rs).
Proof.
  intros K leK gtK ltK kmax Q dist q_ok ef_search max_ef retries Ht cfg d nodes ids entry removed purge
         kc ix q k rs El Es.
  destruct (load_then_search K leK gtK ltK kmax Q dist q_ok ef_search max_ef retries Ht _ _ _ _ _ _ _ _ El Es)
    as [[A [B [C D]]] I].
  split; [exact A|]. split; [exact B|]. split; [|split; [|exact D]].
  - intros id H. split; [apply I; exact H|].
    apply in_map_iff in H. destruct H as [[i dd] [Ei Hi]]. simpl in Ei. subst i.
    apply (C _ _ Hi).
  - intros id dd H. apply (C _ _ H).
Qed.
Print Assumptions C12_flush_crash_prefix_search_sound.

(* edges may dangle after a load, but never to an id of the bitmap whose blob was missing *)
Theorem C12_load_no_edge_to_missing :
  forall cfg entry0 removed0 ids fetch ix,
    load_nodes cfg entry0 removed0 ids fetch = Some ix ->
    forall j n l x, clookup (ix_nodes ix) j = Some n -> In l (n_nbrs n) -> In x l ->
                    In x ids -> fetch_missing (fetch x) = false.
Proof. exact load_nodes_no_edge_to_missing. Qed.
Print Assumptions C12_load_no_edge_to_missing.

Theorem C12_load_nodes_validated :
  forall cfg entry0 removed0 ids fetch ix,
    load_nodes cfg entry0 removed0 ids fetch = Some ix ->
    forall j n, clookup (ix_nodes ix) j = Some n ->
      n_layer n < c_max_layers cfg /\ List.length (n_nbrs n) = S (n_layer n).
Proof. exact load_nodes_valid. Qed.
Print Assumptions C12_load_nodes_validated.

(* remove(id) = true: id is no key of nodes, not in ids, never returned by any later search
   (for any re-link strategy); every other id keeps its membership *)
Theorem C12_remove_unreachable :
  forall (K : Type) (leK gtK ltK : K -> K -> bool) (kmax : K) (Q : Type) (dist : Q -> Z -> K)
         (q_ok : Q -> bool) (ef_search max_ef retries : nat),
    (forall a b, leK a b = false -> leK b a = true) ->
    forall relink ix id ix',
      remove relink ix id = (ix', true) ->
      clookup (ix_nodes ix') id = None /\ ~ In id (ix_ids ix') /\
      forall q k rs, csearch K leK gtK ltK kmax Q dist q_ok ef_search max_ef retries ix' q k = Ok rs ->
                     ~ In id (map fst rs).
Proof. exact remove_unreachable. Qed.
Print Assumptions C12_remove_unreachable.

Theorem C12_remove_frame :
  forall relink ix id ix' b,
    remove relink ix id = (ix', b) ->
    (b = false /\ ix' = ix /\ clookup (ix_nodes ix) id = None)
    \/ (b = true
        /\ (forall j, j <> id -> (clookup (ix_nodes ix') j = None <-> clookup (ix_nodes ix) j = None))
        /\ (forall j, j <> id -> (In j (ix_ids ix') <-> In j (ix_ids ix)))
        /\ (ix_nodes ix' = [] \/ clookup (ix_nodes ix) (fst (ix_entry ix)) = None
            \/ clookup (ix_nodes ix') (fst (ix_entry ix')) <> None)).
Proof.
  intros relink ix id ix' b E. destruct (remove_spec relink _ _ _ _ E) as [H|[Hb [_ [_ [A [B C]]]]]].
  - left. exact H.
  - right. auto.
Qed.
Print Assumptions C12_remove_frame.

(* the model's fuel (S |nodes| pops per layer search) always suffices on a stored graph:
   OutOfFuel is not an outcome, so the soundness statements cover every search that
   returns Ok and the only other outcomes are the code's own errors *)
Theorem C12_search_terminates_within_fuel :
  forall (K : Type) (leK gtK ltK : K -> K -> bool) (kmax : K) (Q : Type) (dist : Q -> Z -> K)
         (q_ok : Q -> bool) (ef_search max_ef retries : nat) (ix : index) (q : Q) (k : nat),
    csearch K leK gtK ltK kmax Q dist q_ok ef_search max_ef retries ix q k <> OutOfFuel.
Proof. exact csearch_never_out_of_fuel. Qed.
Print Assumptions C12_search_terminates_within_fuel.

(* generated facts: the code as it is now *)
Theorem C12_gen_flush_order :
  flush_with_order = [FNodes; FIds; FMeta; FCommit] /\ wrapper_flush_order = [FCommit; FPurge].
Proof. split; reflexivity. Qed.
Print Assumptions C12_gen_flush_order.

Theorem C12_gen_validate_order :
  validate_order = [VId; VDimension; VLayer; VNeighborLayers; VVectorFinite; VEdgeFinite]
  /\ entry_layer_clamped = true.
Proof. split; reflexivity. Qed.
Print Assumptions C12_gen_validate_order.

Theorem C12_gen_search_constants :
  1 <= search_max_attempts /\ 1 <= max_ef_search.
Proof. vm_compute. split; repeat constructor. Qed.
Print Assumptions C12_gen_search_constants.

(* the integer-key instance used by the correspondence run satisfies the premise *)
Theorem C12_run_order_total : forall a b, leZ a b = false -> leZ b a = true.
Proof. intros a b. unfold leZ. rewrite Z.leb_gt, Z.leb_le. intros H. apply Z.lt_le_incl. exact H. Qed.
Print Assumptions C12_run_order_total.

(* ---- non-vacuity ---- *)

(* a graph with a dangling edge (to 9), a stale duplicate edge and two layers: the search
   returns the two nearest live nodes in order and never the dead id *)
Example C12_search_nonvacuous :
  let ns : list jnode := [(1, 1, [[2; 9; 3]; [3]]); (2, 0, [[1; 3; 3]]); (3, 1, [[1; 2; 9]; [1]])]%Z in
  run_search (node_map ns) 3 (1, 1)%Z 4%Z (true, key_table ns [50; 20; 30]%Z) 2%Z
  = Ok [(2, 20); (3, 30)]%Z.
Proof. vm_compute. reflexivity. Qed.

(* a crash prefix: the old bitmap lists 1,2,3; node 2's blob is missing, node 3 was
   rewritten with an edge to the not-yet-listed node 4; the recorded entry (2) is gone *)
Example C12_load_nonvacuous :
  run_load (2, 4, (2, 1), [1; 2; 3], [(3, Some (3, 1, 2, true, [[1; 2; 4]; [2]], true));
                                       (1, Some (1, 0, 2, true, [[2; 3]], true));
                                       (4, Some (4, 0, 2, true, [[3]], true))])%Z
  = Some (mkIndex [(3, mkNode 1 [[1; 4]; []]); (1, mkNode 0 [[3]])]%Z [1; 3]%Z (3%Z, 1) [] [3; 1]%Z).
Proof. vm_compute. reflexivity. Qed.

(* the runner accepts any maximal-layer node as repaired entry point, also when the model's own
   tie-break lands on the recorded entry (1) and the implementation's on another node (3) *)
Example C12_load_entry_tiebreak :
  check_load ((2, 4, (1, 1), [1; 2; 3], [(1, Some (1, 1, 2, true, [[2; 3]; [3]], true));
                                          (3, Some (3, 1, 2, true, [[1; 2]; [1]], true))]),
              Some ([1; 3], (3, 1), [(1, 1, [[3]; [3]]); (3, 1, [[1]; [1]])]))%Z = true
  /\ check_load ((2, 4, (1, 1), [1; 2; 3], [(1, Some (1, 1, 2, true, [[2; 3]; [3]], true));
                                          (3, Some (3, 0, 2, true, [[1; 2]], true))]),
              Some ([1; 3], (3, 0), [(1, 1, [[3]; [3]]); (3, 0, [[1]])]))%Z = false.
Proof. vm_compute. split; reflexivity. Qed.

Example C12_remove_nonvacuous :
  fst (run_remove ([(1, 1, [[2; 3]; [3]]); (2, 0, [[1; 3]]); (3, 1, [[1; 2]; [1]])], [1; 2; 3], (1, 1), 1)%Z)
  = mkIndex [(3, mkNode 1 [[2]; []]); (2, mkNode 0 [[3]])]%Z [2; 3]%Z (3%Z, 1) [1]%Z [3; 2]%Z.
Proof. vm_compute. reflexivity. Qed.
