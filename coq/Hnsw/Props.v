(* C12 — pinned statements only.  Each is closed by [exact] of a lemma proved in
   Hnsw/Proofs.v and followed by Print Assumptions. *)
From Coq Require Import List ZArith Bool Arith Sorted.
From Verif Require Import Hnsw.Model Hnsw.Proofs Hnsw.Fuel Hnsw.Insert Hnsw.Run gen.Gen_Hnsw.
Import ListNotations.
Open Scope list_scope.

(* Soundness of search_f32 for ANY graph: [lookup] is an arbitrary partial map (edges may
   dangle, the entry point may be stale, layers may be inconsistent), [dist] an arbitrary
   distance oracle, [gtK]/[ltK] arbitrary (the raw f32 comparisons, partial on NaN); the
   only premise is that the heap order (OrderedFloat) is total.  Whenever the model
   returns [Ok rs]: at most k results, distinct ids, every id is a key of the graph, every
   reported distance is the oracle's value for that id, distances non-decreasing. *)
Theorem C12_search_sound :
  forall (K : Type) (leK gtK ltK : K -> K -> bool) (kmax : K) (Q : Type) (dist : Q -> Z -> K)
         (q_ok : Q -> bool) (lookup : Z -> option node) (is_empty : bool) (entry : Z * nat)
         (ef_search max_ef retries fuel : nat),
    (forall a b, leK a b = false -> leK b a = true) ->
    forall (q : Q) (k : nat) (rs : list (Z * K)),
      search K leK gtK ltK kmax Q dist q_ok lookup is_empty entry ef_search max_ef retries fuel q k = Ok rs ->
      List.length rs <= k
      /\ NoDup (map fst rs)
      /\ (forall id d, In (id, d) rs -> lookup id <> None /\ d = dist q id)
      /\ Sorted (fun a b => leK a b = true) (map snd rs).
Proof. exact search_sound. Qed.
Print Assumptions C12_search_sound.

(* one layer search from any entry point: same soundness, and the beam never exceeds max(ef,1) *)
Theorem C12_search_layer_sound :
  forall (K : Type) (leK gtK ltK : K -> K -> bool) (Q : Type) (dist : Q -> Z -> K)
         (lookup : Z -> option node) (fuel : nat),
    (forall a b, leK a b = false -> leK b a = true) ->
    forall q ep epl layer ef rs,
      search_layer K leK gtK ltK Q dist lookup fuel q ep epl layer ef = Ok rs ->
      (forall e, In e rs -> lookup (e_id K e) <> None /\ e_dist K e = dist q (e_id K e))
      /\ NoDup (map (e_id K) rs)
      /\ Sorted (fun a b => le_res K leK a b = true) rs
      /\ List.length rs <= Nat.max ef 1.
Proof.
  intros K leK gtK ltK Q dist lookup fuel Ht q ep epl layer ef rs E.
  assert (P : layer_post K leK Q dist lookup q rs) by (eapply search_layer_post; eauto).
  destruct P as [A [B C]].
  repeat split; try assumption; try (apply A; assumption).
  eapply search_layer_len; eauto.
Qed.
Print Assumptions C12_search_layer_sound.

(* load_nodes over ANY ids bitmap and ANY mixture of node blobs (missing, undecodable,
   invalid, valid; of any generation): whatever it accepts has nodes = ids and an entry
   point that is a node (or the index is empty). *)
Theorem C12_load_bounded :
  forall cfg entry0 removed0 ids fetch ix,
    load_nodes cfg entry0 removed0 ids fetch = Some ix ->
    (forall j, clookup (ix_nodes ix) j <> None <-> In j (ix_ids ix))
    /\ (ix_nodes ix = [] \/ clookup (ix_nodes ix) (fst (ix_entry ix)) <> None).
Proof. exact load_nodes_bounded. Qed.
Print Assumptions C12_load_bounded.

(* every crash prefix (first k writes) of ANY sequence of node/ids/metadata/delete writes
   over ANY previous disk state *)
Theorem C12_crash_prefix_load_bounded :
  forall cfg (d : disk) (ws : list write) (k : nat) ix,
    load_all cfg (crash d ws k) = Some ix ->
    (forall j, clookup (ix_nodes ix) j <> None <-> In j (ix_ids ix))
    /\ (ix_nodes ix = [] \/ clookup (ix_nodes ix) (fst (ix_entry ix)) <> None).
Proof. exact crash_prefix_load_bounded. Qed.
Print Assumptions C12_crash_prefix_load_bounded.

(* in particular for the write sequence of the code's flush, in the order the translator
   extracted from flush_with / Hnsw::flush *)
Theorem C12_flush_crash_prefix_search_sound :
  forall (K : Type) (leK gtK ltK : K -> K -> bool) (kmax : K) (Q : Type) (dist : Q -> Z -> K)
         (q_ok : Q -> bool) (ef_search max_ef retries : nat),
    (forall a b, leK a b = false -> leK b a = true) ->
    forall cfg d nodes ids entry removed purge kc ix q k rs,
      load_all cfg (crash d (flush_writes (flush_with_order ++ wrapper_flush_order) nodes ids entry removed purge) kc)
        = Some ix ->
      csearch K leK gtK ltK kmax Q dist q_ok ef_search max_ef retries ix q k = Ok rs ->
      List.length rs <= k /\ NoDup (map fst rs)
      /\ (forall id, In id (map fst rs) -> In id (ix_ids ix) /\ clookup (ix_nodes ix) id <> None)
      /\ (forall id dd, In (id, dd) rs -> dd = dist q id)
      /\ Sorted (fun a b => leK a b = true) (map snd rs).
Proof.
  intros K leK gtK ltK kmax Q dist q_ok ef_search max_ef retries Ht cfg d nodes ids entry removed purge
         kc ix q k rs El Es.
  destruct (load_then_search K leK gtK ltK kmax Q dist q_ok ef_search max_ef retries Ht _ _ _ _ _ _ _ _ El Es)
    as [[A [B [C D]]] I].
  split; [exact A|]. split; [exact B|]. split; [|split; [|exact D]].
  - intros id H. split; [apply I; exact H|].
    apply in_map_iff in H. destruct H as [[i dd] [Ei Hi]]. simpl in Ei. subst i.
    apply (C _ _ Hi).
  - intros id dd H. apply (C _ _ H).
Qed.
Print Assumptions C12_flush_crash_prefix_search_sound.

(* edges may dangle after a load, but never to an id of the bitmap whose blob was missing *)
Theorem C12_load_no_edge_to_missing :
  forall cfg entry0 removed0 ids fetch ix,
    load_nodes cfg entry0 removed0 ids fetch = Some ix ->
    forall j n l x, clookup (ix_nodes ix) j = Some n -> In l (n_nbrs n) -> In x l ->
                    In x ids -> fetch_missing (fetch x) = false.
Proof. exact load_nodes_no_edge_to_missing. Qed.
Print Assumptions C12_load_no_edge_to_missing.

Theorem C12_load_nodes_validated :
  forall cfg entry0 removed0 ids fetch ix,
    load_nodes cfg entry0 removed0 ids fetch = Some ix ->
    forall j n, clookup (ix_nodes ix) j = Some n ->
      n_layer n < c_max_layers cfg /\ List.length (n_nbrs n) = S (n_layer n).
Proof. exact load_nodes_valid. Qed.
Print Assumptions C12_load_nodes_validated.

(* remove(id) = true: id is no key of nodes, not in ids, never returned by any later search
   (for any re-link strategy); every other id keeps its membership *)
Theorem C12_remove_unreachable :
  forall (K : Type) (leK gtK ltK : K -> K -> bool) (kmax : K) (Q : Type) (dist : Q -> Z -> K)
         (q_ok : Q -> bool) (ef_search max_ef retries : nat),
    (forall a b, leK a b = false -> leK b a = true) ->
    forall relink ix id ix',
      remove relink ix id = (ix', true) ->
      clookup (ix_nodes ix') id = None /\ ~ In id (ix_ids ix') /\
      forall q k rs, csearch K leK gtK ltK kmax Q dist q_ok ef_search max_ef retries ix' q k = Ok rs ->
                     ~ In id (map fst rs).
Proof. exact remove_unreachable. Qed.
Print Assumptions C12_remove_unreachable.

Theorem C12_remove_frame :
  forall relink ix id ix' b,
    remove relink ix id = (ix', b) ->
    (b = false /\ ix' = ix /\ clookup (ix_nodes ix) id = None)
    \/ (b = true
        /\ (forall j, j <> id -> (clookup (ix_nodes ix') j = None <-> clookup (ix_nodes ix) j = None))
        /\ (forall j, j <> id -> (In j (ix_ids ix') <-> In j (ix_ids ix)))
        /\ (ix_nodes ix' = [] \/ clookup (ix_nodes ix) (fst (ix_entry ix)) = None
            \/ clookup (ix_nodes ix') (fst (ix_entry ix')) <> None)).
Proof.
  intros relink ix id ix' b E. destruct (remove_spec relink _ _ _ _ E) as [H|[Hb [_ [_ [A [B C]]]]]].
  - left. exact H.
  - right. auto.
Qed.
Print Assumptions C12_remove_frame.

(* ---- insert and histories ----
   What search soundness needs from insert: NOTHING - C12_search_sound holds for any graph,
   so the layer drawn, the construction searches, select_neighbors (either strategy) and the
   pruning of over-full lists are arbitrary parameters of the model ([layer_of], [edges_of],
   [touched], [rewrite]); they can only affect recall.  What IS proved: insert keeps nodes and
   ids in step, so remove_unreachable and load_bounded compose over whole histories. *)
Theorem C12_insert_in_step :
  forall layer_of edges_of touched rewrite ix id dim_ok finite_ok ix' r,
    insert layer_of edges_of touched rewrite ix id dim_ok finite_ok = (ix', r) ->
    (r <> InsOk /\ ix' = ix)
    \/ (r = InsOk /\ clookup (ix_nodes ix) id = None
        /\ (forall j, clookup (ix_nodes ix') j <> None <-> j = id \/ clookup (ix_nodes ix) j <> None)
        /\ (forall j, In j (ix_ids ix') <-> j = id \/ In j (ix_ids ix))
        /\ clookup (ix_nodes ix') (fst (ix_entry ix')) <> None
        /\ ~ In id (ix_removed ix')).
Proof. exact insert_spec. Qed.
Print Assumptions C12_insert_in_step.

(* any history of inserts (accepted or refused) and removes (with any re-link), started from
   the empty index or from anything load_all accepted for any crash prefix, keeps
   nodes = ids and a live entry point *)
Theorem C12_history_in_step :
  forall layer_of edges_of touched rewrite relink ops ix,
    ((forall j, clookup (ix_nodes ix) j <> None <-> In j (ix_ids ix))
     /\ (ix_nodes ix = [] \/ clookup (ix_nodes ix) (fst (ix_entry ix)) <> None)) ->
    let ix' := run_ops layer_of edges_of touched rewrite relink ix ops in
    (forall j, clookup (ix_nodes ix') j <> None <-> In j (ix_ids ix'))
    /\ (ix_nodes ix' = [] \/ clookup (ix_nodes ix') (fst (ix_entry ix')) <> None).
Proof. intros. apply history_wf. assumption. Qed.
Print Assumptions C12_history_in_step.

Theorem C12_history_after_crash_search_live :
  forall layer_of edges_of touched rewrite relink
         (K : Type) (leK gtK ltK : K -> K -> bool) (kmax : K) (Q : Type) (dist : Q -> Z -> K)
         (q_ok : Q -> bool) (ef_search max_ef retries : nat),
    (forall a b, leK a b = false -> leK b a = true) ->
    forall cfg d ws kc ix0 ops q k rs,
      load_all cfg (crash d ws kc) = Some ix0 ->
      let ix := run_ops layer_of edges_of touched rewrite relink ix0 ops in
      csearch K leK gtK ltK kmax Q dist q_ok ef_search max_ef retries ix q k = Ok rs ->
      List.length rs <= k /\ NoDup (map fst rs)
      /\ (forall id dd, In (id, dd) rs -> In id (ix_ids ix) /\ dd = dist q id)
      /\ Sorted (fun a b => leK a b = true) (map snd rs).
Proof.
  intros layer_of edges_of touched rewrite relink K leK gtK ltK kmax Q dist q_ok ef_search max_ef retries Ht
         cfg d ws kc ix0 ops q k rs El ix Es.
  assert (Hwf : wf ix0) by (apply wf_loaded; eapply crash_prefix_load_bounded; exact El).
  destruct (history_search_live layer_of edges_of touched rewrite relink K leK gtK ltK kmax Q dist q_ok
              ef_search max_ef retries Ht ix0 ops q k rs Hwf Es) as [[A [B [C D]]] I].
  split; [exact A|]. split; [exact B|]. split; [|exact D].
  intros id dd H. split; [|apply (C _ _ H)].
  apply I. apply in_map_iff. exists (id, dd). split; [reflexivity | exact H].
Qed.
Print Assumptions C12_history_after_crash_search_live.

(* a history that ends with remove(id) never returns id, whatever came before *)
Theorem C12_history_removed_absent :
  forall layer_of edges_of touched rewrite relink
         (K : Type) (leK gtK ltK : K -> K -> bool) (kmax : K) (Q : Type) (dist : Q -> Z -> K)
         (q_ok : Q -> bool) (ef_search max_ef retries : nat),
    (forall a b, leK a b = false -> leK b a = true) ->
    forall ix0 ops id q k rs,
      ((forall j, clookup (ix_nodes ix0) j <> None <-> In j (ix_ids ix0))
       /\ (ix_nodes ix0 = [] \/ clookup (ix_nodes ix0) (fst (ix_entry ix0)) <> None)) ->
      csearch K leK gtK ltK kmax Q dist q_ok ef_search max_ef retries
              (run_ops layer_of edges_of touched rewrite relink ix0 (ops ++ [OpRemove id])) q k = Ok rs ->
      ~ In id (map fst rs).
Proof. intros. eapply history_removed_absent; eauto. Qed.
Print Assumptions C12_history_removed_absent.

(* the model's fuel (S |nodes| pops per layer search) always suffices on a stored graph:
   OutOfFuel is not an outcome, so the soundness statements cover every search that
   returns Ok and the only other outcomes are the code's own errors *)
Theorem C12_search_terminates_within_fuel :
  forall (K : Type) (leK gtK ltK : K -> K -> bool) (kmax : K) (Q : Type) (dist : Q -> Z -> K)
         (q_ok : Q -> bool) (ef_search max_ef retries : nat) (ix : index) (q : Q) (k : nat),
    csearch K leK gtK ltK kmax Q dist q_ok ef_search max_ef retries ix q k <> OutOfFuel.
Proof. exact csearch_never_out_of_fuel. Qed.
Print Assumptions C12_search_terminates_within_fuel.

(* generated facts: the code as it is now *)
Theorem C12_gen_flush_order :
  flush_with_order = [FNodes; FIds; FMeta; FCommit] /\ wrapper_flush_order = [FCommit; FPurge].
Proof. split; reflexivity. Qed.
Print Assumptions C12_gen_flush_order.

Theorem C12_gen_validate_order :
  validate_order = [VId; VDimension; VLayer; VNeighborLayers; VVectorFinite; VEdgeFinite]
  /\ entry_layer_clamped = true.
Proof. split; reflexivity. Qed.
Print Assumptions C12_gen_validate_order.

Theorem C12_gen_search_constants :
  1 <= search_max_attempts /\ 1 <= max_ef_search.
Proof. vm_compute. split; repeat constructor. Qed.
Print Assumptions C12_gen_search_constants.

(* the integer-key instance used by the correspondence run satisfies the premise *)
Theorem C12_run_order_total : forall a b, leZ a b = false -> leZ b a = true.
Proof. intros a b. unfold leZ. rewrite Z.leb_gt, Z.leb_le. intros H. apply Z.lt_le_incl. exact H. Qed.
Print Assumptions C12_run_order_total.

(* ---- non-vacuity ---- *)

(* a graph with a dangling edge (to 9), a stale duplicate edge and two layers: the search
   returns the two nearest live nodes in order and never the dead id *)
Example C12_search_nonvacuous :
  let ns : list jnode := [(1, 1, [[2; 9; 3]; [3]]); (2, 0, [[1; 3; 3]]); (3, 1, [[1; 2; 9]; [1]])]%Z in
  run_search (node_map ns) 3 (1, 1)%Z 4%Z (true, key_table ns [50; 20; 30]%Z) 2%Z
  = Ok [(2, 20); (3, 30)]%Z.
Proof. vm_compute. reflexivity. Qed.

(* a crash prefix: the old bitmap lists 1,2,3; node 2's blob is missing, node 3 was
   rewritten with an edge to the not-yet-listed node 4; the recorded entry (2) is gone *)
Example C12_load_nonvacuous :
  run_load (2, 4, (2, 1), [1; 2; 3], [(3, Some (3, 1, 2, true, [[1; 2; 4]; [2]], true));
                                       (1, Some (1, 0, 2, true, [[2; 3]], true));
                                       (4, Some (4, 0, 2, true, [[3]], true))])%Z
  = Some (mkIndex [(3, mkNode 1 [[1; 4]; []]); (1, mkNode 0 [[3]])]%Z [1; 3]%Z (3%Z, 1) [] [3; 1]%Z).
Proof. vm_compute. reflexivity. Qed.

(* the runner accepts any maximal-layer node as repaired entry point, also when the model's own
   tie-break lands on the recorded entry (1) and the implementation's on another node (3) *)
Example C12_load_entry_tiebreak :
  check_load ((2, 4, (1, 1), [1; 2; 3], [(1, Some (1, 1, 2, true, [[2; 3]; [3]], true));
                                          (3, Some (3, 1, 2, true, [[1; 2]; [1]], true))]),
              Some ([1; 3], (3, 1), [(1, 1, [[3]; [3]]); (3, 1, [[1]; [1]])]))%Z = true
  /\ check_load ((2, 4, (1, 1), [1; 2; 3], [(1, Some (1, 1, 2, true, [[2; 3]; [3]], true));
                                          (3, Some (3, 0, 2, true, [[1; 2]], true))]),
              Some ([1; 3], (3, 0), [(1, 1, [[3]; [3]]); (3, 0, [[1]])]))%Z = false.
Proof. vm_compute. split; reflexivity. Qed.

(* reconnect_on_delete: node 1 is removed; the implementation re-linked 2 -> [3; 4] drawing 4 from the
   removed node's neighbours; accepted.  A list drawing an id from nowhere (9) is rejected. *)
Example C12_remove_relink_nonvacuous :
  check_remove_relink (([(1, 0, [[2; 3; 4]]); (2, 0, [[1; 3]]); (3, 0, [[1; 2]]); (4, 0, [[1]])], [1; 2; 3; 4], (1, 0), 1),
                       (true, [2; 3; 4], (2, 0), [(2, 0, [[3; 4]]); (3, 0, [[2; 4]]); (4, 0, [[2; 3]])]))%Z = true
  /\ check_remove_relink (([(1, 0, [[2; 3; 4]]); (2, 0, [[1; 3]]); (3, 0, [[1; 2]]); (4, 0, [[1]])], [1; 2; 3; 4], (1, 0), 1),
                       (true, [2; 3; 4], (2, 0), [(2, 0, [[3; 9]]); (3, 0, [[2; 4]]); (4, 0, [[2; 3]])]))%Z = false.
Proof. vm_compute. split; reflexivity. Qed.

Example C12_history_nonvacuous :
  let lo := fun (_ : index) (id : Z) => Z.to_nat (id mod 2) in
  let eo := fun (ix : index) (id : Z) => [ckeys (ix_nodes ix)] in
  let to := fun (ix : index) (_ : Z) => ckeys (ix_nodes ix) in
  let rw := fun (id _ : Z) (n : node) => mkNode (n_layer n) (map (cons id) (n_nbrs n)) in
  ix_ids (run_ops lo eo to rw (fun _ _ l => l) (mkIndex [] [] (0%Z, O) [] [])
                  [OpInsert 1 true true; OpInsert 2 true true; OpInsert 2 true true; OpInsert 3 true false;
                   OpRemove 1; OpInsert 4 true true; OpRemove 7])%Z
  = [4; 2]%Z.
Proof. vm_compute. reflexivity. Qed.

Example C12_remove_nonvacuous :
  fst (run_remove ([(1, 1, [[2; 3]; [3]]); (2, 0, [[1; 3]]); (3, 1, [[1; 2]; [1]])], [1; 2; 3], (1, 1), 1)%Z)
  = mkIndex [(3, mkNode 1 [[2]; []]); (2, mkNode 0 [[3]])]%Z [2; 3]%Z (3%Z, 1) [1]%Z [3; 2]%Z.
Proof. vm_compute. reflexivity. Qed.
