(* C12 — executable model of rs/anda_db_hnsw/src/hnsw.rs: search_layer / search_attempt /
   search_inner / search_f32, remove, load_nodes (+ validate_loaded_node,
   prune_missing_node_edges, repair_entry_point) and the flush write sequence.

   Distances are abstract: [dist q id] is the value the implementation computes with
   DistanceMetric::compute_mixed(query, nodes[id].vector) (cached per node id for one
   query), seen through a key type K.  Three comparisons on K are kept apart because the
   code uses two different ones:
     leK        — the total order of OrderedFloat<f32> (heap order, into_sorted_vec);
     gtK, ltK   — the raw f32 [>] / [<] used in the break / admission tests (partial:
                  false on NaN).  The soundness theorems assume nothing about them.
   No proofs in this file. *)
From Coq Require Import List ZArith Bool Arith.
Import ListNotations.
Open Scope list_scope.

(* A stored node: its highest layer and, per layer, the ids of its outgoing edges.
   The vector is represented by the distance oracle; the cached bf16 edge distances
   are never read by search. *)
Record node := mkNode { n_layer : nat; n_nbrs : list (list Z) }.

Inductive res (A : Type) : Type :=
| Ok (a : A)
| ErrNotFound (id : Z)        (* HnswError::NotFound { id } *)
| ErrOther                    (* DimensionMismatch / Generic / Serialization *)
| OutOfFuel.                  (* model artefact; never produced on a finite graph with enough fuel *)
Arguments Ok {A} a.
Arguments ErrNotFound {A} id.
Arguments ErrOther {A}.
Arguments OutOfFuel {A}.

Definition zmem (x : Z) (l : list Z) : bool := existsb (Z.eqb x) l.

(* ordered insertion: [x] goes before the first [y] with [le x y] *)
Fixpoint ins {A} (le : A -> A -> bool) (x : A) (l : list A) : list A :=
  match l with
  | [] => [x]
  | y :: t => if le x y then x :: l else y :: ins le x t
  end.

Section Search.
  Variable K : Type.
  Variable leK : K -> K -> bool.          (* OrderedFloat total order *)
  Variables gtK ltK : K -> K -> bool.     (* f32 > and <  *)
  Variable kmax : K.                      (* f32::MAX *)
  Variable Q : Type.                      (* queries *)
  Variable dist : Q -> Z -> K.
  Variable q_ok : Q -> bool.              (* right dimension, all components finite *)

  (* the graph, as search sees it *)
  Variable lookup : Z -> option node.     (* nodes.pin().get(&id) *)
  Variable is_empty : bool.               (* nodes.is_empty() *)
  Variable entry : Z * nat.               (* *entry_point.read() *)
  Variable ef_search : nat.
  Variable max_ef_search : nat.           (* HnswConfig::MAX_EF_SEARCH *)
  Variable retries : nat.                 (* SEARCH_MAX_ATTEMPTS - 1 *)
  Variable fuel : nat.

  Definition elem := (K * Z * nat)%type.  (* (distance, id, node layer) — the heap tuples *)
  Definition e_dist (e : elem) : K := fst (fst e).
  Definition e_id (e : elem) : Z := snd (fst e).

  Definition ltOK (a b : K) : bool := negb (leK b a).   (* strict, in the OrderedFloat order *)

  (* Ord on (OrderedFloat<f32>, u64, u8): lexicographic *)
  Definition le_res (a b : elem) : bool :=
    let '(d1, i1, l1) := a in
    let '(d2, i2, l2) := b in
    if ltOK d1 d2 then true else if ltOK d2 d1 then false else
    if Z.ltb i1 i2 then true else if Z.ltb i2 i1 then false else Nat.leb l1 l2.
  Definition ge_res (a b : elem) : bool := le_res b a.
  (* pop order of candidates: max of (Reverse(dist), id, layer) *)
  Definition le_cand (a b : elem) : bool :=
    let '(d1, i1, l1) := a in
    let '(d2, i2, l2) := b in
    if ltOK d1 d2 then true else if ltOK d2 d1 then false else
    if Z.ltb i2 i1 then true else if Z.ltb i1 i2 then false else Nat.leb l2 l1.

  (* state of one search_layer call: visited set, candidates (head = next pop),
     results (head = current maximum = results.peek()) *)
  Definition sstate := (list Z * list elem * list elem)%type.

  (* body of `for &(neighbor, _) in neighbors` *)
  Definition visit (q : Q) (ef : nat) (st : sstate) (nb : Z) : sstate :=
    let '(vis, cs, rs) := st in
    if zmem nb vis then st else
    let vis' := nb :: vis in
    match lookup nb with
    | None => (vis', cs, rs)
    | Some nn =>
      let d := dist q nb in
      match rs with
      | [] => (vis', cs, rs)
      | mx :: _ =>
        if ltK d (e_dist mx) || Nat.ltb (length rs) ef then
          let e := (d, nb, n_layer nn) in
          let rs' := ins ge_res e rs in
          (vis', ins le_cand e cs, if Nat.ltb ef (length rs') then tl rs' else rs')
        else (vis', cs, rs)
      end
    end.

  (* `while let Some(..) = candidates.pop()` *)
  Fixpoint sl_loop (q : Q) (layer ef : nat) (n : nat) (st : sstate) : option (list elem) :=
    match n with
    | O => None
    | S n' =>
      let '(vis, cs, rs) := st in
      match cs with
      | [] => Some rs
      | c :: cs' =>
        if match rs with
           | mx :: _ => gtK (e_dist c) (e_dist mx) && Nat.leb ef (length rs)
           | [] => false
           end
        then Some rs
        else
          match lookup (e_id c) with
          | Some nd =>
            match nth_error (n_nbrs nd) layer with
            | Some nbrs => sl_loop q layer ef n' (fold_left (visit q ef) nbrs (vis, cs', rs))
            | None => sl_loop q layer ef n' (vis, cs', rs)
            end
          | None => sl_loop q layer ef n' (vis, cs', rs)
          end
      end
    end.

  (* results.into_sorted_vec() *)
  Definition sort_res (rs : list elem) : list elem := fold_right (ins le_res) [] rs.

  Definition search_layer (q : Q) (ep : Z) (ep_layer layer ef : nat) : res (list elem) :=
    let ef := Nat.max ef 1 in
    match lookup ep with
    | None => ErrNotFound ep
    | Some _ =>
      let e := (dist q ep, ep, ep_layer) in
      match sl_loop q layer ef fuel ([ep], [e], [e]) with
      | None => OutOfFuel
      | Some rs => Ok (sort_res rs)
      end
    end.

  (* greedy descent `for current_layer in (1..=current_node_layer).rev()`; the range is
     evaluated once, with the entry point's recorded layer *)
  Fixpoint descend (q : Q) (layers : list nat) (cur : Z) (cur_layer : nat) (cur_d : K)
    : res (Z * nat) :=
    match layers with
    | [] => Ok (cur, cur_layer)
    | l :: t =>
      match search_layer q cur cur_layer l 1 with
      | Ok nearest =>
        match nearest with
        | (d, i, nl) :: _ =>
          if ltK d cur_d then descend q t i nl d else descend q t cur cur_layer cur_d
        | [] => descend q t cur cur_layer cur_d
        end
      | ErrNotFound id => ErrNotFound id
      | ErrOther => ErrOther
      | OutOfFuel => OutOfFuel
      end
    end.

  Definition out := (Z * K)%type.

  Definition search_attempt (q : Q) (k : nat) : res (list out) :=
    let '(ep, epl) := entry in
    match descend q (rev (seq 1 epl)) ep epl kmax with
    | Ok (cur, cur_layer) =>
      let ef := Nat.max ef_search (Nat.min k max_ef_search) in
      match search_layer q cur cur_layer 0 ef with
      | Ok rs => Ok (map (fun e : elem => (e_id e, e_dist e)) (firstn k rs))
      | ErrNotFound id => ErrNotFound id
      | ErrOther => ErrOther
      | OutOfFuel => OutOfFuel
      end
    | ErrNotFound id => ErrNotFound id
    | ErrOther => ErrOther
    | OutOfFuel => OutOfFuel
    end.

  (* search_inner: retry on NotFound while attempt < SEARCH_MAX_ATTEMPTS *)
  Fixpoint search_inner (r : nat) (q : Q) (k : nat) : res (list out) :=
    if is_empty then Ok [] else
    match search_attempt q k with
    | ErrNotFound id =>
      match r with
      | O => ErrNotFound id
      | S r' => search_inner r' q k
      end
    | x => x
    end.

  (* search_f32 *)
  Definition search (q : Q) (k : nat) : res (list out) :=
    match k with
    | O => Ok []
    | _ => if q_ok q then search_inner retries q k else ErrOther
    end.
End Search.

(* ------------------------------------------------------------------ concrete graphs *)

Definition cgraph := list (Z * node).

Fixpoint clookup (g : cgraph) (id : Z) : option node :=
  match g with
  | [] => None
  | (k, n) :: t => if Z.eqb k id then Some n else clookup t id
  end.
Definition cremove (g : cgraph) (id : Z) : cgraph := filter (fun kn => negb (Z.eqb (fst kn) id)) g.
(* papaya insert: replaces the value of an existing key *)
Definition cinsert (g : cgraph) (id : Z) (n : node) : cgraph := (id, n) :: cremove g id.
Definition ckeys (g : cgraph) : list Z := map fst g.

Record index := mkIndex {
  ix_nodes : cgraph;
  ix_ids : list Z;            (* the Treemap of live ids *)
  ix_entry : Z * nat;
  ix_removed : list Z;        (* tombstones *)
  ix_dirty : list Z;
}.

Definition zremove (x : Z) (l : list Z) : list Z := filter (fun y => negb (Z.eqb y x)) l.

(* the node with the highest layer; `max_by_key` keeps the last maximum in iteration order *)
Fixpoint max_layer_node (g : cgraph) (best : option (Z * nat)) : option (Z * nat) :=
  match g with
  | [] => best
  | (k, n) :: t =>
    match best with
    | Some (_, bl) => if Nat.ltb (n_layer n) bl then max_layer_node t best
                      else max_layer_node t (Some (k, n_layer n))
    | None => max_layer_node t (Some (k, n_layer n))
    end
  end.

(* repair_entry_point *)
Definition repair_entry (g : cgraph) : Z * nat :=
  match max_layer_node g None with
  | Some e => e
  | None => (0%Z, O)
  end.

(* Vec::swap_remove(pos) *)
Fixpoint position (id : Z) (l : list Z) : option nat :=
  match l with
  | [] => None
  | x :: t => if Z.eqb x id then Some O else option_map S (position id t)
  end.
Definition swap_remove (pos : nat) (l : list Z) : list Z :=
  match rev l with
  | [] => l
  | lastx :: _ =>
    let n := length l in
    if Nat.eqb (S pos) n then firstn pos l
    else firstn pos l ++ lastx :: firstn (n - pos - 2) (skipn (S pos) l)
  end.

Section Remove.
  (* the optional re-link (`reconnect_on_delete`): arbitrary re-selection of a layer's edge
     list; with reconnect disabled it is the identity.  Arguments: neighbour id, layer, the
     list after swap_remove. *)
  Variable relink : Z -> nat -> list Z -> list Z.

  Definition rewire_layer (id nid : Z) (layer : nat) (l : list Z) : list Z * bool :=
    match position id l with
    | None => (l, false)
    | Some pos => (relink nid layer (swap_remove pos l), true)
    end.

  Fixpoint rewire_layers (id nid : Z) (layer : nat) (ls : list (list Z)) : list (list Z) * bool :=
    match ls with
    | [] => ([], false)
    | l :: t =>
      let '(l', u) := rewire_layer id nid layer l in
      let '(t', u') := rewire_layers id nid (S layer) t in
      (l' :: t', u || u')
    end.

  Definition dedup (l : list Z) : list Z :=
    fold_left (fun acc x => if zmem x acc then acc else acc ++ [x]) l [].

  Definition remove (ix : index) (id : Z) : index * bool :=
    match clookup (ix_nodes ix) id with
    | None => (ix, false)
    | Some nd =>
      let entry_was_removed := Z.eqb (fst (ix_entry ix)) id in
      let nodes1 := cremove (ix_nodes ix) id in
      let entry' := if entry_was_removed then repair_entry nodes1 else ix_entry ix in
      let neighbor_ids := dedup (filter (fun n => negb (Z.eqb n id)) (concat (n_nbrs nd))) in
      let '(nodes2, dirty) :=
        fold_left (fun (acc : cgraph * list Z) nid =>
          let '(g, dirty) := acc in
          match clookup g nid with
          | Some n =>
            (* only layers 0..=n.layer are visited *)
            let '(ls', updated) := rewire_layers id nid 0 (firstn (S (n_layer n)) (n_nbrs n)) in
            if updated
            then (cinsert g nid (mkNode (n_layer n) (ls' ++ skipn (S (n_layer n)) (n_nbrs n))), nid :: dirty)
            else (g, dirty)
          | None => (g, dirty)
          end) neighbor_ids (nodes1, []) in
      (mkIndex nodes2 (zremove id (ix_ids ix)) entry'
               (id :: zremove id (ix_removed ix))
               (dirty ++ zremove id (ix_dirty ix)), true)
    end.
End Remove.

(* ------------------------------------------------------------------ persistence *)

(* what a node blob decodes to; [Garbage] = undecodable bytes *)
Record rawnode := mkRaw {
  r_id : Z; r_layer : nat; r_dim : nat; r_vec_finite : bool;
  r_nbrs : list (list Z); r_edges_finite : bool;
}.
Inductive blob := Garbage | NodeBlob (r : rawnode).
Inductive fetched := Missing | Fetched (b : blob) | IoError.

Record config := mkConfig { c_dimension : nat; c_max_layers : nat }.

(* validate_loaded_node, in the order of the code; the tag is the failing check *)
Inductive vcheck := VId | VDimension | VLayer | VNeighborLayers | VVectorFinite | VEdgeFinite.
Definition validate (cfg : config) (expected : Z) (r : rawnode) : option vcheck :=
  if negb (Z.eqb (r_id r) expected) then Some VId
  else if negb (Nat.eqb (r_dim r) (c_dimension cfg)) then Some VDimension
  else if Nat.leb (c_max_layers cfg) (r_layer r) then Some VLayer
  else if negb (Nat.eqb (length (r_nbrs r)) (S (r_layer r))) then Some VNeighborLayers
  else if negb (r_vec_finite r) then Some VVectorFinite
  else if negb (r_edges_finite r) then Some VEdgeFinite
  else None.

(* the stream of loader results: Loaded / Missing / error (any error aborts the load) *)
Fixpoint load_stream (cfg : config) (fetch : Z -> fetched) (ids : list Z)
         (nodes : cgraph) (missing : list Z) : option (cgraph * list Z) :=
  match ids with
  | [] => Some (nodes, missing)
  | id :: t =>
    match fetch id with
    | Missing => load_stream cfg fetch t nodes (missing ++ [id])
    | IoError => None
    | Fetched Garbage => None
    | Fetched (NodeBlob r) =>
      match validate cfg id r with
      | Some _ => None
      | None => load_stream cfg fetch t (cinsert nodes id (mkNode (r_layer r) (r_nbrs r))) missing
      end
    end
  end.

(* prune_missing_node_edges *)
Definition prune_edges (missing : list Z) (g : cgraph) : cgraph :=
  map (fun kn : Z * node =>
         (fst kn, mkNode (n_layer (snd kn))
                         (map (filter (fun x => negb (zmem x missing))) (n_nbrs (snd kn))))) g.
Definition pruned_ids (missing : list Z) (g : cgraph) : list Z :=
  map fst (filter (fun kn : Z * node =>
                     existsb (existsb (fun x => zmem x missing)) (n_nbrs (snd kn))) g).

(* state produced by load_metadata + load_ids: entry point (already clamped to
   max_layers-1), tombstones, the ids bitmap; nodes empty *)
Definition load_nodes (cfg : config) (entry0 : Z * nat) (removed0 : list Z)
           (ids : list Z) (fetch : Z -> fetched) : option index :=
  match ids with
  | [] => Some (mkIndex [] [] entry0 removed0 [])
  | _ =>
    match load_stream cfg fetch ids [] [] with
    | None => None
    | Some (nodes, missing) =>
      match missing with
      | _ :: _ =>
        let ids' := filter (fun x => negb (zmem x missing)) ids in
        let nodes' := prune_edges missing nodes in
        Some (mkIndex nodes' ids' (repair_entry nodes') removed0 (pruned_ids missing nodes))
      | [] =>
        match clookup nodes (fst entry0) with
        | None => Some (mkIndex nodes ids (repair_entry nodes) removed0 [])
        | Some _ => Some (mkIndex nodes ids entry0 removed0 [])
        end
      end
    end
  end.

(* The three persisted artifacts, and the writes of one flush (Hnsw::flush in
   rs/anda_db/src/index/hnsw.rs): dirty node blobs, then ids, then metadata (the commit
   record), then the deletes of purge_removed_nodes. *)
Record disk := mkDisk {
  d_entry : Z * nat; d_removed : list Z;     (* metadata blob *)
  d_ids : list Z;                            (* ids blob *)
  d_blobs : list (Z * blob);                 (* node blobs, newest first *)
}.
Inductive write :=
| WNode (id : Z) (b : blob)
| WIds (ids : list Z)
| WMeta (entry : Z * nat) (removed : list Z)
| WDelNode (id : Z).

Fixpoint blob_lookup (l : list (Z * blob)) (id : Z) : fetched :=
  match l with
  | [] => Missing
  | (k, b) :: t => if Z.eqb k id then Fetched b else blob_lookup t id
  end.

Definition apply_write (d : disk) (w : write) : disk :=
  match w with
  | WNode id b => mkDisk (d_entry d) (d_removed d) (d_ids d) ((id, b) :: d_blobs d)
  | WIds ids => mkDisk (d_entry d) (d_removed d) ids (d_blobs d)
  | WMeta e r => mkDisk e r (d_ids d) (d_blobs d)
  | WDelNode id => mkDisk (d_entry d) (d_removed d) (d_ids d)
                          (filter (fun kb => negb (Z.eqb (fst kb) id)) (d_blobs d))
  end.
Definition apply_writes (d : disk) (ws : list write) : disk := fold_left apply_write ws d.
(* a crash after the first k writes *)
Definition crash (d : disk) (ws : list write) (k : nat) : disk := apply_writes d (firstn k ws).

(* load_metadata clamps the recorded entry layer to max_layers - 1 *)
Definition clamp_entry (cfg : config) (e : Z * nat) : Z * nat :=
  (fst e, Nat.min (snd e) (c_max_layers cfg - 1)).

Definition load_all (cfg : config) (d : disk) : option index :=
  load_nodes cfg (clamp_entry cfg (d_entry d)) (d_removed d) (d_ids d) (blob_lookup (d_blobs d)).

(* search over a concrete index *)
Section CSearch.
  Variable K : Type.
  Variable leK gtK ltK : K -> K -> bool.
  Variable kmax : K.
  Variable Q : Type.
  Variable dist : Q -> Z -> K.
  Variable q_ok : Q -> bool.
  Variables ef_search max_ef_search retries : nat.

  Definition csearch (ix : index) (q : Q) (k : nat) : res (list (Z * K)) :=
    search K leK gtK ltK kmax Q dist q_ok (clookup (ix_nodes ix))
           (match ix_nodes ix with [] => true | _ => false end)
           (ix_entry ix) ef_search max_ef_search retries
           (S (length (ix_nodes ix))) q k.
End CSearch.

(* ------------------------------------------------------------------ generated-fact vocabulary *)
(* awaited steps of HnswIndex::flush_with and of the collection-level Hnsw::flush *)
Inductive flush_step := FNodes | FIds | FMeta | FCommit | FPurge.

(* the write sequence of one flush, following a step order *)
Definition step_writes (nodes : list (Z * blob)) (ids : list Z) (entry : Z * nat) (removed purge : list Z)
           (s : flush_step) : list write :=
  match s with
  | FNodes => map (fun kb : Z * blob => WNode (fst kb) (snd kb)) nodes
  | FIds => [WIds ids]
  | FMeta => [WMeta entry removed]
  | FCommit => []
  | FPurge => map WDelNode purge
  end.
Definition flush_writes (order : list flush_step) nodes ids entry removed purge : list write :=
  flat_map (step_writes nodes ids entry removed purge) order.
