(* C12 — the fuel of the model's search loop is sufficient on every finite graph: with
   S |nodes| units the loop never runs out, so [OutOfFuel] is not an outcome of [csearch]
   and the soundness theorems are not vacuous for any stored graph. *)
From Coq Require Import List ZArith Bool Arith Lia.
From Verif Require Import Hnsw.Model Hnsw.Proofs.
Import ListNotations.
Open Scope list_scope.

Lemma filter_and_le {A} (p q : A -> bool) l :
  length (filter (fun y => q y && p y) l) <= length (filter p l).
Proof.
  induction l as [|a t IH]; simpl; [lia|].
  destruct (p a), (q a); simpl; lia.
Qed.

Lemma filter_len_le {A} (p : A -> bool) l : length (filter p l) <= length l.
Proof. induction l as [|a t IH]; simpl; [lia|]. destruct (p a); simpl; lia. Qed.

Lemma filter_drop (p : Z -> bool) x l :
  In x l -> p x = true ->
  length (filter (fun y => negb (Z.eqb y x) && p y) l) < length (filter p l).
Proof.
  induction l as [|a t IH]; simpl; [tauto|].
  intros [->|Hin] Hp.
  - rewrite Z.eqb_refl, Hp. simpl.
    pose proof (filter_and_le p (fun y => negb (Z.eqb y x)) t). lia.
  - specialize (IH Hin Hp). destruct (p a), (negb (Z.eqb a x)); simpl; lia.
Qed.

Section Fuel.
  Variable K : Type.
  Variable leK gtK ltK : K -> K -> bool.
  Variable kmax : K.
  Variable Q : Type.
  Variable dist : Q -> Z -> K.
  Variable q_ok : Q -> bool.
  Variable g : cgraph.

  Notation lookup := (clookup g).
  Notation visit := (visit K leK ltK Q dist lookup).
  Notation sl_loop := (sl_loop K leK gtK ltK Q dist lookup).

  Definition unvisited (vis : list Z) : nat :=
    length (filter (fun k => negb (zmem k vis)) (ckeys g)).

  Lemma unvisited_cons_le nb vis : unvisited (nb :: vis) <= unvisited vis.
  Proof.
    unfold unvisited.
    rewrite (filter_ext (fun k => negb (zmem k (nb :: vis)))
                        (fun k => negb (Z.eqb k nb) && negb (zmem k vis))).
    - apply filter_and_le.
    - intros k. unfold zmem. simpl. apply negb_orb.
  Qed.

  Lemma unvisited_cons_lt nb vis :
    lookup nb <> None -> zmem nb vis = false -> unvisited (nb :: vis) < unvisited vis.
  Proof.
    intros Hl Hv. unfold unvisited.
    rewrite (filter_ext (fun k => negb (zmem k (nb :: vis)))
                        (fun k => negb (Z.eqb k nb) && negb (zmem k vis))).
    - apply filter_drop; [apply clookup_In; exact Hl | rewrite Hv; reflexivity].
    - intros k. unfold zmem. simpl. apply negb_orb.
  Qed.

  Definition phi (st : sstate K) : nat :=
    let '(vis, cs, _) := st in length cs + unvisited vis.

  Opaque ins.
  Lemma visit_phi q ef st nb : phi (visit q ef st nb) <= phi st.
  Proof.
    destruct st as [[vis cs] rs]. unfold Model.visit.
    destruct (zmem nb vis) eqn:Em; [simpl; lia|].
    destruct (lookup nb) as [nn|] eqn:El.
    - assert (Hlt : unvisited (nb :: vis) < unvisited vis)
        by (apply unvisited_cons_lt; [congruence | exact Em]).
      destruct rs as [|mx rt]; [simpl; lia|].
      destruct (ltK _ _ || _); simpl; [rewrite ins_length|]; lia.
    - pose proof (unvisited_cons_le nb vis). simpl. lia.
  Qed.
  Transparent ins.

  Lemma fold_visit_phi q ef nbrs : forall st, phi (fold_left (visit q ef) nbrs st) <= phi st.
  Proof.
    induction nbrs as [|nb t IH]; cbn [fold_left]; intros st; [lia|].
    eapply Nat.le_trans; [apply IH | apply visit_phi].
  Qed.

  Lemma sl_loop_fuel q layer ef : forall n st, phi st < n -> sl_loop q layer ef n st <> None.
  Proof.
    induction n as [|n IH]; intros st Hphi; [lia|].
    destruct st as [[vis cs] rs]. cbn [Model.sl_loop].
    destruct cs as [|c cs']; [discriminate|].
    destruct (match rs with [] => false | mx :: _ => _ end); [discriminate|].
    assert (Hpop : phi (vis, cs', rs) < n) by (simpl in *; lia).
    destruct (lookup (e_id K c)) as [nd|]; [|apply IH; exact Hpop].
    destruct (nth_error (n_nbrs nd) layer) as [nbrs|]; [|apply IH; exact Hpop].
    apply IH. eapply Nat.le_lt_trans; [apply fold_visit_phi | exact Hpop].
  Qed.

  Lemma unvisited_le vis : unvisited vis <= length g.
  Proof.
    unfold unvisited, ckeys. eapply Nat.le_trans; [apply filter_len_le|]. rewrite map_length. lia.
  Qed.

  Lemma search_layer_fuel q ep epl layer ef :
    search_layer K leK gtK ltK Q dist lookup (S (length g)) q ep epl layer ef <> OutOfFuel.
  Proof.
    unfold Model.search_layer. destruct (lookup ep) as [nd|] eqn:El; [|discriminate].
    destruct (sl_loop q layer (Nat.max ef 1) (S (length g)) _) eqn:Es; [discriminate|].
    exfalso. revert Es. apply sl_loop_fuel. simpl.
    assert (unvisited [ep] < unvisited []).
    { apply unvisited_cons_lt; [congruence | reflexivity]. }
    pose proof (unvisited_le []). lia.
  Qed.

  Lemma descend_fuel q layers : forall cur cl cd,
    descend K leK gtK ltK Q dist lookup (S (length g)) q layers cur cl cd <> OutOfFuel.
  Proof.
    induction layers as [|l t IH]; intros cur cl cd; cbn [Model.descend]; [discriminate|].
    destruct (search_layer K leK gtK ltK Q dist lookup (S (length g)) q cur cl l 1) as [nearest| | |] eqn:Es;
      try discriminate.
    - destruct nearest as [|[[d i] nl] rest]; [apply IH|]. destruct (ltK d cd); apply IH.
    - exfalso. revert Es. apply search_layer_fuel.
  Qed.

  Variable is_empty : bool.
  Variable entry : Z * nat.
  Variables ef_search max_ef_search retries : nat.

  Lemma search_attempt_fuel q k :
    search_attempt K leK gtK ltK kmax Q dist lookup entry ef_search max_ef_search (S (length g)) q k <> OutOfFuel.
  Proof.
    unfold Model.search_attempt. destruct entry as [ep epl].
    destruct (descend _ _ _ _ _ _ _ _ _ _ _ _ _) as [[cur cl]| | |] eqn:Ed; try discriminate.
    - destruct (search_layer K leK gtK ltK Q dist lookup (S (length g)) q cur cl 0 _) eqn:Es; try discriminate.
      exfalso. revert Es. apply search_layer_fuel.
    - exfalso. revert Ed. apply descend_fuel.
  Qed.

  Lemma search_inner_fuel r q k :
    search_inner K leK gtK ltK kmax Q dist lookup is_empty entry ef_search max_ef_search (S (length g)) r q k
    <> OutOfFuel.
  Proof.
    induction r as [|r IH]; cbn [Model.search_inner]; destruct is_empty; try discriminate.
    - destruct (search_attempt _ _ _ _ _ _ _ _ _ _ _ _ _ _) eqn:Ea; try discriminate.
      exfalso. revert Ea. apply search_attempt_fuel.
    - destruct (search_attempt _ _ _ _ _ _ _ _ _ _ _ _ _ _) eqn:Ea; try discriminate.
      + exact IH.
      + exfalso. revert Ea. apply search_attempt_fuel.
  Qed.

  Theorem search_fuel q k :
    search K leK gtK ltK kmax Q dist q_ok lookup is_empty entry ef_search max_ef_search retries (S (length g)) q k
    <> OutOfFuel.
  Proof.
    unfold Model.search. destruct k; [discriminate|]. destruct (q_ok q); [apply search_inner_fuel | discriminate].
  Qed.
End Fuel.

Theorem csearch_never_out_of_fuel :
  forall (K : Type) (leK gtK ltK : K -> K -> bool) (kmax : K) (Q : Type) (dist : Q -> Z -> K)
         (q_ok : Q -> bool) (ef_search max_ef retries : nat) (ix : index) (q : Q) (k : nat),
    csearch K leK gtK ltK kmax Q dist q_ok ef_search max_ef retries ix q k <> OutOfFuel.
Proof. intros. unfold csearch. apply search_fuel. Qed.
