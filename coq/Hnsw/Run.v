(* C12 — the instance that mirrors the code as it is now (gen/Gen_Hnsw.v) and the case
   runners used by the correspondence check.  Distances arrive as integer keys computed by
   the harness from the f32 the crate's own metric returns for (query, stored vector):
   the f32::total_cmp key of (d + 0.0) for non-NaN d, NANKEY for NaN — which is the order of
   OrderedFloat<f32> (−0 = +0, NaN greatest and equal to itself). *)
From Coq Require Import List ZArith Bool Arith PArith FMapPositive.
From Verif Require Import Hnsw.Model gen.Gen_Hnsw.
Import ListNotations.
Open Scope list_scope.

Definition NANKEY : Z := 4294967296%Z.
Definition KMAX : Z := 2139095039%Z.          (* f32::MAX = 0x7f7fffff *)
Definition isnan (a : Z) : bool := Z.eqb a NANKEY.
Definition leZ (a b : Z) : bool := Z.leb a b.
Definition gtZ (a b : Z) : bool := if isnan a || isnan b then false else Z.ltb b a.
Definition ltZ (a b : Z) : bool := if isnan a || isnan b then false else Z.ltb a b.

Definition pos_of (id : Z) : positive := Z.to_pos (id + 1).

(* a query = (valid?, table id -> key) *)
Definition query := (bool * PositiveMap.t Z)%type.
Definition qdist (q : query) (id : Z) : Z :=
  match PositiveMap.find (pos_of id) (snd q) with Some k => k | None => 0%Z end.

Definition jnode := (Z * Z * list (list Z))%type.     (* id, layer, neighbour ids per layer *)
Definition mk_node (j : jnode) : Z * node :=
  let '(id, l, nb) := j in (id, mkNode (Z.to_nat l) nb).

Definition node_map (ns : list jnode) : PositiveMap.t node :=
  fold_left (fun m j => let '(id, n) := mk_node j in PositiveMap.add (pos_of id) n m) ns (PositiveMap.empty node).

Definition run_search (nm : PositiveMap.t node) (n : nat) (entry : Z * Z) (ef : Z) (q : query) (k : Z)
  : res (list (Z * Z)) :=
  search Z leZ gtZ ltZ KMAX query qdist fst
         (fun id => PositiveMap.find (pos_of id) nm)
         (Nat.eqb n 0) (fst entry, Z.to_nat (snd entry)) (Z.to_nat ef) max_ef_search
         (search_max_attempts - 1) (S n) q (Z.to_nat k).

(* one graph, several queries: keys are aligned with the node list *)
Definition jquery := (bool * list Z * Z * (Z * list (Z * Z)))%type.  (* valid, keys, k, observed (code, results) *)
Definition scase := (list jnode * (Z * Z) * Z * list jquery)%type.

Definition pair_eqb (a b : Z * Z) : bool := Z.eqb (fst a) (fst b) && Z.eqb (snd a) (snd b).
Fixpoint list_eqb {A} (eqb : A -> A -> bool) (a b : list A) : bool :=
  match a, b with
  | [], [] => true
  | x :: s, y :: t => eqb x y && list_eqb eqb s t
  | _, _ => false
  end.

Definition obs_matches (r : res (list (Z * Z))) (o : Z * list (Z * Z)) : bool :=
  match r with
  | Ok l => Z.eqb (fst o) 0 && list_eqb pair_eqb l (snd o)
  | ErrNotFound _ => Z.eqb (fst o) 1
  | ErrOther => Z.eqb (fst o) 2
  | OutOfFuel => false
  end.

Definition key_table (ns : list jnode) (keys : list Z) : PositiveMap.t Z :=
  fold_left (fun m (jk : jnode * Z) => PositiveMap.add (pos_of (fst (fst (fst jk)))) (snd jk) m)
            (combine ns keys) (PositiveMap.empty Z).

Definition run_scase (c : scase) : list (res (list (Z * Z))) :=
  let '(ns, entry, ef, qs) := c in
  let nm := node_map ns in
  let n := List.length ns in
  map (fun jq : jquery =>
         let '(valid, keys, k, _) := jq in
         run_search nm n entry ef (valid, key_table ns keys) k) qs.

Definition check_search (c : scase) : bool :=
  let '(ns, entry, ef, qs) := c in
  forallb (fun rq : res (list (Z * Z)) * jquery => obs_matches (fst rq) (snd (snd rq))) (combine (run_scase c) qs)
  && Nat.eqb (List.length (run_scase c)) (List.length qs).

(* ---- load ---- *)
Definition jblob := option (Z * Z * Z * bool * list (list Z) * bool)%type.  (* id, layer, dim, vec finite, nbrs, edges finite *)
Definition mk_blob (b : jblob) : blob :=
  match b with
  | None => Garbage
  | Some (id, l, dim, vf, nb, ef) => NodeBlob (mkRaw id (Z.to_nat l) (Z.to_nat dim) vf nb ef)
  end.
(* dimension, max_layers, recorded entry, ids, blobs *)
Definition lcase := (Z * Z * (Z * Z) * list Z * list (Z * jblob))%type.
(* None = load failed; ids, entry, nodes sorted by id *)
Definition lobs := option (list Z * (Z * Z) * list jnode)%type.

Definition run_load (c : lcase) : option index :=
  let '(dim, ml, entry, ids, blobs) := c in
  let cfg := mkConfig (Z.to_nat dim) (Z.to_nat ml) in
  load_all cfg (mkDisk (fst entry, Z.to_nat (snd entry)) [] ids
                       (map (fun kb : Z * jblob => (fst kb, mk_blob (snd kb))) blobs)).

Definition lists_eqb (a b : list (list Z)) : bool := list_eqb (list_eqb Z.eqb) a b.

Definition node_matches (g : cgraph) (j : jnode) : bool :=
  let '(id, l, nb) := j in
  match clookup g id with
  | Some n => Nat.eqb (n_layer n) (Z.to_nat l) && lists_eqb (n_nbrs n) nb
  | None => false
  end.

Definition max_layer_of (g : cgraph) : nat := fold_left (fun m kn => Nat.max m (n_layer (snd kn))) g 0.

(* the entry point: equal to the model's, or — when the code took the repair path
   (repair_entry_point: max_by_key over a hash map, no fixed tie-break) — any node of the
   maximal layer.  [repaired] says whether the code's repair path was taken for this case;
   it must not be inferred from the model's entry differing from the recorded one, because
   the model's own tie-break can land on the recorded id. *)
Definition entry_matches (ix : index) (repaired : bool) (e : Z * Z) : bool :=
  let me := ix_entry ix in
  (Z.eqb (fst me) (fst e) && Nat.eqb (snd me) (Z.to_nat (snd e)))
  || (repaired
      && Nat.eqb (snd me) (Z.to_nat (snd e))
      && match clookup (ix_nodes ix) (fst e) with
         | Some n => Nat.eqb (n_layer n) (Z.to_nat (snd e)) && Nat.eqb (n_layer n) (max_layer_of (ix_nodes ix))
         | None => false
         end).

(* load_nodes repairs the entry point iff some listed id has no blob, or the recorded entry
   is not among the loaded nodes *)
Definition load_repaired (ids : list Z) (blobs : list (Z * blob)) (ix : index) (recorded : Z) : bool :=
  existsb (fun id => match blob_lookup blobs id with Missing => true | _ => false end) ids
  || match clookup (ix_nodes ix) recorded with None => true | Some _ => false end.

Definition check_load (co : lcase * lobs) : bool :=
  let '(c, o) := co in
  let '(dim, ml, entry, ids, blobs) := c in
  match run_load c, o with
  | None, None => true
  | Some ix, Some (oids, oentry, onodes) =>
    list_eqb Z.eqb (ix_ids ix) oids
    && Nat.eqb (List.length (ix_nodes ix)) (List.length onodes)
    && forallb (node_matches (ix_nodes ix)) onodes
    && entry_matches ix (load_repaired ids (map (fun kb : Z * jblob => (fst kb, mk_blob (snd kb))) blobs) ix (fst entry))
                     oentry
  | _, _ => false
  end.

(* ---- remove (reconnect_on_delete = false: no re-link) ---- *)
Definition rcase := (list jnode * list Z * (Z * Z) * Z)%type.                (* nodes, ids, entry, id to remove *)
Definition robs := (bool * list Z * (Z * Z) * list jnode)%type.              (* returned, ids, entry, nodes *)

Definition run_remove (c : rcase) : index * bool :=
  let '(ns, ids, entry, id) := c in
  remove (fun _ _ l => l)
         (mkIndex (map mk_node ns) ids (fst entry, Z.to_nat (snd entry)) [] []) id.

Definition check_remove (co : rcase * robs) : bool :=
  let '(c, o) := co in
  let '(ns, ids, entry, id) := c in
  let '(ret, oids, oentry, onodes) := o in
  let '(ix, b) := run_remove c in
  Bool.eqb b ret
  && list_eqb Z.eqb (ix_ids ix) oids
  && Nat.eqb (List.length (ix_nodes ix)) (List.length onodes)
  && forallb (node_matches (ix_nodes ix)) onodes
  && (match onodes with [] => true | _ => entry_matches ix (Z.eqb (fst entry) id) oentry end).

(* ---- remove with reconnect_on_delete = true ----
   The theorems about remove hold for ANY re-link function, so what the correspondence has to
   establish is that the implementation's removal IS the model's removal for some re-link:
   the re-selected lists are read off the observation (one call per (neighbour, layer)), and
   everything else - which nodes are rewritten, swap_remove, untouched layers, ids, entry
   point - must coincide.  In addition every re-selected list may only draw from the list it
   replaces and the removed node's own neighbours at that layer (the code's candidate set). *)
Definition obs_relink (onodes : list jnode) (nid : Z) (layer : nat) (_ : list Z) : list Z :=
  match find (fun j : jnode => Z.eqb (fst (fst j)) nid) onodes with
  | Some (_, _, nb) => nth layer nb []
  | None => []
  end.

Definition run_remove_relink (c : rcase) (onodes : list jnode) : index * bool :=
  let '(ns, ids, entry, id) := c in
  remove (obs_relink onodes)
         (mkIndex (map mk_node ns) ids (fst entry, Z.to_nat (snd entry)) [] []) id.

Definition subset_of (l cand : list Z) : bool := forallb (fun x => zmem x cand) l.

Definition relink_candidates_ok (ns : list jnode) (id : Z) (onodes : list jnode) : bool :=
  let removed_nbrs := match find (fun j : jnode => Z.eqb (fst (fst j)) id) ns with
                      | Some (_, _, nb) => nb | None => [] end in
  forallb (fun o : jnode =>
    let '(nid, _, onb) := o in
    match find (fun j : jnode => Z.eqb (fst (fst j)) nid) ns with
    | Some (_, _, nb) =>
      forallb (fun lo : nat * list Z =>
                 subset_of (snd lo) (nth (fst lo) nb [] ++ nth (fst lo) removed_nbrs []))
              (combine (seq 0 (List.length onb)) onb)
    | None => false
    end) onodes.

Definition check_remove_relink (co : rcase * robs) : bool :=
  let '(c, o) := co in
  let '(ns, ids, entry, id) := c in
  let '(ret, oids, oentry, onodes) := o in
  let '(ix, b) := run_remove_relink c onodes in
  Bool.eqb b ret
  && list_eqb Z.eqb (ix_ids ix) oids
  && Nat.eqb (List.length (ix_nodes ix)) (List.length onodes)
  && forallb (node_matches (ix_nodes ix)) onodes
  && relink_candidates_ok ns id onodes
  && (match onodes with [] => true | _ => entry_matches ix (Z.eqb (fst entry) id) oentry end).
