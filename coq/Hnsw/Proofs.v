(* C12 — proofs about Hnsw/Model.v *)
From Coq Require Import List ZArith Bool Arith Lia Sorted Permutation.
From Verif Require Import Hnsw.Model.
Import ListNotations.
Open Scope list_scope.

(* ------------------------------------------------------------------ generic list facts *)

Lemma zmem_In x l : zmem x l = true <-> In x l.
Proof.
  unfold zmem. rewrite existsb_exists. split.
  - intros [y [Hy E]]. apply Z.eqb_eq in E. subst. exact Hy.
  - intros H. exists x. split; [exact H | apply Z.eqb_refl].
Qed.

Lemma zmem_false x l : zmem x l = false <-> ~ In x l.
Proof.
  rewrite <- zmem_In. destruct (zmem x l); split; intros; congruence.
Qed.

Lemma ins_perm {A} (le : A -> A -> bool) x l : Permutation (ins le x l) (x :: l).
Proof.
  induction l as [|y t IH]; simpl.
  - apply Permutation_refl.
  - destruct (le x y).
    + apply Permutation_refl.
    + eapply perm_trans; [apply perm_skip; exact IH | apply perm_swap].
Qed.

Lemma ins_In {A} (le : A -> A -> bool) x l y : In y (ins le x l) <-> y = x \/ In y l.
Proof.
  split; intros H.
  - apply (Permutation_in _ (ins_perm le x l)) in H. destruct H; auto.
  - apply (Permutation_in _ (Permutation_sym (ins_perm le x l))). destruct H; [left; auto | right; auto].
Qed.

Lemma ins_length {A} (le : A -> A -> bool) x l : length (ins le x l) = S (length l).
Proof. apply (Permutation_length (ins_perm le x l)). Qed.

Definition sorted_by {A} (le : A -> A -> bool) (l : list A) : Prop := Sorted (fun a b => le a b = true) l.

Lemma ins_sorted {A} (le : A -> A -> bool) :
  (forall a b, le a b = false -> le b a = true) ->
  forall x l, sorted_by le l -> sorted_by le (ins le x l).
Proof.
  intros Htot x l. unfold sorted_by. induction l as [|y t IH]; intros Hs; simpl.
  - constructor; constructor.
  - destruct (le x y) eqn:E.
    + constructor; [exact Hs | constructor; exact E].
    + inversion Hs as [|? ? Hst Hhd]; subst. constructor.
      * apply IH. exact Hst.
      * destruct t as [|z t']; simpl.
        -- constructor. apply Htot. exact E.
        -- destruct (le x z); constructor.
           ++ apply Htot. exact E.
           ++ inversion Hhd; assumption.
Qed.

Lemma sort_perm {A} (le : A -> A -> bool) l : Permutation (fold_right (ins le) [] l) l.
Proof.
  induction l as [|x t IH]; simpl.
  - constructor.
  - eapply perm_trans; [apply ins_perm | apply perm_skip; exact IH].
Qed.

Lemma sort_sorted {A} (le : A -> A -> bool) :
  (forall a b, le a b = false -> le b a = true) ->
  forall l, sorted_by le (fold_right (ins le) [] l).
Proof.
  intros Htot l. induction l as [|x t IH]; simpl.
  - constructor.
  - apply ins_sorted; assumption.
Qed.

Lemma In_firstn {A} n (l : list A) x : In x (firstn n l) -> In x l.
Proof.
  revert l. induction n as [|n IH]; intros [|y t]; simpl; try tauto.
  intros [H|H]; [left; exact H | right; apply IH; exact H].
Qed.

Lemma NoDup_firstn {A} n (l : list A) : NoDup l -> NoDup (firstn n l).
Proof.
  revert l. induction n as [|n IH]; intros [|y t] H; simpl; try constructor.
  - inversion H; subst. intros Hin. apply In_firstn in Hin. contradiction.
  - inversion H; subst. apply IH. assumption.
Qed.

Lemma firstn_map {A B} (f : A -> B) n l : firstn n (map f l) = map f (firstn n l).
Proof.
  revert l. induction n as [|n IH]; intros [|y t]; simpl; try reflexivity.
  rewrite IH. reflexivity.
Qed.

Lemma Sorted_firstn {A} (R : A -> A -> Prop) n l : Sorted R l -> Sorted R (firstn n l).
Proof.
  revert l. induction n as [|n IH]; intros [|y t] H; simpl; try constructor.
  - apply IH. inversion H; assumption.
  - inversion H as [|? ? Hs Hhd]; subst. destruct t as [|z t']; destruct n; simpl; constructor.
    inversion Hhd; assumption.
Qed.

Lemma Sorted_map {A B} (R : A -> A -> Prop) (S' : B -> B -> Prop) (f : A -> B) l :
  (forall a b, R a b -> S' (f a) (f b)) -> Sorted R l -> Sorted S' (map f l).
Proof.
  intros Hf. induction l as [|x t IH]; intros H; simpl.
  - constructor.
  - inversion H as [|? ? Hs Hhd]; subst. constructor.
    + apply IH. exact Hs.
    + destruct t; simpl; constructor. inversion Hhd; subst. apply Hf. assumption.
Qed.

Lemma NoDup_tl {A} (l : list A) : NoDup l -> NoDup (tl l).
Proof. destruct l; simpl; intros H; [constructor | inversion H; assumption]. Qed.

Lemma In_tl {A} (l : list A) x : In x (tl l) -> In x l.
Proof. destruct l; simpl; auto. Qed.

(* ------------------------------------------------------------------ search *)

Section SearchProofs.
  Variable K : Type.
  Variable leK : K -> K -> bool.
  Variables gtK ltK : K -> K -> bool.
  Variable kmax : K.
  Variable Q : Type.
  Variable dist : Q -> Z -> K.
  Variable q_ok : Q -> bool.
  Variable lookup : Z -> option node.
  Variable is_empty : bool.
  Variable entry : Z * nat.
  Variable ef_search : nat.
  Variable max_ef_search : nat.
  Variable retries : nat.
  Variable fuel : nat.

  (* the only fact used about the heap order: OrderedFloat is a total preorder *)
  Hypothesis leK_total : forall a b, leK a b = false -> leK b a = true.

  Notation elem := (elem K).
  Notation e_id := (e_id K).
  Notation e_dist := (e_dist K).
  Notation le_res := (le_res K leK).
  Notation ge_res := (ge_res K leK).
  Notation le_cand := (le_cand K leK).
  Notation visit := (visit K leK ltK Q dist lookup).
  Notation sl_loop := (sl_loop K leK gtK ltK Q dist lookup).
  Notation search_layer := (search_layer K leK gtK ltK Q dist lookup fuel).
  Notation search_attempt := (search_attempt K leK gtK ltK kmax Q dist lookup entry ef_search max_ef_search fuel).
  Notation search_inner := (search_inner K leK gtK ltK kmax Q dist lookup is_empty entry ef_search max_ef_search fuel).
  Notation search := (search K leK gtK ltK kmax Q dist q_ok lookup is_empty entry ef_search max_ef_search retries fuel).

  Lemma le_res_total a b : le_res a b = false -> le_res b a = true.
  Proof.
    destruct a as [[d1 i1] l1], b as [[d2 i2] l2]. unfold Model.le_res.
    destruct (ltOK K leK d1 d2) eqn:E1; [discriminate|].
    destruct (ltOK K leK d2 d1) eqn:E2; [reflexivity|].
    destruct (Z.ltb i1 i2) eqn:E3; [discriminate|].
    destruct (Z.ltb i2 i1) eqn:E4; [reflexivity|].
    intros H. apply Nat.leb_gt in H. apply Nat.leb_le. lia.
  Qed.

  Lemma le_res_leK a b : le_res a b = true -> leK (e_dist a) (e_dist b) = true.
  Proof.
    destruct a as [[d1 i1] l1], b as [[d2 i2] l2]. unfold Model.le_res, Model.e_dist. simpl.
    unfold ltOK. destruct (leK d2 d1) eqn:E1; simpl.
    - destruct (leK d1 d2) eqn:E2; simpl; [reflexivity | discriminate].
    - intros _. apply leK_total. exact E1.
  Qed.

  (* what is true of every element of `results` at every point of search_layer *)
  Definition good (q : Q) (vis : list Z) (rs : list elem) : Prop :=
    (forall e, In e rs -> In (e_id e) vis /\ lookup (e_id e) <> None /\ e_dist e = dist q (e_id e))
    /\ NoDup (map e_id rs).

  Lemma good_weaken q vis vis' rs : incl vis vis' -> good q vis rs -> good q vis' rs.
  Proof.
    intros Hi [H1 H2]. split; [|exact H2]. intros e He. destruct (H1 e He) as [A [B C]].
    repeat split; auto.
  Qed.

  Lemma good_tl q vis rs : good q vis rs -> good q vis (tl rs).
  Proof.
    intros [H1 H2]. split.
    - intros e He. apply H1. apply In_tl. exact He.
    - destruct rs; simpl; [constructor | inversion H2; assumption].
  Qed.

  Opaque ins.
  Lemma visit_good q ef vis cs rs nb vis' cs' rs' :
    visit q ef (vis, cs, rs) nb = (vis', cs', rs') ->
    good q vis rs -> good q vis' rs' /\ incl vis vis'.
  Proof.
    unfold Model.visit. destruct (zmem nb vis) eqn:Em.
    - intros E; inversion E; subst. intros G. split; [exact G | apply incl_refl].
    - apply zmem_false in Em.
      assert (Hincl : incl vis (nb :: vis)) by (apply incl_tl, incl_refl).
      destruct (lookup nb) as [nn|] eqn:El.
      + destruct rs as [|mx rt].
        * intros E; inversion E; subst. intros G. split; [eapply good_weaken; eauto | exact Hincl].
        * destruct (ltK (dist q nb) (e_dist mx) || Nat.ltb (length (mx :: rt)) ef).
          -- intros E; inversion E; subst. clear E. intros G. split; [|exact Hincl].
             set (e := (dist q nb, nb, n_layer nn)).
             assert (G' : good q (nb :: vis) (ins ge_res e (mx :: rt))).
             { destruct G as [H1 H2]. split.
               - intros e' He'. apply ins_In in He'. destruct He' as [->|He'].
                 + unfold e, Model.e_id, Model.e_dist. simpl. repeat split; auto. congruence.
                 + destruct (H1 e' He') as [A [B C]]. repeat split; auto; right; exact A.
               - eapply Permutation_NoDup.
                 + apply Permutation_sym. apply Permutation_map. apply ins_perm.
                 + rewrite map_cons. constructor; [|exact H2].
                   intros Hin. apply in_map_iff in Hin. destruct Hin as [e' [Eid He']].
                   destruct (H1 e' He') as [A _]. unfold e in Eid. unfold Model.e_id in Eid at 2.
                   simpl in Eid. rewrite Eid in A. contradiction. }
             destruct (Nat.ltb ef (length (ins ge_res e (mx :: rt)))); [apply good_tl|]; exact G'.
          -- intros E; inversion E; subst. intros G. split; [eapply good_weaken; eauto | exact Hincl].
      + intros E; inversion E; subst. intros G. split; [eapply good_weaken; eauto | exact Hincl].
  Qed.

  Transparent ins.

  Lemma fold_visit_good q ef nbrs : forall vis cs rs vis' cs' rs',
    fold_left (visit q ef) nbrs (vis, cs, rs) = (vis', cs', rs') ->
    good q vis rs -> good q vis' rs'.
  Proof.
    induction nbrs as [|nb t IH]; cbn [fold_left]; intros vis cs rs vis' cs' rs' E G.
    - inversion E; subst. exact G.
    - destruct (visit q ef (vis, cs, rs) nb) as [[v1 c1] r1] eqn:Ev.
      destruct (visit_good _ _ _ _ _ _ _ _ _ Ev G) as [G1 _].
      exact (IH _ _ _ _ _ _ E G1).
  Qed.

  Lemma sl_loop_good q layer ef : forall n vis cs rs out,
    sl_loop q layer ef n (vis, cs, rs) = Some out ->
    good q vis rs -> exists vis', good q vis' out.
  Proof.
    induction n as [|n IH]; cbn [Model.sl_loop]; intros vis cs rs out E G; [discriminate|].
    destruct cs as [|c cs'].
    - inversion E; subst. eauto.
    - destruct (match rs with
                | [] => false
                | mx :: _ => gtK (e_dist c) (e_dist mx) && Nat.leb ef (length rs)
                end).
      + inversion E; subst. eauto.
      + destruct (lookup (e_id c)) as [nd|].
        * destruct (nth_error (n_nbrs nd) layer) as [nbrs|].
          -- destruct (fold_left (visit q ef) nbrs (vis, cs', rs)) as [[v1 c1] r1] eqn:Ef.
             eapply IH; [exact E|]. eapply fold_visit_good; eauto.
          -- eapply IH; eauto.
        * eapply IH; eauto.
  Qed.

  (* the postcondition of search_layer, from any entry point, in any graph *)
  Definition layer_post (q : Q) (rs : list elem) : Prop :=
    (forall e, In e rs -> lookup (e_id e) <> None /\ e_dist e = dist q (e_id e))
    /\ NoDup (map e_id rs)
    /\ sorted_by le_res rs.

  Lemma search_layer_post q ep epl layer ef rs :
    search_layer q ep epl layer ef = Ok rs -> layer_post q rs.
  Proof.
    unfold Model.search_layer. destruct (lookup ep) as [nd|] eqn:El; [|discriminate].
    destruct (sl_loop q layer (Nat.max ef 1) fuel _) as [out|] eqn:Es; [|discriminate].
    intros E; inversion E; subst. clear E.
    assert (G0 : good q [ep] [(dist q ep, ep, epl)]).
    { split.
      - intros e [<-|[]]. unfold Model.e_id, Model.e_dist. simpl. repeat split; auto. congruence.
      - simpl. constructor; [simpl; tauto | constructor]. }
    destruct (sl_loop_good _ _ _ _ _ _ _ _ Es G0) as [vis' [H1 H2]].
    pose proof (sort_perm le_res out) as Hp. fold (sort_res K leK out) in Hp.
    repeat split.
    - apply (Permutation_in _ Hp) in H. destruct (H1 e H) as [_ [B _]]. exact B.
    - apply (Permutation_in _ Hp) in H. destruct (H1 e H) as [_ [_ C]]. exact C.
    - eapply Permutation_NoDup; [apply Permutation_sym, Permutation_map, Hp | exact H2].
    - apply sort_sorted. exact le_res_total.
  Qed.

  (* the statement of C12 about one result list *)
  Definition sound (q : Q) (k : nat) (rs : list (Z * K)) : Prop :=
    length rs <= k
    /\ NoDup (map fst rs)
    /\ (forall id d, In (id, d) rs -> lookup id <> None /\ d = dist q id)
    /\ Sorted (fun a b => leK a b = true) (map snd rs).

  Lemma sound_nil q k : sound q k [].
  Proof.
    unfold sound. simpl. split; [lia|]. split; [constructor|]. split; [intros ? ? []|constructor].
  Qed.

  Lemma search_attempt_sound q k rs : search_attempt q k = Ok rs -> sound q k rs.
  Proof.
    unfold Model.search_attempt. destruct entry as [ep epl].
    destruct (descend _ _ _ _ _ _ _ _ _ _ _ _ _) as [[cur cl]| | |]; try discriminate.
    destruct (search_layer q cur cl 0 _) as [l| | |] eqn:Es; try discriminate.
    intros E; inversion E; subst. clear E.
    destruct (search_layer_post _ _ _ _ _ _ Es) as [H1 [H2 H3]].
    repeat split.
    - rewrite map_length. apply firstn_le_length.
    - rewrite map_map. simpl. apply NoDup_firstn with (n := k) in H2.
      rewrite firstn_map in H2. exact H2.
    - apply in_map_iff in H. destruct H as [e [Ee He]]. inversion Ee; subst.
      apply In_firstn in He. apply H1. exact He.
    - apply in_map_iff in H. destruct H as [e [Ee He]]. inversion Ee; subst.
      apply In_firstn in He. apply H1. exact He.
    - rewrite map_map. simpl.
      apply Sorted_map with (R := fun a b => le_res a b = true) (f := e_dist).
      + intros a b. apply le_res_leK.
      + apply Sorted_firstn. exact H3.
  Qed.

  Lemma search_inner_sound r q k rs : search_inner r q k = Ok rs -> sound q k rs.
  Proof.
    induction r as [|r IH]; simpl; destruct is_empty.
    - intros E; inversion E. apply sound_nil.
    - destruct (search_attempt q k) eqn:Ea; try discriminate.
      intros E; inversion E; subst. eapply search_attempt_sound; eauto.
    - intros E; inversion E. apply sound_nil.
    - destruct (search_attempt q k) eqn:Ea; try discriminate.
      + intros E; inversion E; subst. eapply search_attempt_sound; eauto.
      + exact IH.
  Qed.

  Theorem search_sound q k rs : search q k = Ok rs -> sound q k rs.
  Proof.
    unfold Model.search. destruct k as [|k].
    - intros E; inversion E. apply sound_nil.
    - destruct (q_ok q); [|discriminate]. apply search_inner_sound.
  Qed.

  (* search_layer never returns more than max(ef,1) elements: used for the bound on the
     beam, not needed for soundness *)
  Opaque ins.
  Lemma visit_len q ef vis cs rs nb vis' cs' rs' :
    visit q ef (vis, cs, rs) nb = (vis', cs', rs') ->
    length rs <= ef -> length rs' <= ef.
  Proof.
    unfold Model.visit. destruct (zmem nb vis); [intros E; inversion E; subst; auto|].
    destruct (lookup nb); [|intros E; inversion E; subst; auto].
    destruct rs as [|mx rt]; [intros E; inversion E; subst; auto|].
    destruct (ltK _ _ || _); [|intros E; inversion E; subst; auto].
    intros E; inversion E; subst. clear E. intros Hl.
    destruct (Nat.ltb ef (length (ins ge_res _ (mx :: rt)))) eqn:El.
    - pose proof (ins_length ge_res (dist q nb, nb, n_layer n) (mx :: rt)) as L.
      destruct (ins ge_res _ (mx :: rt)); simpl in *; lia.
    - apply Nat.ltb_ge in El. exact El.
  Qed.

  Transparent ins.

  Lemma fold_visit_len q ef nbrs : forall vis cs rs vis' cs' rs',
    fold_left (visit q ef) nbrs (vis, cs, rs) = (vis', cs', rs') ->
    length rs <= ef -> length rs' <= ef.
  Proof.
    induction nbrs as [|nb t IH]; cbn [fold_left]; intros vis cs rs vis' cs' rs' E L.
    - inversion E; subst. exact L.
    - destruct (visit q ef (vis, cs, rs) nb) as [[v1 c1] r1] eqn:Ev.
      refine (IH _ _ _ _ _ _ E _). eapply visit_len; eauto.
  Qed.

  Lemma sl_loop_len q layer ef : forall n vis cs rs out,
    sl_loop q layer ef n (vis, cs, rs) = Some out -> length rs <= ef -> length out <= ef.
  Proof.
    induction n as [|n IH]; cbn [Model.sl_loop]; intros vis cs rs out E L; [discriminate|].
    destruct cs as [|c cs'].
    - inversion E; subst. exact L.
    - destruct (match rs with [] => false | mx :: _ => _ end).
      + inversion E; subst. exact L.
      + destruct (lookup (e_id c)) as [nd|].
        * destruct (nth_error (n_nbrs nd) layer) as [nbrs|].
          -- destruct (fold_left (visit q ef) nbrs (vis, cs', rs)) as [[v1 c1] r1] eqn:Ef.
             eapply IH; [exact E|]. eapply fold_visit_len; eauto.
          -- eapply IH; eauto.
        * eapply IH; eauto.
  Qed.

  Lemma search_layer_len q ep epl layer ef rs :
    search_layer q ep epl layer ef = Ok rs -> length rs <= Nat.max ef 1.
  Proof.
    unfold Model.search_layer. destruct (lookup ep); [|discriminate].
    destruct (sl_loop q layer (Nat.max ef 1) fuel _) as [out|] eqn:Es; [|discriminate].
    intros E; inversion E; subst.
    unfold sort_res. rewrite (Permutation_length (sort_perm le_res out)).
    eapply sl_loop_len; [exact Es|]. simpl. lia.
  Qed.
End SearchProofs.

(* ------------------------------------------------------------------ concrete graphs *)

Lemma clookup_In g id : clookup g id <> None <-> In id (ckeys g).
Proof.
  induction g as [|[k n] t IH]; simpl.
  - split; [congruence | tauto].
  - destruct (Z.eqb k id) eqn:E.
    + apply Z.eqb_eq in E. split; [auto | congruence].
    + apply Z.eqb_neq in E. rewrite IH. split; [auto | intros [H|H]; [contradiction | exact H]].
Qed.

Lemma clookup_cremove_same g id : clookup (cremove g id) id = None.
Proof.
  induction g as [|[k n] t IH]; simpl; [reflexivity|].
  destruct (Z.eqb k id) eqn:E; simpl; [exact IH | rewrite E; exact IH].
Qed.

Lemma clookup_cremove_other g id j : j <> id -> clookup (cremove g id) j = clookup g j.
Proof.
  intros Hne. induction g as [|[k n] t IH]; simpl; [reflexivity|].
  destruct (Z.eqb k id) eqn:E; simpl.
  - apply Z.eqb_eq in E. subst k. destruct (Z.eqb id j) eqn:E2; [apply Z.eqb_eq in E2; congruence | exact IH].
  - destruct (Z.eqb k j); [reflexivity | exact IH].
Qed.

Lemma clookup_cinsert_same g id n : clookup (cinsert g id n) id = Some n.
Proof. unfold cinsert. simpl. rewrite Z.eqb_refl. reflexivity. Qed.

Lemma clookup_cinsert_other g id n j : j <> id -> clookup (cinsert g id n) j = clookup g j.
Proof.
  intros Hne. unfold cinsert. simpl. destruct (Z.eqb id j) eqn:E.
  - apply Z.eqb_eq in E. congruence.
  - apply clookup_cremove_other. exact Hne.
Qed.

Lemma zremove_not_In x l : ~ In x (zremove x l).
Proof.
  unfold zremove. intros H. apply filter_In in H. destruct H as [_ H].
  rewrite Z.eqb_refl in H. discriminate.
Qed.

Lemma zremove_In x y l : In y (zremove x l) <-> In y l /\ y <> x.
Proof.
  unfold zremove. rewrite filter_In. split; intros [A B]; split; auto.
  - intros ->. rewrite Z.eqb_refl in B. discriminate.
  - apply Bool.negb_true_iff. apply Z.eqb_neq. exact B.
Qed.

Lemma max_layer_node_key g : forall best k l,
  max_layer_node g best = Some (k, l) -> best = Some (k, l) \/ In k (ckeys g).
Proof.
  induction g as [|[k0 n0] t IH]; simpl; intros best k l E.
  - left. exact E.
  - destruct best as [[bk bl]|].
    + destruct (Nat.ltb (n_layer n0) bl).
      * destruct (IH _ _ _ E) as [H|H]; [left; exact H | right; right; exact H].
      * destruct (IH _ _ _ E) as [H|H]; [inversion H; subst; right; left; reflexivity | right; right; exact H].
    + destruct (IH _ _ _ E) as [H|H]; [inversion H; subst; right; left; reflexivity | right; right; exact H].
Qed.

Lemma max_layer_node_some g : forall best, best <> None -> max_layer_node g best <> None.
Proof.
  induction g as [|[k0 n0] t IH]; simpl; intros best Hb; [exact Hb|].
  destruct best as [[bk bl]|]; [|congruence].
  destruct (Nat.ltb (n_layer n0) bl); apply IH; congruence.
Qed.

Lemma repair_entry_ok g : g = [] \/ clookup g (fst (repair_entry g)) <> None.
Proof.
  destruct g as [|[k0 n0] t]; [left; reflexivity | right].
  unfold repair_entry. destruct (max_layer_node ((k0, n0) :: t) None) as [[k l]|] eqn:E.
  - apply max_layer_node_key in E. destruct E as [E|E]; [discriminate|].
    apply clookup_In. exact E.
  - simpl in E. exfalso. revert E. apply max_layer_node_some. congruence.
Qed.

(* ---- remove ---- *)

Lemma dedup_In l : forall x, In x (dedup l) -> In x l.
Proof.
  unfold dedup. intros x.
  assert (G : forall acc, In x (fold_left (fun acc x => if zmem x acc then acc else acc ++ [x]) l acc)
                     -> In x acc \/ In x l).
  { induction l as [|y t IH]; simpl; intros acc H; [left; exact H|].
    apply IH in H. destruct H as [H|H]; [|right; right; exact H].
    destruct (zmem y acc); [left; exact H|].
    apply in_app_or in H. destruct H as [H|[H|[]]]; [left; exact H | right; left; exact H]. }
  intros H. apply G in H. destruct H as [[]|H]. exact H.
Qed.

Section RemoveProofs.
  Variable relink : Z -> nat -> list Z -> list Z.

  Definition rm_step (id : Z) (acc : cgraph * list Z) (nid : Z) : cgraph * list Z :=
    let '(g, dirty) := acc in
    match clookup g nid with
    | Some n =>
      let '(ls', updated) := rewire_layers relink id nid 0 (firstn (S (n_layer n)) (n_nbrs n)) in
      if updated
      then (cinsert g nid (mkNode (n_layer n) (ls' ++ skipn (S (n_layer n)) (n_nbrs n))), nid :: dirty)
      else (g, dirty)
    | None => (g, dirty)
    end.

  Lemma rm_step_dom id g dirty nid g' dirty' j :
    rm_step id (g, dirty) nid = (g', dirty') ->
    (clookup g' j = None <-> clookup g j = None).
  Proof.
    unfold rm_step. destruct (clookup g nid) as [n|] eqn:El.
    - destruct (rewire_layers relink id nid 0 _) as [ls' updated]. destruct updated.
      + intros E; inversion E; subst. destruct (Z.eq_dec j nid) as [->|Hne].
        * rewrite clookup_cinsert_same, El. split; discriminate.
        * rewrite clookup_cinsert_other by exact Hne. tauto.
      + intros E; inversion E; subst. tauto.
    - intros E; inversion E; subst. tauto.
  Qed.

  Lemma rm_fold_dom id nids : forall g dirty g' dirty' j,
    fold_left (rm_step id) nids (g, dirty) = (g', dirty') ->
    (clookup g' j = None <-> clookup g j = None).
  Proof.
    induction nids as [|nid t IH]; cbn [fold_left]; intros g dirty g' dirty' j E.
    - inversion E; subst. tauto.
    - destruct (rm_step id (g, dirty) nid) as [g1 d1] eqn:Es.
      rewrite (IH _ _ _ _ j E). eapply rm_step_dom; eauto.
  Qed.

  Definition after_remove (ix : index) (id : Z) (ix' : index) : Prop :=
    clookup (ix_nodes ix') id = None
    /\ ~ In id (ix_ids ix')
    /\ (forall j, j <> id -> (clookup (ix_nodes ix') j = None <-> clookup (ix_nodes ix) j = None))
    /\ (forall j, j <> id -> (In j (ix_ids ix') <-> In j (ix_ids ix)))
    /\ (ix_nodes ix' = [] \/ clookup (ix_nodes ix) (fst (ix_entry ix)) = None
        \/ clookup (ix_nodes ix') (fst (ix_entry ix')) <> None).

  Lemma remove_spec ix id ix' b :
    remove relink ix id = (ix', b) ->
    (b = false /\ ix' = ix /\ clookup (ix_nodes ix) id = None) \/ (b = true /\ after_remove ix id ix').
  Proof.
    unfold remove. destruct (clookup (ix_nodes ix) id) as [nd|] eqn:El.
    - set (nids := dedup _).
      change (fold_left _ nids (cremove (ix_nodes ix) id, []))
        with (fold_left (rm_step id) nids (cremove (ix_nodes ix) id, [])).
      destruct (fold_left (rm_step id) nids (cremove (ix_nodes ix) id, [])) as [nodes2 dirty] eqn:Ef.
      intros E; inversion E; subst. clear E. right. split; [reflexivity|].
      unfold after_remove. simpl.
      assert (Hdom : forall j, clookup nodes2 j = None <-> clookup (cremove (ix_nodes ix) id) j = None)
        by (intros j; eapply rm_fold_dom; eauto).
      split; [|split; [|split; [|split]]].
      + apply Hdom. apply clookup_cremove_same.
      + apply zremove_not_In.
      + intros j Hj. rewrite Hdom. rewrite clookup_cremove_other by assumption. tauto.
      + intros j Hj. rewrite zremove_In. tauto.
      + destruct (Z.eqb (fst (ix_entry ix)) id) eqn:Ee.
        * destruct (repair_entry_ok (cremove (ix_nodes ix) id)) as [Hempty|Hok].
          -- left. destruct nodes2 as [|[k n] t]; [reflexivity|]. exfalso.
             assert (clookup ((k, n) :: t) k <> None) by (simpl; rewrite Z.eqb_refl; congruence).
             apply H. apply Hdom. rewrite Hempty. reflexivity.
          -- right. right. intros H. apply Hdom in H. contradiction.
        * apply Z.eqb_neq in Ee.
          destruct (clookup (ix_nodes ix) (fst (ix_entry ix))) eqn:Eent; [|right; left; reflexivity].
          right. right. intros H. apply Hdom in H. rewrite clookup_cremove_other in H by assumption.
          congruence.
    - intros E; inversion E; subst. left. auto.
  Qed.
End RemoveProofs.

(* ---- load ---- *)

Definition fetch_missing (f : fetched) : bool := match f with Missing => true | _ => false end.

Lemma load_stream_spec cfg fetch ids : forall nodes missing nodes' missing',
  load_stream cfg fetch ids nodes missing = Some (nodes', missing') ->
  (forall j, clookup nodes' j <> None <->
             clookup nodes j <> None \/ (In j ids /\ fetch_missing (fetch j) = false))
  /\ (forall j, In j missing' <-> In j missing \/ (In j ids /\ fetch_missing (fetch j) = true)).
Proof.
  induction ids as [|id t IH]; simpl; intros nodes missing nodes' missing' E.
  - inversion E; subst. split; intros j; tauto.
  - destruct (fetch id) as [|[|r]|] eqn:Ef; try discriminate.
    + destruct (IH _ _ _ _ E) as [H1 H2]. split; intros j.
      * rewrite H1. split; intros [H|[H H']]; auto.
        destruct H as [->|H]; [rewrite Ef in H'; discriminate | auto].
      * rewrite H2. rewrite in_app_iff. simpl. split.
        -- intros [[H|[H|[]]]|[H H']]; auto. subst. right. rewrite Ef. auto.
        -- intros [H|[[H|H] H']]; auto.
    + destruct (validate cfg id r); [discriminate|].
      destruct (IH _ _ _ _ E) as [H1 H2]. split; intros j.
      * rewrite H1. destruct (Z.eq_dec j id) as [->|Hne].
        -- rewrite clookup_cinsert_same. rewrite Ef. simpl. split; intros _; [right; auto | left; congruence].
        -- rewrite clookup_cinsert_other by exact Hne. split; intros [H|[H H']]; auto.
           destruct H as [H|H]; [congruence | auto].
      * rewrite H2. split; intros [H|[H H']]; auto.
        destruct H as [->|H]; [rewrite Ef in H'; discriminate | auto].
Qed.

(* every node that load_stream stores passed validate_loaded_node *)
Definition node_valid (cfg : config) (n : node) : Prop :=
  n_layer n < c_max_layers cfg /\ length (n_nbrs n) = S (n_layer n).

Lemma validate_valid cfg id r :
  validate cfg id r = None -> r_id r = id /\ node_valid cfg (mkNode (r_layer r) (r_nbrs r)).
Proof.
  unfold validate, node_valid. simpl.
  destruct (Z.eqb (r_id r) id) eqn:E1; simpl; [|discriminate].
  destruct (Nat.eqb (r_dim r) (c_dimension cfg)); simpl; [|discriminate].
  destruct (Nat.leb (c_max_layers cfg) (r_layer r)) eqn:E3; [discriminate|].
  destruct (Nat.eqb (length (r_nbrs r)) (S (r_layer r))) eqn:E4; simpl; [|discriminate].
  intros _. apply Z.eqb_eq in E1. apply Nat.leb_gt in E3. apply Nat.eqb_eq in E4. auto.
Qed.

Lemma load_stream_valid cfg fetch ids : forall nodes missing nodes' missing',
  load_stream cfg fetch ids nodes missing = Some (nodes', missing') ->
  (forall j n, clookup nodes j = Some n -> node_valid cfg n) ->
  (forall j n, clookup nodes' j = Some n -> node_valid cfg n).
Proof.
  induction ids as [|id t IH]; simpl; intros nodes missing nodes' missing' E Hv.
  - inversion E; subst. exact Hv.
  - destruct (fetch id) as [|[|r]|] eqn:Ef; try discriminate.
    + eapply IH; eauto.
    + destruct (validate cfg id r) eqn:Ev; [discriminate|].
      eapply IH; [exact E|]. intros j n. destruct (Z.eq_dec j id) as [->|Hne].
      * rewrite clookup_cinsert_same. intros H; inversion H; subst.
        apply (validate_valid _ _ _ Ev).
      * rewrite clookup_cinsert_other by exact Hne. apply Hv.
Qed.

Lemma clookup_prune missing g j :
  clookup (prune_edges missing g) j =
  option_map (fun n => mkNode (n_layer n) (map (filter (fun x => negb (zmem x missing))) (n_nbrs n)))
             (clookup g j).
Proof.
  induction g as [|[k n] t IH]; simpl; [reflexivity|].
  destruct (Z.eqb k j); [reflexivity | exact IH].
Qed.

(* the conclusion of C12 about a loaded index *)
Definition bounded (ix : index) : Prop :=
  (forall j, clookup (ix_nodes ix) j <> None <-> In j (ix_ids ix))
  /\ (ix_nodes ix = [] \/ clookup (ix_nodes ix) (fst (ix_entry ix)) <> None).

Theorem load_nodes_bounded cfg entry0 removed0 ids fetch ix :
  load_nodes cfg entry0 removed0 ids fetch = Some ix -> bounded ix.
Proof.
  unfold load_nodes. destruct ids as [|i0 it] eqn:Eids.
  - intros E; inversion E; subst. split; simpl; [|left; reflexivity].
    intros j. split; [congruence | tauto].
  - rewrite <- Eids. clear Eids i0 it.
    destruct (load_stream cfg fetch ids [] []) as [[nodes missing]|] eqn:Es; [|discriminate].
    destruct (load_stream_spec _ _ _ _ _ _ _ Es) as [H1 H2].
    destruct missing as [|m mt] eqn:Em.
    + assert (Hall : forall j, In j ids -> fetch_missing (fetch j) = false).
      { intros j Hj. destruct (fetch_missing (fetch j)) eqn:Ef; [|reflexivity].
        exfalso. apply (proj2 (H2 j)). right. auto. }
      assert (Hk : forall j, clookup nodes j <> None <-> In j ids).
      { intros j. rewrite H1. simpl. split.
        - intros [H|[H _]]; [congruence | exact H].
        - intros H. right. auto. }
      destruct (clookup nodes (fst entry0)) eqn:Ee; intros E; inversion E; subst; split; simpl; auto.
      * right. congruence.
      * apply repair_entry_ok.
    + rewrite <- Em in *. clear Em m mt.
      intros E; inversion E; subst. clear E. split; simpl.
      * intros j. rewrite clookup_prune. rewrite filter_In.
        assert (Hopt : option_map
                         (fun n => mkNode (n_layer n) (map (filter (fun x => negb (zmem x missing))) (n_nbrs n)))
                         (clookup nodes j) <> None <-> clookup nodes j <> None)
          by (destruct (clookup nodes j); simpl; split; congruence).
        rewrite Hopt, H1. simpl. split.
        -- intros [H|[H H']]; [congruence|]. split; [exact H|].
           apply Bool.negb_true_iff. apply zmem_false. intros Hm. apply H2 in Hm.
           destruct Hm as [[]|[_ Hm]]. congruence.
        -- intros [H H']. right. split; [exact H|].
           apply Bool.negb_true_iff in H'. apply zmem_false in H'.
           destruct (fetch_missing (fetch j)) eqn:Ef; [|reflexivity].
           exfalso. apply H'. apply H2. right. auto.
      * apply repair_entry_ok.
Qed.

(* after a load that found blobs missing, no surviving edge points at a missing id *)
Theorem load_nodes_no_edge_to_missing cfg entry0 removed0 ids fetch ix :
  load_nodes cfg entry0 removed0 ids fetch = Some ix ->
  forall j n l x, clookup (ix_nodes ix) j = Some n -> In l (n_nbrs n) -> In x l ->
                  In x ids -> fetch_missing (fetch x) = false.
Proof.
  unfold load_nodes. destruct ids as [|i0 it] eqn:Eids.
  - intros E; inversion E; subst. simpl. discriminate.
  - rewrite <- Eids. clear Eids i0 it.
    destruct (load_stream cfg fetch ids [] []) as [[nodes missing]|] eqn:Es; [|discriminate].
    destruct (load_stream_spec _ _ _ _ _ _ _ Es) as [H1 H2].
    destruct missing as [|m mt] eqn:Em.
    + intros _ j n l x _ _ _ Hx. destruct (fetch_missing (fetch x)) eqn:Ef; [|reflexivity].
      exfalso. apply (proj2 (H2 x)). right. auto.
    + rewrite <- Em in *. clear Em m mt.
      intros E; inversion E; subst. clear E. simpl. intros j n l x Hl Hin Hx Hids.
      rewrite clookup_prune in Hl. destruct (clookup nodes j) as [n0|]; [|discriminate].
      simpl in Hl. inversion Hl; subst. clear Hl. simpl in Hin.
      apply in_map_iff in Hin. destruct Hin as [l0 [<- _]].
      apply filter_In in Hx. destruct Hx as [_ Hx].
      apply Bool.negb_true_iff in Hx. apply zmem_false in Hx.
      destruct (fetch_missing (fetch x)) eqn:Ef; [|reflexivity].
      exfalso. apply Hx. apply H2. right. auto.
Qed.

Theorem load_nodes_valid cfg entry0 removed0 ids fetch ix :
  load_nodes cfg entry0 removed0 ids fetch = Some ix ->
  forall j n, clookup (ix_nodes ix) j = Some n ->
    n_layer n < c_max_layers cfg /\ length (n_nbrs n) = S (n_layer n).
Proof.
  unfold load_nodes. destruct ids as [|i0 it] eqn:Eids.
  - intros E; inversion E; subst. simpl. discriminate.
  - rewrite <- Eids. clear Eids i0 it.
    destruct (load_stream cfg fetch ids [] []) as [[nodes missing]|] eqn:Es; [|discriminate].
    assert (Hv : forall j n, clookup nodes j = Some n -> node_valid cfg n).
    { eapply load_stream_valid; [exact Es|]. simpl. discriminate. }
    destruct missing as [|m mt].
    + destruct (clookup nodes (fst entry0)); intros E; inversion E; subst; simpl; exact Hv.
    + intros E; inversion E; subst. clear E. simpl. intros j n Hl.
      rewrite clookup_prune in Hl. destruct (clookup nodes j) as [n0|] eqn:E0; [|discriminate].
      simpl in Hl. inversion Hl; subst. simpl. rewrite map_length. apply (Hv _ _ E0).
Qed.

(* every crash prefix of any write sequence over any disk: whatever load_all accepts is bounded *)
Theorem crash_prefix_load_bounded cfg d ws k ix :
  load_all cfg (crash d ws k) = Some ix -> bounded ix.
Proof. unfold load_all. apply load_nodes_bounded. Qed.

(* ---- search over concrete indexes ---- *)

Section CSearchProofs.
  Variable K : Type.
  Variable leK gtK ltK : K -> K -> bool.
  Variable kmax : K.
  Variable Q : Type.
  Variable dist : Q -> Z -> K.
  Variable q_ok : Q -> bool.
  Variables ef_search max_ef_search retries : nat.
  Hypothesis leK_total : forall a b, leK a b = false -> leK b a = true.

  Notation csearch := (csearch K leK gtK ltK kmax Q dist q_ok ef_search max_ef_search retries).

  Lemma csearch_sound ix q k rs :
    csearch ix q k = Ok rs -> sound K leK Q dist (clookup (ix_nodes ix)) q k rs.
  Proof. unfold Model.csearch. apply search_sound. exact leK_total. Qed.

  (* a removed id is never returned *)
  Theorem remove_unreachable relink ix id ix' :
    remove relink ix id = (ix', true) ->
    clookup (ix_nodes ix') id = None /\ ~ In id (ix_ids ix') /\
    forall q k rs, csearch ix' q k = Ok rs -> ~ In id (map fst rs).
  Proof.
    intros E. destruct (remove_spec _ _ _ _ _ E) as [[Hb _]|[_ H]]; [discriminate|].
    destruct H as [H1 [H2 _]]. repeat split; auto.
    intros q k rs Es Hin. apply csearch_sound in Es. destruct Es as [_ [_ [Hs _]]].
    apply in_map_iff in Hin. destruct Hin as [[i d] [Ei Hi]]. simpl in Ei. subst i.
    destruct (Hs _ _ Hi) as [Hl _]. contradiction.
  Qed.

  (* after any load (in particular of any crash prefix) search only returns ids of the bitmap *)
  Theorem load_then_search cfg d ws kc ix q k rs :
    load_all cfg (crash d ws kc) = Some ix ->
    csearch ix q k = Ok rs ->
    sound K leK Q dist (clookup (ix_nodes ix)) q k rs /\ (forall id, In id (map fst rs) -> In id (ix_ids ix)).
  Proof.
    intros El Es. pose proof (crash_prefix_load_bounded _ _ _ _ _ El) as [Hb _].
    pose proof (csearch_sound _ _ _ _ Es) as Hs. split; [exact Hs|].
    intros id Hin. apply in_map_iff in Hin. destruct Hin as [[i dd] [Ei Hi]]. simpl in Ei. subst i.
    destruct Hs as [_ [_ [Hs _]]]. apply Hb. apply (Hs _ _ Hi).
  Qed.
End CSearchProofs.
