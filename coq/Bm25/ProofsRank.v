(* C11 — ranking: compare_scored_docs is a total order (strict on distinct ids), so
   top_k_results k = the first k of the sorted full list, whatever order the hash map
   iterates in and whatever select_nth_unstable_by does within its contract. *)
From Coq Require Import List Bool Arith ZArith Lia Permutation Sorting.Sorted.
From Verif Require Import Bm25.Model.
Import ListNotations.
Open Scope list_scope.

Definition hle (a b : hit) : Prop := hit_leb a b = true.

Ltac cmp_cases :=
  repeat match goal with
         | |- context [Z.compare ?x ?y] => destruct (Z.compare_spec x y)
         | H : context [Z.compare ?x ?y] |- _ => destruct (Z.compare_spec x y)
         end.

Lemma hle_total a b : hle a b \/ hle b a.
Proof.
  unfold hle, hit_leb, hit_compare.
  destruct (h_nan a), (h_nan b); cmp_cases; auto; try lia.
Qed.

Lemma hle_refl a : hle a a.
Proof. destruct (hle_total a a); auto. Qed.

Lemma hle_trans a b c : hle a b -> hle b c -> hle a c.
Proof.
  unfold hle, hit_leb, hit_compare.
  destruct (h_nan a), (h_nan b), (h_nan c); intros H1 H2; cmp_cases; auto; try discriminate; try lia.
Qed.

Lemma hle_antisym_id a b : hle a b -> hle b a -> h_id a = h_id b.
Proof.
  unfold hle, hit_leb, hit_compare.
  destruct (h_nan a), (h_nan b); intros H1 H2; cmp_cases; auto; try discriminate; try lia.
Qed.

(* strictness on distinct ids: exactly one direction holds *)
Lemma hle_strict a b : h_id a <> h_id b -> hle a b -> ~ hle b a.
Proof. intros Hn H1 H2. apply Hn. apply hle_antisym_id; auto. Qed.

(* ---- insertion sort *)
Lemma hit_insert_perm x l : Permutation (hit_insert x l) (x :: l).
Proof.
  induction l as [|y r IH]; simpl; auto.
  destruct (hit_leb x y); auto.
  eapply perm_trans; [apply perm_skip; apply IH|]. apply perm_swap.
Qed.

Lemma hit_sort_perm l : Permutation (hit_sort l) l.
Proof.
  induction l as [|x r IH]; simpl; auto.
  eapply perm_trans; [apply hit_insert_perm|]. auto.
Qed.

Lemma hit_sort_length l : length (hit_sort l) = length l.
Proof. apply Permutation_length, hit_sort_perm. Qed.

Lemma hit_insert_sorted x l : StronglySorted hle l -> StronglySorted hle (hit_insert x l).
Proof.
  induction l as [|y r IH]; intros S; simpl.
  - constructor; auto.
  - inversion S as [|? ? Sr Fy]; subst.
    destruct (hit_leb x y) eqn:E.
    + constructor; auto. constructor; auto.
      eapply Forall_impl; [|exact Fy]. intros z Hz. eapply hle_trans; eauto.
    + constructor; auto.
      assert (Hyx : hle y x) by (destruct (hle_total x y) as [H|H]; auto; unfold hle in H; congruence).
      eapply Permutation_Forall; [apply Permutation_sym, hit_insert_perm|].
      constructor; auto.
Qed.

Lemma hit_sort_sorted l : StronglySorted hle (hit_sort l).
Proof. induction l; simpl. constructor. apply hit_insert_sorted; auto. Qed.

(* ---- a sorted list is determined by its elements when ids are distinct *)
Lemma nodup_map_inj (l : list hit) a b :
  NoDup (map h_id l) -> In a l -> In b l -> h_id a = h_id b -> a = b.
Proof.
  induction l as [|x r IH]; simpl; intros N Ha Hb E; [contradiction|].
  inversion N as [|? ? Nx Nr]; subst.
  destruct Ha as [->|Ha], Hb as [->|Hb]; auto.
  - exfalso. apply Nx. rewrite E. apply in_map; auto.
  - exfalso. apply Nx. rewrite <- E. apply in_map; auto.
Qed.

Lemma sorted_unique l1 : forall l2,
    StronglySorted hle l1 -> StronglySorted hle l2 -> Permutation l1 l2 ->
    NoDup (map h_id l1) -> l1 = l2.
Proof.
  induction l1 as [|a r1 IH]; intros l2 S1 S2 P N.
  - apply Permutation_nil in P. auto.
  - destruct l2 as [|b r2]; [apply Permutation_sym, Permutation_nil in P; discriminate|].
    inversion S1 as [|? ? S1r F1]; inversion S2 as [|? ? S2r F2]; subst.
    assert (Hab : a = b).
    { assert (Ina : In a (b :: r2)) by (eapply Permutation_in; [exact P|left; auto]).
      assert (Inb : In b (a :: r1)) by (eapply Permutation_in; [apply Permutation_sym; exact P|left; auto]).
      apply (nodup_map_inj (a :: r1)); auto; [left; auto|].
      apply hle_antisym_id.
      - destruct Inb as [->|Inb]; [apply hle_refl|]. rewrite Forall_forall in F1; auto.
      - destruct Ina as [->|Ina]; [apply hle_refl|]. rewrite Forall_forall in F2; auto. }
    subst b. f_equal. apply IH; auto.
    + eapply Permutation_cons_inv; eauto.
    + simpl in N. inversion N; auto.
Qed.

Lemma sorted_app l1 l2 :
  StronglySorted hle l1 -> StronglySorted hle l2 ->
  (forall x y, In x l1 -> In y l2 -> hle x y) -> StronglySorted hle (l1 ++ l2).
Proof.
  induction l1 as [|a r IH]; simpl; intros S1 S2 H; auto.
  inversion S1 as [|? ? Sr Fa]; subst. constructor.
  - apply IH; auto.
  - apply Forall_app. split; auto. apply Forall_forall. intros y Hy. apply H; auto.
Qed.

Lemma hit_sort_perm_eq l l' :
  Permutation l l' -> NoDup (map h_id l) -> hit_sort l = hit_sort l'.
Proof.
  intros P N. apply sorted_unique; try apply hit_sort_sorted.
  - eapply perm_trans; [apply hit_sort_perm|]. eapply perm_trans; [exact P|]. apply Permutation_sym, hit_sort_perm.
  - eapply Permutation_NoDup; [|exact N]. apply Permutation_map, Permutation_sym, hit_sort_perm.
Qed.

Section TopK.
  Variable select_nth : nat -> list hit -> list hit.
  (* contract of slice::select_nth_unstable_by(n, cmp) (std documentation): the result is a
     reordering of the slice in which the element at index n is in its sorted position,
     everything before it is <= it and everything after it is >= it.  Used in the form:
     every element among the first n+1 is <= every element after them (transitivity). *)
  Hypothesis select_perm : forall n l, Permutation (select_nth n l) l.
  Hypothesis select_split : forall n l x y,
      In x (firstn (S n) (select_nth n l)) -> In y (skipn (S n) (select_nth n l)) -> hle x y.

  Theorem top_k_spec k l :
    NoDup (map h_id l) -> top_k select_nth k l = firstn k (hit_sort l).
  Proof.
    intros N. unfold top_k.
    destruct (Nat.eqb k 0) eqn:Ek; simpl.
    { apply Nat.eqb_eq in Ek. subst. reflexivity. }
    destruct l as [|x0 l0]; [simpl; destruct k; reflexivity|].
    simpl is_nil. cbv iota.
    apply Nat.eqb_neq in Ek.
    set (l := x0 :: l0) in *.
    destruct (Nat.ltb k (length l)) eqn:Elt.
    - apply Nat.ltb_lt in Elt.
      set (r := select_nth (k - 1) l).
      assert (Hr : Permutation r l) by apply select_perm.
      assert (Hsplit : forall x y, In x (firstn k r) -> In y (skipn k r) -> hle x y).
      { intros x y Hx Hy. apply (select_split (k - 1) l); replace (S (k - 1)) with k by lia; auto. }
      assert (Hs : hit_sort l = hit_sort (firstn k r) ++ hit_sort (skipn k r)).
      { apply sorted_unique.
        - apply hit_sort_sorted.
        - apply sorted_app; try apply hit_sort_sorted.
          intros x y Hx Hy. apply Hsplit.
          + eapply Permutation_in; [apply hit_sort_perm|auto].
          + eapply Permutation_in; [apply hit_sort_perm|auto].
        - eapply perm_trans; [apply hit_sort_perm|].
          eapply perm_trans; [apply Permutation_sym; exact Hr|].
          rewrite <- (firstn_skipn k r) at 1.
          apply Permutation_app; apply Permutation_sym, hit_sort_perm.
        - eapply Permutation_NoDup; [|exact N]. apply Permutation_map, Permutation_sym, hit_sort_perm. }
      rewrite Hs.
      assert (Hlen : length (hit_sort (firstn k r)) = k).
      { rewrite hit_sort_length, firstn_length. rewrite (Permutation_length Hr). lia. }
      rewrite firstn_app, Hlen, Nat.sub_diag. simpl. rewrite app_nil_r.
      rewrite <- Hlen at 2. rewrite firstn_all. reflexivity.
    - apply Nat.ltb_ge in Elt. rewrite firstn_all2; auto. rewrite hit_sort_length. auto.
  Qed.

  Theorem top_k_prefix k l :
    NoDup (map h_id l) -> top_k select_nth k l = firstn k (top_k select_nth (S k) l).
  Proof.
    intros N. rewrite !top_k_spec by auto. rewrite firstn_firstn. f_equal. lia.
  Qed.

  Theorem top_k_sorted k l : NoDup (map h_id l) -> StronglySorted hle (top_k select_nth k l).
  Proof.
    intros N. rewrite top_k_spec by auto.
    generalize (hit_sort_sorted l). generalize (hit_sort l). clear.
    intros s S. revert k. induction S; intros k; destruct k; simpl; try constructor; auto.
    clear - H. revert k. induction l; intros k; destruct k; simpl; auto.
    inversion H; subst. constructor; auto.
  Qed.
End TopK.

(* the answer does not depend on the iteration order of the score map nor on which
   admissible select_nth is used: repeated queries agree *)
Theorem top_k_perm sel sel' k l l' :
  (forall n l, Permutation (sel n l) l) ->
  (forall n l x y, In x (firstn (S n) (sel n l)) -> In y (skipn (S n) (sel n l)) -> hle x y) ->
  (forall n l, Permutation (sel' n l) l) ->
  (forall n l x y, In x (firstn (S n) (sel' n l)) -> In y (skipn (S n) (sel' n l)) -> hle x y) ->
  Permutation l l' -> NoDup (map h_id l) ->
  top_k sel k l = top_k sel' k l'.
Proof.
  intros P1 S1 P2 S2 P N.
  rewrite (top_k_spec sel P1 S1) by auto.
  rewrite (top_k_spec sel' P2 S2).
  - f_equal. apply hit_sort_perm_eq; auto.
  - eapply Permutation_NoDup; [|exact N]. apply Permutation_map; auto.
Qed.
