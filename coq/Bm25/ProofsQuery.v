(* C11 — execute_query returns exactly the set its Term/And/Or/Not structure denotes. *)
From Coq Require Import List String Bool Arith ZArith Lia.
From Verif Require Import Bm25.Model.
Import ListNotations.
Open Scope list_scope.

(* ------------------------------------------------------------------ id sets *)
Lemma zmem_In d l : zmem d l = true <-> In d l.
Proof.
  induction l as [|x r IH]; simpl; [split; [discriminate|tauto]|].
  rewrite orb_true_iff, Z.eqb_eq, IH. tauto.
Qed.

Lemma zmem_false d l : zmem d l = false <-> ~ In d l.
Proof. rewrite <- zmem_In. destruct (zmem d l); split; congruence. Qed.

Lemma zadd_In x d l : In x (zadd d l) <-> x = d \/ In x l.
Proof.
  unfold zadd. destruct (zmem d l) eqn:E.
  - apply zmem_In in E. split; auto. intros [->|]; auto.
  - rewrite in_app_iff. simpl. intuition.
Qed.


Lemma NoDup_snoc (A : Type) (l : list A) x : NoDup l -> ~ In x l -> NoDup (l ++ [x]).
Proof.
  induction l as [|a r IH]; simpl; intros N Hn.
  - constructor; [intros []|constructor].
  - inversion N; subst. constructor.
    + rewrite in_app_iff. simpl. intros [H|[H|[]]]; [contradiction|subst; apply Hn; left; auto].
    + apply IH; auto.
Qed.

Lemma zadd_NoDup d l : NoDup l -> NoDup (zadd d l).
Proof.
  unfold zadd. destruct (zmem d l) eqn:E; auto. intros N.
  apply zmem_false in E. apply NoDup_snoc; auto.
Qed.

Lemma zunion_In x b : forall a, In x (zunion a b) <-> In x a \/ In x b.
Proof.
  unfold zunion. induction b as [|y r IH]; intros a; simpl; [tauto|].
  rewrite IH, zadd_In. intuition.
Qed.

Lemma zunion_NoDup b : forall a, NoDup a -> NoDup (zunion a b).
Proof.
  unfold zunion. induction b as [|y r IH]; intros a N; simpl; auto.
  apply IH. apply zadd_NoDup; auto.
Qed.

Lemma zinter_In x a b : In x (zinter a b) <-> In x a /\ In x b.
Proof. unfold zinter. rewrite filter_In, zmem_In. tauto. Qed.

Lemma zdiff_In x a b : In x (zdiff a b) <-> In x a /\ ~ In x b.
Proof. unfold zdiff. rewrite filter_In, negb_true_iff, zmem_false. tauto. Qed.

Lemma is_nil_true (A : Type) (l : list A) : is_nil l = true <-> l = [].
Proof. destruct l; simpl; split; auto; discriminate. Qed.

(* ------------------------------------------------------------------ string helpers *)
Lemma smem_In t l : smem t l = true <-> In t l.
Proof.
  induction l as [|x r IH]; simpl; [split; [discriminate|tauto]|].
  rewrite orb_true_iff, String.eqb_eq, IH. tauto.
Qed.

Lemma sdedup_In t l : In t (sdedup l) <-> In t l.
Proof.
  induction l as [|x r IH]; simpl; [tauto|].
  destruct (smem x r) eqn:E.
  - rewrite IH. apply smem_In in E. intuition. subst; auto.
  - simpl. rewrite IH. tauto.
Qed.

Lemma sdedup_NoDup l : NoDup (sdedup l).
Proof.
  induction l as [|x r IH]; simpl; [constructor|].
  destruct (smem x r) eqn:E; auto. constructor; auto.
  rewrite sdedup_In, <- smem_In. congruence.
Qed.

Section Q.
  Variable tokenize : string -> list string.
  Notation toks := (toks tokenize).
  Notation freqs := (freqs tokenize).
  Notation exec := (exec tokenize).
  Notation denote := (denote tokenize).
  Notation score_term := (score_term tokenize).

  Lemma freqs_keys text : map fst (freqs text) = sdedup (toks text).
  Proof. unfold Model.freqs. rewrite map_map. simpl. apply map_id. Qed.

  Lemma freqs_nil text : is_nil (freqs text) = true <-> toks text = [].
  Proof.
    rewrite is_nil_true. split; intros H.
    - assert (K : map fst (freqs text) = []) by (rewrite H; auto).
      rewrite freqs_keys in K. destruct (toks text) as [|x r]; auto.
      assert (In x (sdedup (x :: r))) by (apply sdedup_In; left; auto). rewrite K in H0. contradiction.
    - unfold Model.freqs. rewrite H. reflexivity.
  Qed.

  Lemma live_In s d : live s d = true <-> In d (map fst (doc_tokens s)).
  Proof.
    unfold live. induction (doc_tokens s) as [|[k v] r IH]; simpl; [split; [discriminate|tauto]|].
    destruct (Z.eqb k d) eqn:E.
    - apply Z.eqb_eq in E. split; auto.
    - apply Z.eqb_neq in E. rewrite IH. intuition.
  Qed.

  Lemma has_entry_In s tok d :
    has_entry s tok d = true <-> exists es, slookup tok (postings s) = Some es /\ In d (map fst es).
  Proof.
    unfold has_entry. destruct (slookup tok (postings s)) as [es|].
    - rewrite existsb_exists. split.
      + intros (e & He & Eq). apply Z.eqb_eq in Eq. exists es. split; auto. subst. apply in_map; auto.
      + intros (es' & E & Hin). inversion E; subst. apply in_map_iff in Hin as (e & <- & He).
        exists e. split; auto. apply Z.eqb_refl.
    - split; [discriminate|]. intros (es & E & _). discriminate.
  Qed.

  (* ---------------------------------------------------------------- score_term *)
  Lemma term_fold_In s d l : forall acc,
      In d (fold_left
              (fun scores tok =>
                 match slookup tok (postings s) with
                 | Some es =>
                     let valid := filter (live s) (map fst es) in
                     if is_nil valid then scores else zunion scores valid
                 | None => scores
                 end) l acc)
      <-> In d acc \/ (live s d = true /\ exists tok, In tok l /\ has_entry s tok d = true).
  Proof.
    induction l as [|tok r IH]; intros acc; simpl.
    - split; auto. intros [H|(_ & t & [] & _)]; auto.
    - rewrite IH. clear IH.
      assert (Step : forall acc',
                 acc' = match slookup tok (postings s) with
                        | Some es => let valid := filter (live s) (map fst es) in
                                     if is_nil valid then acc else zunion acc valid
                        | None => acc end ->
                 (In d acc' <-> In d acc \/ (live s d = true /\ has_entry s tok d = true))).
      { intros acc' ->. rewrite has_entry_In.
        destruct (slookup tok (postings s)) as [es|].
        - cbv zeta. destruct (is_nil (filter (live s) (map fst es))) eqn:En.
          + apply is_nil_true in En. split; auto.
            intros [H|(Hl & es' & E & Hin)]; auto. inversion E; subst.
            assert (In d (filter (live s) (map fst es'))) by (apply filter_In; auto).
            rewrite En in H. contradiction.
          + rewrite zunion_In, filter_In. split.
            * intros [H|[H1 H2]]; auto. right. split; auto. exists es; auto.
            * intros [H|(Hl & es' & E & Hin)]; auto. inversion E; subst. auto.
        - split; auto. intros [H|(_ & es & E & _)]; auto. discriminate. }
      rewrite (Step _ eq_refl). split.
      + intros [[H|[Hl He]]|(Hl & t & Ht & He)]; auto.
        * right. split; auto. exists tok; auto.
        * right. split; auto. exists t; auto.
      + intros [H|(Hl & t & [->|Ht] & He)]; auto.
        right. split; auto. exists t; auto.
  Qed.

  Lemma term_fold_NoDup s l : forall acc,
      NoDup acc ->
      NoDup (fold_left
              (fun scores tok =>
                 match slookup tok (postings s) with
                 | Some es =>
                     let valid := filter (live s) (map fst es) in
                     if is_nil valid then scores else zunion scores valid
                 | None => scores
                 end) l acc).
  Proof.
    induction l as [|tok r IH]; intros acc N; simpl; auto.
    apply IH. destruct (slookup tok (postings s)); auto. cbv zeta.
    destruct (is_nil _); auto. apply zunion_NoDup; auto.
  Qed.

  Lemma slookup_nil_has_entry s tok d : postings s = [] -> has_entry s tok d = false.
  Proof. unfold has_entry. intros ->. reflexivity. Qed.

  Theorem score_term_spec s t d :
    In d (score_term s t) <->
    live s d = true /\ exists tok, In tok (toks t) /\ has_entry s tok d = true.
  Proof.
    unfold Model.score_term.
    destruct (is_nil (postings s)) eqn:Ep.
    { apply is_nil_true in Ep. simpl. split; [tauto|].
      intros (_ & tok & _ & H). rewrite slookup_nil_has_entry in H; auto. discriminate. }
    destruct (is_nil (freqs t)) eqn:Ef.
    { apply freqs_nil in Ef. simpl. split; [tauto|]. intros (_ & tok & H & _). rewrite Ef in H. contradiction. }
    destruct (is_nil (doc_tokens s)) eqn:Ed.
    { apply is_nil_true in Ed. simpl. split; [tauto|]. intros (H & _). unfold live in H. rewrite Ed in H. discriminate. }
    rewrite term_fold_In, freqs_keys. simpl. split.
    - intros [[]|(Hl & tok & Ht & He)]. split; auto. exists tok. rewrite sdedup_In in Ht. auto.
    - intros (Hl & tok & Ht & He). right. split; auto. exists tok. rewrite sdedup_In. auto.
  Qed.

  Lemma score_term_NoDup s t : NoDup (score_term s t).
  Proof.
    unfold Model.score_term. destruct (is_nil (postings s)); [constructor|].
    destruct (is_nil (freqs t)); [constructor|]. destruct (is_nil (doc_tokens s)); [constructor|].
    apply term_fold_NoDup. constructor.
  Qed.

  (* ---------------------------------------------------------------- OR *)
  Lemma fold_zunion_In d rs : forall acc,
      In d (fold_left zunion rs acc) <-> In d acc \/ exists r, In r rs /\ In d r.
  Proof.
    induction rs as [|r rs IH]; intros acc; simpl.
    - split; auto. intros [H|(r & [] & _)]; auto.
    - rewrite IH, zunion_In. split.
      + intros [[H|H]|(r' & Hr & Hd)]; auto; right; [exists r|exists r']; auto.
      + intros [H|(r' & [->|Hr] & Hd)]; auto. right. exists r'; auto.
  Qed.

  Lemma fold_zunion_NoDup rs : forall acc, NoDup acc -> NoDup (fold_left zunion rs acc).
  Proof. induction rs; intros acc N; simpl; auto. apply IHrs. apply zunion_NoDup; auto. Qed.

  Lemma or_combine_spec rs d : In d (or_combine rs) <-> exists r, In r rs /\ In d r.
  Proof.
    unfold or_combine. destruct rs as [|r [|r' rs]].
    - split; [intros []|intros (r & [] & _)].
    - split; [intros H; exists r; simpl; auto|intros (r0 & [->|[]] & H); auto].
    - rewrite fold_zunion_In. simpl. intuition.
  Qed.

  Lemma or_combine_NoDup rs : (forall r, In r rs -> NoDup r) -> NoDup (or_combine rs).
  Proof.
    unfold or_combine. destruct rs as [|r [|r' rs]]; intros H.
    - constructor.
    - apply H. left; auto.
    - apply fold_zunion_NoDup. constructor.
  Qed.

  (* ---------------------------------------------------------------- AND *)
  Lemma fold_inter_In d (L : list and_operand) : forall r0,
      In d (fold_left (fun r o => if is_nil r then r else zinter r (op_pos o)) L r0)
      <-> In d r0 /\ forall o, In o L -> In d (op_pos o).
  Proof.
    induction L as [|o L IH]; intros r0; simpl.
    - intuition.
    - rewrite IH. destruct (is_nil r0) eqn:E.
      + apply is_nil_true in E. subst. simpl. tauto.
      + rewrite zinter_In. split.
        * intros [[H1 H2] H3]. split; auto. intros o' [<-|Ho]; auto.
        * intros [H1 H2]. split; auto.
  Qed.

  Lemma fold_diff_In d (L : list and_operand) : forall r0,
      In d (fold_left (fun r o => if is_nil r then r else zdiff r (op_neg o)) L r0)
      <-> In d r0 /\ forall o, In o L -> ~ In d (op_neg o).
  Proof.
    induction L as [|o L IH]; intros r0; simpl.
    - intuition.
    - rewrite IH. destruct (is_nil r0) eqn:E.
      + apply is_nil_true in E. subst. simpl. tauto.
      + rewrite zdiff_In. split.
        * intros [[H1 H2] H3]. split; auto. intros o' [<-|Ho]; auto.
        * intros [H1 H2]. split; auto.
  Qed.

  Lemma fold_inter_NoDup (L : list and_operand) : forall r0,
      NoDup r0 -> NoDup (fold_left (fun r o => if is_nil r then r else zinter r (op_pos o)) L r0).
  Proof.
    induction L; intros r0 N; simpl; auto. apply IHL. destruct (is_nil r0); auto.
    apply NoDup_filter; auto.
  Qed.

  Lemma fold_diff_NoDup (L : list and_operand) : forall r0,
      NoDup r0 -> NoDup (fold_left (fun r o => if is_nil r then r else zdiff r (op_neg o)) L r0).
  Proof.
    induction L; intros r0 N; simpl; auto. apply IHL. destruct (is_nil r0); auto.
    apply NoDup_filter; auto.
  Qed.

  Lemma forall_filter_split (A : Type) (f : A -> bool) (Q : A -> Prop) l :
    (forall o, In o l -> Q o) <->
    (forall o, In o (filter (fun o => negb (f o)) l) -> Q o) /\ (forall o, In o (filter f l) -> Q o).
  Proof.
    split.
    - intros H. split; intros o Ho; apply filter_In in Ho; apply H; tauto.
    - intros [H1 H2] o Ho. destruct (f o) eqn:E.
      + apply H2. apply filter_In; auto.
      + apply H1. apply filter_In. rewrite E. auto.
  Qed.

  Section AndSpec.
    Variable L : docid -> Prop.                       (* "is an indexed document" *)
    Variable rs : list and_operand.
    Hypothesis pos_live : forall o d, In o rs -> In d (op_pos o) -> L d.
    Hypothesis not_compl : forall o d, In o rs -> op_not o = true ->
                                       (In d (op_pos o) <-> L d /\ ~ In d (op_neg o)).

    Lemma and_combine_general d :
      rs <> [] ->
      let positives := filter (fun o => negb (op_not o)) rs in
      let negatives := filter op_not rs in
      let result0 :=
          match positives with
          | p :: _ => op_pos p
          | [] => match negatives with n :: _ => op_pos n | [] => [] end
          end in
      let result1 := fold_left (fun r o => if is_nil r then r else zinter r (op_pos o)) (tl positives) result0 in
      let rest := if is_nil positives then tl negatives else negatives in
      In d (fold_left (fun r o => if is_nil r then r else zdiff r (op_neg o)) rest result1)
      <-> forall o, In o rs -> In d (op_pos o).
    Proof.
      intros Hne positives negatives result0 result1 rest.
      rewrite fold_diff_In. unfold result1. rewrite fold_inter_In.
      rewrite (forall_filter_split _ op_not (fun o => In d (op_pos o)) rs).
      fold positives negatives.
      assert (InP : forall o, In o positives -> In o rs) by (intros o Ho; apply filter_In in Ho; tauto).
      assert (InN : forall o, In o negatives -> In o rs /\ op_not o = true) by (intros o Ho; apply filter_In in Ho; tauto).
      unfold result0, rest.
      destruct positives as [|p ps] eqn:EP.
      - (* every operand is a NOT *)
        destruct negatives as [|n ns] eqn:EN.
        + exfalso. destruct rs as [|o rs']; [congruence|].
          assert (Ho : In o (o :: rs')) by (left; auto).
          destruct (op_not o) eqn:E.
          * assert (In o negatives) by (unfold negatives; apply filter_In; auto). rewrite EN in H. contradiction.
          * assert (In o positives) by (unfold positives; apply filter_In; rewrite E; auto). rewrite EP in H. contradiction.
        + simpl. split.
          * intros [[H0 _] H2]. split; [intros o []|].
            intros o [<-|Ho]; auto.
            destruct (InN o) as [Hrs Hnot]; [right; auto|].
            apply not_compl; auto. split; [|apply H2; auto].
            destruct (InN n) as [Hn _]; [left; auto|]. eapply pos_live; eauto.
          * intros [_ H]. split; [split; [apply H; left; auto|intros o []]|].
            intros o Ho. destruct (InN o) as [Hrs Hnot]; [right; auto|].
            apply (not_compl o d Hrs Hnot). apply H. right; auto.
      - simpl. split.
        + intros [[H0 H1] H2]. split.
          * intros o [<-|Ho]; auto.
          * intros o Ho. destruct (InN o Ho) as [Hrs Hnot].
            apply not_compl; auto. split; [|apply H2; auto].
            eapply (pos_live p); eauto. apply InP. left; auto.
        + intros [H1 H2]. split; [split|].
          * apply H1. left; auto.
          * intros o Ho. apply H1. right; auto.
          * intros o Ho. destruct (InN o Ho) as [Hrs Hnot].
            apply (not_compl o d Hrs Hnot). apply H2; auto.
    Qed.

    Lemma and_combine_spec d :
      In d (and_combine rs) <-> rs <> [] /\ forall o, In o rs -> In d (op_pos o).
    Proof.
      unfold and_combine. destruct rs as [|r [|r' rs']] eqn:E.
      - simpl. split; [tauto|]. intros [H _]; congruence.
      - split.
        + intros H. split; [discriminate|]. intros o [<-|[]]; auto.
        + intros [_ H]. apply H. left; auto.
      - rewrite <- E in *. pose proof (and_combine_general d) as G. cbv zeta in G.
        rewrite G by (rewrite E; discriminate). split; [intros H; split; auto; rewrite E; discriminate|tauto].
    Qed.
  End AndSpec.

  Lemma and_combine_NoDup rs : (forall o, In o rs -> NoDup (op_pos o)) -> NoDup (and_combine rs).
  Proof.
    intros H. unfold and_combine. destruct rs as [|r [|r' rs']] eqn:E.
    - constructor.
    - apply H. left; auto.
    - rewrite <- E in *. apply fold_diff_NoDup, fold_inter_NoDup.
      destruct (filter (fun o => negb (op_not o)) rs) as [|p ps] eqn:EP.
      + destruct (filter op_not rs) as [|n ns] eqn:EN; [constructor|].
        apply H. assert (In n (filter op_not rs)) by (rewrite EN; left; auto). apply filter_In in H0. tauto.
      + apply H. assert (In p (filter (fun o => negb (op_not o)) rs)) by (rewrite EP; left; auto).
        apply filter_In in H0. tauto.
  Qed.

  (* ---------------------------------------------------------------- induction on queries *)
  Section QueryInd.
    Variable P : query -> Prop.
    Hypothesis HT : forall t, P (QTerm t).
    Hypothesis HA : forall qs, Forall P qs -> P (QAnd qs).
    Hypothesis HO : forall qs, Forall P qs -> P (QOr qs).
    Hypothesis HN : forall q, P q -> P (QNot q).
    Fixpoint query_ind2 (q : query) : P q :=
      match q with
      | QTerm t => HT t
      | QAnd qs => HA qs ((fix go (l : list query) : Forall P l :=
                             match l with [] => Forall_nil P | x :: r => Forall_cons x (query_ind2 x) (go r) end) qs)
      | QOr qs => HO qs ((fix go (l : list query) : Forall P l :=
                            match l with [] => Forall_nil P | x :: r => Forall_cons x (query_ind2 x) (go r) end) qs)
      | QNot q => HN q (query_ind2 q)
      end.
  End QueryInd.

  (* what execute_query(q, negated_not = true) denotes: for a NOT node the matching
     documents of its operand (the AND caller subtracts them), otherwise the node itself *)
  Definition denote_neg (s : state) (q : query) (d : docid) : bool :=
    match q with QNot sub => denote s sub d | _ => denote s q d end.

  Theorem exec_spec_all s :
    NoDup (map fst (doc_tokens s)) ->
    forall q,
      (forall d, In d (exec s q false) <-> denote s q d = true) /\
      (forall d, In d (exec s q true) <-> denote_neg s q d = true) /\
      (forall d, denote s q d = true -> live s d = true) /\
      NoDup (exec s q false) /\ NoDup (exec s q true).
  Proof.
    intros ND. apply query_ind2.
    - (* Term *)
      intros t.
      assert (E : forall d, In d (score_term s t) <-> denote s (QTerm t) d = true).
      { intros d. rewrite score_term_spec. simpl. rewrite andb_true_iff, existsb_exists. tauto. }
      simpl exec. repeat split; try apply E; try apply score_term_NoDup.
      intros d H. simpl in H. apply andb_true_iff in H. tauto.
    - (* And *)
      intros qs F. rewrite Forall_forall in F.
      set (rs := map (fun q => (is_not q, exec s q false, exec s q true)) qs).
      assert (Hpos : forall o d, In o rs -> In d (op_pos o) -> live s d = true).
      { intros o d Ho Hd. apply in_map_iff in Ho as (q & <- & Hq). destruct (F q Hq) as (A & _ & C & _).
        apply C, A. exact Hd. }
      assert (Hnot : forall o d, In o rs -> op_not o = true ->
                                 (In d (op_pos o) <-> live s d = true /\ ~ In d (op_neg o))).
      { intros o d Ho Hn. apply in_map_iff in Ho as (q & <- & Hq).
        destruct q as [| | |sub]; try discriminate Hn.
        unfold op_pos, op_neg. simpl. unfold complement. rewrite filter_In, negb_true_iff, zmem_false, live_In. tauto. }
      assert (E : forall d, In d (and_combine rs) <-> denote s (QAnd qs) d = true).
      { intros d. rewrite (and_combine_spec (fun d => live s d = true) rs Hpos Hnot).
        simpl. rewrite andb_true_iff, negb_true_iff, forallb_forall. split.
        - intros [Hne H]. split.
          + destruct qs; auto. exfalso. apply Hne. reflexivity.
          + intros q Hq. destruct (F q Hq) as (A & _). apply A.
            apply (H (is_not q, exec s q false, exec s q true)). unfold rs. apply in_map_iff. exists q; auto.
        - intros [Hne H]. split.
          + destruct qs; [discriminate|]. discriminate.
          + intros o Ho. apply in_map_iff in Ho as (q & <- & Hq). destruct (F q Hq) as (A & _).
            apply A. apply H; auto. }
      assert (N : NoDup (and_combine rs)).
      { apply and_combine_NoDup. intros o Ho. apply in_map_iff in Ho as (q & <- & Hq).
        destruct (F q Hq) as (_ & _ & _ & N & _). exact N. }
      simpl exec. fold rs. repeat split; try apply E; auto.
      intros d H. simpl in H. apply andb_true_iff in H as [Hne H]. rewrite forallb_forall in H.
      destruct qs as [|q qs']; [discriminate|]. destruct (F q (or_introl eq_refl)) as (_ & _ & C & _).
      apply C, H. left; auto.
    - (* Or *)
      intros qs F. rewrite Forall_forall in F.
      assert (E : forall d, In d (or_combine (map (fun q => exec s q false) qs)) <-> denote s (QOr qs) d = true).
      { intros d. rewrite or_combine_spec. simpl. rewrite existsb_exists. split.
        - intros (r & Hr & Hd). apply in_map_iff in Hr as (q & <- & Hq). exists q. split; auto.
          destruct (F q Hq) as (A & _). apply A; auto.
        - intros (q & Hq & Hd). exists (exec s q false). split; [apply in_map_iff; exists q; auto|].
          destruct (F q Hq) as (A & _). apply A; auto. }
      assert (N : NoDup (or_combine (map (fun q => exec s q false) qs))).
      { apply or_combine_NoDup. intros r Hr. apply in_map_iff in Hr as (q & <- & Hq).
        destruct (F q Hq) as (_ & _ & _ & N & _). exact N. }
      simpl exec. repeat split; try apply E; auto.
      intros d H. simpl in H. apply existsb_exists in H as (q & Hq & Hd).
      destruct (F q Hq) as (_ & _ & C & _). auto.
    - (* Not *)
      intros q (A & _ & C & N & _). simpl exec. repeat split; auto.
      + unfold complement. rewrite filter_In, negb_true_iff, zmem_false. intros [H1 H2].
        simpl. rewrite andb_true_iff, negb_true_iff. split; [apply live_In; auto|].
        destruct (denote s q d) eqn:E; auto. exfalso. apply H2, A. auto.
      + simpl. rewrite andb_true_iff, negb_true_iff. intros [H1 H2].
        unfold complement. rewrite filter_In, negb_true_iff, zmem_false. split; [apply live_In; auto|].
        intros H. apply A in H. congruence.
      + intros H. apply A. exact H.
      + intros H. apply A. exact H.
      + intros d H. simpl in H. apply andb_true_iff in H. tauto.
      + unfold complement. apply NoDup_filter. exact ND.
  Qed.

  Corollary exec_denote s q d :
    NoDup (map fst (doc_tokens s)) -> (In d (exec s q false) <-> denote s q d = true).
  Proof. intros N. destruct (exec_spec_all s N q) as (A & _). apply A. Qed.

  Corollary exec_NoDup s q b : NoDup (map fst (doc_tokens s)) -> NoDup (exec s q b).
  Proof. intros N. destruct (exec_spec_all s N q) as (_ & _ & _ & N1 & N2). destruct b; auto. Qed.

  Corollary exec_only_indexed s q d :
    NoDup (map fst (doc_tokens s)) -> In d (exec s q false) -> live s d = true.
  Proof. intros N H. destruct (exec_spec_all s N q) as (A & _ & C & _). apply C, A, H. Qed.

End Q.
