(* C11 — runner for the write-log monitor (Persist.wf_flush_log) over the flush logs the
   harness records on the real BM25Index. *)
From Coq Require Import List ZArith.
From Verif Require Import Bm25.Persist.
Import ListNotations.

Definition flush_case := (manifest * manifest * list wstep * manifest)%type.
Definition check_flush (c : flush_case) : bool :=
  let '(committed, existing, log, obs) := c in wf_flush_log committed existing log obs.
