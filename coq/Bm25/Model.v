(* C11 — executable model of rs/anda_db_tfs/src/bm25.rs (BM25Index) and of the boolean
   query evaluator.  No proofs here.

   What is transcribed (branch order kept):
     collect_tokens (tokenizer.rs)       -> toks / freqs   (length<=1 noise filter, counting)
     BM25Index::insert / remove / purge_ids (bookkeeping of doc_tokens, postings, total_tokens)
     load_buckets' pruning of entries without a token length -> reload (whole-index view)
     execute_query / score_term / score_or / score_and / score_not (result key sets)
     compare_scored_docs / top_k_results
   What is abstracted:
     * the tokenizer is a Section variable (an oracle);
     * score values: a hit carries the integer [total_cmp] key of the f32 the implementation
       computed and its NaN flag; the model never computes a float;
     * posting lists are kept up to permutation (swap_remove reorders them; only the
       scores — "the last duplicate wins" — depend on the order, no result set does);
     * hash-map iteration orders: every consumer below is order-insensitive, which is part
       of what Proofs.v shows for the ranking ([top_k_perm]);
     * buckets / sizes / dirty flags live in Bm25/Persist.v. *)
From Coq Require Import List String Ascii Bool Arith ZArith.
Import ListNotations.
Open Scope list_scope.

Definition docid := Z.
Definition token := string.

(* ------------------------------------------------------------------ small map helpers *)
Fixpoint zmem (d : Z) (l : list Z) : bool :=
  match l with [] => false | x :: r => Z.eqb x d || zmem d r end.

Fixpoint smem (t : string) (l : list string) : bool :=
  match l with [] => false | x :: r => String.eqb x t || smem t r end.

Fixpoint zlookup {A} (d : Z) (l : list (Z * A)) : option A :=
  match l with [] => None | (k, v) :: r => if Z.eqb k d then Some v else zlookup d r end.

Fixpoint zdelete {A} (d : Z) (l : list (Z * A)) : list (Z * A) :=
  match l with [] => [] | (k, v) :: r => if Z.eqb k d then zdelete d r else (k, v) :: zdelete d r end.

Fixpoint slookup {A} (t : string) (l : list (string * A)) : option A :=
  match l with [] => None | (k, v) :: r => if String.eqb k t then Some v else slookup t r end.

Fixpoint sdelete {A} (t : string) (l : list (string * A)) : list (string * A) :=
  match l with [] => [] | (k, v) :: r => if String.eqb k t then sdelete t r else (k, v) :: sdelete t r end.

(* replace the value of an existing key in place *)
Fixpoint sset {A} (t : string) (v : A) (l : list (string * A)) : list (string * A) :=
  match l with
  | [] => []
  | (k, w) :: r => if String.eqb k t then (k, v) :: r else (k, w) :: sset t v r
  end.

(* id sets as duplicate-free lists *)
Definition zadd (d : Z) (l : list Z) : list Z := if zmem d l then l else l ++ [d].
Definition zunion (a b : list Z) : list Z := fold_left (fun acc d => zadd d acc) b a.
Definition zinter (a b : list Z) : list Z := filter (fun d => zmem d b) a.
Definition zdiff (a b : list Z) : list Z := filter (fun d => negb (zmem d b)) a.
Definition is_nil {A} (l : list A) : bool := match l with [] => true | _ => false end.

Fixpoint sdedup (l : list string) : list string :=
  match l with [] => [] | x :: r => if smem x r then sdedup r else x :: sdedup r end.

Fixpoint scount (t : string) (l : list string) : nat :=
  match l with [] => 0 | x :: r => (if String.eqb x t then 1 else 0) + scount t r end.

Definition nsum (l : list nat) : nat := fold_right Nat.add 0 l.

(* ------------------------------------------------------------------ state *)
Definition entry := (docid * nat)%type.                 (* (document id, term frequency) *)

Record state := mkState {
  doc_tokens : list (docid * nat);                      (* DashMap<u64, usize> *)
  postings : list (token * list entry);                 (* DashMap<String, (bucket, UniqueVec<(u64,usize)>)> *)
  total_tokens : Z                                      (* AtomicU64, fetch_add / fetch_sub *)
}.

Definition empty_state : state := mkState [] [] 0%Z.

Inductive ins_result := InsOk | InsAlreadyExists | InsTokenizeFailed.

Inductive query :=
| QTerm (t : string)
| QAnd (qs : list query)
| QOr (qs : list query)
| QNot (q : query).

Definition is_not (q : query) : bool := match q with QNot _ => true | _ => false end.

(* one scored document as the ranking sees it *)
Record hit := mkHit { h_id : Z; h_key : Z; h_nan : bool }.

Section WithTokenizer.
  Variable tokenize : string -> list string.

  (* collect_tokens: tokens of byte length <= 1 are dropped *)
  Definition keep_token (t : string) : bool := Nat.ltb 1 (String.length t).
  Definition toks (text : string) : list token := filter keep_token (tokenize text).
  (* the HashMap<String, usize> of collect_tokens, as a list without duplicate keys *)
  Definition freqs (text : string) : list (token * nat) :=
    let l := toks text in map (fun t => (t, scount t l)) (sdedup l).

  Definition live (s : state) (d : docid) : bool :=
    match zlookup d (doc_tokens s) with Some _ => true | None => false end.

  (* UniqueVec::push : no-op when the exact pair is already present *)
  Definition entry_eqb (a b : entry) : bool := Z.eqb (fst a) (fst b) && Nat.eqb (snd a) (snd b).
  Definition uv_push (e : entry) (es : list entry) : list entry :=
    if existsb (entry_eqb e) es then es else es ++ [e].

  Definition post_push (tok : token) (e : entry) (ps : list (token * list entry)) :=
    match slookup tok ps with
    | Some es => sset tok (uv_push e es) ps                    (* Entry::Occupied *)
    | None => ps ++ [(tok, [e])]                                (* Entry::Vacant *)
    end.

  Definition insert (s : state) (id : docid) (text : string) : state * ins_result :=
    let fs := freqs text in
    if is_nil fs then (s, InsTokenizeFailed)
    else
      let tokens := nsum (map snd fs) in
      if live s id then (s, InsAlreadyExists)
      else
        (mkState ((id, tokens) :: doc_tokens s)
                 (fold_left (fun ps tf => post_push (fst tf) (id, snd tf) ps) fs (postings s))
                 (total_tokens s + Z.of_nat tokens)%Z,
         InsOk).

  (* remove every entry of [id] from the posting of [tok]; an emptied posting is dropped *)
  Definition post_remove (id : docid) (tok : token) (ps : list (token * list entry)) :=
    match slookup tok ps with
    | None => ps
    | Some es =>
        let es' := filter (fun e => negb (Z.eqb (fst e) id)) es in
        if Nat.eqb (List.length es') (List.length es) then ps          (* removed_vals.is_empty() *)
        else if is_nil es' then sdelete tok ps                          (* remove_if(empty) *)
        else sset tok es' ps
    end.

  Definition remove (s : state) (id : docid) (text : string) : state * bool :=
    let removed := zlookup id (doc_tokens s) in
    let dt := zdelete id (doc_tokens s) in
    let tot := match removed with Some n => (total_tokens s - Z.of_nat n)%Z | None => total_tokens s end in
    let ps := fold_left (fun ps tf => post_remove id (fst tf) ps) (freqs text) (postings s) in
    (mkState dt ps tot, match removed with Some _ => true | None => false end).

  (* purge_ids: one sweep over every posting list *)
  Definition purge_posting (ids : list docid) (p : token * list entry) : option (token * list entry) :=
    let es' := filter (fun e => negb (zmem (fst e) ids)) (snd p) in
    if Nat.eqb (List.length es') (List.length (snd p)) then Some p      (* nothing removed: continue *)
    else if is_nil es' then None else Some (fst p, es').

  Fixpoint filter_map {A B} (f : A -> option B) (l : list A) : list B :=
    match l with [] => [] | x :: r => match f x with Some y => y :: filter_map f r | None => filter_map f r end end.

  Definition purge_ids (s : state) (ids : list docid) : state * nat :=
    if is_nil ids then (s, 0)
    else
      let gone := filter (fun kv => zmem (fst kv) ids) (doc_tokens s) in
      let dt := filter (fun kv => negb (zmem (fst kv) ids)) (doc_tokens s) in
      (mkState dt (filter_map (purge_posting ids) (postings s))
               (total_tokens s - Z.of_nat (nsum (map snd gone)))%Z,
       List.length gone).

  (* flush of every bucket followed by load_all, seen on the whole index: entries whose
     document has no token length are pruned, emptied postings are dropped, doc_tokens is
     rebuilt from the documents that some surviving entry references, total_tokens is
     recomputed as their sum. *)
  Definition reload (s : state) : state :=
    let prune (p : token * list entry) :=
      let es' := filter (fun e => live s (fst e)) (snd p) in
      if is_nil es' then None else Some (fst p, es') in
    let ps := filter_map prune (postings s) in
    let referenced d := existsb (fun p => existsb (fun e => Z.eqb (fst e) d) (snd p)) ps in
    let dt := filter (fun kv => referenced (fst kv)) (doc_tokens s) in
    mkState dt ps (Z.of_nat (nsum (map snd dt))).

  (* ---------------------------------------------------------------- queries *)
  (* score_term: the key set of the returned score map *)
  Definition score_term (s : state) (t : string) : list docid :=
    if is_nil (postings s) then []
    else
      let qts := freqs t in
      if is_nil qts then []
      else if is_nil (doc_tokens s) then []
      else
        fold_left
          (fun scores tok =>
             match slookup tok (postings s) with
             | Some es =>
                 let valid := filter (live s) (map fst es) in
                 if is_nil valid then scores else zunion scores valid
             | None => scores
             end)
          (map fst qts) [].

  Definition or_combine (rs : list (list docid)) : list docid :=
    match rs with
    | [] => []
    | [r] => r
    | _ => fold_left zunion rs []
    end.

  (* one evaluated AND operand: is it a NOT node, execute_query(q, false), execute_query(q, true) *)
  Definition and_operand := (bool * list docid * list docid)%type.
  Definition op_not (o : and_operand) := fst (fst o).
  Definition op_pos (o : and_operand) := snd (fst o).
  Definition op_neg (o : and_operand) := snd o.

  Definition and_combine (rs : list and_operand) : list docid :=
    match rs with
    | [] => []
    | [r] => op_pos r
    | _ =>
        let positives := filter (fun o => negb (op_not o)) rs in
        let negatives := filter op_not rs in
        let result0 :=
          match positives with
          | p :: _ => op_pos p
          | [] => match negatives with n :: _ => op_pos n | [] => [] end
          end in
        let result1 :=
          fold_left (fun r o => if is_nil r then r else zinter r (op_pos o)) (tl positives) result0 in
        let rest := if is_nil positives then tl negatives else negatives in
        fold_left (fun r o => if is_nil r then r else zdiff r (op_neg o)) rest result1
    end.

  Definition complement (s : state) (ex : list docid) : list docid :=
    filter (fun d => negb (zmem d ex)) (map fst (doc_tokens s)).

  Fixpoint exec (s : state) (q : query) (negated_not : bool) {struct q} : list docid :=
    match q with
    | QTerm t => score_term s t
    | QAnd qs => and_combine (map (fun q => (is_not q, exec s q false, exec s q true)) qs)
    | QOr qs => or_combine (map (fun q => exec s q false) qs)
    | QNot sub =>
        let exclude := exec s sub false in
        if negated_not then exclude else complement s exclude
    end.

  (* the set a query denotes *)
  Definition has_entry (s : state) (tok : token) (d : docid) : bool :=
    match slookup tok (postings s) with
    | Some es => existsb (fun e => Z.eqb (fst e) d) es
    | None => false
    end.

  Fixpoint denote (s : state) (q : query) (d : docid) : bool :=
    match q with
    | QTerm t => live s d && existsb (fun tok => has_entry s tok d) (toks t)
    | QAnd qs => negb (is_nil qs) && forallb (fun q => denote s q d) qs
    | QOr qs => existsb (fun q => denote s q d) qs
    | QNot q => live s d && negb (denote s q d)
    end.

  (* ---------------------------------------------------------------- histories *)
  Inductive op :=
  | OInsert (id : docid) (text : string)
  | ORemove (id : docid) (text : string)
  | OPurge (ids : list docid)
  | OCompact
  | OReload.

  Definition step (s : state) (o : op) : state :=
    match o with
    | OInsert id text => fst (insert s id text)
    | ORemove id text => fst (remove s id text)
    | OPurge ids => fst (purge_ids s ids)
    | OCompact => s                     (* compaction only moves tokens between buckets *)
    | OReload => reload s
    end.

  Definition run (h : list op) : state := fold_left step h empty_state.

  (* the documents the history says are indexed: id -> text of its live insert *)
  Definition spec := list (docid * string).
  Definition spec_step (sp : spec) (o : op) : spec :=
    match o with
    | OInsert id text =>
        if is_nil (freqs text) then sp
        else match zlookup id sp with Some _ => sp | None => (id, text) :: sp end
    | ORemove id _ => zdelete id sp
    | OPurge ids => filter (fun kv => negb (zmem (fst kv) ids)) sp
    | OCompact | OReload => sp
    end.
  Definition spec_run (h : list op) : spec := fold_left spec_step h [].

End WithTokenizer.

(* -------------------------------------------------------------------- ranking *)
(* compare_scored_docs: descending score (by total_cmp key), NaN last, ties by ascending id *)
Definition hit_compare (a b : hit) : comparison :=
  match h_nan a, h_nan b with
  | true, true => Z.compare (h_id a) (h_id b)
  | true, false => Gt
  | false, true => Lt
  | false, false =>
      match Z.compare (h_key b) (h_key a) with
      | Eq => Z.compare (h_id a) (h_id b)
      | c => c
      end
  end.

Definition hit_leb (a b : hit) : bool :=
  match hit_compare a b with Gt => false | _ => true end.

Fixpoint hit_insert (x : hit) (l : list hit) : list hit :=
  match l with
  | [] => [x]
  | y :: r => if hit_leb x y then x :: y :: r else y :: hit_insert x r
  end.

Definition hit_sort (l : list hit) : list hit := fold_right hit_insert [] l.

Section TopK.
  (* slice::select_nth_unstable_by, known only through its documented contract *)
  Variable select_nth : nat -> list hit -> list hit.

  (* top_k_results *)
  Definition top_k (k : nat) (scored : list hit) : list hit :=
    if Nat.eqb k 0 || is_nil scored then []
    else
      let results :=
        if Nat.ltb k (List.length scored)
        then firstn k (select_nth (k - 1) scored)          (* select_nth + truncate *)
        else scored in
      hit_sort results.
End TopK.
