(* C11 — the durable side of BM25Index: flush_with's manifest commit protocol over the
   shared crash model (Common/ObjStore.v, Common/CommitPoint.v).

   Model: the version counters and dirty tracking that decide *what* a flush writes and at
   *which generation* (transcribed from flush_with / has_dirty_buckets /
   has_pending_metadata_flush / mark_bucket_saved / compact_buckets and the version bump of
   every mutation), the write sequence built in the order the translator extracted from the
   source (gen/Gen_Bm25.flush_order), and the object store the callbacks write to.
   Abstracted: bucket payloads ([content], a Section variable: whatever serialize_bucket
   produces for a bucket of the current in-memory state) and which tokens live in which
   bucket (the size-driven packing decides layout, never content).

   Theorems: the generation of every flush is fresh w.r.t. the committed manifest (invariant
   over all histories of mutations, compactions and flushes), hence every flush — together
   with the caller's deletion of the obsolete objects — is a well-formed commit, hence every
   crash prefix shows a loader the last committed snapshot or the new one in full; and the
   executable monitor [wf_flush_log] used on the implementation's real write logs is sound. *)
From Coq Require Import List Bool Arith ZArith Lia.
From Verif Require Import Common.ObjStore Common.CommitPoint gen.Gen_Bm25.
Import ListNotations.
Open Scope list_scope.

Inductive path := PMeta | PBucket (bucket : Z) (generation : Z).

Definition path_eq_dec : forall a b : path, {a = b} + {a <> b}.
Proof. decide equality; apply Z.eq_dec. Defined.

Definition manifest := list (Z * Z).                     (* bucket id -> generation *)

Fixpoint mlookup (b : Z) (m : manifest) : option Z :=
  match m with [] => None | (k, g) :: r => if Z.eqb k b then Some g else mlookup b r end.

Definition pair_mem (x : Z * Z) (m : manifest) : bool :=
  existsb (fun y => Z.eqb (fst x) (fst y) && Z.eqb (snd x) (snd y)) m.

Lemma pair_mem_In x m : pair_mem x m = true <-> In x m.
Proof.
  unfold pair_mem. rewrite existsb_exists. split.
  - intros (y & Hy & E). apply andb_true_iff in E as [E1 E2]. apply Z.eqb_eq in E1, E2.
    destruct x, y; simpl in *; subst; auto.
  - intros H. exists x. split; auto. rewrite !Z.eqb_refl. reflexivity.
Qed.

Section Persist.
  Variable payload : Type.

  Inductive obj := OMeta (m : manifest) | OBucket (p : payload).

  Definition refs (o : obj) : list path :=
    match o with
    | OMeta m => map (fun bg => PBucket (fst bg) (snd bg)) m
    | OBucket _ => []
    end.

  Notation store := (ObjStore.store path obj).
  Notation step := (ObjStore.step path obj).
  Notation read := (CommitPoint.read path_eq_dec PMeta refs).
  Notation crash := (ObjStore.crash path_eq_dec).
  Notation apply := (ObjStore.apply path_eq_dec).
  Notation get := (ObjStore.get path_eq_dec).

  (* ---------------------------------------------------------------- in-memory bookkeeping *)
  Record bucket := mkBucket { b_id : Z; b_dirty : Z; b_saved : Z }.   (* dirty_version, saved_version *)
  Definition is_dirty (b : bucket) : bool := Z.ltb (b_saved b) (b_dirty b).

  Record pstate := mkP {
    p_version : Z;                 (* metadata.stats.version *)
    p_last_saved : Z;              (* last_saved_version *)
    p_manifest : manifest;         (* metadata.buckets: the committed manifest *)
    p_buckets : list bucket
  }.

  Definition p_new : pstate := mkP 1 0 [] [mkBucket 0 0 0].

  (* insert / remove / purge_ids: some buckets are marked dirty (possibly new ones appear),
     stats.version += 1 *)
  Definition mark (ids : list Z) (bs : list bucket) : list bucket :=
    map (fun b => if existsb (Z.eqb (b_id b)) ids then mkBucket (b_id b) (b_dirty b + 1) (b_saved b) else b) bs
    ++ map (fun i => mkBucket i 1 0)
         (filter (fun i => negb (existsb (fun b => Z.eqb (b_id b) i) bs)) ids).

  Definition p_mutate (touched : list Z) (s : pstate) : pstate :=
    mkP (p_version s + 1) (p_last_saved s) (p_manifest s) (mark touched (p_buckets s)).

  (* compact_buckets: the bucket map is rebuilt with ids 0..n-1, all dirty; stats.version += 1 *)
  Definition p_compact (n : nat) (s : pstate) : pstate :=
    mkP (p_version s + 1) (p_last_saved s) (p_manifest s)
        (map (fun i => mkBucket (Z.of_nat i) 1 0) (seq 0 n)).

  (* flush_with, synchronous snapshot phase *)
  Definition has_dirty (s : pstate) : bool := existsb is_dirty (p_buckets s).
  Definition has_pending (s : pstate) : bool := Z.ltb (p_last_saved s) (p_version s).

  Definition flush_version (s : pstate) : Z :=
    if has_dirty s && negb (has_pending s) then p_version s + 1 else p_version s.

  Definition flush_generation (s : pstate) : Z := flush_version s.      (* meta.stats.version *)

  Definition dirty_ids (s : pstate) : list Z := map b_id (filter is_dirty (p_buckets s)).

  Definition new_manifest (s : pstate) : manifest :=
    flat_map (fun b =>
                if is_dirty b then [(b_id b, flush_generation s)]
                else match mlookup (b_id b) (p_manifest s) with
                     | Some g => [(b_id b, g)]
                     | None => []
                     end) (p_buckets s).

  Definition obsolete (s : pstate) : manifest :=
    filter (fun bg => negb (pair_mem bg (new_manifest s))) (p_manifest s).

  Variable content : pstate -> Z -> payload.       (* serialize_bucket *)

  Definition stage_steps (s : pstate) (st : flush_stage) : list step :=
    match st with
    | FWriteBuckets => map (fun b => Put (PBucket b (flush_generation s)) (OBucket (content s b))) (dirty_ids s)
    | FCommitMeta => [Put PMeta (OMeta (new_manifest s))]
    | FPublishSaved => []                          (* in-memory only *)
    end.

  (* the durable writes of one flush, in the order the source performs them, followed by the
     caller's best-effort deletion of FlushOutcome::obsolete *)
  Definition flush_steps_in (order : list flush_stage) (s : pstate) : list step :=
    if negb (has_dirty s) && negb (has_pending s) then []
    else flat_map (stage_steps s) order ++ map (fun bg => Del (PBucket (fst bg) (snd bg))) (obsolete s).

  Definition flush_steps := flush_steps_in flush_order.

  Definition p_flush (s : pstate) : pstate :=
    if negb (has_dirty s) && negb (has_pending s) then s
    else mkP (flush_version s) (Z.max (p_last_saved s) (flush_generation s)) (new_manifest s)
             (map (fun b => if is_dirty b then mkBucket (b_id b) (b_dirty b) (Z.max (b_saved b) (b_dirty b)) else b)
                  (p_buckets s)).

  (* ---------------------------------------------------------------- invariant: generations *)
  Definition PInv (s : pstate) : Prop :=
    (p_last_saved s <= p_version s)%Z /\
    forall b g, In (b, g) (p_manifest s) -> (g <= p_last_saved s)%Z.

  Lemma PInv_new : PInv p_new.
  Proof. split; simpl; [lia|intros b g []]. Qed.

  Lemma PInv_mutate t s : PInv s -> PInv (p_mutate t s).
  Proof. intros [H1 H2]. split; simpl; [lia|auto]. Qed.

  Lemma PInv_compact n s : PInv s -> PInv (p_compact n s).
  Proof. intros [H1 H2]. split; simpl; [lia|auto]. Qed.

  Lemma flush_generation_fresh s :
    PInv s -> (has_dirty s || has_pending s = true) -> (p_last_saved s < flush_generation s)%Z.
  Proof.
    intros [H1 H2] H. unfold flush_generation, flush_version.
    destruct (has_pending s) eqn:Ep; simpl.
    - rewrite andb_false_r. unfold has_pending in Ep. apply Z.ltb_lt in Ep. exact Ep.
    - rewrite orb_false_r in H. rewrite H. simpl. lia.
  Qed.

  Lemma mlookup_In b g m : mlookup b m = Some g -> In (b, g) m.
  Proof.
    induction m as [|[k v] r IH]; simpl; [discriminate|].
    destruct (Z.eqb k b) eqn:E; [|auto]. apply Z.eqb_eq in E. intros H. inversion H; subst. auto.
  Qed.

  Lemma new_manifest_gen s b g :
    In (b, g) (new_manifest s) -> g = flush_generation s \/ In (b, g) (p_manifest s).
  Proof.
    unfold new_manifest. rewrite in_flat_map. intros (bk & Hb & Hin).
    destruct (is_dirty bk).
    - destruct Hin as [E|[]]. inversion E; auto.
    - destruct (mlookup (b_id bk) (p_manifest s)) eqn:E; [|destruct Hin].
      destruct Hin as [E'|[]]. inversion E'; subst. right. apply mlookup_In; auto.
  Qed.

  Lemma PInv_flush s : PInv s -> PInv (p_flush s).
  Proof.
    intros I. unfold p_flush.
    destruct (negb (has_dirty s) && negb (has_pending s)) eqn:E; auto.
    assert (F : (p_last_saved s < flush_generation s)%Z).
    { apply flush_generation_fresh; auto. destruct (has_dirty s), (has_pending s); simpl in *; auto; try discriminate. }
    destruct I as [H1 H2]. split; simpl.
    - unfold flush_generation in *. lia.
    - intros b g Hin. apply new_manifest_gen in Hin as [->|Hin]; [lia|]. specialize (H2 b g Hin). lia.
  Qed.

  (* ---------------------------------------------------------------- one flush is a well-formed commit *)
  Definition agrees (st : store) (s : pstate) : Prop :=
    reach path_eq_dec PMeta refs st = refs (OMeta (p_manifest s)).

  Lemma in_refs_meta p m : In p (refs (OMeta m)) <-> exists b g, p = PBucket b g /\ In (b, g) m.
  Proof.
    simpl. rewrite in_map_iff. split.
    - intros ([b g] & <- & H). exists b, g. auto.
    - intros (b & g & -> & H). exists (b, g). auto.
  Qed.

  Theorem flush_is_wf_commit st s :
    PInv s -> agrees st s -> has_dirty s || has_pending s = true ->
    WellFormedCommit path_eq_dec PMeta refs st (flush_steps s) (OMeta (new_manifest s)).
  Proof.
    intros I A D. unfold flush_steps, flush_steps_in.
    replace (negb (has_dirty s) && negb (has_pending s)) with false
      by (destruct (has_dirty s), (has_pending s); simpl in *; auto; try discriminate).
    unfold flush_order. cbn [flat_map stage_steps app].
    exists (stage_steps s FWriteBuckets), (map (fun bg => Del (PBucket (fst bg) (snd bg))) (obsolete s)).
    split; [rewrite <- app_assoc; reflexivity|]. split.
    - (* payload phase: fresh objects *)
      apply Forall_forall. intros x Hx. simpl in Hx. apply in_map_iff in Hx as (b & <- & Hb).
      split; simpl; [discriminate|].
      rewrite A. rewrite in_refs_meta. intros (b' & g & E & Hin). inversion E; subst.
      pose proof (flush_generation_fresh s I D). destruct I as [_ H2]. specialize (H2 _ _ Hin). lia.
    - (* deletes: only objects the new manifest does not reference *)
      apply Forall_forall. intros x Hx. apply in_map_iff in Hx as ([b g] & <- & Hb).
      split; simpl; [discriminate|].
      unfold obsolete in Hb. apply filter_In in Hb as [_ Hb]. apply negb_true_iff in Hb.
      intros Hin. apply in_map_iff in Hin as ([b' g'] & E & Hin). simpl in E. inversion E; subst.
      apply pair_mem_In in Hin. congruence.
  Qed.

  (* every crash prefix of a flush (and of the deletion of the obsolete objects that follows
     it) shows a loader either the last committed snapshot or the new one, in full *)
  Theorem flush_crash_atomic st s :
    PInv s -> agrees st s ->
    forall k, read (crash k (flush_steps s) st) = read st \/
              read (crash k (flush_steps s) st) = read (apply st (flush_steps s)).
  Proof.
    intros I A k.
    destruct (has_dirty s || has_pending s) eqn:D.
    - eapply commit_point_atomic. apply flush_is_wf_commit; auto.
    - left. unfold flush_steps, flush_steps_in.
      replace (negb (has_dirty s) && negb (has_pending s)) with true
        by (destruct (has_dirty s), (has_pending s); simpl in *; auto; try discriminate).
      unfold ObjStore.crash. rewrite firstn_nil. reflexivity.
  Qed.

  (* after a completed flush the store agrees with the new in-memory state *)
  Lemma agrees_flush st s :
    PInv s -> agrees st s -> agrees (apply st (flush_steps s)) (p_flush s).
  Proof.
    intros I A. unfold agrees, p_flush, flush_steps, flush_steps_in.
    destruct (negb (has_dirty s) && negb (has_pending s)) eqn:E; [exact A|].
    simpl p_manifest.
    assert (D : has_dirty s || has_pending s = true) by (destruct (has_dirty s), (has_pending s); simpl in *; auto; try discriminate).
    destruct (flush_is_wf_commit st s I A D) as (pre & post & El & Fpre & Fpost).
    unfold flush_steps, flush_steps_in in El. rewrite E in El. rewrite El.
    unfold reach. rewrite apply_app, apply_cons. simpl apply_step.
    rewrite get_apply_untouched.
    - rewrite get_put_same. reflexivity.
    - intros x Hx. rewrite Forall_forall in Fpost. destruct (Fpost x Hx) as [H _]. exact H.
  Qed.

  (* ---------------------------------------------------------------- histories of the durable side *)
  Inductive pop := PMutate (touched : list Z) | PCompact (n : nat) | PFlush.

  Definition p_step (s : pstate) (o : pop) : pstate :=
    match o with PMutate t => p_mutate t s | PCompact n => p_compact n s | PFlush => p_flush s end.

  Definition p_steps (s : pstate) (o : pop) : list step :=
    match o with PFlush => flush_steps s | _ => [] end.

  Fixpoint p_run (s : pstate) (st : store) (h : list pop) : pstate * store :=
    match h with
    | [] => (s, st)
    | o :: r => p_run (p_step s o) (apply st (p_steps s o)) r
    end.

  Lemma p_run_inv h : forall s st,
      PInv s -> agrees st s -> PInv (fst (p_run s st h)) /\ agrees (snd (p_run s st h)) (fst (p_run s st h)).
  Proof.
    induction h as [|o r IH]; intros s st I A; simpl; auto.
    apply IH; destruct o; simpl.
    - apply PInv_mutate; auto. - apply PInv_compact; auto. - apply PInv_flush; auto.
    - exact A. - exact A. - apply agrees_flush; auto.
  Qed.

  (* after any history of mutations, compactions and completed flushes from a new index, a
     crash at any point of the next flush is invisible or complete *)
  Theorem flush_crash_atomic_any_history h :
    let '(s, st) := p_run p_new [] h in
    forall k, read (crash k (flush_steps s) st) = read st \/
              read (crash k (flush_steps s) st) = read (apply st (flush_steps s)).
  Proof.
    destruct (p_run p_new [] h) as [s st] eqn:E.
    pose proof (p_run_inv h p_new [] PInv_new eq_refl) as [I A]. rewrite E in I, A. simpl in I, A.
    intros k. apply flush_crash_atomic; auto.
  Qed.

  (* ---------------------------------------------------------------- monitor over a real write log *)
  Inductive wstep := WBucket (b g : Z) | WMeta (m : manifest).

  (* committed manifest, objects present in the store, the flush's writes in order, the
     obsolete list it returned *)
  Definition wf_flush_log (committed existing : manifest) (log : list wstep) (obs : manifest) : bool :=
    match rev log with
    | WMeta m' :: rpre =>
        forallb (fun w => match w with
                          | WBucket b g => negb (pair_mem (b, g) committed) && negb (pair_mem (b, g) existing)
                          | WMeta _ => false
                          end) rpre
        && forallb (fun bg => pair_mem bg committed
                              || existsb (fun w => match w with
                                                   | WBucket b g => Z.eqb b (fst bg) && Z.eqb g (snd bg)
                                                   | WMeta _ => false end) rpre) m'
        && forallb (fun bg => negb (pair_mem bg m')) obs
        && forallb (fun bg => pair_mem bg m' || pair_mem bg obs) committed
    | _ => false
    end.

  Definition log_steps (pl : payload) (log : list wstep) (obs : manifest) : list step :=
    map (fun w => match w with
                  | WBucket b g => Put (PBucket b g) (OBucket pl)
                  | WMeta m => Put PMeta (OMeta m)
                  end) log
    ++ map (fun bg => Del (PBucket (fst bg) (snd bg))) obs.

  (* a log the monitor accepts is a well-formed commit whatever the payloads are: the
     implementation's flush wrote only objects no committed manifest references, committed
     once, last, and handed back for deletion only objects the new manifest does not need *)
  Theorem wf_flush_log_sound committed existing log obs st pl :
    wf_flush_log committed existing log obs = true ->
    reach path_eq_dec PMeta refs st = refs (OMeta committed) ->
    exists m', WellFormedCommit path_eq_dec PMeta refs st (log_steps pl log obs) (OMeta m').
  Proof.
    unfold wf_flush_log. intros H A.
    destruct (rev log) as [|w rpre] eqn:Er; [discriminate|].
    destruct w as [|m']; [discriminate|].
    apply andb_true_iff in H as [H H4]. apply andb_true_iff in H as [H H3].
    apply andb_true_iff in H as [H1 H2].
    assert (El : log = rev rpre ++ [WMeta m']).
    { rewrite <- (rev_involutive log), Er. reflexivity. }
    exists m'. unfold log_steps. rewrite El, map_app. simpl.
    eexists _, _. split; [rewrite <- app_assoc; simpl; reflexivity|]. split.
    - apply Forall_forall. intros x Hx. apply in_map_iff in Hx as (w & <- & Hw).
      apply in_rev in Hw. rewrite forallb_forall in H1. specialize (H1 w Hw).
      destruct w as [b g|]; [|discriminate]. apply andb_true_iff in H1 as [H1 _].
      split; simpl; [discriminate|]. rewrite A, in_refs_meta.
      intros (b' & g' & E & Hin). inversion E; subst. apply pair_mem_In in Hin.
      apply negb_true_iff in H1. congruence.
    - apply Forall_forall. intros x Hx. apply in_map_iff in Hx as ([b g] & <- & Hb).
      split; simpl; [discriminate|]. rewrite forallb_forall in H3. specialize (H3 _ Hb).
      apply negb_true_iff in H3. intros Hin. apply in_map_iff in Hin as ([b' g'] & E & Hin).
      simpl in E. inversion E; subst. apply pair_mem_In in Hin. congruence.
  Qed.

  Corollary wf_flush_log_atomic committed existing log obs st pl :
    wf_flush_log committed existing log obs = true ->
    reach path_eq_dec PMeta refs st = refs (OMeta committed) ->
    forall k, read (crash k (log_steps pl log obs) st) = read st \/
              read (crash k (log_steps pl log obs) st) = read (apply st (log_steps pl log obs)).
  Proof.
    intros H A k. destruct (wf_flush_log_sound _ _ _ _ _ pl H A) as (m' & W).
    eapply commit_point_atomic; eauto.
  Qed.
End Persist.
