(* C11 — history-level statements: what a query returns, in terms of the documents the
   history says are indexed (their ids and the texts they were inserted with). *)
From Coq Require Import List String Bool Arith ZArith Lia.
From Verif Require Import Bm25.Model Bm25.ProofsQuery Bm25.ProofsHist.
Import ListNotations.
Open Scope list_scope.

Section S.
  Variable tokenize : string -> list string.
  Notation toks := (toks tokenize).
  Notation exec := (exec tokenize).
  Notation denote := (denote tokenize).
  Notation run := (run tokenize).
  Notation spec_run := (spec_run tokenize).
  Notation Inv := (Inv tokenize).
  Notation Exact := (Exact tokenize).

  (* the set a query denotes over the indexed documents and their texts *)
  Fixpoint sdenote (sp : spec) (q : query) (d : docid) : bool :=
    match q with
    | QTerm t =>
        match zlookup d sp with
        | Some text => existsb (fun tok => smem tok (toks text)) (toks t)
        | None => false
        end
    | QAnd qs => negb (is_nil qs) && forallb (fun q => sdenote sp q d) qs
    | QOr qs => existsb (fun q => sdenote sp q d) qs
    | QNot q => (match zlookup d sp with Some _ => true | None => false end) && negb (sdenote sp q d)
    end.

  Lemma live_spec s sp d : Inv s sp -> live s d = match zlookup d sp with Some _ => true | None => false end.
  Proof.
    intros I. pose proof (inv_live _ _ _ I d) as H.
    destruct (live s d), (zlookup d sp); auto.
    - exfalso. destruct H as [H _]. apply H; auto.
    - destruct H as [_ H]. apply H. discriminate.
  Qed.

  Lemma forallb_ext_in (A : Type) (f g : A -> bool) l :
    (forall x, In x l -> f x = g x) -> forallb f l = forallb g l.
  Proof. induction l; simpl; intros H; auto. rewrite H, IHl; auto. Qed.

  Lemma existsb_ext_in (A : Type) (f g : A -> bool) l :
    (forall x, In x l -> f x = g x) -> existsb f l = existsb g l.
  Proof. induction l; simpl; intros H; auto. rewrite H, IHl; auto. Qed.

  Lemma denote_exact s sp :
    Inv s sp -> Exact s sp -> forall q d, denote s q d = sdenote sp q d.
  Proof.
    intros I X q. induction q using query_ind2; intros d.
    - simpl. rewrite (live_spec s sp d I).
      destruct (zlookup d sp) as [text|] eqn:E; simpl; auto.
      apply existsb_ext_in. intros tok Ht.
      destruct (smem tok (toks text)) eqn:Em.
      + apply smem_In in Em. apply (inv_complete _ _ _ I d text tok E Em).
      + destruct (has_entry s tok d) eqn:Eh; auto.
        destruct (X tok d Eh) as (text' & E' & Hin). rewrite E in E'. inversion E'; subst.
        apply smem_In in Hin. congruence.
    - simpl. f_equal. apply forallb_ext_in. intros q Hq. rewrite Forall_forall in H. apply H; auto.
    - simpl. apply existsb_ext_in. intros q Hq. rewrite Forall_forall in H. apply H; auto.
    - simpl. rewrite (live_spec s sp d I), IHq. reflexivity.
  Qed.

  (* flush + load does not change what any query denotes *)
  Lemma denote_reload s sp : Inv s sp -> forall q d, denote (reload s) q d = denote s q d.
  Proof.
    intros I q. induction q using query_ind2; intros d.
    - simpl. unfold live. rewrite (reload_keeps_docs tokenize s sp I).
      fold (live s d). destruct (live s d) eqn:El; simpl; auto.
      apply existsb_ext_in. intros tok _. rewrite (reload_has_entry tokenize s sp tok d I), El.
      apply andb_true_r.
    - simpl. f_equal. apply forallb_ext_in. intros q Hq. rewrite Forall_forall in H. apply H; auto.
    - simpl. apply existsb_ext_in. intros q Hq. rewrite Forall_forall in H. apply H; auto.
    - simpl. unfold live. rewrite (reload_keeps_docs tokenize s sp I). fold (live s d). rewrite IHq. reflexivity.
  Qed.

  (* ---------------------------------------------------------------- theorems over histories *)
  Theorem query_denotes h q d : In d (exec (run h) q false) <-> denote (run h) q d = true.
  Proof. apply exec_denote. apply (inv_docs_nodup _ _ _ (Inv_run tokenize h)). Qed.

  Theorem query_no_duplicates h q b : NoDup (exec (run h) q b).
  Proof. apply exec_NoDup. apply (inv_docs_nodup _ _ _ (Inv_run tokenize h)). Qed.

  Theorem results_are_indexed h q d : In d (exec (run h) q false) -> zlookup d (spec_run h) <> None.
  Proof.
    intros H. pose proof (Inv_run tokenize h) as I.
    apply (inv_live _ _ _ I). eapply exec_only_indexed; eauto. apply (inv_docs_nodup _ _ _ I).
  Qed.

  Theorem term_complete h t d text tok :
    zlookup d (spec_run h) = Some text -> In tok (toks text) -> In tok (toks t) ->
    In d (exec (run h) (QTerm t) false).
  Proof.
    intros E Hd Ht. pose proof (Inv_run tokenize h) as I.
    apply query_denotes. simpl. apply andb_true_iff. split.
    - apply (inv_live _ _ _ I). congruence.
    - apply existsb_exists. exists tok. split; auto. apply (inv_complete _ _ _ I d text tok); auto.
  Qed.

  Theorem query_exact_clean h :
    clean tokenize h -> forall q d, In d (exec (run h) q false) <-> sdenote (spec_run h) q d = true.
  Proof.
    intros C q d. rewrite query_denotes.
    rewrite (denote_exact _ _ (Inv_run tokenize h) (Exact_run tokenize h C)). tauto.
  Qed.

  Theorem reload_same_answers h q d :
    In d (exec (reload (run h)) q false) <-> In d (exec (run h) q false).
  Proof.
    pose proof (Inv_run tokenize h) as I.
    rewrite query_denotes. rewrite exec_denote by apply (inv_docs_nodup _ _ _ (Inv_reload tokenize _ _ I)).
    rewrite (denote_reload _ _ I). tauto.
  Qed.

  Theorem counters h :
    total_tokens (run h) = Z.of_nat (nsum (map snd (doc_tokens (run h)))) /\
    (0 <= total_tokens (run h))%Z /\
    (forall d, live (run h) d = true <-> zlookup d (spec_run h) <> None).
  Proof.
    pose proof (Inv_run tokenize h) as I. split; [apply (inv_total _ _ _ I)|]. split.
    - rewrite (inv_total _ _ _ I). lia.
    - apply (inv_live _ _ _ I).
  Qed.
End S.
