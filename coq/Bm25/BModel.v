(* C11 — bucket-level executable model of BM25Index: on top of Model.v's documents / postings /
   counter it carries what decides the durable image: which bucket owns each token, each
   bucket's dirty flag, listed tokens and doc_ids, and the committed bucket objects; flush
   (serialize_bucket of every dirty bucket, clean buckets keep their committed object) and
   load_buckets (merge, pruning, doc_ids repair) are transcribed.  No proofs here.

   The size-driven placement of a *new* token (bucket_overload_size, CBOR sizes) is not
   modelled: [insert] and [compact] take the final owning bucket of every newly placed token as
   an argument (an oracle the harness reads off the implementation); everything else — which
   buckets get dirtied, which doc_ids change, what a flush writes, what a load keeps — is
   computed.  Generations and the write order live in Persist.v. *)
From Coq Require Import List String Ascii Bool Arith ZArith.
From Verif Require Import Bm25.Model.
Import ListNotations.
Open Scope list_scope.

Record bucket := mkBucket {
  bk_dirty : bool;                 (* dirty_version > saved_version *)
  bk_tokens : list token;          (* tokens: UniqueVec<String> *)
  bk_docs : list docid             (* doc_ids: FxHashSet<u64> *)
}.
Definition bucket_default : bucket := mkBucket false [] [].

Definition bobject := (list (token * list entry) * list (docid * nat))%type.   (* BucketOwned {p, d} *)

Record bstate := mkB {
  bs_docs : list (docid * nat);
  bs_post : list (token * (Z * list entry));       (* token -> (owning bucket, entries) *)
  bs_total : Z;
  bs_buckets : list (Z * bucket);
  bs_max : Z;                                      (* max_bucket_id *)
  bs_objs : list (Z * bobject)                     (* committed manifest: bucket -> object content *)
}.

Definition b_new : bstate := mkB [] [] 0%Z [(0%Z, bucket_default)] 0%Z [].

(* the index as Model.v sees it *)
Definition abs (b : bstate) : state :=
  mkState (bs_docs b) (map (fun p => (fst p, snd (snd p))) (bs_post b)) (bs_total b).

(* ---------------------------------------------------------------- helpers *)
Fixpoint zset {A} (k : Z) (v : A) (l : list (Z * A)) : list (Z * A) :=
  match l with
  | [] => [(k, v)]
  | (a, w) :: r => if Z.eqb a k then (a, v) :: r else (a, w) :: zset k v r
  end.

Definition bget (bid : Z) (bs : list (Z * bucket)) : option bucket := zlookup bid bs.
(* buckets.entry(bid).or_default() then f *)
Definition bupd_default (bid : Z) (f : bucket -> bucket) (bs : list (Z * bucket)) :=
  zset bid (f (match bget bid bs with Some b => b | None => bucket_default end)) bs.
(* buckets.get_mut(bid) then f *)
Definition bupd_existing (bid : Z) (f : bucket -> bucket) (bs : list (Z * bucket)) :=
  match bget bid bs with Some b => zset bid (f b) bs | None => bs end.

Definition sremove (t : string) (l : list string) : list string := filter (fun x => negb (String.eqb x t)) l.
Definition zremove (d : Z) (l : list Z) : list Z := filter (fun x => negb (Z.eqb x d)) l.
Definition sadd (t : string) (l : list string) : list string := if smem t l then l else l ++ [t].

Definition mark_dirty (b : bucket) : bucket := mkBucket true (bk_tokens b) (bk_docs b).

Section B.
  Variable tokenize : string -> list string.
  Notation freqs := (freqs tokenize).

  Definition blive (s : bstate) (d : docid) : bool :=
    match zlookup d (bs_docs s) with Some _ => true | None => false end.

  (* ---------------------------------------------------------------- insert *)
  Definition upd_t := (Z * token * bool)%type.       (* (bucket, token, posting newly created?) *)

  (* phase 1: postings; remember (bucket, token, was_vacant) *)
  Definition ins_phase1 (id : docid) (start : Z)
             (acc : list (token * (Z * list entry)) * list upd_t) (tf : token * nat) :=
    let '(ps, upd) := acc in
    let tok := fst tf in
    match slookup tok ps with
    | Some (b, es) => (sset tok (b, uv_push (id, snd tf) es) ps, upd ++ [(b, tok, false)])
    | None => (ps ++ [(tok, (start, [(id, snd tf)]))], upd ++ [(start, tok, true)])
    end.

  (* phase 2: every bucket in buckets_to_update is marked dirty — also when the push was a no-op
     (size 0); a token already listed, or a new one that fits, makes the bucket record the
     document; a new token that does not fit is migrated *)
  Definition ins_phase2 (id : docid) (final : token -> Z) (bs : list (Z * bucket)) (u : upd_t) :=
    let '(bid, tok, vacant) := u in
    bupd_default bid
      (fun b =>
         if smem tok (bk_tokens b) then mkBucket true (bk_tokens b) (zadd id (bk_docs b))
         else if negb vacant || Z.eqb (final tok) bid
              then mkBucket true (bk_tokens b ++ [tok]) (zadd id (bk_docs b))
              else mark_dirty b)
      bs.

  Definition is_migrated (final : token -> Z) (u : upd_t) : bool :=
    let '(bid, tok, vacant) := u in vacant && negb (Z.eqb (final tok) bid).

  (* phase 3: migrated tokens land in their final bucket, which is dirtied and records the doc *)
  Definition ins_phase3_post (final : token -> Z) (ps : list (token * (Z * list entry))) (u : upd_t) :=
    let '(_, tok, _) := u in
    match slookup tok ps with
    | Some (_, es) => sset tok (final tok, es) ps
    | None => ps
    end.

  Definition ins_phase3_bucket (id : docid) (final : token -> Z) (bs : list (Z * bucket)) (u : upd_t) :=
    let '(_, tok, _) := u in
    bupd_default (final tok) (fun b => mkBucket true (sadd tok (bk_tokens b)) (zadd id (bk_docs b))) bs.

  (* [place]: final owning bucket of every token this insert creates a posting for *)
  Definition b_insert (s : bstate) (id : docid) (text : string) (place : list (token * Z))
    : bstate * ins_result :=
    let fs := freqs text in
    if is_nil fs then (s, InsTokenizeFailed)
    else
      let tokens := nsum (map snd fs) in
      if blive s id then (s, InsAlreadyExists)
      else
        let start := bs_max s in
        let p1 := fold_left (ins_phase1 id start) fs (bs_post s, ([] : list upd_t)) in
        let final (tok : token) : Z := match slookup tok place with Some b => b | None => start end in
        let buckets2 := fold_left (ins_phase2 id final) (snd p1) (bs_buckets s) in
        let migrated := filter (is_migrated final) (snd p1) in
        let post3 := fold_left (ins_phase3_post final) migrated (fst p1) in
        let buckets3 := fold_left (ins_phase3_bucket id final) migrated buckets2 in
        let max' := fold_left (fun m (u : upd_t) => Z.max m (final (snd (fst u)))) migrated start in
        (mkB ((id, tokens) :: bs_docs s) post3 (bs_total s + Z.of_nat tokens)%Z buckets3 max' (bs_objs s), InsOk).

  (* ---------------------------------------------------------------- remove *)
  Definition b_remove (s : bstate) (id : docid) (text : string) : bstate * bool :=
    let removed := zlookup id (bs_docs s) in
    let dt := zdelete id (bs_docs s) in
    let tot := match removed with Some n => (bs_total s - Z.of_nat n)%Z | None => bs_total s end in
    (* postings; remember (bucket, token, posting dropped?) *)
    let '(post1, upd) :=
      fold_left
        (fun acc tf =>
           let '(ps, upd) := acc in
           let tok := fst tf in
           match slookup tok ps with
           | None => acc
           | Some (b, es) =>
               let es' := filter (fun e => negb (Z.eqb (fst e) id)) es in
               if Nat.eqb (List.length es') (List.length es) then acc
               else if is_nil es' then (sdelete tok ps, upd ++ [(b, tok, true)])
               else (sset tok (b, es') ps, upd ++ [(b, tok, false)])
           end)
        (freqs text) (bs_post s, ([] : list (Z * token * bool))) in
    let buckets1 :=
      fold_left
        (fun bs (u : Z * token * bool) =>
           let '(bid, tok, dropped) := u in
           bupd_existing bid
             (fun b => mkBucket true (if dropped then sremove tok (bk_tokens b) else bk_tokens b)
                                (zremove id (bk_docs b))) bs)
        upd (bs_buckets s) in
    (* buckets that still list the document are marked dirty and forget it *)
    let buckets2 :=
      map (fun kb => if zmem id (bk_docs (snd kb))
                     then (fst kb, mkBucket true (bk_tokens (snd kb)) (zremove id (bk_docs (snd kb))))
                     else kb) buckets1 in
    (mkB dt post1 tot buckets2 (bs_max s) (bs_objs s), match removed with Some _ => true | None => false end).

  (* ---------------------------------------------------------------- purge_ids *)
  Definition b_purge (s : bstate) (ids : list docid) : bstate * nat :=
    if is_nil ids then (s, 0)
    else
      let gone := filter (fun kv => zmem (fst kv) ids) (bs_docs s) in
      let dt := filter (fun kv => negb (zmem (fst kv) ids)) (bs_docs s) in
      let '(post1, upd) :=
        fold_left
          (fun acc p =>
             let '(ps, upd) := acc in
             let '(tok, (b, es)) := p in
             let es' := filter (fun e => negb (zmem (fst e) ids)) es in
             if Nat.eqb (List.length es') (List.length es) then (ps ++ [p], upd)
             else if is_nil es' then (ps, upd ++ [(b, tok, true)])
             else (ps ++ [(tok, (b, es'))], upd ++ [(b, tok, false)]))
          (bs_post s) (([] : list (token * (Z * list entry))), ([] : list (Z * token * bool))) in
      let buckets1 :=
        fold_left
          (fun bs (u : Z * token * bool) =>
             let '(bid, tok, dropped) := u in
             bupd_existing bid
               (fun b => mkBucket true (if dropped then sremove tok (bk_tokens b) else bk_tokens b) (bk_docs b)) bs)
          upd (bs_buckets s) in
      let buckets2 :=
        map (fun kb => if existsb (fun d => zmem d ids) (bk_docs (snd kb))
                       then (fst kb, mkBucket true (bk_tokens (snd kb))
                                              (filter (fun d => negb (zmem d ids)) (bk_docs (snd kb))))
                       else kb) buckets1 in
      (mkB dt post1 (bs_total s - Z.of_nat (nsum (map snd gone)))%Z buckets2 (bs_max s) (bs_objs s),
       List.length gone).

  (* ---------------------------------------------------------------- compact_buckets *)
  Fixpoint zdedup (l : list Z) : list Z :=
    match l with [] => [] | x :: r => if zmem x r then zdedup r else x :: zdedup r end.

  Definition b_compact (s : bstate) (place : list (token * Z)) : bstate :=
    if Nat.leb (List.length (bs_buckets s)) 1 then s
    else if is_nil (bs_post s) then
      mkB (bs_docs s) (bs_post s) (bs_total s) [(0%Z, mkBucket true [] [])] 0%Z (bs_objs s)
    else
      let final (tok : token) : Z := match slookup tok place with Some b => b | None => 0%Z end in
      let post' := map (fun p => (fst p, (final (fst p), snd (snd p)))) (bs_post s) in
      let bids := zdedup (map (fun p => final (fst p)) (bs_post s)) in
      let buckets' :=
        map (fun bid =>
               let owned := filter (fun p => Z.eqb (fst (snd p)) bid) post' in
               (bid, mkBucket true (map fst owned)
                              (zdedup (flat_map (fun p => map fst (snd (snd p))) owned)))) bids in
      mkB (bs_docs s) post' (bs_total s) buckets' (fold_left Z.max bids 0%Z) (bs_objs s).

  (* ---------------------------------------------------------------- flush *)
  (* serialize_bucket *)
  Definition serialize (s : bstate) (bid : Z) (b : bucket) : bobject :=
    let owned :=
      flat_map (fun tok => match slookup tok (bs_post s) with
                           | Some (o, es) => if Z.eqb o bid then [(tok, es)] else []
                           | None => [] end) (bk_tokens b) in
    let referenced := zdedup (flat_map (fun p => map fst (snd p)) owned) in
    (owned, flat_map (fun d => match zlookup d (bs_docs s) with Some n => [(d, n)] | None => [] end) referenced).

  Definition b_flush (s : bstate) : bstate :=
    let objs' :=
      flat_map (fun kb =>
                  if bk_dirty (snd kb) then [(fst kb, serialize s (fst kb) (snd kb))]
                  else match zlookup (fst kb) (bs_objs s) with
                       | Some o => [(fst kb, o)]
                       | None => []
                       end) (bs_buckets s) in
    mkB (bs_docs s) (bs_post s) (bs_total s)
        (map (fun kb => (fst kb, mkBucket false (bk_tokens (snd kb)) (bk_docs (snd kb)))) (bs_buckets s))
        (bs_max s) objs'.

  (* the bucket ids a flush rewrites *)
  Definition dirty_buckets (s : bstate) : list Z :=
    map fst (filter (fun kb => bk_dirty (snd kb)) (bs_buckets s)).

  (* ---------------------------------------------------------------- load_all of the committed image *)
  Fixpoint zk_insert {A} (x : Z * A) (l : list (Z * A)) : list (Z * A) :=
    match l with [] => [x] | y :: r => if Z.leb (fst x) (fst y) then x :: y :: r else y :: zk_insert x r end.
  Definition sort_by_key {A} (l : list (Z * A)) : list (Z * A) := fold_right zk_insert [] l.

  Fixpoint sput {A} (k : string) (v : A) (l : list (string * A)) : list (string * A) :=
    match l with
    | [] => [(k, v)]
    | (a, w) :: r => if String.eqb a k then (a, v) :: r else (a, w) :: sput k v r
    end.

  Definition same_set (a b : list Z) : bool :=
    forallb (fun x => zmem x b) a && forallb (fun x => zmem x a) b.

  Definition b_load (s : bstate) : bstate :=
    let objs := sort_by_key (bs_objs s) in                       (* manifest is a BTreeMap *)
    (* doc_token_lengths: later buckets overwrite *)
    let lengths := fold_left (fun m o => fold_left (fun m kv => zset (fst kv) (snd kv) m) (snd (snd o)) m) objs [] in
    (* postings: later buckets win; the previous owner unlists the token and is marked dirty *)
    let '(post0, buckets0) :=
      fold_left
        (fun acc o =>
           let '(ps, bs) := acc in
           let bid := fst o in
           let '(ps', bs') :=
             fold_left
               (fun acc2 te =>
                  let '(ps, bs) := acc2 in
                  let tok := fst te in
                  let bs1 := match slookup tok ps with
                             | Some (prev, _) =>
                                 if Z.eqb prev bid then bs
                                 else bupd_existing prev
                                        (fun b => if smem tok (bk_tokens b)
                                                  then mkBucket true (sremove tok (bk_tokens b)) (bk_docs b)
                                                  else b) bs
                             | None => bs end in
                  (sput tok (bid, snd te) ps, bs1))
               (fst (snd o)) (ps, bs) in
           (ps', zset bid (mkBucket false (map fst (fst (snd o))) (map fst (snd (snd o)))) bs'))
        objs (([] : list (token * (Z * list entry))), [(0%Z, bucket_default)]) in
    (* prune entries without a token length *)
    let has_len (d : docid) := match zlookup d lengths with Some _ => true | None => false end in
    let '(post1, upd) :=
      fold_left
        (fun acc p =>
           let '(ps, upd) := acc in
           let '(tok, (b, es)) := p in
           let es' := filter (fun e => has_len (fst e)) es in
           if Nat.eqb (List.length es') (List.length es) then (ps ++ [p], upd)
           else if is_nil es' then (ps, upd ++ [(b, tok, true)])
           else (ps ++ [(tok, (b, es'))], upd ++ [(b, tok, false)]))
        post0 (([] : list (token * (Z * list entry))), ([] : list (Z * token * bool))) in
    let buckets1 :=
      fold_left
        (fun bs (u : Z * token * bool) =>
           let '(bid, tok, dropped) := u in
           bupd_existing bid
             (fun b => mkBucket true (if dropped then sremove tok (bk_tokens b) else bk_tokens b) (bk_docs b)) bs)
        upd buckets0 in
    (* doc_tokens := documents referenced by a surviving entry *)
    let referenced := zdedup (flat_map (fun p => map fst (snd (snd p))) post1) in
    let docs := flat_map (fun d => match zlookup d lengths with Some n => [(d, n)] | None => [] end) referenced in
    (* doc_ids repair *)
    let buckets2 :=
      map (fun kb =>
             let ids := zdedup (flat_map (fun p => if Z.eqb (fst (snd p)) (fst kb) then map fst (snd (snd p)) else []) post1) in
             if same_set (bk_docs (snd kb)) ids then kb
             else (fst kb, mkBucket true (bk_tokens (snd kb)) ids)) buckets1 in
    mkB docs post1 (Z.of_nat (nsum (map snd docs))) buckets2 (bs_max s) (bs_objs s).

End B.
