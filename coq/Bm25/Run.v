(* C11 — case runner for the correspondence check: the model instantiated with the
   whitespace tokenizer the harness plugs into the real BM25Index (harness/h_bm25/src/tok.rs). *)
From Coq Require Import List String Ascii Bool Arith ZArith.
From Verif Require Import Bm25.Model Bm25.BModel.
Import ListNotations.
Open Scope list_scope.

(* words separated by ASCII spaces; empty words are skipped *)
Fixpoint ws_go (s : string) (cur : string) : list string :=
  match s with
  | EmptyString => match cur with EmptyString => [] | _ => [cur] end
  | String c r =>
      if Ascii.eqb c " "%char
      then match cur with EmptyString => ws_go r EmptyString | _ => cur :: ws_go r EmptyString end
      else ws_go r (cur ++ String c EmptyString)%string
  end.
Definition ws_tokens (s : string) : list string := ws_go s EmptyString.

Definition m_insert := insert ws_tokens.
Definition m_remove := remove ws_tokens.
Definition m_exec := exec ws_tokens.

(* observations of one step of a history on the implementation *)
Definition ohit := (Z * Z * bool)%type.                       (* id, total_cmp key of the f32, is_nan *)
Definition obucket := (Z * bool * list string * list Z)%type.  (* id, is_dirty, listed tokens, doc_ids *)
Inductive rop :=
| RInsert (id : Z) (text : string) (res : Z)                   (* 0 ok, 1 AlreadyExists, 2 TokenizeFailed *)
          (place : list (string * Z))                          (* final bucket of every newly created posting *)
| RRemove (id : Z) (text : string) (res : bool)
| RPurge (ids : list Z) (res : Z)
| RCompact (place : list (string * Z))                         (* owning bucket of every token afterwards *)
| RFlush (written : list Z)                                    (* bucket ids the flush rewrote *)
| RReload (written : list Z)                                   (* flush, then load_all of what it left *)
| RDump (strict : bool) (buckets : list obucket) (owners : list (string * Z))
                                                               (* verif_dump after a mutation / flush / load *)
| RStats (len : Z) (total : Z) (docs : list (Z * Z))           (* docs sorted by id: (id, token count) *)
| RSearch (text : string) (hits : list ohit) (tops : list (Z * list Z))
| RQuery (q : query) (hits : list ohit) (tops : list (Z * list Z)).

Fixpoint z_insert (x : Z) (l : list Z) : list Z :=
  match l with [] => [x] | y :: r => if Z.leb x y then x :: y :: r else y :: z_insert x r end.
Definition z_sort (l : list Z) : list Z := fold_right z_insert [] l.

Fixpoint list_eqb {A} (eqb : A -> A -> bool) (a b : list A) : bool :=
  match a, b with
  | [], [] => true
  | x :: r, y :: r' => eqb x y && list_eqb eqb r r'
  | _, _ => false
  end.

Definition mk_hit (o : ohit) : hit := let '(i, k, n) := o in mkHit i k n.
Definition hit_eqb (a b : hit) : bool :=
  Z.eqb (h_id a) (h_id b) && Z.eqb (h_key a) (h_key b) && Bool.eqb (h_nan a) (h_nan b).

Fixpoint hid_insert (x : hit) (l : list hit) : list hit :=
  match l with [] => [x] | y :: r => if Z.leb (h_id x) (h_id y) then x :: y :: r else y :: hid_insert x r end.
Definition sort_by_id (l : list hit) : list hit := fold_right hid_insert [] l.

(* an instance of select_nth_unstable_by that meets its contract *)
Definition sel (_ : nat) (l : list hit) : list hit := hit_sort l.

Definition check_hits (ids : list Z) (hits : list ohit) (tops : list (Z * list Z)) : bool :=
  let hs := map mk_hit hits in
  let by_id := sort_by_id hs in
  list_eqb Z.eqb (z_sort (map h_id hs)) (z_sort ids)
  && list_eqb hit_eqb (hit_sort by_id) hs
  && forallb (fun kt => list_eqb Z.eqb (map h_id (top_k sel (Z.to_nat (fst kt)) by_id)) (snd kt)) tops.

Definition ins_code (r : ins_result) : Z :=
  match r with InsOk => 0 | InsAlreadyExists => 1 | InsTokenizeFailed => 2 end%Z.

Definition pair_eqb (a b : Z * Z) : bool := Z.eqb (fst a) (fst b) && Z.eqb (snd a) (snd b).
Fixpoint zz_insert (x : Z * Z) (l : list (Z * Z)) : list (Z * Z) :=
  match l with [] => [x] | y :: r => if Z.leb (fst x) (fst y) then x :: y :: r else y :: zz_insert x r end.

Fixpoint list_eqb2 {A B} (eqb : A -> B -> bool) (a : list A) (b : list B) : bool :=
  match a, b with
  | [], [] => true
  | x :: r, y :: r' => eqb x y && list_eqb2 eqb r r'
  | _, _ => false
  end.

(* ---- bucket-level model (BModel) and whole-index model (Model) run in lockstep *)
Definition sset_eqb (a b : list string) : bool :=
  Nat.eqb (List.length a) (List.length b) && forallb (fun x => smem x b) a && forallb (fun x => smem x a) b.
Definition zset_eqb (a b : list Z) : bool :=
  Nat.eqb (List.length a) (List.length b) && forallb (fun x => zmem x b) a && forallb (fun x => zmem x a) b.

Definition bucket_agrees (m : Z * bucket) (o : obucket) : bool :=
  let '(bid, dirty, toks, docs) := o in
  Z.eqb (fst m) bid && Bool.eqb (bk_dirty (snd m)) dirty
  && sset_eqb (bk_tokens (snd m)) toks && zset_eqb (bk_docs (snd m)) docs.

Definition owners_agree (s : bstate) (owners : list (string * Z)) : bool :=
  Nat.eqb (List.length (bs_post s)) (List.length owners)
  && forallb (fun tb => match slookup (fst tb) (bs_post s) with
                        | Some (b, _) => Z.eqb b (snd tb)
                        | None => false end) owners.

Definition docs_sorted (l : list (Z * nat)) : list (Z * Z) :=
  fold_right zz_insert [] (map (fun kv => (fst kv, Z.of_nat (snd kv))) l).

(* the two models describe the same index: same documents, same counter, same (token, doc) entries *)
Definition models_agree (b : bstate) (a : state) : bool :=
  list_eqb pair_eqb (docs_sorted (bs_docs b)) (docs_sorted (doc_tokens a))
  && Z.eqb (bs_total b) (total_tokens a)
  && forallb (fun p => match slookup (fst p) (postings a) with
                       | Some es => zset_eqb (z_sort (map fst (snd (snd p)))) (z_sort (map fst es))
                                    || list_eqb Z.eqb (z_sort (map fst (snd (snd p)))) (z_sort (map fst es))
                       | None => false end) (bs_post b)
  && Nat.eqb (List.length (bs_post b)) (List.length (postings a)).

Definition mstate := (bstate * state)%type.

(* one step: new model states and whether the observation agrees with the models *)
Definition rstep (ms : mstate) (o : rop) : mstate * bool :=
  let '(b, a) := ms in
  match o with
  | RInsert id text res place =>
      let '(b', r) := b_insert ws_tokens b id text place in
      let '(a', r2) := m_insert a id text in
      ((b', a'), Z.eqb (ins_code r) res && Z.eqb (ins_code r2) res)
  | RRemove id text res =>
      let '(b', r) := b_remove ws_tokens b id text in
      let '(a', r2) := m_remove a id text in
      ((b', a'), Bool.eqb r res && Bool.eqb r2 res)
  | RPurge ids res =>
      let '(b', n) := b_purge b ids in
      let '(a', n2) := purge_ids a ids in
      ((b', a'), Z.eqb (Z.of_nat n) res && Z.eqb (Z.of_nat n2) res)
  | RCompact place => ((b_compact b place, a), true)
  | RFlush written => ((b_flush b, a), list_eqb Z.eqb (z_sort (dirty_buckets b)) (z_sort written))
  | RReload written =>
      ((b_load (b_flush b), reload a), list_eqb Z.eqb (z_sort (dirty_buckets b)) (z_sort written))
  | RDump strict buckets owners =>
      (ms, list_eqb2 bucket_agrees (sort_by_key (bs_buckets b)) buckets && owners_agree b owners
           && (negb strict || models_agree b a))
  | RStats len total docs =>
      (ms, Z.eqb (Z.of_nat (List.length (bs_docs b))) len
           && Z.eqb (bs_total b) total
           && list_eqb pair_eqb (docs_sorted (bs_docs b)) docs)
  | RSearch text hits tops => (ms, check_hits (m_exec (abs b) (QTerm text) false) hits tops)
  | RQuery q hits tops => (ms, check_hits (m_exec (abs b) q false) hits tops)
  end.

Fixpoint check_from (s : mstate) (l : list rop) : bool :=
  match l with
  | [] => true
  | o :: r => let '(s', ok) := rstep s o in ok && check_from s' r
  end.
Definition check_case (l : list rop) : bool := check_from (b_new, empty_state) l.

(* index of the first step on which model and implementation disagree (diagnostics) *)
Fixpoint first_bad_from (s : mstate) (l : list rop) (i : nat) : option nat :=
  match l with
  | [] => None
  | o :: r => let '(s', ok) := rstep s o in if ok then first_bad_from s' r (S i) else Some i
  end.
Definition first_bad (l : list rop) : option nat := first_bad_from (b_new, empty_state) l 0.
