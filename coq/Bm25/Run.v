(* C11 — case runner for the correspondence check: the model instantiated with the
   whitespace tokenizer the harness plugs into the real BM25Index (harness/h_bm25/src/tok.rs). *)
From Coq Require Import List String Ascii Bool Arith ZArith.
From Verif Require Import Bm25.Model.
Import ListNotations.
Open Scope list_scope.

(* words separated by ASCII spaces; empty words are skipped *)
Fixpoint ws_go (s : string) (cur : string) : list string :=
  match s with
  | EmptyString => match cur with EmptyString => [] | _ => [cur] end
  | String c r =>
      if Ascii.eqb c " "%char
      then match cur with EmptyString => ws_go r EmptyString | _ => cur :: ws_go r EmptyString end
      else ws_go r (cur ++ String c EmptyString)%string
  end.
Definition ws_tokens (s : string) : list string := ws_go s EmptyString.

Definition m_insert := insert ws_tokens.
Definition m_remove := remove ws_tokens.
Definition m_exec := exec ws_tokens.

(* observations of one step of a history on the implementation *)
Definition ohit := (Z * Z * bool)%type.                       (* id, total_cmp key of the f32, is_nan *)
Inductive rop :=
| RInsert (id : Z) (text : string) (res : Z)                   (* 0 ok, 1 AlreadyExists, 2 TokenizeFailed *)
| RRemove (id : Z) (text : string) (res : bool)
| RPurge (ids : list Z) (res : Z)
| RCompact
| RReload
| RStats (len : Z) (total : Z) (docs : list (Z * Z))           (* docs sorted by id: (id, token count) *)
| RSearch (text : string) (hits : list ohit) (tops : list (Z * list Z))
| RQuery (q : query) (hits : list ohit) (tops : list (Z * list Z)).

Fixpoint z_insert (x : Z) (l : list Z) : list Z :=
  match l with [] => [x] | y :: r => if Z.leb x y then x :: y :: r else y :: z_insert x r end.
Definition z_sort (l : list Z) : list Z := fold_right z_insert [] l.

Fixpoint list_eqb {A} (eqb : A -> A -> bool) (a b : list A) : bool :=
  match a, b with
  | [], [] => true
  | x :: r, y :: r' => eqb x y && list_eqb eqb r r'
  | _, _ => false
  end.

Definition mk_hit (o : ohit) : hit := let '(i, k, n) := o in mkHit i k n.
Definition hit_eqb (a b : hit) : bool :=
  Z.eqb (h_id a) (h_id b) && Z.eqb (h_key a) (h_key b) && Bool.eqb (h_nan a) (h_nan b).

Fixpoint hid_insert (x : hit) (l : list hit) : list hit :=
  match l with [] => [x] | y :: r => if Z.leb (h_id x) (h_id y) then x :: y :: r else y :: hid_insert x r end.
Definition sort_by_id (l : list hit) : list hit := fold_right hid_insert [] l.

(* an instance of select_nth_unstable_by that meets its contract *)
Definition sel (_ : nat) (l : list hit) : list hit := hit_sort l.

Definition check_hits (ids : list Z) (hits : list ohit) (tops : list (Z * list Z)) : bool :=
  let hs := map mk_hit hits in
  let by_id := sort_by_id hs in
  list_eqb Z.eqb (z_sort (map h_id hs)) (z_sort ids)
  && list_eqb hit_eqb (hit_sort by_id) hs
  && forallb (fun kt => list_eqb Z.eqb (map h_id (top_k sel (Z.to_nat (fst kt)) by_id)) (snd kt)) tops.

Definition ins_code (r : ins_result) : Z :=
  match r with InsOk => 0 | InsAlreadyExists => 1 | InsTokenizeFailed => 2 end%Z.

Definition pair_eqb (a b : Z * Z) : bool := Z.eqb (fst a) (fst b) && Z.eqb (snd a) (snd b).
Fixpoint zz_insert (x : Z * Z) (l : list (Z * Z)) : list (Z * Z) :=
  match l with [] => [x] | y :: r => if Z.leb (fst x) (fst y) then x :: y :: r else y :: zz_insert x r end.

(* one step: new model state and whether the observation agrees with the model *)
Definition rstep (s : state) (o : rop) : state * bool :=
  match o with
  | RInsert id text res => let '(s', r) := m_insert s id text in (s', Z.eqb (ins_code r) res)
  | RRemove id text res => let '(s', r) := m_remove s id text in (s', Bool.eqb r res)
  | RPurge ids res => let '(s', n) := purge_ids s ids in (s', Z.eqb (Z.of_nat n) res)
  | RCompact => (s, true)
  | RReload => (reload s, true)
  | RStats len total docs =>
      (s, Z.eqb (Z.of_nat (List.length (doc_tokens s))) len
          && Z.eqb (total_tokens s) total
          && list_eqb pair_eqb
               (fold_right zz_insert [] (map (fun kv => (fst kv, Z.of_nat (snd kv))) (doc_tokens s))) docs)
  | RSearch text hits tops => (s, check_hits (m_exec s (QTerm text) false) hits tops)
  | RQuery q hits tops => (s, check_hits (m_exec s q false) hits tops)
  end.

Fixpoint check_from (s : state) (l : list rop) : bool :=
  match l with
  | [] => true
  | o :: r => let '(s', ok) := rstep s o in ok && check_from s' r
  end.
Definition check_case (l : list rop) : bool := check_from empty_state l.

(* index of the first step on which model and implementation disagree (diagnostics) *)
Fixpoint first_bad_from (s : state) (l : list rop) (i : nat) : option nat :=
  match l with
  | [] => None
  | o :: r => let '(s', ok) := rstep s o in if ok then first_bad_from s' r (S i) else Some i
  end.
Definition first_bad (l : list rop) : option nat := first_bad_from empty_state l 0.
